(* Compile / symbolic-execute inversion: running the bytes Director's scheme produces for an expression
   pushes exactly the reified tree (C02, core lemma; unbounded in depth and width). *)
From Coq Require Import ZArith List Bool String Lia ZifyBool.
From Coq.Strings Require Import Byte.
From DRX Require Import Py.PyBytes Py.PyStr Py.PyString Model.LingoAst Model.LingoGen Model.LingoOps Spec.SpecLingo
  Gen.Gen_Lingo Proofs.PyBytesFacts.
Import ListNotations.
Open Scope string_scope.
Open Scope list_scope.
Open Scope Z_scope.
Local Notation length := List.length (only parsing).
Ltac Zify.zify_post_hook ::= Z.to_euclidean_division_equations.

(* the bytes c sit in d at address a *)
Definition code_at (d : bytes) (a : Z) (c : bytes) : Prop :=
  0 <= a /\ forall k, (k < length c)%nat -> nth_error d (Z.to_nat a + k) = nth_error c k.

Lemma code_at_app d a c1 c2 :
  code_at d a (c1 ++ c2) <-> code_at d a c1 /\ code_at d (a + zlen c1) c2.
Proof.
  unfold code_at, zlen. split.
  - intros [H0 H]. repeat split; try lia.
    + intros k Hk. rewrite H by (rewrite app_length; lia). apply nth_error_app1; lia.
    + intros k Hk. replace (Z.to_nat (a + Z.of_nat (length c1)) + k)%nat with (Z.to_nat a + (length c1 + k))%nat by lia.
      rewrite H by (rewrite app_length; lia). rewrite nth_error_app2 by lia. f_equal; lia.
  - intros [[H0 H1] [_ H2]]. split; [lia|]. intros k Hk. rewrite app_length in Hk.
    destruct (Nat.ltb_spec k (length c1)).
    + rewrite H1 by lia. symmetry; apply nth_error_app1; lia.
    + rewrite nth_error_app2 by lia.
      rewrite <- H2 by lia. f_equal. lia.
Qed.

Lemma code_at_cons d a x c : code_at d a (x :: c) -> code_at d a [x] /\ code_at d (a + 1) c.
Proof. intros H. change (x :: c) with ([x] ++ c) in H. apply code_at_app in H. exact H. Qed.

Lemma byte_at_code d a x c : code_at d a (x :: c) -> byte_at d a = Ok (u8 x).
Proof.
  intros [H0 H]. specialize (H 0%nat ltac:(simpl; lia)). simpl in H. rewrite Nat.add_0_r in H.
  unfold byte_at, PyBytes.index.
  assert (Hl : (Z.to_nat a < length d)%nat) by (apply nth_error_Some; rewrite H; discriminate).
  unfold zlen.
  destruct (a <? 0) eqn:E1; [lia|].
  destruct ((a <? 0) || (Z.of_nat (length d) <=? a)) eqn:E2.
  - apply orb_true_iff in E2. destruct E2; lia.
  - rewrite H. reflexivity.
Qed.

Lemma u8_b z : 0 <= z < 256 -> u8 (b z) = z.
Proof. intros H. unfold b. rewrite u8_byte_of_Z. apply Z.mod_small; lia. Qed.

Lemma reg_get_set r op v : reg_get (reg_set r op v) op = v.
Proof. unfold reg_set. simpl. rewrite Z.eqb_refl. reflexivity. Qed.

(* ---- one instruction ---- *)
Lemma step_1 d a r m x proc attr oc m' :
  code_at d a [x] -> assocZ (u8 x) OPCODES = Some (1, "Opcode", proc, attr) -> opclass_of proc attr = Some oc ->
  (forall p1 p2, process oc p1 p2 a m = Ok m') ->
  step d a r m = Ok (a + 1, r, m').
Proof.
  intros Hc Ha Ho Hp. unfold step. rewrite (byte_at_code _ _ _ _ Hc). cbn [bind].
  rewrite Ha. cbn [Z.eqb Pos.eqb]. rewrite Ho. cbn [of_option bind].
  destruct (reg_get r (u8 x)) as [p1 p2]. rewrite Hp. reflexivity.
Qed.

Lemma step_2 d a r m x y proc attr oc m' :
  code_at d a [x; y] -> assocZ (u8 x) OPCODES = Some (2, "Param1Opcode", proc, attr) -> opclass_of proc attr = Some oc ->
  (forall p2, process oc (u8 y) p2 a m = Ok m') ->
  exists r', step d a r m = Ok (a + 2, r', m').
Proof.
  intros Hc Ha Ho Hp. unfold step.
  destruct (code_at_cons _ _ _ _ Hc) as [Hx Hy].
  rewrite (byte_at_code _ _ _ _ Hx). cbn [bind].
  rewrite Ha. cbn [Z.eqb Pos.eqb]. rewrite (byte_at_code _ _ _ _ Hy). cbn [bind].
  change (String.eqb "Param1Opcode" "BiOpcode") with false. cbn iota.
  rewrite Ho. cbn [of_option bind]. rewrite reg_get_set. rewrite Hp. eexists; reflexivity.
Qed.

Lemma step_3 d a r m x y z proc attr oc m' :
  code_at d a [x; y; z] -> assocZ (u8 x) OPCODES = Some (3, "Param2Opcode", proc, attr) -> opclass_of proc attr = Some oc ->
  process oc (u8 y) (u8 z) a m = Ok m' ->
  exists r', step d a r m = Ok (a + 3, r', m').
Proof.
  intros Hc Ha Ho Hp. unfold step.
  destruct (code_at_cons _ _ _ _ Hc) as [Hx Hyz]. destruct (code_at_cons _ _ _ _ Hyz) as [Hy Hz].
  replace (a + 1 + 1) with (a + 2) in Hz by lia.
  rewrite (byte_at_code _ _ _ _ Hx). cbn [bind].
  rewrite Ha. cbn [Z.eqb Pos.eqb]. rewrite (byte_at_code _ _ _ _ Hy), (byte_at_code _ _ _ _ Hz). cbn [bind].
  rewrite Ho. cbn [of_option bind]. rewrite reg_get_set. rewrite Hp. eexists; reflexivity.
Qed.

(* the loop advances by one instruction while inside the handler's code *)
Lemma run_ops_step fuel d off len a r m a' r' m' :
  a - off < len -> step d a r m = Ok (a', r', m') ->
  run_ops (S fuel) d off len a r m = run_ops fuel d off len a' r' m'.
Proof.
  intros Hin Hs. cbn [run_ops]. destruct (a - off <? len) eqn:E; [|lia]. cbn [negb]. rewrite Hs. reflexivity.
Qed.

(* ---- table facts (by computation against the regenerated tables) ---- *)
Lemma tbl_binop o : assocZ (u8 (b (bcode o))) OPCODES = Some (1, "Opcode", "BinaryOperationOpcode", bname o).
Proof. destruct o; vm_compute; reflexivity. Qed.
Lemma cls_binop o : opclass_of "BinaryOperationOpcode" (bname o) = Some (OBinary (bname o)).
Proof. destruct o; reflexivity. Qed.

(* ---- an induction principle for the nested syntax ---- *)
Section ExprInd.
  Variable P : expr -> Prop.
  Variable Q : list expr -> Prop.
  Hypothesis Hint : forall n, P (EInt n).
  Hypothesis Hconst : forall k, P (EConst k).
  Hypothesis Hsym : forall n, P (ESym n).
  Hypothesis Hloc : forall i, P (ELoc i).
  Hypothesis Hpar : forall i, P (EPar i).
  Hypothesis Hglob : forall n, P (EGlob n).
  Hypothesis Hprop : forall n, P (EProp n).
  Hypothesis Hbin : forall o x y, P x -> P y -> P (EBin o x y).
  Hypothesis Hneg : forall x, P x -> P (ENeg x).
  Hypothesis Hnot : forall x, P x -> P (ENot x).
  Hypothesis Hcall : forall f l, Q l -> P (ECall f l).
  Hypothesis Hlcall : forall f l, Q l -> P (ELCall f l).
  Hypothesis Hlist : forall l, Q l -> P (EList l).
  Hypothesis Hplist : forall l, Q l -> P (EPList l).
  Hypothesis Hobj : forall f pid x, P x -> P (EObj f pid x).
  Hypothesis Hmenu : forall pid it mn, P it -> P mn -> P (EMenu pid it mn).
  Hypothesis Hthe : forall k i, P (EThe k i).
  Hypothesis Hthen : forall n, P (ETheN n).
  Hypothesis Hacc : forall n x, P x -> P (EAcc n x).
  Hypothesis Hkey : forall n, P (EKey n).
  Hypothesis Hfield : forall x, P x -> P (EField x).
  Hypothesis Hnil : Q [].
  Hypothesis Hcons : forall x l, P x -> Q l -> Q (x :: l).
  Fixpoint expr_ind2 (e : expr) : P e :=
    let go := fix go (l : list expr) : Q l := match l with [] => Hnil | x :: r => Hcons x r (expr_ind2 x) (go r) end in
    match e with
    | EInt n => Hint n | EConst k => Hconst k | ESym n => Hsym n | ELoc i => Hloc i | EPar i => Hpar i
    | EGlob n => Hglob n | EProp n => Hprop n
    | EBin o x y => Hbin o x y (expr_ind2 x) (expr_ind2 y)
    | ENeg x => Hneg x (expr_ind2 x) | ENot x => Hnot x (expr_ind2 x)
    | ECall f l => Hcall f l (go l) | ELCall f l => Hlcall f l (go l)
    | EList l => Hlist l (go l) | EPList l => Hplist l (go l)
    | EObj f pid x => Hobj f pid x (expr_ind2 x)
    | EMenu pid it mn => Hmenu pid it mn (expr_ind2 it) (expr_ind2 mn)
    | EThe k i => Hthe k i
    | ETheN n => Hthen n
    | EAcc n x => Hacc n x (expr_ind2 x)
    | EKey n => Hkey n
    | EField x => Hfield x (expr_ind2 x)
    end.
End ExprInd.

(* the nested fixpoints of the specification are the top-level ones *)
Lemma reify_args_eq en : forall l pc,
  (fix go (pc : Z) (l : list expr) : list node * Z :=
     match l with
     | [] => ([], pc)
     | x :: r => let n := reify_e en pc x in let '(ns, pc') := go (pc + zlen (compile_e x)) r in (n :: ns, pc')
     end) pc l = reify_args en pc l.
Proof. induction l as [|x r IH]; intros pc; cbn [reify_args]; [reflexivity|]. rewrite IH. reflexivity. Qed.
Lemma globals_args_eq en : forall l pc,
  (fix go (pc : Z) (l : list expr) : list node :=
     match l with [] => [] | x :: r => globals_e en pc x ++ go (pc + zlen (compile_e x)) r end) pc l = globals_args en pc l.
Proof. induction l as [|x r IH]; intros pc; cbn [globals_args]; [reflexivity|]. rewrite IH. reflexivity. Qed.
Lemma wf_args_eq en : forall l,
  (fix all (l : list expr) : Prop := match l with [] => True | x :: r => wf_e en x /\ all r end) l = wf_args en l.
Proof. induction l as [|x r IH]; cbn [wf_args]; [reflexivity|]. rewrite IH. reflexivity. Qed.

Lemma reify_args_pc en l : forall pc, snd (reify_args en pc l) = pc + zlen (flat_map compile_e l).
Proof.
  induction l as [|x r IH]; intros pc; cbn [reify_args flat_map].
  - rewrite zlen_nil. simpl. lia.
  - specialize (IH (pc + zlen (compile_e x))). destruct (reify_args en (pc + zlen (compile_e x)) r) as [ns pc'].
    simpl in *. rewrite zlen_app. lia.
Qed.
Lemma reify_args_len en l : forall pc, length (fst (reify_args en pc l)) = length l.
Proof.
  induction l as [|x r IH]; intros pc; cbn [reify_args]; [reflexivity|].
  specialize (IH (pc + zlen (compile_e x))). destruct (reify_args en (pc + zlen (compile_e x)) r) as [ns pc']. simpl in *. lia.
Qed.

(* ---- the state after an expression has been evaluated ---- *)
Definition with_globals (m : mstate) (g : list node) : mstate := Build_mstate (m_stack m) (set_globals (m_fn m) g) (m_ctx m).
Definition after_e (en : env) (pc : Z) (e : expr) (m : mstate) : mstate :=
  push (with_globals m (add_globals (f_globals (m_fn m)) (globals_e en pc e))) (reify_e en pc e).
Definition after_args (en : env) (pc : Z) (l : list expr) (m : mstate) : mstate :=
  let m1 := with_globals m (add_globals (f_globals (m_fn m)) (globals_args en pc l)) in
  with_stack m1 (rev (fst (reify_args en pc l)) ++ m_stack m).

Lemma agrees_after_e en pc e m : agrees en m -> agrees en (after_e en pc e m).
Proof. unfold agrees, after_e, push, with_globals, with_stack; destruct m as [st fn c]; simpl. tauto. Qed.
Lemma agrees_after_args en pc l m : agrees en m -> agrees en (after_args en pc l m).
Proof. unfold agrees, after_args, with_globals, with_stack; destruct m as [st fn c]; simpl. tauto. Qed.

Lemma with_globals_same m : with_globals m (f_globals (m_fn m)) = m.
Proof. destruct m as [st [a bb c dd e f g] cx]; reflexivity. Qed.

Lemma scale_six m i : c_bpc (m_ctx m) = 6 -> 0 <= i -> scale m (i * 6) = (m, i).
Proof.
  intros H Hi. unfold scale. rewrite H. rewrite Z.mod_mul by lia. cbn [Z.gtb Z.compare].
  rewrite Z.quot_mul by lia. destruct m as [st fn [a bb c dd e f]]. simpl in *. subst bb. reflexivity.
Qed.

Lemma index_nth {A} (l : list A) (i : nat) (dflt : A) : (i < length l)%nat -> PyBytes.index l (Z.of_nat i) = Some (nth i l dflt).
Proof.
  intros H. unfold PyBytes.index, zlen.
  destruct (Z.of_nat i <? 0) eqn:E; [lia|].
  destruct ((Z.of_nat i <? 0) || (Z.of_nat (length l) <=? Z.of_nat i)) eqn:E2.
  - apply orb_true_iff in E2; destruct E2; lia.
  - rewrite Nat2Z.id. apply nth_error_nth'. exact H.
Qed.

(* ---- leaves ---- *)
Definition exec_spec (en : env) (e : expr) : Prop :=
  forall d off len a fuel r m,
    agrees en m -> code_at d a (compile_e e) -> off <= a -> a + zlen (compile_e e) <= off + len ->
    exists r', run_ops (ninstr e + fuel) d off len a r m = run_ops fuel d off len (a + zlen (compile_e e)) r' (after_e en a e m).
Definition exec_args_spec (en : env) (l : list expr) : Prop :=
  forall d off len a fuel r m,
    agrees en m -> code_at d a (flat_map compile_e l) -> off <= a -> a + zlen (flat_map compile_e l) <= off + len ->
    exists r', run_ops (fold_right (fun x a => ninstr x + a)%nat 0%nat l + fuel) d off len a r m
               = run_ops fuel d off len (a + zlen (flat_map compile_e l)) r' (after_args en a l m).

Ltac one_step H := cbn [ninstr Nat.add]; erewrite run_ops_step; [| lia | exact H].

Lemma after_e_leaf en pc e m : globals_e en pc e = [] -> after_e en pc e m = push m (reify_e en pc e).
Proof. intros H. unfold after_e. rewrite H. cbn [add_globals fold_left]. rewrite with_globals_same. reflexivity. Qed.

Lemma str_of_int_0 : str_of_int 0 = "0". Proof. reflexivity. Qed.

Lemma sext8_id n : -128 <= n <= 127 -> (if n mod 256 >? 127 then n mod 256 - 256 else n mod 256) = n.
Proof. intros H. destruct (n mod 256 >? 127) eqn:E; lia. Qed.
Lemma sext16_id n : -32768 <= n <= 32767 ->
  (let v := (n / 256) mod 256 * 256 + n mod 256 in if v >? 32767 then v - 65536 else v) = n.
Proof. intros H. cbv zeta. destruct ((n / 256) mod 256 * 256 + n mod 256 >? 32767) eqn:E; lia. Qed.

Lemma exec_int en n : wf_e en (EInt n) -> exec_spec en (EInt n).
Proof.
  intros Hwf d off len a fuel r m Hag Hc Hoff Hlen. cbn [wf_e] in Hwf.
  rewrite after_e_leaf by reflexivity. cbn [compile_e reify_e] in *. unfold compile_int in *.
  destruct (n =? 0) eqn:E0.
  - assert (n = 0) by lia. subst n. rewrite zlen_cons, zlen_nil in *.
    assert (Hs : step d a r m = Ok (a + 1, r, push m (Leaf KConst "0" a true))).
    { eapply step_1; [exact Hc | vm_compute; reflexivity | reflexivity | intros; reflexivity]. }
    exists r. one_step Hs. rewrite str_of_int_0. f_equal.
  - destruct ((-128 <=? n) && (n <=? 127)) eqn:E1.
    + rewrite !zlen_cons, zlen_nil in *.
      assert (Hs : exists r', step d a r m = Ok (a + 2, r', push m (Leaf KConst (str_of_int n) a true))).
      { eapply step_2; [exact Hc | vm_compute; reflexivity | reflexivity |].
        intros p2. cbn [process]. unfold b. rewrite u8_byte_of_Z. rewrite sext8_id by lia. reflexivity. }
      destruct Hs as [r' Hs]. exists r'. one_step Hs. f_equal; lia.
    + rewrite !zlen_cons, zlen_nil in *.
      assert (Hs : exists r', step d a r m = Ok (a + 3, r', push m (Leaf KConst (str_of_int n) a true))).
      { eapply step_3; [exact Hc | vm_compute; reflexivity | reflexivity |].
        cbn [process]. unfold b. rewrite !u8_byte_of_Z. rewrite sext16_id by lia. reflexivity. }
      destruct Hs as [r' Hs]. exists r'. one_step Hs. f_equal; lia.
Qed.

Lemma nth_name_ok (l : list string) (n : nat) : (n < length l)%nat -> nth_name l (Z.of_nat n) = Ok (nth n l "").
Proof. intros H. unfold nth_name. rewrite (index_nth l n "") by exact H. reflexivity. Qed.

Lemma scaled_nonneg i : 0 <= scaled i. Proof. unfold scaled; lia. Qed.

Lemma exec_const en k : wf_e en (EConst k) -> exec_spec en (EConst k).
Proof.
  intros [Hk Hs6] d off len a fuel r m Hag Hc Hoff Hlen.
  rewrite after_e_leaf by reflexivity. cbn [compile_e reify_e] in *. unfold compile_const in *.
  destruct Hag as (Hn & Hlf & Hcs & Hb & Hp & Hl & _).
  assert (Hsc : scale m (scaled k) = (m, Z.of_nat k)) by (unfold scaled; apply scale_six; [exact Hb | lia]).
  destruct (scaled k <? 256) eqn:E.
  - rewrite !zlen_cons, zlen_nil in *.
    assert (Hs : exists r', step d a r m = Ok (a + 2, r', push m (const_node (nth k (e_consts en) (CInt 0)) a))).
    { eapply step_2; [exact Hc | vm_compute; reflexivity | reflexivity |].
      intros p2. cbn [process]. rewrite u8_b by (pose proof (scaled_nonneg k); lia). rewrite Hsc.
      rewrite Hcs. rewrite (index_nth _ k (CInt 0)) by exact Hk. reflexivity. }
    destruct Hs as [r' Hs]. exists r'. one_step Hs. f_equal; lia.
  - rewrite !zlen_cons, zlen_nil in *.
    assert (Hs : exists r', step d a r m = Ok (a + 3, r', push m (const_node (nth k (e_consts en) (CInt 0)) a))).
    { eapply step_3; [exact Hc | vm_compute; reflexivity | reflexivity |].
      cbn [process]. unfold b. rewrite !u8_byte_of_Z.
      replace ((scaled k / 256) mod 256 * 256 + scaled k mod 256) with (scaled k) by (pose proof (scaled_nonneg k); lia).
      rewrite Hsc. rewrite Hcs. rewrite (index_nth _ k (CInt 0)) by exact Hk. reflexivity. }
    destruct Hs as [r' Hs]. exists r'. one_step Hs. f_equal; lia.
Qed.

Lemma exec_sym en n : wf_e en (ESym n) -> exec_spec en (ESym n).
Proof.
  intros [Hn H256] d off len a fuel r m Hag Hc Hoff Hlen.
  rewrite after_e_leaf by reflexivity. cbn [compile_e reify_e] in *. rewrite !zlen_cons, zlen_nil in *.
  destruct Hag as (Hnm & _).
  assert (Hs : exists r', step d a r m = Ok (a + 2, r', push m (Leaf KSymbol (nm en n) a true))).
  { eapply step_2; [exact Hc | vm_compute; reflexivity | reflexivity |].
    intros p2. cbn [process]. rewrite u8_b by lia. rewrite Hnm, nth_name_ok by exact Hn. reflexivity. }
  destruct Hs as [r' Hs]. exists r'. one_step Hs. f_equal; lia.
Qed.

Lemma exec_prop en n : wf_e en (EProp n) -> exec_spec en (EProp n).
Proof.
  intros [Hn H256] d off len a fuel r m Hag Hc Hoff Hlen.
  rewrite after_e_leaf by reflexivity. cbn [compile_e reify_e] in *. rewrite !zlen_cons, zlen_nil in *.
  destruct Hag as (Hnm & _).
  assert (Hs : exists r', step d a r m = Ok (a + 2, r', push m (Leaf KDefPropName (nm en n) a true))).
  { eapply step_2; [exact Hc | vm_compute; reflexivity | reflexivity |].
    intros p2. cbn [process]. rewrite u8_b by lia. rewrite Hnm, nth_name_ok by exact Hn. reflexivity. }
  destruct Hs as [r' Hs]. exists r'. one_step Hs. f_equal; lia.
Qed.

Lemma exec_loc en i : wf_e en (ELoc i) -> exec_spec en (ELoc i).
Proof.
  intros [Hi H256] d off len a fuel r m Hag Hc Hoff Hlen.
  rewrite after_e_leaf by reflexivity. cbn [compile_e reify_e] in *. rewrite !zlen_cons, zlen_nil in *.
  destruct Hag as (_ & _ & _ & Hb & _ & Hl & _).
  assert (Hsc : scale m (scaled i) = (m, Z.of_nat i)) by (unfold scaled; apply scale_six; [exact Hb | lia]).
  assert (Hs : exists r', step d a r m = Ok (a + 2, r', push m (nth i (e_locals en) (Leaf KLocal "" 0 true)))).
  { eapply step_2; [exact Hc | vm_compute; reflexivity | reflexivity |].
    intros p2. cbn [process]. rewrite u8_b by (pose proof (scaled_nonneg i); lia). rewrite Hsc.
    rewrite Hl. rewrite (index_nth _ i (Leaf KLocal "" 0 true)) by exact Hi. reflexivity. }
  destruct Hs as [r' Hs]. exists r'. one_step Hs. f_equal; lia.
Qed.

Lemma exec_par en i : wf_e en (EPar i) -> exec_spec en (EPar i).
Proof.
  intros [Hi H256] d off len a fuel r m Hag Hc Hoff Hlen.
  rewrite after_e_leaf by reflexivity. cbn [compile_e reify_e] in *. rewrite !zlen_cons, zlen_nil in *.
  destruct Hag as (_ & _ & _ & Hb & Hp & _).
  assert (Hsc : scale m (scaled i) = (m, Z.of_nat i)) by (unfold scaled; apply scale_six; [exact Hb | lia]).
  assert (Hs : exists r', step d a r m = Ok (a + 2, r', push m (Leaf KParam (name_of (nth i (e_params en) (Leaf KParam "" 0 true))) a true))).
  { eapply step_2; [exact Hc | vm_compute; reflexivity | reflexivity |].
    intros p2. cbn [process]. rewrite u8_b by (pose proof (scaled_nonneg i); lia). rewrite Hsc.
    rewrite Hp. rewrite (index_nth _ i (Leaf KParam "" 0 true)) by exact Hi. reflexivity. }
  destruct Hs as [r' Hs]. exists r'. one_step Hs. f_equal; lia.
Qed.

Lemma exec_glob en n : wf_e en (EGlob n) -> exec_spec en (EGlob n).
Proof.
  intros [Hn H256] d off len a fuel r m Hag Hc Hoff Hlen.
  cbn [compile_e] in *. rewrite !zlen_cons, zlen_nil in *.
  destruct Hag as (Hnm & _).
  assert (Hs : exists r', step d a r m = Ok (a + 2, r', after_e en a (EGlob n) m)).
  { eapply step_2; [exact Hc | vm_compute; reflexivity | reflexivity |].
    intros p2. cbn [process]. rewrite u8_b by lia. rewrite Hnm, nth_name_ok by exact Hn. cbn [bind].
    unfold after_e, add_globals, add_global, global_of. cbn [globals_e reify_e fold_left]. fold (nm en n).
    destruct m as [st fn cx]. cbn [m_fn m_stack m_ctx push with_stack with_globals].
    destruct (mem_node (Leaf KGlobal (nm en n) a true) (f_globals fn)); [| reflexivity].
    destruct fn; reflexivity. }
  destruct Hs as [r' Hs]. exists r'. one_step Hs. f_equal; lia.
Qed.

(* ---- composition ---- *)
Lemma add_globals_app g xs ys : add_globals g (xs ++ ys) = add_globals (add_globals g xs) ys.
Proof. unfold add_globals. apply fold_left_app. Qed.

Lemma after_e_globals en pc e m : f_globals (m_fn (after_e en pc e m)) = add_globals (f_globals (m_fn m)) (globals_e en pc e).
Proof. destruct m as [st fn cx]; destruct fn; reflexivity. Qed.
Lemma after_e_stack en pc e m : m_stack (after_e en pc e m) = reify_e en pc e :: m_stack m.
Proof. destruct m as [st fn cx]; reflexivity. Qed.

Lemma mstate_eq (m1 m2 : mstate) :
  m_stack m1 = m_stack m2 -> m_ctx m1 = m_ctx m2 -> f_globals (m_fn m1) = f_globals (m_fn m2) ->
  f_name (m_fn m1) = f_name (m_fn m2) -> f_pos (m_fn m1) = f_pos (m_fn m2) -> f_params (m_fn m1) = f_params (m_fn m2) ->
  f_locals (m_fn m1) = f_locals (m_fn m2) -> f_stmts (m_fn m1) = f_stmts (m_fn m2) -> f_is_method (m_fn m1) = f_is_method (m_fn m2) ->
  m1 = m2.
Proof. destruct m1 as [s1 [a1 b1 c1 d1 e1 f1 g1] x1], m2 as [s2 [a2 b2 c2 d2 e2 f2 g2] x2]; simpl; intros; subst; reflexivity. Qed.

Lemma exec_bin en o x y : exec_spec en x -> exec_spec en y -> wf_e en (EBin o x y) -> exec_spec en (EBin o x y).
Proof.
  intros IHx IHy [Hx Hy] d off len a fuel r m Hag Hc Hoff Hlen.
  cbn [compile_e ninstr] in *. rewrite !zlen_app, zlen_cons, zlen_nil in *.
  apply code_at_app in Hc. destruct Hc as [Hcx Hc]. apply code_at_app in Hc. destruct Hc as [Hcy Hco].
  pose proof (zlen_nonneg (compile_e x)). pose proof (zlen_nonneg (compile_e y)).
  replace (ninstr x + ninstr y + 1 + fuel)%nat with (ninstr x + (ninstr y + (1 + fuel)))%nat by lia.
  destruct (IHx d off len a (ninstr y + (1 + fuel))%nat r m Hag Hcx ltac:(lia) ltac:(lia)) as [r1 E1]. rewrite E1.
  set (m1 := after_e en a x m).
  destruct (IHy d off len (a + zlen (compile_e x)) (1 + fuel)%nat r1 m1 (agrees_after_e _ _ _ _ Hag) Hcy ltac:(lia) ltac:(lia)) as [r2 E2].
  rewrite E2. set (m2 := after_e en (a + zlen (compile_e x)) y m1).
  set (a2 := a + zlen (compile_e x) + zlen (compile_e y)) in *.
  assert (Hs : step d a2 r2 m2 = Ok (a2 + 1, r2, after_e en a (EBin o x y) m)).
  { eapply step_1; [exact Hco | apply tbl_binop | apply cls_binop |].
    intros p1 p2. cbn [process]. unfold pop. subst m2. rewrite after_e_stack. cbn [bind]. unfold with_stack at 1.
    cbn [m_stack]. subst m1. rewrite after_e_stack. cbn [bind]. f_equal.
    apply mstate_eq; [ | | unfold push, with_stack; cbn [m_fn]; rewrite !after_e_globals; cbn [globals_e];
                          rewrite add_globals_app; reflexivity | .. ];
      destruct m as [st [? ? ? ? ? ? ?] cx]; reflexivity. }
  exists r2. cbn [Nat.add]. erewrite run_ops_step; [| subst a2; lia | exact Hs]. f_equal. subst a2. lia.
Qed.

Lemma exec_unary en (neg : bool) x :
  exec_spec en x -> wf_e en x -> exec_spec en (if neg then ENeg x else ENot x).
Proof.
  intros IHx Hx d off len a fuel r m Hag Hc Hoff Hlen.
  destruct neg.
  - cbn [compile_e ninstr] in *. rewrite !zlen_app, zlen_cons, zlen_nil in *.
    apply code_at_app in Hc. destruct Hc as [Hcx Hco]. pose proof (zlen_nonneg (compile_e x)).
    replace (ninstr x + 1 + fuel)%nat with (ninstr x + (1 + fuel))%nat by lia.
    destruct (IHx d off len a (1 + fuel)%nat r m Hag Hcx ltac:(lia) ltac:(lia)) as [r1 E1]. rewrite E1.
    set (m1 := after_e en a x m). set (a1 := a + zlen (compile_e x)) in *.
    assert (Hs : step d a1 r1 m1 = Ok (a1 + 1, r1, after_e en a (ENeg x) m)).
    { eapply step_1 with (proc := "UnaryOperationOpcode") (attr := "minus") (oc := OUnary "minus");
        [exact Hco | vm_compute; reflexivity | reflexivity |].
      intros p1 p2. cbn [process]. unfold pop. subst m1. rewrite after_e_stack. cbn [bind].
      destruct m as [st [? ? ? ? ? ? ?] cx]; reflexivity. }
    exists r1. cbn [Nat.add]. erewrite run_ops_step; [| subst a1; lia | exact Hs]. f_equal. subst a1. lia.
  - cbn [compile_e ninstr] in *. rewrite !zlen_app, zlen_cons, zlen_nil in *.
    apply code_at_app in Hc. destruct Hc as [Hcx Hco]. pose proof (zlen_nonneg (compile_e x)).
    replace (ninstr x + 1 + fuel)%nat with (ninstr x + (1 + fuel))%nat by lia.
    destruct (IHx d off len a (1 + fuel)%nat r m Hag Hcx ltac:(lia) ltac:(lia)) as [r1 E1]. rewrite E1.
    set (m1 := after_e en a x m). set (a1 := a + zlen (compile_e x)) in *.
    assert (Hs : step d a1 r1 m1 = Ok (a1 + 1, r1, after_e en a (ENot x) m)).
    { eapply step_1 with (proc := "UnaryOperationOpcode") (attr := "not") (oc := OUnary "not");
        [exact Hco | vm_compute; reflexivity | reflexivity |].
      intros p1 p2. cbn [process]. unfold pop. subst m1. rewrite after_e_stack. cbn [bind].
      destruct m as [st [? ? ? ? ? ? ?] cx]; reflexivity. }
    exists r1. cbn [Nat.add]. erewrite run_ops_step; [| subst a1; lia | exact Hs]. f_equal. subst a1. lia.
Qed.

Lemma exec_args_nil en : exec_args_spec en [].
Proof.
  intros d off len a fuel r m Hag Hc Hoff Hlen. exists r. cbn [fold_right flat_map Nat.add]. rewrite zlen_nil, Z.add_0_r.
  f_equal. unfold after_args. cbn [globals_args reify_args fst rev app add_globals fold_left].
  rewrite with_globals_same. destruct m; reflexivity.
Qed.

Lemma exec_args_cons en x l : exec_spec en x -> exec_args_spec en l -> exec_args_spec en (x :: l).
Proof.
  intros IHx IHl d off len a fuel r m Hag Hc Hoff Hlen.
  cbn [flat_map fold_right] in *. rewrite zlen_app in *. apply code_at_app in Hc. destruct Hc as [Hcx Hcl].
  pose proof (zlen_nonneg (compile_e x)). pose proof (zlen_nonneg (flat_map compile_e l)).
  replace (ninstr x + fold_right (fun x a => ninstr x + a) 0 l + fuel)%nat
    with (ninstr x + (fold_right (fun x a => ninstr x + a) 0 l + fuel))%nat by lia.
  destruct (IHx d off len a (fold_right (fun x a => ninstr x + a) 0 l + fuel)%nat r m Hag Hcx ltac:(lia) ltac:(lia)) as [r1 E1]. rewrite E1.
  destruct (IHl d off len (a + zlen (compile_e x)) fuel r1 (after_e en a x m) (agrees_after_e _ _ _ _ Hag) Hcl ltac:(lia) ltac:(lia)) as [r2 E2].
  rewrite E2. exists r2. f_equal; [lia|].
  unfold after_args. cbn [reify_args globals_args].
  destruct (reify_args en (a + zlen (compile_e x)) l) as [ns pc'] eqn:Er. cbn [fst rev].
  apply mstate_eq;
    [ unfold with_stack, with_globals; cbn [m_stack]; rewrite after_e_stack; rewrite <- app_assoc; reflexivity
    | destruct m as [st [? ? ? ? ? ? ?] cx]; reflexivity
    | unfold with_stack, with_globals; cbn [m_fn]; rewrite after_e_globals; rewrite add_globals_app;
      destruct m as [st [? ? ? ? ? ? ?] cx]; reflexivity
    | .. ]; destruct m as [st [? ? ? ? ? ? ?] cx]; reflexivity.
Qed.

(* ---- argument lists, calls, list literals ---- *)
Lemma popn_app l : forall m st, m_stack m = l ++ st -> popn (length l) m = Ok (l, with_stack m st).
Proof.
  induction l as [|x l IH]; intros m st H; cbn [popn length].
  - simpl in H. f_equal. f_equal. destruct m; simpl in *; subst; reflexivity.
  - unfold pop. rewrite H. cbn [app bind]. rewrite (IH (with_stack m (l ++ st)) st) by reflexivity. cbn [bind].
    f_equal.
Qed.

Lemma exec_arglist d off len a0 fuel r m ns st n :
  code_at d a0 (compile_arglist n true) -> n = length ns -> Z.of_nat n < 65536 -> m_stack m = rev ns ++ st ->
  off <= a0 -> a0 + arglist_len n <= off + len ->
  exists r', run_ops (S fuel) d off len a0 r m
             = run_ops fuel d off len (a0 + arglist_len n) r' (with_stack m (LoadList "<load_list>" a0 (rev ns) :: st)).
Proof.
  intros Hc Hn H64 Hst Hoff Hlen. unfold compile_arglist, arglist_len in *.
  assert (Hrl : length (rev ns) = n) by (rewrite rev_length; auto).
  destruct (Z.of_nat n <? 256) eqn:E.
  - assert (Hs : exists r', step d a0 r m = Ok (a0 + 2, r', with_stack m (LoadList "<load_list>" a0 (rev ns) :: st))).
    { eapply step_2; [exact Hc | vm_compute; reflexivity | reflexivity |].
      intros p2. cbn [process]. rewrite u8_b by lia. rewrite Nat2Z.id. rewrite <- Hrl.
      rewrite (popn_app (rev ns) m st Hst). cbn [bind]. reflexivity. }
    destruct Hs as [r' Hs]. exists r'. erewrite run_ops_step; [reflexivity | lia | exact Hs].
  - assert (Hs : exists r', step d a0 r m = Ok (a0 + 3, r', with_stack m (LoadList "<load_list>" a0 (rev ns) :: st))).
    { eapply step_3; [exact Hc | vm_compute; reflexivity | reflexivity |].
      cbn [process]. unfold b. rewrite !u8_byte_of_Z.
      replace ((Z.of_nat n / 256) mod 256 * 256 + Z.of_nat n mod 256) with (Z.of_nat n) by lia.
      rewrite Nat2Z.id. rewrite <- Hrl. rewrite (popn_app (rev ns) m st Hst). cbn [bind]. reflexivity. }
    destruct Hs as [r' Hs]. exists r'. erewrite run_ops_step; [reflexivity | lia | exact Hs].
Qed.

Lemma arglist_len_zlen n : Z.of_nat n < 65536 -> zlen (compile_arglist n true) = arglist_len n.
Proof. intros _. unfold compile_arglist, arglist_len. destruct (Z.of_nat n <? 256); reflexivity. Qed.

Lemma after_args_stack en pc l m : m_stack (after_args en pc l m) = rev (fst (reify_args en pc l)) ++ m_stack m.
Proof. destruct m as [st fn cx]; reflexivity. Qed.
Lemma after_args_globals en pc l m : f_globals (m_fn (after_args en pc l m)) = add_globals (f_globals (m_fn m)) (globals_args en pc l).
Proof. destruct m as [st fn cx]; destruct fn; reflexivity. Qed.

(* the four constructs whose code is  <items> <arglist> <final opcode>  *)
Inductive lkind := KCallExt (f : nat) | KCallLoc (f : nat) | KListLit | KPListLit.
Definition lexpr (k : lkind) (l : list expr) : expr :=
  match k with KCallExt f => ECall f l | KCallLoc f => ELCall f l | KListLit => EList l | KPListLit => EPList l end.
Definition ltail (k : lkind) : bytes :=
  match k with KCallExt f => [b 87; b (Z.of_nat f)] | KCallLoc f => [b 86; b (Z.of_nat f)] | KListLit => [b 30] | KPListLit => [b 31] end.

Definition ltail_len (k : lkind) : Z := match k with KCallExt _ | KCallLoc _ => 2 | _ => 1 end.
Lemma ltail_zlen k : zlen (ltail k) = ltail_len k. Proof. destruct k; reflexivity. Qed.
Lemma compile_lexpr k l : compile_e (lexpr k l) = flat_map compile_e l ++ compile_arglist (length l) true ++ ltail k.
Proof. destruct k; reflexivity. Qed.
Lemma ninstr_lexpr k l : ninstr (lexpr k l) = (fold_right (fun x a => ninstr x + a) 0 l + 2)%nat.
Proof. destruct k; reflexivity. Qed.
Lemma globals_lexpr en pc k l : globals_e en pc (lexpr k l) = globals_args en pc l.
Proof. destruct k; cbn [lexpr globals_e]; apply globals_args_eq. Qed.

Lemma exec_lexpr en k l : exec_args_spec en l -> wf_e en (lexpr k l) -> exec_spec en (lexpr k l).
Proof.
  intros IHl Hwf d off len a fuel r m Hag Hc Hoff Hlen.
  assert (H64 : Z.of_nat (length l) < 65536) by (destruct k; cbn [lexpr wf_e] in Hwf; tauto).
  rewrite compile_lexpr in *. rewrite ninstr_lexpr. rewrite !zlen_app in *.
  apply code_at_app in Hc. destruct Hc as [Hcl Hc]. apply code_at_app in Hc. destruct Hc as [Hca Hct].
  rewrite arglist_len_zlen in * by exact H64.
  rewrite ltail_zlen in *.
  pose proof (zlen_nonneg (flat_map compile_e l)). assert (0 < ltail_len k) by (destruct k; simpl; lia).
  assert (0 < arglist_len (length l)) by (unfold arglist_len; destruct (_ <? _); lia).
  replace (fold_right (fun x a => ninstr x + a) 0 l + 2 + fuel)%nat
    with (fold_right (fun x a => ninstr x + a) 0 l + (S (S fuel)))%nat by lia.
  destruct (IHl d off len a (S (S fuel)) r m Hag Hcl ltac:(lia) ltac:(lia)) as [r1 E1]. rewrite E1.
  set (m1 := after_args en a l m). set (pa := a + zlen (flat_map compile_e l)) in *.
  destruct (exec_arglist d off len pa (S fuel) r1 m1 (fst (reify_args en a l)) (m_stack m) (length l) Hca
              (eq_sym (reify_args_len en l a)) H64 (after_args_stack _ _ _ _) ltac:(lia) ltac:(lia)) as [r2 E2].
  rewrite E2.
  set (ll := LoadList "<load_list>" pa (rev (fst (reify_args en a l)))).
  set (m2 := with_stack m1 (ll :: m_stack m)). set (pt := pa + arglist_len (length l)) in *.
  assert (Hpa : snd (reify_args en a l) = pa) by apply reify_args_pc.
  assert (Hag1 : agrees en m1) by (apply agrees_after_args; exact Hag).
  assert (Hs : exists r', step d pt r2 m2 = Ok (pt + ltail_len k, r', after_e en a (lexpr k l) m)).
  { destruct k as [f|f| |]; cbn [ltail ltail_len lexpr wf_e] in *.
    - destruct Hwf as (Hf & Hf256 & _).
      apply (step_2 d pt r2 m2 (b 87) (b (Z.of_nat f)) "CallExternalOpcode" "" OCallExternal (after_e en a (ECall f l) m) Hct);
        [vm_compute; reflexivity | reflexivity |].
      intros p2. cbn [process]. rewrite u8_b by lia.
      destruct Hag1 as (Hnm & _). subst m2. cbn [m_ctx with_stack]. rewrite Hnm, nth_name_ok by exact Hf. cbn [bind].
      unfold pop. cbn [m_stack with_stack bind]. subst ll. cbn [is_loadlist negb]. unfold push_or_stmt. cbn [name_of name_is_int].
      change (starts_with "<" "<load_list>" && negb false) with true. cbn iota. f_equal.
      unfold after_e. cbn [reify_e]. rewrite reify_args_eq. destruct (reify_args en a l) as [ns pa'] eqn:Er. cbn [fst snd] in *. subst pa'.
      apply mstate_eq; [ reflexivity | destruct m as [st [? ? ? ? ? ? ?] cx]; reflexivity
                       | unfold push, with_stack, with_globals; cbn [m_fn]; subst m1; rewrite after_args_globals;
                         cbn [globals_e]; rewrite globals_args_eq; destruct m as [st [? ? ? ? ? ? ?] cx]; reflexivity
                       | .. ]; destruct m as [st [? ? ? ? ? ? ?] cx]; reflexivity.
    - destruct Hwf as (Hf & Hf256 & _).
      apply (step_2 d pt r2 m2 (b 86) (b (Z.of_nat f)) "CallLocalOpcode" "" OCallLocal (after_e en a (ELCall f l) m) Hct);
        [vm_compute; reflexivity | reflexivity |].
      intros p2. cbn [process]. rewrite u8_b by lia.
      destruct Hag1 as (_ & Hlf & _). subst m2. cbn [m_ctx with_stack]. rewrite Hlf, nth_name_ok by exact Hf. cbn [bind].
      unfold pop. cbn [m_stack with_stack bind]. subst ll. cbn [is_loadlist negb]. unfold push_or_stmt. cbn [name_of name_is_int].
      change (starts_with "<" "<load_list>" && negb false) with true. cbn iota. f_equal.
      unfold after_e. cbn [reify_e]. rewrite reify_args_eq. destruct (reify_args en a l) as [ns pa'] eqn:Er. cbn [fst snd] in *. subst pa'.
      apply mstate_eq; [ reflexivity | destruct m as [st [? ? ? ? ? ? ?] cx]; reflexivity
                       | unfold push, with_stack, with_globals; cbn [m_fn]; subst m1; rewrite after_args_globals;
                         cbn [globals_e]; rewrite globals_args_eq; destruct m as [st [? ? ? ? ? ? ?] cx]; reflexivity
                       | .. ]; destruct m as [st [? ? ? ? ? ? ?] cx]; reflexivity.
    - exists r2.
      apply (step_1 d pt r2 m2 (b 30) "ToListOpcode" "" OToList (after_e en a (EList l) m) Hct);
        [vm_compute; reflexivity | reflexivity |].
      intros p1 p2. cbn [process]. unfold pop. subst m2. cbn [m_stack with_stack bind]. subst ll. cbn [is_loadlist]. f_equal.
      unfold after_e. cbn [reify_e]. rewrite reify_args_eq. destruct (reify_args en a l) as [ns pa'] eqn:Er. cbn [fst snd] in *. subst pa'.
      apply mstate_eq; [ reflexivity | destruct m as [st [? ? ? ? ? ? ?] cx]; reflexivity
                       | unfold push, with_stack, with_globals; cbn [m_fn]; subst m1; rewrite after_args_globals;
                         cbn [globals_e]; rewrite globals_args_eq; destruct m as [st [? ? ? ? ? ? ?] cx]; reflexivity
                       | .. ]; destruct m as [st [? ? ? ? ? ? ?] cx]; reflexivity.
    - destruct Hwf as (_ & Hev & _). exists r2.
      apply (step_1 d pt r2 m2 (b 31) "ToDictionaryOpcode" "" OToDict (after_e en a (EPList l) m) Hct);
        [vm_compute; reflexivity | reflexivity |].
      intros p1 p2. cbn [process]. unfold pop. subst m2. cbn [m_stack with_stack bind]. subst ll.
      cbn iota beta. rewrite rev_length, reify_args_len, Hev. f_equal.
      unfold after_e. cbn [reify_e]. rewrite reify_args_eq. destruct (reify_args en a l) as [ns pa'] eqn:Er. cbn [fst snd] in *. subst pa'.
      apply mstate_eq; [ reflexivity | destruct m as [st [? ? ? ? ? ? ?] cx]; reflexivity
                       | unfold push, with_stack, with_globals; cbn [m_fn]; subst m1; rewrite after_args_globals;
                         cbn [globals_e]; rewrite globals_args_eq; destruct m as [st [? ? ? ? ? ? ?] cx]; reflexivity
                       | .. ]; destruct m as [st [? ? ? ? ? ? ?] cx]; reflexivity. }
  destruct Hs as [r3 Hs]. exists r3. erewrite run_ops_step; [| subst pt pa; lia | exact Hs]. f_equal. subst pt pa. lia.
Qed.

(* ---- the <property> of <sound / sprite / cast> <id> ---- *)
Lemma step_bi d a r m x y proc0 attr0 proc attr oc m' :
  code_at d a [x; y] -> assocZ (u8 x) OPCODES = Some (2, "BiOpcode", proc0, attr0) ->
  assocZ (u8 x * 256 + u8 y) BI_OPCODES = Some (2, "BiOpcode", proc, attr) -> opclass_of proc attr = Some oc ->
  process oc 0 0 a m = Ok m' -> step d a r m = Ok (a + 2, r, m').
Proof.
  intros Hc Ha Hb Ho Hp. unfold step.
  destruct (code_at_cons _ _ _ _ Hc) as [Hx Hy].
  rewrite (byte_at_code _ _ _ _ Hx). cbn [bind]. rewrite Ha. cbn [Z.eqb Pos.eqb].
  rewrite (byte_at_code _ _ _ _ Hy). cbn [bind]. change (String.eqb "BiOpcode" "BiOpcode") with true. cbn iota.
  rewrite Hb, Ho. cbn [of_option bind]. rewrite Hp. reflexivity.
Qed.

Lemma int_of_str_small_table : forallb (fun n => match int_of_str (str_of_int (Z.of_nat n)) with Some z => z =? Z.of_nat n | None => false end) (seq 0 512) = true.
Proof. vm_compute. reflexivity. Qed.
Lemma int_of_str_small n : (n < 512)%nat -> int_of_str (str_of_int (Z.of_nat n)) = Some (Z.of_nat n).
Proof.
  intros H. pose proof int_of_str_small_table as T. rewrite forallb_forall in T. specialize (T n ltac:(apply in_seq; lia)).
  destruct (int_of_str (str_of_int (Z.of_nat n))) as [z|]; [|discriminate]. apply Z.eqb_eq in T. subst z. reflexivity.
Qed.
Lemma fpid_small f pid : fpid_ok f pid -> (pid < 512)%nat.
Proof. destruct f; cbn [fpid_ok ftable]; intros H; try (subst pid; lia); revert H; vm_compute; lia. Qed.
Definition obj_proc (f : ofam) : string :=
  match f with
  | FSound => "SoundPropertiesOpcode" | FSprite => "SpritePropertiesOpcode" | FCast => "CastPropertiesOpcode" | FVideo => "VideoPropertiesOpcode"
  | FField => "FieldPropertiesOpcode" | FLast => "SpecialPropertiesOpcode" | FNumber => "NumberOfElementsOpcode"
  | FMenuName | FMenuItems => "NameOfCastElementsOpcode"
  end.
Definition obj_opk (f : ofam) : opclass :=
  match f with
  | FSound => OSoundProps | FSprite => OSpriteProps | FCast => OCastProps | FVideo => OVideoProps
  | FField => OFieldProps | FLast => OSpecialProps | FNumber => ONumberOfElements | FMenuName | FMenuItems => ONameOfCastElements
  end.
Lemma tbl_obj f : assocZ (u8 (b 92) * 256 + u8 (b (fcode f))) BI_OPCODES = Some (2, "BiOpcode", obj_proc f, "").
Proof. destruct f; vm_compute; reflexivity. Qed.

(* the last step: the two-byte opcode pops the property number and the operand and pushes the tree of the form *)
Lemma obj_process f pid (m : mstate) po o : fpid_ok f pid ->
  m_stack m = Leaf KConst (str_of_int (Z.of_nat pid)) po true :: o :: List.tl (List.tl (m_stack m)) ->
  forall st, List.tl (List.tl (m_stack m)) = st ->
  forall pq, process (obj_opk f) 0 0 pq m = Ok (push (with_stack m st) (obj_node f pid pq o)).
Proof.
  intros Hp Hst st Est pq. pose proof (fpid_small f pid Hp) as Hs.
  assert (Epop1 : pop m = Ok (Leaf KConst (str_of_int (Z.of_nat pid)) po true, with_stack m (o :: st))).
  { unfold pop. rewrite Hst, Est. reflexivity. }
  assert (Epop2 : pop (with_stack m (o :: st)) = Ok (o, with_stack m st)).
  { unfold pop, with_stack. cbn [m_stack]. destruct m; reflexivity. }
  assert (Eint : int_name (Leaf KConst (str_of_int (Z.of_nat pid)) po true) = Ok (Z.of_nat pid)).
  { unfold int_name. cbn [name_of]. rewrite int_of_str_small by lia. reflexivity. }
  destruct f; cbn [obj_opk process fpid_ok ftable] in *.
  - unfold obj_prop. rewrite Epop1. cbn [bind]. rewrite Eint. cbn [bind]. rewrite Epop2. cbn [bind]. rewrite nth_name_ok by exact Hp. reflexivity.
  - unfold obj_prop. rewrite Epop1. cbn [bind]. rewrite Eint. cbn [bind]. rewrite Epop2. cbn [bind]. rewrite nth_name_ok by exact Hp. reflexivity.
  - unfold obj_prop. rewrite Epop1. cbn [bind]. rewrite Eint. cbn [bind]. rewrite Epop2. cbn [bind]. rewrite nth_name_ok by exact Hp. reflexivity.
  - unfold obj_prop. rewrite Epop1. cbn [bind]. rewrite Eint. cbn [bind]. rewrite Epop2. cbn [bind]. rewrite nth_name_ok by exact Hp. reflexivity.
  - rewrite Epop1. cbn [bind]. rewrite Eint. cbn [bind]. rewrite Epop2. cbn [bind]. rewrite nth_name_ok by exact Hp. reflexivity.
  - unfold special_props. rewrite Epop1. cbn [bind]. rewrite Eint. cbn [bind].
    destruct (Z.ltb_spec (Z.of_nat pid) 6); [lia|]. destruct (Z.ltb_spec (Z.of_nat pid) 12); [lia|].
    replace (Z.of_nat pid - 11) with (Z.of_nat (pid - 11)) by lia. rewrite nth_name_ok by lia. cbn [bind]. rewrite Epop2. reflexivity.
  - rewrite Epop1. cbn [bind]. rewrite Eint. cbn [bind]. rewrite nth_name_ok by exact Hp. cbn [bind]. rewrite Epop2. reflexivity.
  - subst pid. rewrite Epop1. cbn [bind]. rewrite Eint. cbn [bind]. rewrite Epop2. reflexivity.
  - subst pid. rewrite Epop1. cbn [bind]. rewrite Eint. cbn [bind]. rewrite Epop2. reflexivity.
Qed.

Lemma exec_obj en f pid x : exec_spec en x -> wf_e en (EObj f pid x) -> exec_spec en (EObj f pid x).
Proof.
  intros IHx [Hpid Hx] d off len a fuel r m Hag Hc Hoff Hlen.
  pose proof (fpid_small f pid Hpid) as Hsm.
  cbn [compile_e ninstr] in *. rewrite !zlen_app in *. change (zlen [b 92; b (fcode f)]) with 2 in *.
  apply code_at_app in Hc. destruct Hc as [Hcx Hc]. apply code_at_app in Hc. destruct Hc as [Hci Hco].
  pose proof (zlen_nonneg (compile_e x)). pose proof (zlen_nonneg (compile_int (Z.of_nat pid))).
  replace (ninstr x + 2 + fuel)%nat with (ninstr x + (1 + (1 + fuel)))%nat by lia.
  destruct (IHx d off len a (1 + (1 + fuel))%nat r m Hag Hcx ltac:(lia) ltac:(lia)) as [r1 E1]. rewrite E1.
  set (m1 := after_e en a x m). set (a1 := a + zlen (compile_e x)) in *.
  assert (Hwi : wf_e en (EInt (Z.of_nat pid))) by (cbn [wf_e]; lia).
  destruct (exec_int en (Z.of_nat pid) Hwi d off len a1 (1 + fuel)%nat r1 m1 (agrees_after_e _ _ _ _ Hag) Hci ltac:(subst a1; lia) ltac:(subst a1; cbn [compile_e]; lia)) as [r2 E2].
  cbn [ninstr compile_e] in E2. rewrite E2.
  set (m2 := after_e en a1 (EInt (Z.of_nat pid)) m1). set (a2 := a1 + zlen (compile_int (Z.of_nat pid))) in *.
  assert (Hs : step d a2 r2 m2 = Ok (a2 + 2, r2, after_e en a (EObj f pid x) m)).
  { eapply step_bi with (proc0 := "SoundPropertiesOpcode") (attr0 := "") (oc := obj_opk f);
      [exact Hco | reflexivity | apply tbl_obj | destruct f; reflexivity |].
    rewrite (obj_process f pid m2 a1 (reify_e en a x) Hpid) with (st := m_stack m).
    - f_equal; try (apply mstate_eq; [ | | unfold push, with_stack; cbn [m_fn]; subst m2 m1; rewrite !after_e_globals; cbn [globals_e]; reflexivity | .. ];
        subst m2 m1 a2 a1; destruct m as [st [? ? ? ? ? ? ?] cx]; reflexivity).
    - subst m2 m1. rewrite !after_e_stack. reflexivity.
    - subst m2 m1. rewrite !after_e_stack. reflexivity. }
  exists r2. cbn [Nat.add]. erewrite run_ops_step; [| subst a2 a1; lia | exact Hs]. f_equal. subst a2 a1. lia.
Qed.

(* ---- the <property> of menuItem <item> of menu <menu> ---- *)
Lemma exec_menu en pid it mn : exec_spec en it -> exec_spec en mn -> wf_e en (EMenu pid it mn) -> exec_spec en (EMenu pid it mn).
Proof.
  intros IHi IHm (Hpid & Hi & Hm) d off len a fuel r m Hag Hc Hoff Hlen.
  assert (Hsm : (length MENUITEM_PROPERTIES < 512)%nat) by (vm_compute; lia).
  cbn [compile_e ninstr] in *. rewrite !zlen_app in *. change (zlen [b 92; b 3]) with 2 in *.
  apply code_at_app in Hc. destruct Hc as [Hci Hc]. apply code_at_app in Hc. destruct Hc as [Hcm Hc].
  apply code_at_app in Hc. destruct Hc as [Hcn Hco].
  pose proof (zlen_nonneg (compile_e it)). pose proof (zlen_nonneg (compile_e mn)). pose proof (zlen_nonneg (compile_int (Z.of_nat pid))).
  replace (ninstr it + (ninstr mn + 2) + fuel)%nat with (ninstr it + (ninstr mn + (1 + (1 + fuel))))%nat by lia.
  destruct (IHi d off len a (ninstr mn + (1 + (1 + fuel)))%nat r m Hag Hci ltac:(lia) ltac:(lia)) as [r1 E1]. rewrite E1.
  set (m1 := after_e en a it m). set (pm := a + zlen (compile_e it)) in *.
  pose proof (agrees_after_e en a it m Hag) as Hag1. fold m1 in Hag1.
  destruct (IHm d off len pm (1 + (1 + fuel))%nat r1 m1 Hag1 Hcm ltac:(subst pm; lia) ltac:(subst pm; lia)) as [r2 E2]. rewrite E2.
  set (m2 := after_e en pm mn m1). set (pi := pm + zlen (compile_e mn)) in *.
  pose proof (agrees_after_e en pm mn m1 Hag1) as Hag2. fold m2 in Hag2.
  assert (Hwi : wf_e en (EInt (Z.of_nat pid))) by (cbn [wf_e]; lia).
  destruct (exec_int en (Z.of_nat pid) Hwi d off len pi (1 + fuel)%nat r2 m2 Hag2 Hcn ltac:(subst pi pm; lia) ltac:(subst pi pm; cbn [compile_e]; lia)) as [r3 E3].
  cbn [ninstr compile_e] in E3. rewrite E3.
  set (m3 := after_e en pi (EInt (Z.of_nat pid)) m2). set (po := pi + zlen (compile_int (Z.of_nat pid))) in *.
  assert (Hs : step d po r3 m3 = Ok (po + 2, r3, after_e en a (EMenu pid it mn) m)).
  { eapply step_bi with (proc0 := "SoundPropertiesOpcode") (attr0 := "") (proc := "MenuitemPropertiesOpcode") (attr := "") (oc := OMenuitemProps);
      [exact Hco | reflexivity | vm_compute; reflexivity | reflexivity |].
    cbn [process]. unfold pop. subst m3. rewrite after_e_stack. cbn [bind reify_e]. unfold int_name. cbn [name_of].
    rewrite int_of_str_small by lia. cbn [of_option bind]. unfold with_stack at 1. cbn [m_stack].
    subst m2. rewrite after_e_stack. cbn [bind]. unfold with_stack at 1. cbn [m_stack].
    subst m1. rewrite after_e_stack. cbn [bind]. rewrite nth_name_ok by exact Hpid. cbn [bind]. f_equal.
    apply mstate_eq; [ | | unfold push, with_stack; cbn [m_fn]; rewrite !after_e_globals; cbn [globals_e];
                           rewrite add_globals_app; reflexivity | .. ];
      subst po pi pm; destruct m as [st [? ? ? ? ? ? ?] cx]; reflexivity. }
  exists r3. cbn [Nat.add]. erewrite run_ops_step; [| subst po pi pm; lia | exact Hs]. f_equal. subst po pi pm. lia.
Qed.

Lemma wf_lexpr_args en k l : wf_e en (lexpr k l) -> wf_args en l.
Proof. destruct k; cbn [lexpr wf_e]; rewrite wf_args_eq; tauto. Qed.

(* ---- the zero-operand "the" forms ---- *)
Definition the_proc (k : thekind) : string :=
  match k with TSystem => "SystemPropertiesOpcode" | TNumOf => "NumberOfCastElementsOpcode" | _ => "SpecialPropertiesOpcode" end.
Definition the_opk (k : thekind) : opclass := match k with TSystem => OSystemProps | TNumOf => ONumberOfCastElements | _ => OSpecialProps end.
Lemma tbl_the k : assocZ (u8 (b 92) * 256 + u8 (b (the_code k))) BI_OPCODES = Some (2, "BiOpcode", the_proc k, "").
Proof. destruct k; vm_compute; reflexivity. Qed.
Lemma the_len k : (List.length (the_table k) <= 64)%nat.
Proof. destruct k; vm_compute; lia. Qed.
Lemma the_len6 k : k <> TSystem -> k <> TNumOf -> List.length (the_table k) = 6%nat.
Proof. destruct k; intros H H'; try reflexivity; congruence. Qed.
Lemma the_small k i : (i < List.length (the_table k))%nat -> (i + 6 < 512)%nat.
Proof. pose proof (the_len k). lia. Qed.
Lemma the_num_nat k i : the_num k i = Z.of_nat (match k with TDateTime => i + 6 | _ => i end).
Proof. destruct k; unfold the_num; lia. Qed.

Lemma the_process k i (m : mstate) po : (i < List.length (the_table k))%nat -> c_tell (m_ctx m) = false ->
  m_stack m = Leaf KConst (str_of_int (the_num k i)) po true :: List.tl (m_stack m) ->
  forall st, List.tl (m_stack m) = st ->
  forall pq, process (the_opk k) 0 0 pq m = Ok (push (with_stack m st) (the_node k i pq)).
Proof.
  intros Hi Ht Hst st Est pq. pose proof (the_small k i Hi) as Hs.
  assert (Epop : pop m = Ok (Leaf KConst (str_of_int (the_num k i)) po true, with_stack m st)).
  { unfold pop. rewrite Hst, Est. reflexivity. }
  assert (Eint : int_name (Leaf KConst (str_of_int (the_num k i)) po true) = Ok (the_num k i)).
  { unfold int_name. cbn [name_of]. rewrite the_num_nat. rewrite int_of_str_small by (destruct k; lia). reflexivity. }
  destruct k; cbn [the_opk process the_table the_node] in *.
  - unfold special_props. rewrite Epop. cbn [bind]. rewrite Eint. cbn [bind]. unfold the_num.
    assert (H6 : (i < 6)%nat) by (pose proof (the_len6 TSpecial ltac:(discriminate) ltac:(discriminate)) as L6; cbn [the_table] in L6; lia).
    destruct (Z.ltb_spec (Z.of_nat i) 6); [|lia]. rewrite nth_name_ok by exact Hi. reflexivity.
  - unfold special_props. rewrite Epop. cbn [bind]. rewrite Eint. cbn [bind]. unfold the_num.
    assert (H6 : (i < 6)%nat) by (pose proof (the_len6 TDateTime ltac:(discriminate) ltac:(discriminate)) as L6; cbn [the_table] in L6; lia).
    destruct (Z.ltb_spec (Z.of_nat i + 6) 6); [lia|]. destruct (Z.ltb_spec (Z.of_nat i + 6) 12); [|lia].
    replace (Z.of_nat i + 6 - 6) with (Z.of_nat i) by lia. rewrite nth_name_ok by exact Hi. reflexivity.
  - unfold system_props. rewrite Epop. cbn [bind]. rewrite Eint. cbn [bind]. unfold the_num.
    rewrite nth_name_ok by exact Hi. cbn [bind].
    assert (Hc : c_tell (m_ctx (with_stack m st)) = false) by (destruct m; exact Ht). rewrite Hc. reflexivity.
  - rewrite Epop. cbn [bind]. rewrite Eint. cbn [bind]. unfold the_num. rewrite nth_name_ok by exact Hi. cbn [bind].
    unfold local_of. destruct (String.eqb (nth i NUM_OF_TYPES "") "perFrameHook"); reflexivity.
Qed.

Lemma exec_the en k i : wf_e en (EThe k i) -> exec_spec en (EThe k i).
Proof.
  intros Hi d off len a fuel r m Hag Hc Hoff Hlen. cbn [wf_e] in Hi.
  pose proof (the_small k i Hi) as Hsm.
  cbn [compile_e ninstr] in *. rewrite !zlen_app in *. change (zlen [b 92; b (the_code k)]) with 2 in *.
  apply code_at_app in Hc. destruct Hc as [Hci Hco].
  pose proof (zlen_nonneg (compile_int (the_num k i))).
  assert (Hwi : wf_e en (EInt (the_num k i))) by (cbn [wf_e]; rewrite the_num_nat; destruct k; lia).
  replace (2 + fuel)%nat with (1 + (1 + fuel))%nat by lia.
  destruct (exec_int en (the_num k i) Hwi d off len a (1 + fuel)%nat r m Hag Hci ltac:(lia) ltac:(cbn [compile_e]; lia)) as [r1 E1].
  cbn [ninstr compile_e] in E1. rewrite E1.
  set (m1 := after_e en a (EInt (the_num k i)) m). set (a1 := a + zlen (compile_int (the_num k i))) in *.
  assert (Htell : c_tell (m_ctx m1) = false).
  { pose proof (agrees_after_e en a (EInt (the_num k i)) m Hag) as H1. fold m1 in H1. unfold agrees in H1. tauto. }
  assert (Hs : step d a1 r1 m1 = Ok (a1 + 2, r1, after_e en a (EThe k i) m)).
  { eapply step_bi with (proc0 := "SoundPropertiesOpcode") (attr0 := "") (oc := the_opk k);
      [exact Hco | reflexivity | apply tbl_the | destruct k; reflexivity |].
    rewrite (the_process k i m1 a Hi Htell) with (st := m_stack m).
    - f_equal; try (apply mstate_eq; [ | | unfold push, with_stack; cbn [m_fn]; subst m1; rewrite !after_e_globals; cbn [globals_e]; reflexivity | .. ];
        subst m1 a1; destruct m as [st [? ? ? ? ? ? ?] cx]; reflexivity).
    - subst m1. rewrite !after_e_stack. reflexivity.
    - subst m1. rewrite !after_e_stack. reflexivity. }
  exists r1. cbn [Nat.add]. erewrite run_ops_step; [| subst a1; lia | exact Hs]. f_equal. subst a1. lia.
Qed.

(* ---- properties addressed by name ---- *)
Lemma exec_then en n : wf_e en (ETheN n) -> exec_spec en (ETheN n).
Proof.
  intros [Hn H256] d off len a fuel r m Hag Hc Hoff Hlen.
  rewrite after_e_leaf by reflexivity. cbn [compile_e reify_e] in *. rewrite !zlen_cons, zlen_nil in *.
  destruct Hag as (Hnm & _).
  assert (Hs : exists r', step d a r m = Ok (a + 2, r', push m (the_name_node (nm en n) a))).
  { eapply step_2 with (proc := "LoadPropertyOpcode") (attr := "") (oc := OLoadProperty); [exact Hc | reflexivity | reflexivity |].
    intros p2. cbn [process]. rewrite u8_b by lia. rewrite Hnm, nth_name_ok by exact Hn. cbn [bind].
    fold (nm en n). unfold the_name_node, local_of. destruct (assoc_str (nm en n) ASSIGN_KNOWN_PROPERTIES); reflexivity. }
  destruct Hs as [r' Hs]. exists r'. one_step Hs. f_equal; lia.
Qed.

Lemma exec_acc en n x : exec_spec en x -> wf_e en (EAcc n x) -> exec_spec en (EAcc n x).
Proof.
  intros IHx (Hn & H256 & Hx) d off len a fuel r m Hag Hc Hoff Hlen.
  cbn [compile_e ninstr] in *. rewrite !zlen_app, !zlen_cons, zlen_nil in *.
  apply code_at_app in Hc. destruct Hc as [Hcx Hco]. pose proof (zlen_nonneg (compile_e x)).
  replace (ninstr x + 1 + fuel)%nat with (ninstr x + (1 + fuel))%nat by lia.
  destruct (IHx d off len a (1 + fuel)%nat r m Hag Hcx ltac:(lia) ltac:(lia)) as [r1 E1]. rewrite E1.
  set (m1 := after_e en a x m). set (a1 := a + zlen (compile_e x)) in *.
  pose proof (agrees_after_e en a x m Hag) as Hag1. fold m1 in Hag1. destruct Hag1 as (Hnm & _).
  assert (Hs : exists r', step d a1 r1 m1 = Ok (a1 + 2, r', after_e en a (EAcc n x) m)).
  { eapply step_2 with (proc := "PropertyAccesorOpcode") (attr := "") (oc := OPropertyAccessor); [exact Hco | reflexivity | reflexivity |].
    intros p2. cbn [process]. rewrite u8_b by lia. rewrite Hnm, nth_name_ok by exact Hn. cbn [bind].
    unfold pop. subst m1. rewrite after_e_stack. cbn [bind]. fold (nm en n).
    destruct m as [st [? ? ? ? ? ? ?] cx]; reflexivity. }
  destruct Hs as [r2 Hs]. exists r2. cbn [Nat.add]. erewrite run_ops_step; [| subst a1; lia | exact Hs]. f_equal. subst a1. lia.
Qed.

(* a key / mouse / date property: an empty argument list, then the opcode *)
Lemma exec_key en n : wf_e en (EKey n) -> exec_spec en (EKey n).
Proof.
  intros [Hn H256] d off len a fuel r m Hag Hc Hoff Hlen.
  cbn [compile_e ninstr] in *. rewrite !zlen_app in *. 
  apply code_at_app in Hc. destruct Hc as [Hca Hct].
  change (zlen (compile_arglist 0 true)) with 2 in *. rewrite !zlen_cons, zlen_nil in *.
  destruct (exec_arglist d off len a (S fuel) r m [] (m_stack m) 0 Hca eq_refl ltac:(lia) eq_refl ltac:(lia) ltac:(cbn; lia)) as [r1 E1].
  change (2 + fuel)%nat with (S (S fuel)). rewrite E1. change (arglist_len 0) with 2 in *.
  set (m1 := with_stack m (LoadList "<load_list>" a (rev []) :: m_stack m)).
  destruct Hag as (Hnm & _).
  assert (Hs : exists r', step d (a + 2) r1 m1 = Ok (a + 2 + 2, r', after_e en a (EKey n) m)).
  { eapply step_2 with (proc := "KeyPropertyAccesorOpcode") (attr := "") (oc := OKeyPropertyAccessor); [exact Hct | reflexivity | reflexivity |].
    intros p2. cbn [process]. rewrite u8_b by lia. subst m1. cbn [m_ctx with_stack]. rewrite Hnm, nth_name_ok by exact Hn. cbn [bind].
    unfold pop. cbn [m_stack with_stack bind rev]. fold (nm en n).
    rewrite after_e_leaf by reflexivity. cbn [reify_e]. destruct m as [st [? ? ? ? ? ? ?] cx]; reflexivity. }
  destruct Hs as [r2 Hs]. exists r2. erewrite run_ops_step; [| lia | exact Hs]. f_equal. lia.
Qed.

Lemma exec_field en x : exec_spec en x -> wf_e en x -> exec_spec en (EField x).
Proof.
  intros IHx Hx d off len a fuel r m Hag Hc Hoff Hlen.
  cbn [compile_e ninstr] in *. rewrite !zlen_app, zlen_cons, zlen_nil in *.
  apply code_at_app in Hc. destruct Hc as [Hcx Hco]. pose proof (zlen_nonneg (compile_e x)).
  replace (ninstr x + 1 + fuel)%nat with (ninstr x + (1 + fuel))%nat by lia.
  destruct (IHx d off len a (1 + fuel)%nat r m Hag Hcx ltac:(lia) ltac:(lia)) as [r1 E1]. rewrite E1.
  set (m1 := after_e en a x m). set (a1 := a + zlen (compile_e x)) in *.
  assert (Hs : step d a1 r1 m1 = Ok (a1 + 1, r1, after_e en a (EField x) m)).
  { eapply step_1 with (proc := "UnaryOperationOpcode") (attr := "field") (oc := OUnary "field");
      [exact Hco | vm_compute; reflexivity | reflexivity |].
    intros p1 p2. cbn [process]. unfold pop. subst m1. rewrite after_e_stack. cbn [bind].
    destruct m as [st [? ? ? ? ? ? ?] cx]; reflexivity. }
  exists r1. cbn [Nat.add]. erewrite run_ops_step; [| subst a1; lia | exact Hs]. f_equal. subst a1. lia.
Qed.

(* the core of C02: any expression tree, any depth, any width *)
Theorem exec_e en e : wf_e en e -> exec_spec en e.
Proof.
  revert e. apply (expr_ind2 (fun e => wf_e en e -> exec_spec en e) (fun l => wf_args en l -> exec_args_spec en l)).
  - apply exec_int. - apply exec_const. - apply exec_sym. - apply exec_loc. - apply exec_par. - apply exec_glob. - apply exec_prop.
  - intros o x y IHx IHy Hwf. pose proof Hwf as [Hx Hy]. apply exec_bin; auto.
  - intros x IHx Hwf. apply (exec_unary en true x); auto.
  - intros x IHx Hwf. apply (exec_unary en false x); auto.
  - intros f l IHl Hwf. apply (exec_lexpr en (KCallExt f) l); [apply IHl; apply (wf_lexpr_args en (KCallExt f)); exact Hwf | exact Hwf].
  - intros f l IHl Hwf. apply (exec_lexpr en (KCallLoc f) l); [apply IHl; apply (wf_lexpr_args en (KCallLoc f)); exact Hwf | exact Hwf].
  - intros l IHl Hwf. apply (exec_lexpr en KListLit l); [apply IHl; apply (wf_lexpr_args en KListLit); exact Hwf | exact Hwf].
  - intros l IHl Hwf. apply (exec_lexpr en KPListLit l); [apply IHl; apply (wf_lexpr_args en KPListLit); exact Hwf | exact Hwf].
  - intros f pid x IHx Hwf. apply exec_obj; [apply IHx; apply Hwf | exact Hwf].
  - intros pid it mn IHi IHm Hwf. apply exec_menu; [apply IHi; apply Hwf | apply IHm; apply Hwf | exact Hwf].
  - intros k i Hwf. apply exec_the. exact Hwf.
  - intros n Hwf. apply exec_then. exact Hwf.
  - intros n x IHx Hwf. apply exec_acc; [apply IHx; apply Hwf | exact Hwf].
  - intros n Hwf. apply exec_key. exact Hwf.
  - intros x IHx Hwf. apply exec_field; auto.
  - intros _. apply exec_args_nil.
  - intros x l IHx IHl [Hx Hl]. apply exec_args_cons; auto.
Qed.
Print Assumptions exec_e.

Lemma run_ops_end fuel d off len a r m : len <= a - off -> run_ops fuel d off len a r m = Ok (r, m).
Proof. intros H. destruct fuel; cbn [run_ops]; destruct (a - off <? len) eqn:E; try lia; reflexivity. Qed.

(* an expression that is the whole code of a handler *)
Corollary exec_whole en e d off fuel r m :
  wf_e en e -> agrees en m -> code_at d off (compile_e e) ->
  exists r', run_ops (ninstr e + fuel) d off (zlen (compile_e e)) off r m = Ok (r', after_e en off e m).
Proof.
  intros Hwf Hag Hc. destruct (exec_e en e Hwf d off (zlen (compile_e e)) off fuel r m Hag Hc ltac:(lia) ltac:(lia)) as [r' E].
  exists r'. rewrite E. apply run_ops_end. lia.
Qed.
