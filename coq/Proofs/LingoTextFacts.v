(* C02, text level: (1) the Lingo text emitted for the decompiled tree of e is the rendering of the canonical
   token list pp_tok e; (2) the precedence parser reads that token list back as e. *)
From Coq Require Import ZArith List Bool String Lia.
From DRX Require Import Py.PyBytes Py.PyStr Py.PyString Model.LingoAst Model.LingoGen Model.LingoOps Spec.SpecLingo Spec.SpecText
  Gen.Gen_Lingo Proofs.LingoExecFacts Proofs.LingoMutFacts.
Import ListNotations.
Open Scope string_scope.
Open Scope list_scope.
Local Notation length := List.length (only parsing).

(* ---- rendering is a homomorphism ---- *)
Lemma sappend_assoc (a b c : string) : ((a ++ b) ++ c)%string = (a ++ (b ++ c))%string.
Proof. induction a as [|x a IH]; simpl; [reflexivity|]. rewrite IH. reflexivity. Qed.
Lemma concat_all_app a b : concat_all (a ++ b) = (concat_all a ++ concat_all b)%string.
Proof. induction a as [|x a IH]; simpl; [reflexivity|]. rewrite IH. symmetry. apply sappend_assoc. Qed.
Lemma render_app en a b : render en (a ++ b) = (render en a ++ render en b)%string.
Proof. unfold render. rewrite map_app. apply concat_all_app. Qed.
Lemma render_cons en t a : render en (t :: a) = (render_tok en t ++ render en a)%string.
Proof. reflexivity. Qed.
Lemma render_nil en : render en [] = "". Proof. reflexivity. Qed.
Lemma append_nil_r s : (s ++ "")%string = s.
Proof. induction s; simpl; [reflexivity|]. rewrite IHs. reflexivity. Qed.

Lemma render_sep en (l : list (list tok)) : render en (sep_toks l) = join ", " (map (render en) l).
Proof.
  induction l as [|x [|y r] IH]; [reflexivity | reflexivity |].
  change (sep_toks (x :: y :: r)) with (x ++ [TComma; TSp] ++ sep_toks (y :: r)).
  rewrite !render_app. rewrite IH. reflexivity.
Qed.

(* side conditions of the text theorem *)
Definition lingo_plain_call (nm : string) : bool := negb (String.eqb nm "sound") && negb (mem_str (lower nm) LIST_FUNCTIONS).
Definition acc_plain (o : string) : bool :=
  negb (String.eqb o "me") && negb (starts_with "_" o) && negb (String.eqb o "tell_obj").
Fixpoint text_ok (en : env) (e : expr) {struct e} : Prop :=
  match e with
  | ELoc i => match nth i (e_locals en) (Leaf KLocal "" 0 true) with Leaf KLocal _ _ _ => True | _ => False end
  | EBin _ x y => text_ok en x /\ text_ok en y
  | ENeg x | ENot x | EField x => text_ok en x
  | ECall f args => lingo_plain_call (nm en f) = true /\
                    (fix all (l : list expr) : Prop := match l with [] => True | x :: r => text_ok en x /\ all r end) args
  | ELCall f args => lingo_plain_call (nth f (e_lfuncs en) "") = true /\
                    (fix all (l : list expr) : Prop := match l with [] => True | x :: r => text_ok en x /\ all r end) args
  | EList items =>
                    (fix all (l : list expr) : Prop := match l with [] => True | x :: r => text_ok en x /\ all r end) items
  | EPList items => Nat.even (length items) = true /\
                    (fix all (l : list expr) : Prop := match l with [] => True | x :: r => text_ok en x /\ all r end) items
  | EObj _ _ x => text_ok en x
  | EMenu _ it mn => text_ok en it /\ text_ok en mn
  (* a system property is written "the <name>" when its object is one of the runtime objects (_movie, _system, ...) *)
  | EThe TSystem i => starts_with "_" (assoc_or (nth i (the_table TSystem) "") SYSTEM_PROPERTIES) = true
  (* the <name> of <x>: x is not written me / _something / tell_obj (those are the decompiler's own object names) *)
  | EAcc _ x => text_ok en x /\ acc_plain (render en (pp_tok en x)) = true
  | _ => True
  end.
Fixpoint text_ok_args (en : env) (l : list expr) : Prop := match l with [] => True | x :: r => text_ok en x /\ text_ok_args en r end.
Lemma text_ok_args_eq en : forall l,
  (fix all (l : list expr) : Prop := match l with [] => True | x :: r => text_ok en x /\ all r end) l = text_ok_args en l.
Proof. induction l as [|x r IH]; cbn [text_ok_args]; [reflexivity|]. rewrite IH. reflexivity. Qed.

Definition PT (en : env) (e : expr) : Prop :=
  text_ok en e -> forall pc ind, gen_lingo (reify_e en pc e) ind = render en (pp_tok en e).
Definition PTArgs (en : env) (l : list expr) : Prop :=
  text_ok_args en l -> forall pc ind,
    map (fun n => gen_lingo n ind) (fst (reify_args en pc l)) = map (fun e => render en (pp_tok en e)) l.

Lemma gv_none_l nm ops : lingo_plain_call nm = true -> gv_sym_name nm ops = None.
Proof.
  unfold lingo_plain_call. intros H. apply andb_true_iff in H. destruct H as [_ H]. apply negb_true_iff in H.
  unfold gv_sym_name. destruct (rev ops) as [|x r]; [reflexivity|]. destruct x; try reflexivity. destruct k; try reflexivity.
  rewrite H. reflexivity.
Qed.

Lemma go_bare_paren nm ops : go_bare nm true ops = None.
Proof. unfold go_bare. cbn [negb]. rewrite andb_false_r. reflexivity. Qed.

Lemma list_strs en l : PTArgs en l -> text_ok_args en l -> forall pc ind,
  rev (map (fun x => gen_lingo x ind) (rev (fst (reify_args en pc l)))) = map (render en) (map (pp_tok en) l).
Proof. intros H Hok pc ind. rewrite map_rev, rev_involutive. rewrite (H Hok pc ind). rewrite map_map. reflexivity. Qed.

Ltac norm_render := repeat (rewrite render_app || rewrite render_cons || rewrite render_nil); cbn [render_tok]; repeat rewrite sappend_assoc; rewrite ?append_nil_r.

Lemma render_pairs en : forall l,
  map (render en) (pair_toks l) =
  (fix go (l : list string) : list string := match l with k :: v :: r => (k ++ ": " ++ v)%string :: go r | _ => [] end) (map (render en) l).
Proof.
  fix IH 1. intros [|k [|v r]]; try reflexivity.
  cbn [pair_toks map]. rewrite IH. f_equal. rewrite !render_app, !render_cons, render_nil. cbn [render_tok].
  rewrite append_nil_r. reflexivity.
Qed.

Lemma dict_texts en (g : node -> string) : forall (ns : list node) (l : list expr),
  map g ns = map (fun e => render en (pp_tok en e)) l ->
  (fix go (l : list node) : list string := match l with v :: s :: r => (g s ++ ": " ++ g v)%string :: go r | _ => [] end) (rev ns)
  = (fix go (l : list string) : list string := match l with k :: v :: r => (v ++ ": " ++ k)%string :: go r | _ => [] end)
      (rev (map (fun e => render en (pp_tok en e)) l)).
Proof.
  intros ns l H. rewrite <- H. rewrite <- map_rev. generalize (rev ns). fix IH 1.
  intros [|v [|s r]]; try reflexivity. cbn [map]. rewrite IH. reflexivity.
Qed.

(* pairs of a property list, from the back (operand order) and from the front (source order) *)
Fixpoint goR (l : list string) : list string := match l with v :: s :: r => (s ++ ": " ++ v)%string :: goR r | _ => [] end.
Fixpoint goF (l : list string) : list string := match l with k :: v :: r => (k ++ ": " ++ v)%string :: goF r | _ => [] end.

Lemma goR_app : forall a b, Nat.even (length a) = true -> goR (a ++ b) = goR a ++ goR b.
Proof.
  fix IH 1. intros [|x [|y r]] b H; try reflexivity; try discriminate H.
  cbn [app goR]. rewrite (IH r b) by exact H. reflexivity.
Qed.
Lemma even_rev_len {A} (l : list A) : Nat.even (length (rev l)) = Nat.even (length l).
Proof. rewrite rev_length. reflexivity. Qed.
Lemma goR_rev : forall l, Nat.even (length l) = true -> rev (goR (rev l)) = goF l.
Proof.
  fix IH 1. intros [|k [|v r]] H; try reflexivity; try discriminate H.
  cbn [rev]. rewrite <- app_assoc. cbn [app]. rewrite goR_app by (rewrite even_rev_len; exact H).
  rewrite rev_app_distr. cbn [goR rev app]. rewrite (IH r H). reflexivity.
Qed.
Lemma go_nodes (g : node -> string) : forall l,
  (fix go (l : list node) : list string := match l with v :: s :: r => (g s ++ ": " ++ g v)%string :: go r | _ => [] end) l = goR (map g l).
Proof. fix IH 1. intros [|v [|s r]]; try reflexivity. cbn [map goR]. rewrite IH. reflexivity. Qed.
Lemma render_pairs_F en : forall l, map (render en) (pair_toks l) = goF (map (render en) l).
Proof.
  fix IH 1. intros [|k [|v r]]; try reflexivity.
  cbn [pair_toks map goF]. rewrite IH. f_equal. rewrite !render_app, !render_cons, render_nil. cbn [render_tok].
  rewrite append_nil_r. reflexivity.
Qed.

Lemma dict_strs_goR (g : node -> string) : forall l, dict_strs g l = goR (map g l).
Proof. fix IH 1. intros [|v [|s r]]; try reflexivity. cbn [map goR dict_strs]. rewrite IH. reflexivity. Qed.

Lemma gen_lingo_todict sp p nm lp ops ind : ops <> [] ->
  gen_lingo_sp sp (ToDict p (LoadList nm lp ops)) ind
  = ("[" ++ join ", " (rev (goR (map (fun x => gen_lingo_sp false x ind) ops))) ++ "]")%string.
Proof.
  intros H. destruct ops as [|v r]; [contradiction|].
  change (gen_lingo_sp sp (ToDict p (LoadList nm lp (v :: r))) ind)
    with ("[" ++ join ", " (rev (dict_strs (fun x => gen_lingo_sp false x ind) (v :: r))) ++ "]")%string.
  rewrite dict_strs_goR. reflexivity.
Qed.

(* the identifier of an object: a constant is written as it is, anything else is generated *)
Lemma is_const_reify en pc x : text_ok en x ->
  is_const_node (reify_e en pc x) = match x with EInt _ | EConst _ => true | _ => false end.
Proof.
  destruct x; intros Hok; cbn [reify_e]; try reflexivity.
  - destruct (nth k (e_consts en) (CInt 0)); reflexivity.
  - cbn [text_ok] in Hok. destruct (nth i (e_locals en) (Leaf KLocal "" 0 true)); try contradiction. destruct k; try contradiction. reflexivity.
  - match goal with |- context [let '(a, b) := ?X in _] => destruct X end; reflexivity.
  - match goal with |- context [let '(a, b) := ?X in _] => destruct X end; reflexivity.
  - match goal with |- context [let '(a, b) := ?X in _] => destruct X end; reflexivity.
  - match goal with |- context [let '(a, b) := ?X in _] => destruct X end. destruct items; reflexivity.
  - destruct f; reflexivity.
  - destruct k; try reflexivity; unfold the_node; destruct (String.eqb _ "perFrameHook"); reflexivity.
  - unfold the_name_node. destruct (assoc_str (nm en n) ASSIGN_KNOWN_PROPERTIES); reflexivity.
Qed.

Lemma ident_text en pc x : PT en x -> text_ok en x -> forall k po ind,
  gen_lingo (ObjRef k (name_of (reify_e en pc x)) po (reify_e en pc x)) ind = lingo_leaf_obj k (render en (raw_or x (pp_tok en x))).
Proof.
  intros HP Hok k po ind. unfold gen_lingo. cbn [gen_lingo_sp]. rewrite (is_const_reify en pc x Hok).
  destruct x; cbn [raw_or]; try (f_equal; exact (HP Hok pc ind)).
  - cbn [reify_e name_of]. rewrite render_cons, render_nil, append_nil_r. reflexivity.
  - cbn [reify_e]. rewrite render_cons, render_nil, append_nil_r. cbn [render_tok].
    destruct (nth k0 (e_consts en) (CInt 0)); reflexivity.
Qed.

Lemma accessor_text p obj prop ind o : gen_lingo obj ind = o ->
  String.eqb o "me" = false -> starts_with "_" o = false -> String.eqb o "tell_obj" = false ->
  gen_lingo (Accessor p obj prop) ind = ("the " ++ prop ++ " of " ++ o)%string.
Proof. intros E H1 H2 H3. unfold gen_lingo in *. cbn [gen_lingo_sp]. rewrite E, H1, H2, H3. reflexivity. Qed.
Lemma accessor_text_own p obj prop ind o : gen_lingo obj ind = o ->
  String.eqb o "me" = false -> starts_with "_" o = true ->
  gen_lingo (Accessor p obj prop) ind = ("the " ++ prop)%string.
Proof. intros E H1 H2. unfold gen_lingo in *. cbn [gen_lingo_sp]. rewrite E, H1, H2. reflexivity. Qed.
Lemma ustrop_some_text nm p t obj ind o : gen_lingo obj ind = o ->
  gen_lingo (UStrOp nm p (Some t) obj) ind =
  (if String.eqb nm "last" then "the " ++ nm ++ " " ++ t ++ " of " ++ o else "the " ++ nm ++ " of " ++ t ++ "s of " ++ o)%string.
Proof. intros E. unfold gen_lingo in *. cbn [gen_lingo_sp]. rewrite E. reflexivity. Qed.
Lemma ustrop_none_text nm p obj ind o : gen_lingo obj ind = o ->
  gen_lingo (UStrOp nm p None obj) ind = ("the " ++ nm ++ " of " ++ o)%string.
Proof. intros E. unfold gen_lingo in *. cbn [gen_lingo_sp]. rewrite E. reflexivity. Qed.
Lemma unary_text nm p obj ind o : gen_lingo obj ind = o -> String.eqb nm "minus" = false ->
  gen_lingo (Unary nm p obj) ind = (nm ++ " " ++ o)%string.
Proof. intros E H. unfold gen_lingo in *. cbn [gen_lingo_sp]. rewrite E, H. reflexivity. Qed.
Lemma menuitems_text p obj ind o : gen_lingo obj 0%nat = o ->
  gen_lingo (MenuItemsAcc p obj) ind = ("menuItems of " ++ o)%string.
Proof. intros E. unfold gen_lingo in *. cbn [gen_lingo_sp]. rewrite E. reflexivity. Qed.
Lemma menuitem_text p m i ind om oi : gen_lingo m 0%nat = om -> gen_lingo i 0%nat = oi ->
  gen_lingo (MenuItemAcc p m i) ind = (oi ++ " of " ++ om)%string.
Proof. intros E1 E2. unfold gen_lingo in *. cbn [gen_lingo_sp]. rewrite E1, E2. reflexivity. Qed.

Theorem gen_lingo_is_render en : forall e, PT en e.
Proof.
  apply (expr_ind2 (PT en) (PTArgs en)); unfold PT.
  - intros n _ pc ind. cbn [reify_e pp_tok]. norm_render. reflexivity.
  - intros k _ pc ind. cbn [reify_e pp_tok]. norm_render. destruct (nth k (e_consts en) (CInt 0)); reflexivity.
  - intros n _ pc ind. cbn [reify_e pp_tok]. norm_render. reflexivity.
  - intros i Hok pc ind. cbn [reify_e pp_tok text_ok] in *. norm_render.
    destruct (nth i (e_locals en) (Leaf KLocal "" 0 true)); try contradiction. destruct k; try contradiction. reflexivity.
  - intros i _ pc ind. cbn [reify_e pp_tok]. norm_render. reflexivity.
  - intros n _ pc ind. cbn [reify_e pp_tok]. norm_render. reflexivity.
  - intros n _ pc ind. cbn [reify_e pp_tok]. norm_render. reflexivity.
  - (* binary *) intros o x y IHx IHy [Hx Hy] pc ind. cbn [reify_e pp_tok]. unfold gen_lingo in *. cbn [gen_lingo_sp].
    rewrite (IHx Hx), (IHy Hy).
    destruct o; cbn [is_sprite_op bname]; norm_render; reflexivity.
  - (* minus *) intros x IHx Hx pc ind. cbn [reify_e pp_tok]. unfold gen_lingo in *. cbn [gen_lingo_sp]. rewrite (IHx Hx).
    change (String.eqb "minus" "minus") with true. cbn iota.
    destruct (starts_with "-" (render en (pp_tok en x))); norm_render; reflexivity.
  - (* not *) intros x IHx Hx pc ind. cbn [reify_e pp_tok]. unfold gen_lingo in *. cbn [gen_lingo_sp]. rewrite (IHx Hx).
    change (String.eqb "not" "minus") with false. cbn iota. norm_render. reflexivity.
  - (* external call *) intros f l IHl [Hp Hl] pc ind. rewrite text_ok_args_eq in Hl. cbn [reify_e pp_tok]. rewrite reify_args_eq.
    destruct (reify_args en pc l) as [ns pa] eqn:Er. unfold gen_lingo in *. cbn [gen_lingo_sp].
    rewrite (gv_none_l _ _ Hp). cbn [set_last].
    pose proof (list_strs en l IHl Hl pc ind) as E. unfold gen_lingo in E. rewrite Er in E. cbn [fst] in E. rewrite E.
    unfold lingo_plain_call in Hp. apply andb_true_iff in Hp. destruct Hp as [Hs _]. apply negb_true_iff in Hs.
    destruct l as [|x l'].
    + cbn [reify_args] in Er. injection Er as <- <-. cbn [rev]. norm_render. reflexivity.
    + destruct (rev ns) as [|n0 nr] eqn:En.
      { exfalso. apply (f_equal (@length node)) in En. rewrite rev_length in En.
        pose proof (reify_args_len en (x :: l') pc) as HL. rewrite Er in HL. cbn [fst length] in *. lia. }
      rewrite Hs. cbn [negb andb]. rewrite go_bare_paren. norm_render. rewrite render_sep. repeat rewrite sappend_assoc. rewrite ?append_nil_r. reflexivity.
  - (* local call *) intros f l IHl [Hp Hl] pc ind. rewrite text_ok_args_eq in Hl. cbn [reify_e pp_tok]. rewrite reify_args_eq.
    destruct (reify_args en pc l) as [ns pa] eqn:Er. unfold gen_lingo in *. cbn [gen_lingo_sp].
    rewrite (gv_none_l _ _ Hp). cbn [set_last].
    pose proof (list_strs en l IHl Hl pc ind) as E. unfold gen_lingo in E. rewrite Er in E. cbn [fst] in E. rewrite E.
    unfold lingo_plain_call in Hp. apply andb_true_iff in Hp. destruct Hp as [Hs _]. apply negb_true_iff in Hs.
    destruct l as [|x l'].
    + cbn [reify_args] in Er. injection Er as <- <-. cbn [rev]. norm_render. reflexivity.
    + destruct (rev ns) as [|n0 nr] eqn:En.
      { exfalso. apply (f_equal (@length node)) in En. rewrite rev_length in En.
        pose proof (reify_args_len en (x :: l') pc) as HL. rewrite Er in HL. cbn [fst length] in *. lia. }
      rewrite Hs. cbn [negb andb]. rewrite go_bare_paren. norm_render. rewrite render_sep. repeat rewrite sappend_assoc. rewrite ?append_nil_r. reflexivity.
  - (* list *) intros l IHl Hl pc ind. cbn [text_ok] in Hl. rewrite text_ok_args_eq in Hl. cbn [reify_e pp_tok]. rewrite reify_args_eq.
    destruct (reify_args en pc l) as [ns pa] eqn:Er. unfold gen_lingo in *. cbn [gen_lingo_sp].
    pose proof (list_strs en l IHl Hl pc ind) as E. unfold gen_lingo in E. rewrite Er in E. cbn [fst] in E. rewrite E.
    norm_render. rewrite render_sep. repeat rewrite sappend_assoc. rewrite ?append_nil_r. reflexivity.
  - (* property list *) intros l IHl [Hev Hl] pc ind. rewrite text_ok_args_eq in Hl. cbn [reify_e pp_tok]. rewrite reify_args_eq.
    destruct (reify_args en pc l) as [ns pa] eqn:Er.
    pose proof (IHl Hl pc ind) as E. rewrite Er in E. cbn [fst] in E.
    destruct l as [|x l'].
    + cbn [reify_args] in Er. injection Er as <- <-. reflexivity.
    + assert (Hlen : length ns = length (x :: l')) by (pose proof (reify_args_len en (x :: l') pc) as HL; rewrite Er in HL; exact HL).
      assert (Hne : rev ns <> []).
      { intros En. apply (f_equal (@length node)) in En. rewrite rev_length in En. cbn [length] in *. lia. }
      unfold gen_lingo. rewrite (gen_lingo_todict _ _ _ _ _ _ Hne). rewrite map_rev. unfold gen_lingo in E. rewrite E.
      rewrite goR_rev by (rewrite map_length; exact Hev).
      norm_render. rewrite render_sep, render_pairs_F. rewrite map_map. repeat rewrite sappend_assoc. rewrite ?append_nil_r. reflexivity.
  - (* the <property> of <object> *) intros f pid x IHx Hx pc ind. cbn [text_ok] in Hx. cbn [reify_e pp_tok].
    pose proof (ident_text en pc x IHx Hx) as Hid. pose proof (IHx Hx pc) as Hg.
    destruct f; cbn [obj_node raw_fam fclass].
    + erewrite accessor_text; [|apply Hid|reflexivity..]. norm_render. reflexivity.
    + erewrite accessor_text; [|apply Hid|reflexivity..]. norm_render. reflexivity.
    + erewrite accessor_text; [|apply Hid|reflexivity..]. norm_render. reflexivity.
    + erewrite accessor_text; [|apply Hid|reflexivity..]. norm_render. reflexivity.
    + erewrite accessor_text; [|apply unary_text; [apply Hg|reflexivity]|reflexivity..]. norm_render. reflexivity.
    + erewrite ustrop_some_text; [|apply Hg]. norm_render. reflexivity.
    + erewrite ustrop_some_text; [|apply Hg]. norm_render. reflexivity.
    + erewrite ustrop_none_text; [|apply Hid]. norm_render. reflexivity.
    + erewrite ustrop_none_text; [|apply menuitems_text; apply Hid]. norm_render. reflexivity.
  - (* the <property> of menuItem <id> of menu <id> *) intros pid it mn IHi IHm [Hi Hm] pc ind. cbn [reify_e pp_tok].
    erewrite accessor_text; [|apply menuitem_text; [apply (ident_text en _ mn IHm Hm)|apply (ident_text en pc it IHi Hi)]|reflexivity..].
    norm_render. reflexivity.
  - (* the <special / date-time / system property> *) intros k i Hok pc ind. cbn [reify_e pp_tok]. norm_render.
    destruct k; cbn [the_node the_table text_ok] in *; try reflexivity.
    { erewrite accessor_text_own; [reflexivity | reflexivity | | exact Hok].
      destruct (assoc_or (nth i (map fst SYSTEM_PROPERTIES) "") SYSTEM_PROPERTIES) as [|c r]; [discriminate Hok|].
      unfold starts_with in Hok. cbn [prefix] in Hok.
      match type of Hok with (if Ascii.ascii_dec ?a c then _ else _) = _ => destruct (Ascii.ascii_dec a c) as [<-|] end; [reflexivity|discriminate Hok]. }
    destruct (String.eqb (nth i NUM_OF_TYPES "") "perFrameHook"); reflexivity.
  - (* the <name> *) intros n _ pc ind. cbn [reify_e pp_tok]. norm_render. unfold the_name_node, the_name_text.
    destruct (assoc_str (nm en n) ASSIGN_KNOWN_PROPERTIES) as [o|]; reflexivity.
  - (* the <name> of <expression> *) intros n x IHx [Hx Hp] pc ind. cbn [reify_e pp_tok].
    unfold acc_plain in Hp. apply andb_true_iff in Hp. destruct Hp as [Hp H3]. apply andb_true_iff in Hp. destruct Hp as [H1 H2].
    apply negb_true_iff in H1. apply negb_true_iff in H2. apply negb_true_iff in H3.
    erewrite accessor_text; [| apply (IHx Hx) | exact H1 | exact H2 | exact H3]. norm_render. reflexivity.
  - (* the <key property> *) intros n _ pc ind. cbn [reify_e pp_tok]. norm_render. reflexivity.
  - (* field *) intros x IHx Hx pc ind. cbn [reify_e pp_tok]. unfold gen_lingo in *. cbn [gen_lingo_sp]. rewrite (IHx Hx).
    change (String.eqb "field" "minus") with false. cbn iota. norm_render. reflexivity.
  - intros _ pc ind. reflexivity.
  - intros x l IHx IHl [Hx Hl] pc ind. cbn [reify_args]. destruct (reify_args en (pc + zlen (compile_e x)) l) as [ns pa] eqn:Er.
    cbn [fst map]. rewrite (IHx Hx). specialize (IHl Hl (pc + zlen (compile_e x))%Z ind). rewrite Er in IHl. cbn [fst] in IHl. rewrite IHl. reflexivity.
Qed.
Print Assumptions gen_lingo_is_render.

(* ---- statement lines ---- *)
Definition target_text (en : env) (props : list string) (t : target) : string :=
  match t with
  | TLoc i => name_of (nth i (e_locals en) (Leaf KLocal "" 0 true))
  | TPar i => name_of (nth i (e_params en) (Leaf KParam "" 0 true))
  | TGlob n => nm en n
  | TProp n | TByName n => if mem_str (nm en n) props || mem_str (nm en n) VARIABLE_KNOWN_SYMBOLS then nm en n else ("the " ++ nm en n)%string
  end.
(* the canonical Lingo line of a statement (without indentation and line end) *)
Definition stmt_text (en : env) (props : list string) (s : stmt) : string :=
  match s with
  | SSet t e => ("set " ++ target_text en props t ++ " = " ++ render en (pp_tok en e))%string
  | SCallS f args =>
    match args with
    | [] => nm en f
    | _ => (nm en f ++ " " ++ join ", " (map (fun e => render en (pp_tok en e)) args))%string
    end
  | SLCallS f args =>
    match args with
    | [] => nth f (e_lfuncs en) ""
    | _ => (nth f (e_lfuncs en) "" ++ " " ++ join ", " (map (fun e => render en (pp_tok en e)) args))%string
    end
  | SSetObj f pid o v =>
    ("set the " ++ nth pid (ftable f) "" ++ " of " ++ lingo_leaf_obj (fclass f) (render en (raw_or o (pp_tok en o))) ++
     " = " ++ render en (pp_tok en v))%string
  | SSetThe k i v => ("set " ++ render en (pp_tok en (EThe k i)) ++ " = " ++ render en (pp_tok en v))%string
  | SSetAcc n o v => ("set " ++ render en (pp_tok en (EAcc n o)) ++ " = " ++ render en (pp_tok en v))%string
  | SSetMenu pid it mn v => ("set " ++ render en (pp_tok en (EMenu pid it mn)) ++ " = " ++ render en (pp_tok en v))%string
  | SExit => "exit"%string
  | SPutField md f v => ("put " ++ render en (pp_tok en v) ++ " " ++ pname md ++ " field " ++ render en (pp_tok en f))%string
  | SPutLoc md i v => ("put " ++ render en (pp_tok en v) ++ " " ++ pname md ++ " " ++ name_of (nth i (e_locals en) (Leaf KLocal "" 0 true)))%string
  end.

Definition leaf_like (k : lclass) (n : node) : Prop := match n with Leaf k' _ _ _ => k' = k | _ => False end.
Definition text_ok_s (en : env) (props : list string) (s : stmt) : Prop :=
  match s with
  | SSet t e =>
    text_ok en e /\ starts_with "field(" (target_text en props t) = false /\
    match t with
    | TLoc i => leaf_like KLocal (nth i (e_locals en) (Leaf KLocal "" 0 true))
    | TPar i => leaf_like KParam (nth i (e_params en) (Leaf KParam "" 0 true))
    | _ => True
    end
  (* go is a family of its own: go loop / go next / go previous write their symbol bare *)
  | SCallS f args => (lingo_plain_call (nm en f) = true /\ String.eqb (nm en f) "go" = false) /\ text_ok_args en args
  | SLCallS f args => (lingo_plain_call (nth f (e_lfuncs en) "") = true /\ String.eqb (nth f (e_lfuncs en) "") "go" = false) /\ text_ok_args en args
  | SSetObj f _ o v => assignable f = true /\ text_ok en o /\ text_ok en v
  | SSetThe k i v => text_ok en (EThe k i) /\ starts_with "field(" (render en (pp_tok en (EThe k i))) = false /\ text_ok en v
  | SSetAcc n o v => text_ok en (EAcc n o) /\ text_ok en v
  | SSetMenu pid it mn v => text_ok en (EMenu pid it mn) /\ text_ok en v
  | SExit => True
  | SPutField _ f v => text_ok en f /\ text_ok en v
  | SPutLoc _ i v => leaf_like KLocal (nth i (e_locals en) (Leaf KLocal "" 0 true)) /\ text_ok en v
  end.

Lemma args_text en l : text_ok_args en l -> forall pc ind,
  map (fun n => gen_lingo n ind) (fst (reify_args en pc l)) = map (fun e => render en (pp_tok en e)) l.
Proof.
  induction l as [|x l IH]; intros Hok pc ind; [reflexivity|]. destruct Hok as [Hx Hl]. cbn [reify_args].
  destruct (reify_args en (pc + zlen (compile_e x))%Z l) as [ns pa] eqn:Er. cbn [fst map].
  rewrite (gen_lingo_is_render en x Hx). specialize (IH Hl (pc + zlen (compile_e x))%Z ind). rewrite Er in IH. cbn [fst] in IH.
  rewrite IH. reflexivity.
Qed.

Lemma assign_line p p2 l r ind ls rs : gen_lingo l ind = ls -> gen_lingo r ind = rs -> starts_with "field(" ls = false ->
  gen_lingo (Stmt p (Binary "assign" p2 l r)) ind = (indent ind ++ ("set " ++ ls ++ " = " ++ rs) ++ "
")%string.
Proof.
  intros E1 E2 Hf. unfold gen_lingo in *. cbn [gen_lingo_sp]. change (String.eqb "assign" "assign") with true. cbn iota.
  rewrite E1, E2, Hf. reflexivity.
Qed.

Theorem stmt_line en props s : text_ok_s en props s -> forall pc ind,
  gen_lingo (reify_s en props pc s) ind = (indent ind ++ stmt_text en props s ++ "
")%string.
Proof.
  destruct s as [t e|f args|f args|fam pid o v|tk ti tv|an ao av|mp mi mm mv| |pmd pf pv|lmd li lv]; intros Hok pc ind; [| | | | | | |reflexivity| |].
  9:{ destruct Hok as (Hl & Hv). cbn [reify_s stmt_text]. unfold gen_lingo. cbn [gen_lingo_sp].
      pose proof (gen_lingo_is_render en lv Hv pc ind) as E. unfold gen_lingo in E. rewrite E.
      destruct (nth li (e_locals en) (Leaf KLocal "" 0 true)); try contradiction. cbn in Hl. subst k.
      cbn [gen_lingo_sp name_of]. repeat rewrite sappend_assoc. reflexivity. }
  8:{ destruct Hok as (Hf & Hv). cbn [reify_s stmt_text]. unfold gen_lingo. cbn [gen_lingo_sp].
      pose proof (gen_lingo_is_render en pv Hv pc ind) as E. unfold gen_lingo in E. rewrite E.
      pose proof (gen_lingo_is_render en pf Hf (pc + zlen (compile_e pv))%Z ind) as E2. unfold gen_lingo in E2. rewrite E2.
      change (String.eqb "field" "minus") with false. cbn iota. repeat rewrite sappend_assoc. reflexivity. }
  7:{ destruct Hok as (Hk & Hv). cbn [reify_s stmt_text].
      pose proof (gen_lingo_is_render en (EMenu mp mi mm) Hk pc ind) as Hl. cbn [reify_e] in Hl.
      erewrite assign_line; [reflexivity | | apply (gen_lingo_is_render en mv Hv) | ].
      - etransitivity; [|exact Hl]. unfold gen_lingo. cbn [gen_lingo_sp]. reflexivity.
      - cbn [pp_tok]. norm_render. reflexivity. }
  6:{ destruct Hok as (Hk & Hv). cbn [reify_s stmt_text].
      pose proof (gen_lingo_is_render en (EAcc an ao) Hk pc ind) as Hl. cbn [reify_e] in Hl.
      erewrite assign_line; [reflexivity | | apply (gen_lingo_is_render en av Hv) | ].
      - etransitivity; [|exact Hl]. unfold gen_lingo. cbn [gen_lingo_sp]. reflexivity.
      - cbn [pp_tok]. norm_render. reflexivity. }
  5:{ destruct Hok as (Hk & Hf & Hv). cbn [reify_s stmt_text].
      pose proof (gen_lingo_is_render en (EThe tk ti) Hk (pc + zlen (compile_e tv))%Z ind) as Hl. cbn [reify_e] in Hl.
      erewrite assign_line; [reflexivity | exact Hl | apply (gen_lingo_is_render en tv Hv) | exact Hf]. }
  4:{ destruct Hok as (Hfam & Ho & Hv). cbn [reify_s stmt_text].
      pose proof (ident_text en pc o (gen_lingo_is_render en o) Ho) as Hid.
      pose proof (gen_lingo_is_render en v Hv) as Hg.
      destruct fam; try discriminate Hfam; cbn [fclass];
        (etransitivity; [eapply assign_line; [eapply accessor_text; [apply Hid|reflexivity..] | apply Hg | reflexivity] | repeat rewrite sappend_assoc; reflexivity]). }
  - destruct Hok as (He & Hf & Ht). cbn [reify_s stmt_text]. unfold gen_lingo. cbn [gen_lingo_sp].
    change (String.eqb "assign" "assign") with true. cbn iota.
    pose proof (gen_lingo_is_render en e He pc ind) as E. unfold gen_lingo in E. rewrite E.
    assert (Htt : gen_lingo_sp false (target_node en props (pc + zlen (compile_e e))%Z t) ind = target_text en props t).
    { destruct t as [i|i|n|n|n]; cbn [target_node target_text].
      - destruct (nth i (e_locals en) (Leaf KLocal "" 0 true)); try contradiction. cbn in Ht. subst k. reflexivity.
      - destruct (nth i (e_params en) (Leaf KParam "" 0 true)); try contradiction. cbn in Ht. subst k. reflexivity.
      - reflexivity.
      - destruct (mem_str (nm en n) props); [reflexivity|]. cbn [orb gen_lingo_sp].
        destruct (mem_str (nm en n) VARIABLE_KNOWN_SYMBOLS); reflexivity.
      - destruct (mem_str (nm en n) props); [reflexivity|]. cbn [orb gen_lingo_sp].
        destruct (mem_str (nm en n) VARIABLE_KNOWN_SYMBOLS); reflexivity. }
    rewrite Htt, Hf. cbn [andb]. repeat rewrite sappend_assoc. reflexivity.
  - destruct Hok as [[Hp Hgo] Hl]. cbn [reify_s stmt_text]. destruct (reify_args en pc args) as [ns pa] eqn:Er.
    unfold gen_lingo. cbn [gen_lingo_sp]. rewrite (gv_none_l _ _ Hp). cbn [set_last].
    pose proof (args_text en args Hl pc ind) as E. unfold gen_lingo in E. rewrite Er in E. cbn [fst] in E.
    rewrite map_rev, rev_involutive, E.
    unfold lingo_plain_call in Hp. apply andb_true_iff in Hp. destruct Hp as [Hs _]. apply negb_true_iff in Hs.
    destruct args as [|x l'].
    + cbn [reify_args] in Er. injection Er as <- <-. reflexivity.
    + destruct (rev ns) as [|n0 nr] eqn:En.
      { exfalso. apply (f_equal (@length node)) in En. rewrite rev_length in En.
        pose proof (reify_args_len en (x :: l') pc) as HL. rewrite Er in HL. cbn [fst length] in *. lia. }
      rewrite Hs. cbn [negb andb]. unfold go_bare. rewrite Hgo. cbn [andb]. repeat rewrite sappend_assoc. reflexivity.
  - destruct Hok as [[Hp Hgo] Hl]. cbn [reify_s stmt_text]. destruct (reify_args en pc args) as [ns pa] eqn:Er.
    unfold gen_lingo. cbn [gen_lingo_sp]. rewrite (gv_none_l _ _ Hp). cbn [set_last].
    pose proof (args_text en args Hl pc ind) as E. unfold gen_lingo in E. rewrite Er in E. cbn [fst] in E.
    rewrite map_rev, rev_involutive, E.
    unfold lingo_plain_call in Hp. apply andb_true_iff in Hp. destruct Hp as [Hs _]. apply negb_true_iff in Hs.
    destruct args as [|x l'].
    + cbn [reify_args] in Er. injection Er as <- <-. reflexivity.
    + destruct (rev ns) as [|n0 nr] eqn:En.
      { exfalso. apply (f_equal (@length node)) in En. rewrite rev_length in En.
        pose proof (reify_args_len en (x :: l') pc) as HL. rewrite Er in HL. cbn [fst length] in *. lia. }
      rewrite Hs. cbn [negb andb]. unfold go_bare. rewrite Hgo. cbn [andb]. repeat rewrite sappend_assoc. reflexivity.
Qed.
Print Assumptions stmt_line.
