(* C06: the 16-bit decoder (decoder16b.py).  A stored row has two planes of w bytes (upper bytes, then lower bytes of
   the pixels).  A run is written without wrapping: before a token the position is moved to the next plane / next row
   when the token would not fit (adjust16), so the theorem is for encodings whose tokens stay inside a plane (the
   scan-line encodings of the property's quantifier).  Literals wrap at the end of a row, runs leave the position at
   the end of the row until the next token ("lazy" position). *)
From Coq Require Import List ZArith Bool Lia.
From Coq.Strings Require Import Byte.
From DRX Require Import Py.PyBytes Proofs.PyBytesFacts Model.Riff Model.Clut Model.Bitd Proofs.BitdFacts Proofs.BitdRawFacts Proofs.Bitd1Facts Proofs.BmpReadFacts Proofs.Bitd24Facts.
Import ListNotations.
Open Scope Z_scope.

Section Planes.
Variables (w width : Z).
Hypothesis Hw : 0 < w.
Hypothesis Hwidth : width = w * 2.

Let Hwd : 0 < width. Proof. lia. Qed.

(* a piece that stays inside the current row *)
Lemma wr_short l : forall x y cur above, x + zlen l < width -> wr width l x y cur above = (x + zlen l, y, cur ++ l, above).
Proof.
  induction l as [|b l IH]; intros x y cur above Hl.
  - cbn [wr]. change (zlen (@nil byte)) with 0. rewrite Z.add_0_r, app_nil_r. reflexivity.
  - rewrite zlen_cons in *. pose proof (zlen_nonneg l). cbn [wr]. destruct (Z.geb_spec (x + 1) width); [lia|].
    rewrite IH by lia. rewrite <- app_assoc. cbn [app]. f_equal. f_equal. f_equal. lia.
Qed.

(* a full row seen as the lazy position (width, y) is the same buffer as the normal position (0, y - 1) *)
Lemma layout_full y cur above : 0 <= y -> zlen cur = width ->
  zerosZ (width * y) ++ cur ++ above = layout width 0 (y - 1) [] (cur ++ above).
Proof.
  intros Hy Hc. unfold layout. destruct (Z.ltb_spec (y - 1) 0).
  - assert (y = 0) by lia. subst y. rewrite Z.mul_0_r. reflexivity.
  - cbn [app]. rewrite Z.sub_0_r. replace (width * y) with (width * (y - 1) + width) by lia. rewrite zerosZ_add by nia.
    rewrite <- app_assoc. reflexivity.
Qed.

(* a run: n equal bytes from column x on, no wrapping *)
Lemma put_n_paints n : forall a seg b x y v, length seg = n -> zlen a = y * width + x ->
  put_n n (a ++ seg ++ b) x y width v = Ok (a ++ repeat v n ++ b, x + Z.of_nat n).
Proof.
  induction n as [|n IH]; intros a seg b x y v Hl Ha.
  - destruct seg; [|discriminate]. cbn [put_n repeat app]. rewrite Z.add_0_r. reflexivity.
  - destruct seg as [|s seg]; [discriminate|]. cbn [put_n app]. rewrite set_idx_app by lia. cbn [bind].
    replace (a ++ v :: seg ++ b) with ((a ++ [v]) ++ seg ++ b) by (rewrite <- app_assoc; reflexivity).
    rewrite IH; [| cbn in Hl; lia | rewrite zlen_app; change (zlen [v]) with 1; lia].
    cbn [repeat]. rewrite <- app_assoc. cbn [app]. f_equal. f_equal. lia.
Qed.

Lemma put_n_layout n x y cur above v : 0 <= y -> 0 <= x -> zlen cur = x -> x + Z.of_nat n <= width ->
  put_n n (layout width x y cur above) x y width v
  = Ok (zerosZ (width * y) ++ (cur ++ repeat v n) ++ zerosZ (width - x - Z.of_nat n) ++ above, x + Z.of_nat n).
Proof.
  intros Hy Hx Hc Hn. unfold layout. destruct (Z.ltb_spec y 0); [lia|].
  replace (zerosZ (width - x)) with (zerosZ (Z.of_nat n) ++ zerosZ (width - x - Z.of_nat n)).
  2:{ rewrite <- zerosZ_add by lia. f_equal. lia. }
  replace (zerosZ (width * y) ++ cur ++ (zerosZ (Z.of_nat n) ++ zerosZ (width - x - Z.of_nat n)) ++ above)
    with ((zerosZ (width * y) ++ cur) ++ zerosZ (Z.of_nat n) ++ (zerosZ (width - x - Z.of_nat n) ++ above))
    by (repeat rewrite <- app_assoc; reflexivity).
  rewrite put_n_paints; [| unfold zerosZ, zeros; rewrite repeat_length; lia | rewrite zlen_app, zlen_zerosZ by nia; lia].
  repeat rewrite <- app_assoc. reflexivity.
Qed.

(* the position the decoder holds for a normal position (x, y): the same, or - when a run has just filled the row
   above - the end of that row *)
Definition actual (x y xa ya : Z) : Prop := (xa = x /\ ya = y) \/ (x = 0 /\ xa = width /\ ya = y + 1).

(* a token that stays in its plane, from column x *)
Definition fits (x n : Z) : Prop := (x < w -> x + n <= w) /\ x + n <= width.

Lemma adjust_actual x y xa ya n : actual x y xa ya -> 0 <= x < width -> 0 < n -> fits x n ->
  adjust16 xa ya n w width = (x, y).
Proof.
  intros [[-> ->]|(-> & -> & ->)] Hx Hn [Hf1 Hf2]; unfold adjust16.
  - destruct (Z.ltb_spec x w).
    + destruct (Z.gtb_spec (x + n) w); [specialize (Hf1 ltac:(lia)); lia|]. cbn [andb]. destruct (Z.gtb_spec (x + n) width); [lia|reflexivity].
    + rewrite andb_false_r. destruct (Z.gtb_spec (x + n) width); [lia|reflexivity].
  - destruct (Z.ltb_spec width w); [lia|]. rewrite andb_false_r. destruct (Z.gtb_spec (width + n) width); [|lia].
    f_equal. lia.
Qed.

(* positions of a token list that stays in its planes *)
Fixpoint confined (x : Z) (ts : list tok) : Prop :=
  match ts with
  | [] => True
  | t :: ts' => let n := zlen (dec_tok t) in fits x n /\ confined (if x + n =? width then 0 else x + n) ts'
  end.

Lemma wr_token l x y cur above : 0 <= x < width -> zlen cur = x -> 0 < zlen l -> x + zlen l <= width ->
  wr width l x y cur above = if x + zlen l =? width then (0, y - 1, [], (cur ++ l) ++ above) else (x + zlen l, y, cur ++ l, above).
Proof.
  intros Hx Hc Hl Hf. destruct (Z.eqb_spec (x + zlen l) width).
  - apply (wr_row width); [intros E; rewrite E in Hl; change (zlen (@nil byte)) with 0 in Hl; lia | exact Hc | lia].
  - apply wr_short. lia.
Qed.

(* the token loop: the buffer is the layout of the normal position reached by writing the decoded stream *)
Lemma loop16_tokens ts : forall fuel fp fs x y cur above xa ya,
  Forall wf_tok ts -> confined x ts -> 0 <= x < width -> zlen cur = x -> zlen (dec_toks ts) <= room width x y ->
  actual x y xa ya -> ts <> [] ->
  exists xa' ya',
    let '(x', y', cur', above') := wr width (dec_toks ts) x y cur above in
    actual x' y' xa' ya' /\
    loop16 (length ts + fuel) (fp ++ enc_toks ts ++ fs) (Build_st (layout width x y cur above) xa ya (zlen fp)) w width
    = loop16 fuel (fp ++ enc_toks ts ++ fs) (Build_st (layout width x' y' cur' above') xa' ya' (zlen fp + zlen (enc_toks ts))) w width.
Proof.
  induction ts as [|t ts IH]; intros fuel fp fs x y cur above xa ya Hwf Hcf Hx Hc Hr Hact Hne; [congruence|].
  pose proof (Forall_inv Hwf) as Ht. pose proof (Forall_inv_tail Hwf) as Hts.
  cbn [confined] in Hcf. destruct Hcf as [Hfit Hcf'].
  unfold enc_toks, dec_toks in *. cbn [map concat] in *. fold (enc_toks ts) in *. fold (dec_toks ts) in *.
  rewrite zlen_app in Hr. pose proof (dec_tok_pos t Ht) as Hpos. pose proof (zlen_nonneg (dec_toks ts)) as Hnn.
  pose proof (zlen_nonneg fp). pose proof (zlen_nonneg fs). pose proof (zlen_nonneg (enc_toks ts)).
  assert (Hy : 0 <= y) by (unfold room in Hr; nia).
  assert (Hya : 0 <= ya) by (destruct Hact as [[_ ->]|(_ & _ & ->)]; lia).
  pose proof (wr_token (dec_tok t) x y cur above Hx Hc Hpos (proj2 Hfit)) as Hwt.
  pose proof (wr_facts width Hwd (dec_tok t) x y cur above Hx Hc ltac:(lia)) as Hfacts.
  rewrite wr_app.
  (* the state after this token: normal position, buffer, and the position the decoder holds *)
  assert (Hstep : exists xa1 ya1,
            let '(x1, y1, cur1, ab1) := wr width (dec_tok t) x y cur above in
            actual x1 y1 xa1 ya1 /\
            loop16 (S (length ts + fuel)) (fp ++ enc_tok t ++ (enc_toks ts ++ fs)) (Build_st (layout width x y cur above) xa ya (zlen fp)) w width
            = loop16 (length ts + fuel) (fp ++ enc_tok t ++ (enc_toks ts ++ fs)) (Build_st (layout width x1 y1 cur1 ab1) xa1 ya1 (zlen fp + zlen (enc_tok t))) w width).
  { cbn [loop16 s_idx s_y s_x s_data].
    destruct (Z.geb_spec ya 0); [|lia].
    destruct t as [l|n v]; cbn [wf_tok enc_tok dec_tok] in *.
    - (* literal: wraps as it goes *)
      assert (Hl : 1 <= zlen l <= 128) by (unfold zlen; lia).
      assert (Hlt : zlen fp <? zlen (fp ++ (byte_of_Z (zlen l - 1) :: l) ++ enc_toks ts ++ fs) = true).
      { apply Z.ltb_lt. rewrite !zlen_app, zlen_cons. lia. }
      rewrite Hlt. cbn [andb].
      assert (Eg : get_idx (fp ++ (byte_of_Z (zlen l - 1) :: l) ++ enc_toks ts ++ fs) (zlen fp) = Ok (byte_of_Z (zlen l - 1))).
      { unfold get_idx. cbn [app]. rewrite index_app_at by reflexivity. reflexivity. }
      rewrite Eg. cbn [bind]. rewrite u8_byte_of_Z, Z.mod_small by lia.
      rewrite land128 by lia. destruct (Z.ltb_spec (zlen l - 1) 128); [|lia]. cbn [Z.eqb negb].
      replace (zlen l - 1 + 1) with (zlen l) by lia.
      rewrite (adjust_actual x y xa ya (zlen l) Hact Hx ltac:(lia) Hfit).
      replace (Z.to_nat (zlen l)) with (length l) by (unfold zlen; lia).
      destruct (wr width l x y cur above) as [[[x1 y1] cur1] ab1] eqn:Ewr.
      exists x1, y1. split; [left; split; reflexivity|].
      replace (fp ++ (byte_of_Z (zlen l - 1) :: l) ++ enc_toks ts ++ fs) with ((fp ++ [byte_of_Z (zlen l - 1)]) ++ l ++ (enc_toks ts ++ fs)) at 1
        by (cbn [app]; rewrite <- app_assoc; reflexivity).
      replace (zlen fp + 1) with (zlen (fp ++ [byte_of_Z (zlen l - 1)])) by (rewrite zlen_app; reflexivity).
      rewrite (put_lit_wrap_wr width Hwd l _ _ x y cur above Hx Hc) by lia.
      rewrite Ewr. cbn [bind].
      f_equal. f_equal. unfold zlen. rewrite ?app_length. cbn [length]. lia.
    - (* run: no wrapping, the position may stay at the end of the row *)
      assert (Hn : 2 <= Z.of_nat n <= 129) by lia.
      assert (Hlt : zlen fp <? zlen (fp ++ [byte_of_Z (257 - Z.of_nat n); v] ++ enc_toks ts ++ fs) = true).
      { apply Z.ltb_lt. rewrite !zlen_app. change (zlen [byte_of_Z (257 - Z.of_nat n); v]) with 2. lia. }
      rewrite Hlt. cbn [andb].
      assert (Eg : get_idx (fp ++ [byte_of_Z (257 - Z.of_nat n); v] ++ enc_toks ts ++ fs) (zlen fp) = Ok (byte_of_Z (257 - Z.of_nat n))).
      { unfold get_idx. cbn [app]. rewrite index_app_at by reflexivity. reflexivity. }
      rewrite Eg. cbn [bind]. rewrite u8_byte_of_Z, Z.mod_small by lia.
      rewrite land128 by lia. destruct (Z.ltb_spec (257 - Z.of_nat n) 128); [lia|]. cbn [Z.eqb negb].
      assert (Eg2 : get_idx (fp ++ [byte_of_Z (257 - Z.of_nat n); v] ++ enc_toks ts ++ fs) (zlen fp + 1) = Ok v).
      { unfold get_idx. replace (fp ++ [byte_of_Z (257 - Z.of_nat n); v] ++ enc_toks ts ++ fs) with ((fp ++ [byte_of_Z (257 - Z.of_nat n)]) ++ v :: (enc_toks ts ++ fs))
          by (rewrite <- app_assoc; reflexivity).
        rewrite index_app_at by (rewrite zlen_app; reflexivity). reflexivity. }
      rewrite Eg2. cbn [bind].
      replace (257 - (257 - Z.of_nat n)) with (Z.of_nat n) by lia.
      rewrite zlen_repeat in *.
      rewrite (adjust_actual x y xa ya (Z.of_nat n) Hact Hx ltac:(lia) Hfit). rewrite Nat2Z.id.
      rewrite Hwt. change (zlen [byte_of_Z (257 - Z.of_nat n); v]) with 2.
      assert (Hx0 : 0 <= x) by lia.
      destruct (Z.eqb_spec (x + Z.of_nat n) width) as [Efull|Enot].
      + (* the row is full: lazy position (width, y) *)
        exists width, y. split; [right; repeat split; lia|].
        rewrite (put_n_layout n x y cur above v Hy Hx0 Hc (proj2 Hfit)). cbn [bind].
        replace (width - x - Z.of_nat n) with 0 by lia. change (zerosZ 0) with (@nil byte). cbn [app].
        rewrite (layout_full y (cur ++ repeat v n) above Hy) by (rewrite zlen_app, zlen_repeat; lia).
        rewrite Efull. reflexivity.
      + exists (x + Z.of_nat n), y. split; [left; split; reflexivity|].
        rewrite (put_n_layout n x y cur above v Hy Hx0 Hc (proj2 Hfit)). cbn [bind].
        f_equal. f_equal. unfold layout. destruct (Z.ltb_spec y 0); [lia|].
        replace (width - (x + Z.of_nat n)) with (width - x - Z.of_nat n) by lia. repeat rewrite <- app_assoc. reflexivity. }
  destruct Hstep as (xa1 & ya1 & Hstep).
  replace (fp ++ (enc_tok t ++ enc_toks ts) ++ fs) with (fp ++ enc_tok t ++ (enc_toks ts ++ fs)) by (repeat rewrite <- app_assoc; reflexivity).
  cbn [length Nat.add].
  destruct (wr width (dec_tok t) x y cur above) as [[[x1 y1] cur1] ab1] eqn:E1w.
  destruct Hstep as [Ha1 E1]. destruct Hfacts as (F1 & F2 & F3).
  assert (Hx1 : x1 = if x + zlen (dec_tok t) =? width then 0 else x + zlen (dec_tok t)).
  { destruct (x + zlen (dec_tok t) =? width); injection Hwt as -> _ _ _; reflexivity. }
  rewrite <- Hx1 in Hcf'.
  rewrite E1.
  destruct ts as [|t2 ts'].
  - (* last token *)
    exists xa1, ya1. change (dec_toks []) with (@nil byte). change (enc_toks []) with (@nil byte). cbn [wr length Nat.add].
    split; [exact Ha1|]. rewrite (app_nil_r (enc_tok t)). reflexivity.
  - replace (fp ++ enc_tok t ++ enc_toks (t2 :: ts') ++ fs) with ((fp ++ enc_tok t) ++ enc_toks (t2 :: ts') ++ fs) by (repeat rewrite <- app_assoc; reflexivity).
    replace (zlen fp + zlen (enc_tok t)) with (zlen (fp ++ enc_tok t)) by (rewrite zlen_app; reflexivity).
    destruct (IH fuel (fp ++ enc_tok t) fs x1 y1 cur1 ab1 xa1 ya1 Hts Hcf' F1 F2 ltac:(lia) Ha1 ltac:(discriminate)) as (xa2 & ya2 & H2).
    exists xa2, ya2. destruct (wr width (dec_toks (t2 :: ts')) x1 y1 cur1 ab1) as [[[x2 y2] cur2] ab2].
    destruct H2 as [Ha2 E2]. split; [exact Ha2|]. rewrite E2. f_equal. f_equal. rewrite !zlen_app. lia.
Qed.
End Planes.

(* ---------- the planes of a row, interleaved ---------- *)
(* stored row: upper bytes (w), then lower bytes (w); a BMP pixel is little-endian: the byte of the second plane first *)
Definition pixel16 (w : Z) (r : bytes) (x : Z) : bytes := [nth (Z.to_nat (w + x)) r x00; nth (Z.to_nat x) r x00].
Definition out_row16 (w : Z) (r : bytes) : bytes :=
  concat (map (pixel16 w r) (zrange (Z.to_nat w))) ++ zeros (Z.to_nat (row_stride (w * 2) - w * 2)).

Lemma mix16_rows w (R : list (list byte)) : 0 <= w -> Forall (fun r => zlen r = w * 2) R ->
  mix16 (concat R) w (zlen R) = Ok (concat (map (out_row16 w) R)).
Proof.
  intros Hw Hall. unfold mix16. unfold zlen at 1. rewrite Nat2Z.id.
  etransitivity; [apply (collect_ext _ (fun y => Ok (out_row16 w (nth (Z.to_nat y) R []))))|].
  - intros y Hy. apply in_zrange in Hy.
    assert (E : collect (map (fun x => let! u := get_idx (concat R) (y * (w * 2) + w + x) in
                                       let! l := get_idx (concat R) (y * (w * 2) + x) in Ok [u; l]) (zrange (Z.to_nat w)))
                = Ok (concat (map (pixel16 w (nth (Z.to_nat y) R [])) (zrange (Z.to_nat w))))).
    { etransitivity; [apply (collect_ext _ (fun x => Ok (pixel16 w (nth (Z.to_nat y) R []) x)))|apply collect_ok].
      intros x Hx. apply in_zrange in Hx. rewrite Z2Nat.id in Hx by lia.
      replace (y * (w * 2) + w + x) with (y * (w * 2) + (w + x)) by lia.
      rewrite !(get_idx_rows (w * 2) R y) by (try assumption; unfold zlen; lia). reflexivity. }
    rewrite E. reflexivity.
  - etransitivity; [apply (collect_ok (fun y => out_row16 w (nth (Z.to_nat y) R [])))|].
    f_equal. f_equal. apply (map_zrange_nth (out_row16 w) []).
Qed.

(* ---------- the whole 16-bit image ---------- *)
Theorem compressed16_pixels w h ts rows :
  0 < w -> Forall wf_tok ts -> confined w (w * 2) 0 ts -> dec_toks ts = concat rows ->
  Forall (fun r => zlen r = w * 2) rows -> zlen rows = h ->
  decode_compressed16 (enc_toks ts) w h (w * 2) = Ok (concat (map (out_row16 w) (rev rows))).
Proof.
  intros Hw Hwf Hcf Hdec Hall Hh. unfold decode_compressed16.
  pose proof (zlen_nonneg rows) as Hrn.
  unfold bytearray. destruct (Z.ltb_spec (w * 2 * h) 0); [nia|]. cbn [bind].
  assert (Hs : zlen (dec_toks ts) = w * 2 * h) by (rewrite Hdec, (zlen_concat_rows (w * 2) rows Hall); lia).
  destruct (Z.eq_dec h 0) as [Hh0|Hh0].
  - assert (rows = []) by (apply zlen_le0_nil; lia). subst rows. cbn [concat] in Hdec.
    assert (ts = []).
    { destruct ts as [|t ts']; [reflexivity|]. exfalso. unfold dec_toks in Hs. cbn [map concat] in Hs. rewrite zlen_app in Hs.
      pose proof (dec_tok_pos t (Forall_inv Hwf)). pose proof (zlen_nonneg (concat (map dec_tok ts'))). lia. }
    subst ts h. rewrite Hh0. cbn. reflexivity.
  - assert (Hne : ts <> []).
    { intros ->. change (zlen (dec_toks [])) with 0 in Hs. nia. }
    assert (Hn : (length ts <= length (enc_toks ts))%nat).
    { clear - Hwf. induction Hwf as [|t ts Ht _ IHt]; [cbn; lia|]. unfold enc_toks in *. cbn [map concat]. rewrite app_length. cbn [length].
      destruct t as [l|n v]; cbn [enc_tok length wf_tok] in *; lia. }
    replace (S (length (enc_toks ts))) with (length ts + S (length (enc_toks ts) - length ts))%nat by lia.
    assert (Hw2 : 0 < w * 2) by lia.
    replace (zeros (Z.to_nat (w * 2 * h))) with (layout (w * 2) 0 (h - 1) [] []).
    2:{ unfold layout. destruct (Z.ltb_spec (h - 1) 0); [lia|]. cbn [app]. rewrite app_nil_r, Z.sub_0_r.
        rewrite <- zerosZ_add by nia. unfold zerosZ. f_equal. f_equal. lia. }
    assert (Hx0 : 0 <= 0 < w * 2) by lia.
    assert (Hroom : zlen (dec_toks ts) <= room (w * 2) 0 (h - 1)) by (unfold room; rewrite Hs; lia).
    destruct (loop16_tokens w (w * 2) Hw eq_refl ts (S (length (enc_toks ts) - length ts)) [] [] 0 (h - 1) [] [] 0 (h - 1)
                Hwf Hcf Hx0 eq_refl Hroom (or_introl (conj eq_refl eq_refl)) Hne) as (xa & ya & Hl).
    rewrite Hdec, (wr_rows (w * 2) Hw2 rows (h - 1) [] Hall) in Hl. destruct Hl as [Hact El].
    cbn [app] in El. rewrite app_nil_r in El. change (zlen (@nil byte)) with 0 in El. rewrite El.
    (* all the input is consumed: the loop stops *)
    assert (Estop : forall fuel s, s_idx s = zlen (enc_toks ts) -> loop16 fuel (enc_toks ts) s w (w * 2) = Ok s).
    { intros fuel s E. destruct fuel; cbn [loop16]; rewrite E, Z.ltb_irrefl; reflexivity. }
    rewrite Estop by reflexivity. cbn [bind s_data].
    replace (h - 1 - zlen rows) with (-1) by lia. unfold layout. cbn [Z.ltb Z.compare]. rewrite app_nil_r.
    assert (Hrl : zlen (rev rows) = h) by (unfold zlen in *; rewrite rev_length; exact Hh).
    rewrite <- Hrl. apply mix16_rows; [lia|]. apply Forall_rev. exact Hall.
Qed.

Theorem compressed16_encoding_independent w h ts1 ts2 rows :
  0 < w -> Forall wf_tok ts1 -> Forall wf_tok ts2 -> confined w (w * 2) 0 ts1 -> confined w (w * 2) 0 ts2 ->
  dec_toks ts1 = concat rows -> dec_toks ts2 = concat rows ->
  Forall (fun r => zlen r = w * 2) rows -> zlen rows = h ->
  decode_compressed16 (enc_toks ts1) w h (w * 2) = decode_compressed16 (enc_toks ts2) w h (w * 2).
Proof. intros. rewrite (compressed16_pixels w h ts1 rows), (compressed16_pixels w h ts2 rows) by assumption. reflexivity. Qed.
