(* C10: no modelled walker runs out of its fuel, whatever the input bytes are. *)
From Coq Require Import List ZArith Bool Lia.
From Coq.Strings Require Import Byte.
From DRX Require Import Py.PyBytes Py.Layout Proofs.PyBytesFacts Model.Riff Model.Index Model.Snd Model.Clut.
Import ListNotations.
Open Scope Z_scope.

(* ---------- reading succeeds only inside the data ---------- *)
Lemma zlen_slice {A} (d : list A) a b : 0 <= a -> a <= b ->
  zlen (slice d a b) = Z.min b (zlen d) - Z.min a (zlen d).
Proof.
  intros Ha Hab. unfold slice, norm_idx. pose proof (zlen_nonneg d).
  destruct (Z.ltb_spec a 0); [lia|]. destruct (Z.ltb_spec b 0); [lia|].
  unfold zlen at 1. rewrite firstn_length, skipn_length. unfold zlen in *. lia.
Qed.

Lemma rd_s_ok_bound n bo d a v : rd_s n bo d a = Ok v -> 0 <= a -> (0 < n)%nat -> a + Z.of_nat n <= zlen d.
Proof.
  unfold rd_s, of_option, unpack_s. intros H Ha Hn.
  destruct (Nat.eqb_spec (length (slice d a (a + Z.of_nat n))) n) as [E|]; [|discriminate].
  pose proof (zlen_slice d a (a + Z.of_nat n) Ha ltac:(lia)) as Z. unfold zlen at 1 in Z. rewrite E in Z.
  pose proof (zlen_nonneg d). lia.
Qed.
Lemma rd_u_ok_bound n bo d a v : rd_u n bo d a = Ok v -> 0 <= a -> (0 < n)%nat -> a + Z.of_nat n <= zlen d.
Proof.
  unfold rd_u, of_option, unpack_u. intros H Ha Hn.
  destruct (Nat.eqb_spec (length (slice d a (a + Z.of_nat n))) n) as [E|]; [|discriminate].
  pose proof (zlen_slice d a (a + Z.of_nat n) Ha ltac:(lia)) as Z. unfold zlen at 1 in Z. rewrite E in Z.
  pose proof (zlen_nonneg d). lia.
Qed.
Lemma index_some_bound {A} (d : list A) i x : index d i = Some x -> 0 <= i -> i < zlen d.
Proof.
  unfold index. intros H Hi. destruct (Z.ltb_spec i 0); [lia|].
  destruct (Z.ltb_spec i 0); [lia|]. destruct (Z.leb_spec (zlen d) i); [discriminate|lia].
Qed.

Lemma bind_oof {A B} (r : result A) (f : A -> result B) :
  bind r f = OutOfFuel -> r = OutOfFuel \/ exists a, r = Ok a /\ f a = OutOfFuel.
Proof. destruct r as [a|e|]; cbn [bind]; intros H; [right; eauto | discriminate | left; reflexivity]. Qed.

(* ---------- container ---------- *)
Lemma parse_chunk_not_oof d p bo : parse_chunk d p bo <> OutOfFuel.
Proof.
  unfold parse_chunk, parse_chunk_id. destruct (Nat.eqb _ 4); cbn [bind]; [|discriminate].
  unfold rd_s, of_option. destruct (unpack_s _ _ _); cbn [bind]; discriminate.
Qed.

Lemma walk_not_oof bo d : forall fuel index, 0 <= index -> (Z.to_nat (zlen d - index) < fuel)%nat ->
  walk fuel d index bo <> OutOfFuel.
Proof.
  induction fuel as [|f IH]; intros index Hi Hf; [lia|]. cbn [walk].
  destruct (Z.ltb_spec index (zlen d)); [|discriminate].
  destruct (parse_chunk d index bo) as [c|e|] eqn:E; cbn [bind]; [|discriminate|exfalso; eapply parse_chunk_not_oof; eassumption].
  pose proof (zlen_nonneg (snd c)). pose proof (Z.mod_pos_bound (zlen (snd c)) 2 ltac:(lia)).
  intros Hoof. apply bind_oof in Hoof. destruct Hoof as [Hoof|(a & _ & Hoof)]; [|discriminate].
  revert Hoof. apply IH; lia.
Qed.

Theorem parse_riff_terminates d offset bo : 0 <= offset -> parse_riff d offset bo <> OutOfFuel.
Proof.
  intros Ho. unfold parse_riff, parse_chunk_id.
  destruct (Nat.eqb _ 4); cbn [bind]; [|discriminate].
  destruct (negb _); [discriminate|].
  unfold rd_s, of_option. destruct (unpack_s _ _ _); cbn [bind]; [|discriminate].
  destruct (Nat.eqb _ 4); cbn [bind]; [|discriminate].
  destruct (negb _); [discriminate|].
  apply walk_not_oof; [lia|]. pose proof (zlen_nonneg d). unfold zlen in *. lia.
Qed.

Lemma bytes_find_bound p d idx : bytes_find p d = Some idx -> (idx <= length d)%nat.
Proof.
  revert idx; induction d as [|x d IH]; intros idx; cbn [bytes_find].
  - destruct (is_prefix p []); [|discriminate]. intros [= <-]. cbn. lia.
  - destruct (is_prefix p (x :: d)); [intros [= <-]; cbn; lia|].
    destruct (bytes_find p d) as [i|]; [|discriminate]. intros [= <-]. specialize (IH i eq_refl). cbn. lia.
Qed.

Lemma find_riff_loop_not_oof : forall fuel content acc, (length content < fuel)%nat ->
  find_riff_loop fuel content acc <> OutOfFuel.
Proof.
  induction fuel as [|f IH]; intros content acc Hf; [lia|]. cbn [find_riff_loop].
  destruct (bytes_find XFIR content) as [idx|] eqn:E; [|discriminate].
  destruct (bytes_eqb _ VM39); [discriminate|].
  apply IH. rewrite !skipn_length.
  (* the match starts inside the content, which is not empty *)
  assert (is_prefix XFIR (skipn idx content) = true).
  { clear - E. revert idx E; induction content as [|x c IHc]; intros idx; cbn [bytes_find].
    - destruct (is_prefix XFIR []) eqn:P; [|discriminate]. intros [= <-]. exact P.
    - destruct (is_prefix XFIR (x :: c)) eqn:P; [intros [= <-]; exact P|].
      destruct (bytes_find XFIR c) as [i|] eqn:F; [|discriminate]. intros [= <-]. cbn [skipn]. apply IHc. reflexivity. }
  destruct (skipn idx content) as [|y r] eqn:S; [discriminate|].
  pose proof (f_equal (@length byte) S) as L. rewrite skipn_length in L. cbn [length] in L. lia.
Qed.
Theorem find_riff_terminates d : find_riff_in_exe d <> OutOfFuel.
Proof. unfold find_riff_in_exe. apply find_riff_loop_not_oof. lia. Qed.

Lemma mmap_resource_not_oof d o bo : parse_mmap_resource d o bo <> OutOfFuel.
Proof.
  unfold parse_mmap_resource, parse_chunk_id. destruct (Nat.eqb _ 4); cbn [bind]; [|discriminate].
  destruct (read_layout bo res_layout d (o + 4)) eqn:E; cbn [bind]; try discriminate.
  exfalso. revert E. unfold res_layout. cbn [read_layout].
  repeat (unfold rd_s at 1, of_option; destruct (unpack_s _ _ _); cbn [bind]; try discriminate).
Qed.

Lemma mmap_entries_not_oof bo d : forall fuel n offset, 0 <= offset -> (Z.to_nat (zlen d - offset) < fuel)%nat ->
  parse_mmap_entries fuel n d offset bo <> OutOfFuel.
Proof.
  induction fuel as [|f IH]; intros n offset Ho Hf; [lia|]. cbn [parse_mmap_entries].
  destruct (n <=? 0); [discriminate|].
  destruct (parse_mmap_resource d offset bo) as [r|e|] eqn:E; cbn [bind]; [|discriminate|exfalso; eapply mmap_resource_not_oof; eassumption].
  assert (Hb : offset + 4 <= zlen d).
  { revert E. unfold parse_mmap_resource, parse_chunk_id.
    destruct (Nat.eqb_spec (length (slice d offset (offset + 4))) 4) as [L|]; cbn [bind]; [|discriminate]. intros _.
    pose proof (zlen_slice d offset (offset + 4) Ho ltac:(lia)) as Z. unfold zlen at 1 in Z. rewrite L in Z.
    pose proof (zlen_nonneg d). lia. }
  intros Hoof. apply bind_oof in Hoof. destruct Hoof as [Hoof|(a & _ & Hoof)]; [|discriminate].
  revert Hoof. apply IH; lia.
Qed.

(* ---------- index tables ---------- *)
Lemma cas_loop_not_oof d : forall fuel indx, 0 <= indx -> (Z.to_nat (zlen d - indx) < fuel)%nat ->
  cas_loop fuel d indx <> OutOfFuel.
Proof.
  induction fuel as [|f IH]; intros indx Hi Hf; [lia|]. cbn [cas_loop].
  destruct (Z.geb_spec (zlen d) (indx + 4)); [|discriminate].
  unfold rd_s, of_option. destruct (unpack_s _ _ _); cbn [bind]; [|discriminate].
  intros Hoof. apply bind_oof in Hoof. destruct Hoof as [Hoof|(a & _ & Hoof)]; [|discriminate].
  revert Hoof. apply IH; lia.
Qed.
Theorem cas_terminates d : parse_cas_file_data d <> OutOfFuel.
Proof. unfold parse_cas_file_data. apply cas_loop_not_oof; [lia|]. pose proof (zlen_nonneg d). unfold zlen in *. lia. Qed.

Lemma key_loop_not_oof bo d : forall fuel n indx m, 0 <= indx -> (Z.to_nat (zlen d - indx) < fuel)%nat ->
  key_loop fuel n bo d indx m <> OutOfFuel.
Proof.
  induction fuel as [|f IH]; intros n indx m Hi Hf; [lia|]. cbn [key_loop].
  destruct (n <=? 0); [discriminate|].
  destruct (rd_s 4 bo d indx) as [a| |] eqn:E1; cbn [bind]; try discriminate.
  2:{ revert E1. unfold rd_s, of_option. destruct (unpack_s _ _ _); discriminate. }
  pose proof (rd_s_ok_bound _ _ _ _ _ E1 Hi ltac:(lia)) as Hb. change (Z.of_nat 4) with 4 in Hb.
  unfold rd_s at 1, of_option. destruct (unpack_s _ _ _); cbn [bind]; [|discriminate].
  unfold parse_chunk_id. destruct (Nat.eqb _ 4); cbn [bind]; [|discriminate].
  apply IH; lia.
Qed.
Theorem key_terminates bo d : parse_key_file_data bo d <> OutOfFuel.
Proof.
  unfold parse_key_file_data.
  repeat (unfold rd_s at 1, of_option; destruct (unpack_s _ _ _); cbn [bind]; [|discriminate]).
  apply key_loop_not_oof; [lia|]. pose proof (zlen_nonneg d). unfold zlen in *. lia.
Qed.

Lemma lnam_loop_not_oof d : forall fuel n indx, 0 <= indx -> (Z.to_nat (zlen d - indx) < fuel)%nat ->
  lnam_loop fuel n d indx <> OutOfFuel.
Proof.
  induction fuel as [|f IH]; intros n indx Hi Hf; [lia|]. cbn [lnam_loop].
  destruct (n <=? 0); [discriminate|].
  destruct (index d indx) as [nb|] eqn:E; cbn [of_option bind]; [|discriminate].
  pose proof (index_some_bound _ _ _ E Hi). pose proof (PyBytesFacts.u8_range nb).
  intros Hoof. apply bind_oof in Hoof. destruct Hoof as [Hoof|(a & _ & Hoof)]; [|discriminate].
  revert Hoof. apply IH; lia.
Qed.

Lemma vwlb_loop_not_oof d mn : forall fuel n indx, 0 <= indx -> (Z.to_nat (zlen d - indx) < fuel)%nat ->
  vwlb_loop fuel n d indx mn <> OutOfFuel.
Proof.
  induction fuel as [|f IH]; intros n indx Hi Hf; [lia|]. cbn [vwlb_loop].
  destruct (n <=? 0); [discriminate|].
  destruct (rd_s 2 Big d indx) as [a| |] eqn:E1; cbn [bind]; try discriminate.
  2:{ revert E1. unfold rd_s, of_option. destruct (unpack_s _ _ _); discriminate. }
  pose proof (rd_s_ok_bound _ _ _ _ _ E1 Hi ltac:(lia)) as Hb. change (Z.of_nat 2) with 2 in Hb.
  repeat (unfold rd_s at 1, of_option; destruct (unpack_s _ _ _); cbn [bind]; [|discriminate]).
  destruct (_ <? _); [discriminate|].
  intros Hoof. apply bind_oof in Hoof. destruct Hoof as [Hoof|(x & _ & Hoof)]; [|discriminate].
  revert Hoof. apply IH; lia.
Qed.
Theorem vwlb_terminates d : parse_vwlb_data d <> OutOfFuel.
Proof.
  unfold parse_vwlb_data. unfold rd_s at 1, of_option. destruct (unpack_s _ _ _); cbn [bind]; [|discriminate].
  apply vwlb_loop_not_oof; [lia|]. pose proof (zlen_nonneg d). unfold zlen in *. lia.
Qed.

(* ---------- palettes ---------- *)
Lemma clut2rgb_loop_not_oof d : forall fuel idx, 0 <= idx -> (Z.to_nat (zlen d - idx) < fuel)%nat ->
  clut2rgb_loop fuel d idx <> OutOfFuel.
Proof.
  induction fuel as [|f IH]; intros idx Hi Hf; [lia|]. cbn [clut2rgb_loop].
  destruct (Z.ltb_spec idx (zlen d)); [|discriminate].
  unfold idx_or_err, of_option.
  destruct (index d idx); cbn [bind]; [|discriminate].
  destruct (index d (idx + 2)); cbn [bind]; [|discriminate].
  destruct (index d (idx + 4)); cbn [bind]; [|discriminate].
  intros Hoof. apply bind_oof in Hoof. destruct Hoof as [Hoof|(x & _ & Hoof)]; [|discriminate].
  revert Hoof. apply IH; lia.
Qed.
Theorem clut2rgb_terminates d : clut2rgb d <> OutOfFuel.
Proof. unfold clut2rgb. apply clut2rgb_loop_not_oof; [lia|]. pose proof (zlen_nonneg d). unfold zlen in *. lia. Qed.
Theorem clut2palette_terminates d : clut2palette d <> OutOfFuel.
Proof.
  unfold clut2palette. generalize 256%nat 0. induction n as [|n IH]; intros idx; cbn [clut2palette_loop]; [discriminate|].
  unfold idx_or_err, of_option.
  destruct (index d idx); cbn [bind]; [|discriminate].
  destruct (index d (idx + 2)); cbn [bind]; [|discriminate].
  destruct (index d (idx + 4)); cbn [bind]; [|discriminate].
  intros Hoof. apply bind_oof in Hoof. destruct Hoof as [Hoof|(x & _ & Hoof)]; [|discriminate].
  revert Hoof. apply IH.
Qed.

Theorem lnam_terminates d : parse_lnam_file_data d <> OutOfFuel.
Proof.
  unfold parse_lnam_file_data.
  destruct (read_layout Big _ d 0) eqn:E; cbn [bind]; try discriminate.
  - destruct (negb _); [discriminate|]. apply lnam_loop_not_oof; [lia|]. pose proof (zlen_nonneg d). unfold zlen in *. lia.
  - exfalso. revert E. cbn [read_layout].
    repeat (unfold rd_s at 1, of_option; destruct (unpack_s _ _ _); cbn [bind]; try discriminate).
Qed.

(* ---------- sound ---------- *)
Lemma cmd_loop_not_oof d : forall fuel n idx, 0 <= idx -> (Z.to_nat (zlen d - idx) < fuel)%nat ->
  cmd_loop fuel n d idx <> OutOfFuel.
Proof.
  induction fuel as [|f IH]; intros n idx Hi Hf; [lia|]. cbn [cmd_loop].
  destruct (n <=? 0); [discriminate|].
  destruct (rd_s 2 Big d idx) as [a| |] eqn:E1; cbn [bind]; try discriminate.
  2:{ revert E1. unfold rd_s, of_option. destruct (unpack_s _ _ _); discriminate. }
  pose proof (rd_s_ok_bound _ _ _ _ _ E1 Hi ltac:(lia)) as Hb. change (Z.of_nat 2) with 2 in Hb.
  repeat (unfold rd_s at 1, of_option; destruct (unpack_s _ _ _); cbn [bind]; [|discriminate]).
  intros Hoof. apply bind_oof in Hoof. destruct Hoof as [Hoof|(x & _ & Hoof)]; [|discriminate].
  revert Hoof. apply IH; lia.
Qed.
Lemma dt_loop_not_oof d : forall fuel n idx, 0 <= idx -> (Z.to_nat (zlen d - idx) < fuel)%nat ->
  match dt_loop fuel n d idx with OutOfFuel => False | Ok i => idx <= i | Err _ => True end.
Proof.
  induction fuel as [|f IH]; intros n idx Hi Hf; [lia|]. cbn [dt_loop].
  destruct (n <=? 0); [lia|].
  destruct (rd_s 2 Big d idx) as [a| |] eqn:E1; cbn [bind]; try exact I.
  2:{ revert E1. unfold rd_s, of_option. destruct (unpack_s _ _ _); discriminate. }
  pose proof (rd_s_ok_bound _ _ _ _ _ E1 Hi ltac:(lia)) as Hb. change (Z.of_nat 2) with 2 in Hb.
  unfold rd_s at 1, of_option; destruct (unpack_s _ _ _); cbn [bind]; [|exact I].
  specialize (IH (n - 1) (idx + 6) ltac:(lia) ltac:(lia)).
  destruct (dt_loop f (n - 1) d (idx + 6)); [lia | exact I | exact IH].
Qed.
Theorem snd_header_terminates d : parse_snd_fmt d <> OutOfFuel.
Proof.
  unfold parse_snd_fmt, parse_snd_commands. pose proof (zlen_nonneg d) as Hn.
  unfold rd_s at 1, of_option; destruct (unpack_s _ _ _); cbn [bind]; [|discriminate].
  destruct (z =? 1).
  - unfold rd_s at 1, of_option; destruct (unpack_s _ _ _); cbn [bind]; [|discriminate].
    pose proof (dt_loop_not_oof d (S (length d)) z0 4 ltac:(lia) ltac:(unfold zlen in *; lia)) as D.
    destruct (dt_loop (S (length d)) z0 d 4) as [i|e|]; cbn [bind]; [|discriminate|contradiction].
    destruct (rd_s 2 Big d i) as [a| |] eqn:E1; cbn [bind]; try discriminate.
    2:{ revert E1. unfold rd_s, of_option. destruct (unpack_s _ _ _); discriminate. }
    apply cmd_loop_not_oof; [lia|unfold zlen in *; lia].
  - destruct (z =? 2); [|discriminate].
    unfold rd_s at 1, of_option; destruct (unpack_s _ _ _); cbn [bind]; [|discriminate].
    unfold rd_s at 1, of_option; destruct (unpack_s _ _ _); cbn [bind]; [|discriminate].
    apply cmd_loop_not_oof; [lia|unfold zlen in *; lia].
Qed.

(* ---------- marker list: the names handed out are consecutive pieces of the input ---------- *)
(* total size of the decoded names; with name offsets in order (checked by the parser since the repair of the
   quadratic-output finding) it stays within three times the input length, however the offsets are chosen:
   the pieces are consecutive, so their lengths telescope under the potential [phi] *)
Definition names_total (ms : list (bytes * Z)) : Z := fold_right (fun m acc => zlen (fst m) + acc) 0 ms.

Definition phi (len t : Z) : Z := norm_idx len t + (if t <? 0 then 0 else 2 * len).
Lemma phi_range len t : 0 <= len -> 0 <= phi len t <= 3 * len.
Proof. intros H. unfold phi, norm_idx. destruct (Z.ltb_spec t 0); lia. Qed.
Lemma zlen_slice_phi (d : bytes) a b : a <= b -> zlen (slice d a b) <= phi (zlen d) b - phi (zlen d) a.
Proof.
  intros Hab. pose proof (zlen_nonneg d) as Hd. unfold slice, phi.
  set (len := zlen d) in *.
  assert (Hl : zlen (firstn (Z.to_nat (norm_idx len b - norm_idx len a)) (skipn (Z.to_nat (norm_idx len a)) d))
               = Z.max 0 (Z.min (norm_idx len b - norm_idx len a) (len - norm_idx len a))).
  { assert (Ha : 0 <= norm_idx len a <= len) by (unfold norm_idx; destruct (Z.ltb_spec a 0); lia).
    unfold zlen at 1. rewrite firstn_length, skipn_length. fold (zlen d) in *.
    unfold len, zlen in *. lia. }
  rewrite Hl. unfold norm_idx. destruct (Z.ltb_spec a 0); destruct (Z.ltb_spec b 0); lia.
Qed.

Lemma vwlb_loop_total d mn : forall fuel n indx ms,
  vwlb_loop fuel n d indx mn = Ok ms ->
  ms = [] \/ exists s, rd_s 2 Big d (indx + 2) = Ok s /\ names_total ms + phi (zlen d) (mn + s) <= 3 * zlen d.
Proof.
  induction fuel as [|f IH]; intros n indx ms H; cbn [vwlb_loop] in H.
  - destruct (n <=? 0); [injection H as <-; left; reflexivity | discriminate].
  - destruct (n <=? 0); [injection H as <-; left; reflexivity|].
    destruct (rd_s 2 Big d indx) as [frame| |]; cbn [bind] in H; try discriminate.
    destruct (rd_s 2 Big d (indx + 2)) as [s| |] eqn:Es; cbn [bind] in H; try discriminate.
    destruct (rd_s 2 Big d (indx + 6)) as [e| |] eqn:Ee; cbn [bind] in H; try discriminate.
    destruct (Z.ltb_spec e s); [discriminate|].
    destruct (vwlb_loop f (n - 1) d (indx + 4) mn) as [r| |] eqn:Er; cbn [bind] in H; try discriminate.
    injection H as <-. right. exists s. split; [reflexivity|].
    cbn [names_total fold_right fst]. fold (names_total r).
    pose proof (zlen_slice_phi d (mn + s) (mn + e) ltac:(lia)) as Hn.
    pose proof (phi_range (zlen d) (mn + e) (zlen_nonneg d)) as Hp.
    destruct (IH _ _ _ Er) as [->|(s' & Es' & Hr)].
    + cbn [names_total fold_right]. lia.
    + replace (indx + 4 + 2) with (indx + 6) in Es' by lia. rewrite Ee in Es'. injection Es' as <-. lia.
Qed.

Theorem vwlb_output_bounded d ms : parse_vwlb_data d = Ok ms -> names_total ms <= 3 * zlen d.
Proof.
  unfold parse_vwlb_data. destruct (rd_s 2 Big d 0) as [n| |]; cbn [bind]; try discriminate.
  intros H. pose proof (zlen_nonneg d).
  destruct (vwlb_loop_total d _ _ _ _ _ H) as [->|(s & _ & Hs)]; [cbn [names_total fold_right]; lia|].
  pose proof (phi_range (zlen d) (2 + 4 * (n + 1) + s) ltac:(lia)). lia.
Qed.
