From Coq Require Import ZArith List String.
From DRX Require Import Py.PyBytes Py.Val.
From DRX Require Model.ScoreIO Model.RiffIO Model.IndexIO Model.XtractIO Model.SndIO Model.VwscIO Model.ClutIO Model.TextIO Model.CastIO Model.BitdIO Model.DirIO Model.ConstIO Model.LingoIO.
Import ListNotations.
Open Scope string_scope.

Definition table : list (string * (val -> val)) := [
  ("vwsc_to_score", Model.ScoreIO.run_vwsc_to_score);
  ("parse_riff", Model.RiffIO.run_parse_riff);
  ("parse_chunk_id", Model.RiffIO.run_parse_chunk_id);
  ("riff_lookup", Model.RiffIO.run_riff_lookup);
  ("find_riff", Model.RiffIO.run_find_riff);
  ("parse_mmap", Model.RiffIO.run_parse_mmap);
  ("parse_imap", Model.RiffIO.run_parse_imap);
  ("enc_movie", Model.RiffIO.run_enc_movie);
  ("parse_key", Model.IndexIO.run_parse_key);
  ("parse_cas", Model.IndexIO.run_parse_cas);
  ("parse_lctx", Model.IndexIO.run_parse_lctx);
  ("parse_lnam", Model.IndexIO.run_parse_lnam);
  ("parse_vwlb", Model.IndexIO.run_parse_vwlb);
  ("parse_vwcf", Model.IndexIO.run_parse_vwcf);
  ("extract", Model.XtractIO.run_extract);
  ("snd_to_sampled", Model.SndIO.run_snd_to_sampled);
  ("parse_vwsc_file", Model.VwscIO.run_parse_vwsc_file);
  ("clut2palette", Model.ClutIO.run_clut2palette);
  ("clut2rgb", Model.ClutIO.run_clut2rgb);
  ("write_color_palette", Model.ClutIO.run_write_color_palette);
  ("get_palette_name", Model.ClutIO.run_get_palette_name);
  ("parse_stxt", Model.TextIO.run_parse_stxt);
  ("parse_fmap", Model.TextIO.run_parse_fmap);
  ("parse_cast", Model.CastIO.run_parse_cast);
  ("bitd2bmp", Model.BitdIO.run_bitd2bmp);
  ("bitd_history", Model.BitdIO.run_bitd_history);
  ("parse_dir", Model.DirIO.run_parse_dir);
  ("const_string", Model.ConstIO.run_const_string);
  ("const_int", Model.ConstIO.run_const_int);
  ("float80", Model.ConstIO.run_float80);
  ("decompile", Model.LingoIO.run_decompile);
  ("decompile_history", Model.LingoIO.run_decompile_history);
  ("decompile_pair", Model.LingoIO.run_decompile_pair)
].

Fixpoint lookup (n : string) (t : list (string * (val -> val))) : option (val -> val) :=
  match t with [] => None | (k, f) :: r => if String.eqb k n then Some f else lookup n r end.

Definition dispatch (name : string) (v : val) : val :=
  match lookup name table with Some f => f v | None => VL [vstr "nosuchfn"] end.
