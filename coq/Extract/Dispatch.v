From Coq Require Import ZArith List String.
From DRX Require Import Py.PyBytes Py.Val.
From DRX Require Model.ScoreIO.
Import ListNotations.
Open Scope string_scope.

Definition table : list (string * (val -> val)) := [
  ("vwsc_to_score", Model.ScoreIO.run_vwsc_to_score)
].

Fixpoint lookup (n : string) (t : list (string * (val -> val))) : option (val -> val) :=
  match t with [] => None | (k, f) :: r => if String.eqb k n then Some f else lookup n r end.

Definition dispatch (name : string) (v : val) : val :=
  match lookup name table with Some f => f v | None => VL [vstr "nosuchfn"] end.
