From Coq Require Import Extraction ExtrOcamlBasic ExtrOcamlString.
From DRX Require Import Extract.Dispatch.
Extraction Language OCaml.
Extraction "../runner/gen/model.ml" dispatch.
