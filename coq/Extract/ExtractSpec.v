(* extraction of the executable specification side (Spec/SpecIO.v) to runner/gen/spec.ml; a runner of its own
   (runner/specrun), so that the model runner does not depend on the proof files *)
From Coq Require Import Extraction ExtrOcamlBasic ExtrOcamlString.
From DRX Require Import Spec.SpecIO.
Extraction Language OCaml.
Extraction "../runner/gen/spec.ml" dispatch.
