#!/bin/bash
# usage: goal.sh File.v LINE  -- show the proof state after LINE lines
f=$1; n=$2
( head -n $n "$f"; echo; echo "Show." ) | timeout 120 coqtop -Q /verif/coq DRX 2>&1 | grep -v WARNING | tail -${3:-40}
