(* C18 - the extractor writes exactly the designated resources, inside its output folder.
   Statements only; proofs in Proofs/XtractFacts.v.  The model returns the list of (name, content)
   pairs written into bin/, in order; the folder is a finite map. *)
From Coq Require Import List ZArith Bool.
From Coq.Strings Require Import Byte.
From DRX Require Import Py.PyBytes Py.Layout Py.PyStr Model.Riff Proofs.RiffFacts Model.Xtract Proofs.XtractFacts.
Import ListNotations.
Open Scope Z_scope.

(* whatever bytes the movie contains, a file name consists of [A-Za-z0-9._-] only ... *)
Theorem C18_names_safe : forall n id, Forall (fun b => fn_safe b = true) (file_name n id).
Proof. exact file_name_safe. Qed.
(* ... contains no '/', '\', NUL or ':' ... *)
Theorem C18_names_no_separator : forall n id b, In b (file_name n id) ->
  u8 b <> 47 /\ u8 b <> 92 /\ u8 b <> 0 /\ u8 b <> 58.
Proof. exact file_name_no_separator. Qed.
(* ... and starts with a digit, so it is neither "." nor ".." nor empty: a direct child of bin/ *)
Theorem C18_names_start_with_digit : forall n id, 0 <= n ->
  exists d rest, file_name n id = d :: rest /\ 48 <= u8 d <= 57.
Proof. exact file_name_starts_with_digit. Qed.

(* the write list is exactly: one (index.type, payload) per non-ignored resource with size > 0 *)
Theorem C18_writes_exact : forall chunks off rs idx,
  all_designate chunks off rs ->
  exists ws, write_loop chunks off rs idx = (ws, Done) /\
  forall name content, In (name, content) ws <->
    exists i r c, nth_error rs i = Some r /\ extracted r = true /\ designates chunks off r c /\
                  name = file_name (idx + Z.of_nat i) (fst c) /\ content = snd c.
Proof. exact write_loop_exact. Qed.

(* on a well-formed movie the extractor runs that loop over the decoded memory map and chunks (C01) *)
Theorem C18_extract_wellformed : forall bo flen c0 cs' mi mc h rs tail imvals,
  let cs := c0 :: cs' in
  in32 flen -> Forall wf_chunk cs ->
  cc c0 = s_imap -> payload c0 = enc_imap bo imvals -> fits_all imap_layout imvals ->
  (mi < length cs)%nat -> nth mi cs c0 = mc -> getv imvals 1 = offset_of cs mi ->
  cc mc = s_mmap -> payload mc = enc_mmap bo h rs ++ tail ->
  wf_hdr h -> h_used h = zlen rs -> Forall wf_res rs ->
  extract (enc_movie bo flen cs) bo false = write_loop (map view cs) 0 (map view_res rs) 0.
Proof. exact extract_wellformed. Qed.

(* running twice gives the same folder; files not in the write list are untouched *)
Theorem C18_twice_same : forall fs ws name,
  fs_lookup (apply_writes (apply_writes fs ws) ws) name = fs_lookup (apply_writes fs ws) name.
Proof. exact extract_twice_same. Qed.
Theorem C18_others_untouched : forall fs ws name,
  (forall c, ~ In (name, c) ws) -> fs_lookup (apply_writes fs ws) name = fs_lookup fs name.
Proof. exact other_files_untouched. Qed.

(* a written name holds written content whatever the folder held before (earlier revision, leftovers) *)
Theorem C18_written_whatever_was_there : forall fs ws name c0,
  In (name, c0) ws -> exists c, In (name, c) ws /\ fs_lookup (apply_writes fs ws) name = Some c.
Proof. exact written_files_hold_written_content. Qed.
Theorem C18_written_independent_of_earlier_content : forall fs fs' ws name c0,
  In (name, c0) ws -> fs_lookup (apply_writes fs ws) name = fs_lookup (apply_writes fs' ws) name.
Proof. exact written_files_independent_of_earlier_content. Qed.
Example C18_example :
  file_name 12 [".";".";"/";x00]%byte = ["1";"2";".";".";".";"_";"_"]%byte.
Proof. vm_compute. reflexivity. Qed.

Print Assumptions C18_names_safe.
Print Assumptions C18_names_no_separator.
Print Assumptions C18_names_start_with_digit.
Print Assumptions C18_writes_exact.
Print Assumptions C18_extract_wellformed.
Print Assumptions C18_twice_same.
Print Assumptions C18_others_untouched.
Print Assumptions C18_written_whatever_was_there.
Print Assumptions C18_written_independent_of_earlier_content.
