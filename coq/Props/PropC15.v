(* C15 - cast-member records decode to the fields they encode, in both layouts. Statements only;
   proofs in Proofs/CastFacts.v.  enc_d4 / enc_d5 are the two record layouts; the typed header of a
   member is [enc_layout <generated layout> values]; <type>_dict (fld names values) is the field view. *)
From Coq Require Import List ZArith.
From Coq.Strings Require Import Byte.
From DRX Require Import Py.PyBytes Py.Layout Model.Riff Proofs.RiffFacts Model.Vwsc Model.Cast Proofs.CastFacts Gen.Gen_Layouts.
Import ListNotations.
Open Scope Z_scope.

(* both record layouts split into (type, header, info block) and decode alike *)
Theorem C15_d4_decodes : forall t header info,
  0 <= t < 256 -> in16 (zlen header + 1) -> in32 (zlen info) ->
  parse_cast_file_data (enc_d4 t header info) = decode_member t header info.
Proof. exact d4_decodes. Qed.
Theorem C15_d5_decodes : forall t header info,
  0 <= t < 256 -> in32 (zlen header) -> in32 (zlen info) ->
  parse_cast_file_data (enc_d5 t header info) = decode_member t header info.
Proof. exact d5_decodes. Qed.
Theorem C15_layouts_agree : forall t header info,
  0 <= t < 256 -> in16 (zlen header + 1) -> in32 (zlen info) ->
  parse_cast_file_data (enc_d4 t header info) = parse_cast_file_data (enc_d5 t header info).
Proof. exact layouts_agree. Qed.

(* a record whose declared section sizes do not add up to its length is rejected: every mismatch *)
Theorem C15_d4_mismatch : forall d hs asz,
  rd_s 2 Big d 0 = Ok hs -> rd_s 4 Big d 2 = Ok asz -> 6 + hs + asz <> zlen d -> parse_struct_dir4 d = Err EValue.
Proof. exact struct_d4_mismatch. Qed.
Theorem C15_d5_mismatch : forall d t asz hs,
  rd_s 4 Big d 0 = Ok t -> rd_s 4 Big d 4 = Ok asz -> rd_s 4 Big d 8 = Ok hs -> 12 + hs + asz <> zlen d ->
  parse_struct_dir5 d = Err EValue.
Proof. exact struct_d5_mismatch. Qed.

(* typed headers: every field over its full range (fits_all), trailing bytes ignored *)
Theorem C15_bitmap_short : forall vs fill tail, fits_all cast_image_layout vs ->
  lwidth cast_image_layout + zlen tail <= 24 ->
  parse_image (enc_layout Big cast_image_layout vs fill ++ tail) = Ok (image_dict (fld cast_image_names vs) None).
Proof. exact image_header_short. Qed.
Theorem C15_bitmap_extended : forall vs es fill fill2 tail,
  fits_all cast_image_layout vs -> fits_all cast_image_ext_layout es ->
  24 < lwidth cast_image_layout + lwidth cast_image_ext_layout + zlen tail ->
  parse_image (enc_layout Big cast_image_layout vs fill ++ enc_layout Big cast_image_ext_layout es fill2 ++ tail)
  = Ok (image_dict (fld cast_image_names vs) (Some (fld cast_image_ext_names es))).
Proof. exact image_header_extended. Qed.
Theorem C15_field : forall vs fill tail, fits_all cast_field_layout vs ->
  parse_field (enc_layout Big cast_field_layout vs fill ++ tail) = Ok (field_dict (fld cast_field_names vs)).
Proof. exact field_header. Qed.
Theorem C15_button : forall vs fill tail, fits_all cast_button_layout vs ->
  parse_button (enc_layout Big cast_button_layout vs fill ++ tail) = Ok (button_dict (fld cast_button_names vs)).
Proof. exact button_header. Qed.
Theorem C15_shape : forall vs fill tail, fits_all cast_shape_layout vs ->
  parse_shape (enc_layout Big cast_shape_layout vs fill ++ tail) = Ok (shape_dict (fld cast_shape_names vs)).
Proof. exact shape_header. Qed.
Theorem C15_rich_text : forall vs fill tail, fits_all cast_text_layout vs ->
  parse_text (enc_layout Big cast_text_layout vs fill ++ tail) = Ok (text_dict (fld cast_text_names vs)).
Proof. exact text_header. Qed.
Theorem C15_transition : forall vs fill tail, fits_all cast_transition_layout vs ->
  parse_transition (enc_layout Big cast_transition_layout vs fill ++ tail) = Ok (transition_dict (fld cast_transition_names vs)).
Proof. exact transition_header. Qed.

(* the info block: numbers area (any extra numbers), offset table from any base, any number of
   entries incl. empty ones; entry 1 is the pascal-string name *)
Theorem C15_info_roundtrip : forall sk b1 b2 si nums off0 es tail,
  0 <= sk < 256 ^ 4 -> in32 b1 -> in32 b2 -> in32 si -> Forall in32 nums -> in32 (20 + 4 * zlen nums) ->
  in16 (zlen es) -> Forall in32 (offsets_of off0 es) ->
  parse_basic_cast_data (enc_info sk b1 b2 si nums off0 es tail) = Ok (content_of sk b1 b2 si es).
Proof. exact info_roundtrip. Qed.
(* whatever the name bytes are, the reported name only contains [A-Za-z0-9-_. ] *)
Theorem C15_name_safe : forall extra, Forall (fun b => name_safe b = true) (name_of_extra extra).
Proof. exact member_name_safe. Qed.

Example C15_layout_sizes :
  map lwidth [cast_image_layout; cast_image_ext_layout; cast_field_layout; cast_button_layout; cast_shape_layout;
              cast_text_layout; cast_transition_layout] = [23; 4; 29; 31; 18; 22; 6].
Proof. vm_compute. reflexivity. Qed.

Print Assumptions C15_d4_decodes.
Print Assumptions C15_d5_decodes.
Print Assumptions C15_layouts_agree.
Print Assumptions C15_d4_mismatch.
Print Assumptions C15_d5_mismatch.
Print Assumptions C15_bitmap_short.
Print Assumptions C15_bitmap_extended.
Print Assumptions C15_field.
Print Assumptions C15_button.
Print Assumptions C15_shape.
Print Assumptions C15_rich_text.
Print Assumptions C15_transition.
Print Assumptions C15_info_roundtrip.
Print Assumptions C15_name_safe.
