(* C02 - decompiled Lingo denotes the compiled statements and expressions.  Property theorems only. *)
From Coq Require Import ZArith List String.
From DRX Require Import Py.PyBytes Model.LingoAst Model.LingoGen Model.LingoOps Spec.SpecLingo Proofs.LingoExecFacts.
Import ListNotations.
Open Scope Z_scope.

(* Compile / decompile inversion for expressions, unbounded in depth and width: wherever the bytes that
   Director's scheme produces for e sit in the chunk (address a inside the handler's code [off, off+len)),
   the decompiler's instruction loop consumes exactly those bytes and pushes exactly the tree reify_e a e
   (same operators, operand order, variable kinds, literal values, argument order), leaves the rest of the
   stack and the statement list untouched, and records the globals used, in order of first use. *)
Theorem C02_expression_inversion :
  forall en e, wf_e en e ->
  forall d off len a fuel r m,
    agrees en m -> code_at d a (compile_e e) -> off <= a -> a + zlen (compile_e e) <= off + len ->
    exists r', run_ops (ninstr e + fuel) d off len a r m
               = run_ops fuel d off len (a + zlen (compile_e e)) r' (after_e en a e m).
Proof. exact exec_e. Qed.
Print Assumptions C02_expression_inversion.

Theorem C02_expression_whole :
  forall en e d off fuel r m,
    wf_e en e -> agrees en m -> code_at d off (compile_e e) ->
    exists r', run_ops (ninstr e + fuel) d off (zlen (compile_e e)) off r m = Ok (r', after_e en off e m).
Proof. exact exec_whole. Qed.
Print Assumptions C02_expression_whole.
