(* C02 - decompiled Lingo denotes the compiled statements and expressions.  Property theorems only. *)
From Coq Require Import ZArith List String Lia.
From DRX Require Import Py.PyBytes Model.LingoAst Model.LingoGen Model.LingoOps Model.LingoLoop Spec.SpecLingo Spec.SpecText Proofs.LingoExecFacts Proofs.LingoStmtFacts Proofs.LingoTextFacts Proofs.LingoParseFacts.
Import ListNotations.
Open Scope Z_scope.

(* Compile / decompile inversion for expressions, unbounded in depth and width: wherever the bytes that
   Director's scheme produces for e sit in the chunk (address a inside the handler's code [off, off+len)),
   the decompiler's instruction loop consumes exactly those bytes and pushes exactly the tree reify_e a e
   (same operators, operand order, variable kinds, literal values, argument order), leaves the rest of the
   stack and the statement list untouched, and records the globals used, in order of first use. *)
Theorem C02_expression_inversion :
  forall en e, wf_e en e ->
  forall d off len a fuel r m,
    agrees en m -> code_at d a (compile_e e) -> off <= a -> a + zlen (compile_e e) <= off + len ->
    exists r', run_ops (ninstr e + fuel) d off len a r m
               = run_ops fuel d off len (a + zlen (compile_e e)) r' (after_e en a e m).
Proof. exact exec_e. Qed.
Print Assumptions C02_expression_inversion.

(* Since the syntax has  EObj f pid a  ( the <property number pid> of sound / sprite / cast <a> , opcodes 5C 04 / 06 / 09 / 0D:
   the object id, the property number as an integer, the two-byte opcode) and  SSetObj  (its assignment form, 5D ..),
   the two inversion theorems cover the object-property families as well, nested to any depth inside the other
   forms; so do the Lingo-text theorems below (C02_emitted_text_is_canonical, C02_canonical_text_parses_back,
   C02_statement_line) and the JavaScript theorems (PropC04).  Non-vacuity: *)
Example C02_object_property_example :
  let en := Build_env ["x"; "puppet"] [] [Leaf KLocal "i" 0 true] [] [] in
  let e := EObj FSprite 8 (EBin Add (ELoc 0) (EInt 1)) in          (* the height of sprite (i + 1) *)
  wf_e en e /\ compile_e e = [Byte.x4c; Byte.x00; Byte.x41; Byte.x01; Byte.x05; Byte.x41; Byte.x08; Byte.x5c; Byte.x06] /\
  reify_e en 0 e = Accessor 7 (ObjRef KSprite "add" 7 (Binary "add" 4 (Leaf KLocal "i" 0 true) (Leaf KConst "1" 2 true))) "height".
Proof. split; [cbn; repeat split; lia | split; vm_compute; reflexivity]. Qed.

(* the same constructor carries the other one-operand forms of the 5C family (SpecLingo.ofam): the <property> of field <e>,
   the last <chunk> of <e>, the number of <chunk>s in <e>, the name of menu <e>, the number of menuItems of menu <e> *)
Example C02_one_operand_forms_example :
  let en := Build_env [] [] [Leaf KLocal "s" 0 true] [] [] in
  wf_e en (EObj FLast 13 (ELoc 0)) /\ wf_e en (EObj FNumber 4 (ELoc 0)) /\ wf_e en (EObj FField 2 (ELoc 0)) /\
  wf_e en (EObj FMenuItems 2 (EInt 3)) /\
  reify_e en 0 (EObj FLast 13 (ELoc 0)) = UStrOp "last" 4 (Some "word") (Leaf KLocal "s" 0 true) /\         (* the last word of s *)
  reify_e en 0 (EObj FNumber 4 (ELoc 0)) = UStrOp "number" 4 (Some "line") (Leaf KLocal "s" 0 true) /\      (* the number of lines in s *)
  reify_e en 0 (EObj FField 2 (ELoc 0)) = Accessor 4 (Unary "field" 4 (Leaf KLocal "s" 0 true)) "text" /\   (* the text of field s *)
  reify_e en 0 (EObj FMenuItems 2 (EInt 3))
    = UStrOp "number" 4 None (MenuItemsAcc 4 (ObjRef KMenu "3" 4 (Leaf KConst "3" 0 true))).               (* the number of menuItems of menu 3 *)
Proof. repeat split; try (cbn; lia); vm_compute; reflexivity. Qed.

(* ... and  EMenu pid item menu  ( the <property> of menuItem <item> of menu <menu> , opcode 5C 03): the item is compiled
   first, then the menu; the tree names the menu first *)
Example C02_menu_item_property_example :
  let en := Build_env [] [] [Leaf KLocal "i" 0 true] [] [] in
  let e := EMenu 3 (EInt 2) (EBin Add (ELoc 0) (EInt 1)) in          (* the enabled of menuItem 2 of menu (i + 1) *)
  wf_e en e /\
  reify_e en 0 e = Accessor 9 (MenuItemAcc 9 (ObjRef KMenu "add" 9 (Binary "add" 6 (Leaf KLocal "i" 0 true) (Leaf KConst "1" 4 true)))
                                             (ObjRef KMenuItem "2" 9 (Leaf KConst "2" 0 true))) "enabled".
Proof. split; [cbn; repeat split; lia | vm_compute; reflexivity]. Qed.

Theorem C02_expression_whole :
  forall en e d off fuel r m,
    wf_e en e -> agrees en m -> code_at d off (compile_e e) ->
    exists r', run_ops (ninstr e + fuel) d off (zlen (compile_e e)) off r m = Ok (r', after_e en off e m).
Proof. exact exec_whole. Qed.
Print Assumptions C02_expression_whole.

(* Statements: a straight-line handler - any sequence of assignments to locals, parameters, globals and
   properties and of statement-position calls to external and local handlers, followed by the handler's exit
   opcode - decompiles to exactly the reified statement list (same statements, same order, each with its
   target kind and its expression tree), records the globals it uses in order of first use, leaves the stack
   empty, and the control-flow passes (condition_detect, loop_detect) leave that list untouched. *)
Theorem C02_straight_line_handler :
  forall en props l d off fuel r m,
    wf_body en l -> agrees_p en props m -> m_stack m = [] -> f_stmts (m_fn m) = [] ->
    code_at d off (compile_straight l) ->
    let pexit := off + zlen (compile_body l) in
    let sts := reify_body en props off l ++ [Stmt pexit (Call "exit" pexit None true false false)] in
    exists r' m',
      run_ops (fold_right (fun s n => ninstr_s s + n)%nat 0%nat l + (1 + fuel)) d off (zlen (compile_straight l)) off r m = Ok (r', m') /\
      f_stmts (m_fn m') = sts /\ detect sts = Ok sts /\
      f_globals (m_fn m') = add_globals (f_globals (m_fn m)) (globals_body en off l) /\ m_stack m' = [].
Proof. exact straight_handler. Qed.
Print Assumptions C02_straight_line_handler.

(* Text: the Lingo emitted for the decompiled tree of any expression of the core families is the rendering of
   the canonical token list pp_tok e of the SOURCE expression (full parenthesisation of binary operators,
   arguments and list elements in source order, 'sprite a intersects b', '-(...)' only where a second minus
   would follow, name() for an external call without arguments).  LINGO_BIN_OP is the regenerated table. *)
Theorem C02_emitted_text_is_canonical :
  forall en e, text_ok en e -> forall pc ind, gen_lingo (reify_e en pc e) ind = render en (pp_tok en e).
Proof. exact gen_lingo_is_render. Qed.
Print Assumptions C02_emitted_text_is_canonical.

(* Reading back: the precedence parser (Lingo's operator levels, precedence climbing) reads the canonical token
   list of any expression back as exactly that expression - operators, operand order, variable kinds and
   numbers, literals, argument order, list shapes.  Together with the two theorems above: the bytes of e
   decompile to a tree whose emitted text is render (pp_tok e), and pp_tok e parses to e.  (What is not proved:
   that splitting the rendered text into tokens gives back pp_tok e - the lexer and the scope rules that tell
   a local from a parameter / global / property by its spelling; the harness does that step with the
   independent tokenizer of tie/lingo_spec.py on every generated program.) *)
Theorem C02_canonical_text_parses_back :
  forall en e fuel, lists_even e -> (3 * size e <= fuel)%nat -> parse_expr fuel (strip (pp_tok en e)) = Some (e, []).
Proof. exact parse_expr_pp. Qed.
Print Assumptions C02_canonical_text_parses_back.

(* and inside any context: followed by arbitrary further tokens (not an opening parenthesis) *)
Theorem C02_canonical_text_parses_back_in_context :
  forall en e, lists_even e -> forall fuel rest, (3 * size e <= fuel)%nat -> rest_ok rest ->
    parse_u fuel (strip (pp_tok en e) ++ rest) = Some (e, rest).
Proof. exact parse_pp. Qed.
Print Assumptions C02_canonical_text_parses_back_in_context.

(* the object-property forms in the text theorems: the identifier of a sound / sprite / cast / menu / menuItem is
   written as it is when it is a constant (TRawInt, TRawConst: cast "title", not the re-quoted literal), and
   generated otherwise; the canonical tokens read back as the source expression *)
Example C02_object_text_example :
  let en := Build_env ["x"] [] [Leaf KLocal "i" 0 true] [] [CStr """title"""] in
  let e1 := EObj FCast 2 (EConst 0) in                                  (* the text of cast "title" *)
  let e2 := EMenu 3 (EInt 2) (EBin Add (ELoc 0) (EInt 1)) in            (* the enabled of menuItem 2 of menu (i + 1) *)
  let e3 := EObj FNumber 4 (EObj FField 2 (ELoc 0)) in                  (* the number of lines of the text of field i *)
  (text_ok en e1 /\ text_ok en e2 /\ text_ok en e3) /\
  gen_lingo (reify_e en 0 e1) 0 = "the text of cast ""title""" /\
  gen_lingo (reify_e en 0 e2) 0 = "the enabled of menuItem 2 of menu (i + 1)" /\
  gen_lingo (reify_e en 0 e3) 0 = "the number of lines of the text of field i" /\
  parse_expr 20 (strip (pp_tok en e1)) = Some (e1, []) /\
  parse_expr 20 (strip (pp_tok en e2)) = Some (e2, []) /\
  parse_expr 20 (strip (pp_tok en e3)) = Some (e3, []) /\
  gen_lingo (reify_s en [] 0 (SSetObj FSprite 8 (ELoc 0) (EInt 5))) 1 = ("    set the height of sprite i = 5" ++ "
")%string.
Proof. split; [cbn; tauto|]. repeat split; vm_compute; reflexivity. Qed.

(* the zero-operand "the" forms (SpecLingo.EThe: the <special property> 5C 00, the <date / time function> 5C 00 with
   numbers 6-11, the <system property> 5C 07 - outside a tell block, which [agrees] now states) are inside the inversion
   and text theorems as well; a system property is written "the <name>" because its object is a runtime object *)
Example C02_the_forms_example :
  let en := Build_env ["x"] [] [] [] [] in
  (wf_e en (EThe TSpecial 0) /\ wf_e en (EThe TDateTime 5) /\ wf_e en (EThe TSystem 27)) /\
  text_ok en (EThe TSystem 27) /\
  compile_e (EBin Add (EThe TSystem 27) (EInt 1)) = [Byte.x41; Byte.x1b; Byte.x5c; Byte.x07; Byte.x41; Byte.x01; Byte.x05] /\
  gen_lingo (reify_e en 0 (EThe TSpecial 0)) 0 = "the floatPrecision" /\
  gen_lingo (reify_e en 0 (EThe TDateTime 5)) 0 = "the long date" /\
  gen_lingo (reify_e en 0 (EBin Add (EThe TSystem 27) (EInt 1))) 0 = "(the stageColor + 1)" /\
  parse_expr 9 (strip (pp_tok en (EBin Add (EThe TSystem 27) (EInt 1)))) = Some (EBin Add (EThe TSystem 27) (EInt 1), []) /\
  (* TNumOf: the number of castMembers / menus and the perFrameHook (5C 08) *)
  gen_lingo (reify_e en 0 (EThe TNumOf 2)) 0 = "the number of castMembers" /\
  gen_lingo (reify_e en 0 (EThe TNumOf 1)) 0 = "the perFrameHook".
Proof. split; [cbn; lia|]. repeat split; vm_compute; reflexivity. Qed.

(* properties addressed by name: the <name> (5F n; attached to its runtime object when the decompiler's table knows one)
   and the <name> of <expression> (61 n) - inversion, text and parser; the first one also in the JavaScript theorems *)
Example C02_by_name_forms_example :
  let en := Build_env ["x"; "frameLabel"; "width"; "ink"] [] [Leaf KLocal "s" 0 true] [] [] in
  let e := EAcc 2 (ECall 0 [ETheN 1; ELoc 0]) in                  (* the width of x(the frameLabel, s) *)
  wf_e en e /\ text_ok en e /\
  compile_e e = [Byte.x5f; Byte.x01; Byte.x4c; Byte.x00; Byte.x43; Byte.x02; Byte.x57; Byte.x00; Byte.x61; Byte.x02] /\
  gen_lingo (reify_e en 0 e) 0 = "the width of x(the frameLabel, s)" /\
  gen_lingo (reify_e en 0 (ETheN 3)) 0 = "the ink" /\
  parse_expr 20 (strip (pp_tok en e)) = Some (e, []) /\
  (* field <expression> (EField, 1B) *)
  gen_lingo (reify_e en 0 (EBin Concat (EField (ELoc 0)) (EInt 1))) 0 = "(field s & 1)" /\
  parse_expr 9 (strip (pp_tok en (EField (ELoc 0)))) = Some (EField (ELoc 0), []) /\
  (* a key / mouse / date property (EKey: empty argument list, then 66 n) *)
  compile_e (EKey 1) = [Byte.x43; Byte.x00; Byte.x66; Byte.x01] /\
  gen_lingo (reify_e en 0 (EKey 1)) 0 = "the frameLabel" /\
  (* ... and written: set the <name> = ... (target TByName, opcode 60 n, the property-write class under its second opcode) *)
  compile_s (SSet (TByName 3) (EInt 1)) = [Byte.x41; Byte.x01; Byte.x60; Byte.x03] /\
  gen_lingo (reify_s en [] 0 (SSet (TByName 3) (EInt 1))) 1 = ("    set the ink = 1" ++ "
")%string.
Proof. split; [cbn; repeat split; lia|]. split; [cbn; repeat split; reflexivity|]. repeat split; vm_compute; reflexivity. Qed.

(* ... and the special / system properties written: set the <property> = v (SSetThe, 5D 00 / 5D 07) *)
Example C02_set_the_example :
  let en := Build_env ["x"] [] [] [] [] in
  wf_s en (SSetThe TSystem 27 (EInt 5)) /\ text_ok_s en [] (SSetThe TSystem 27 (EInt 5)) /\
  compile_s (SSetThe TSystem 27 (EInt 5)) = [Byte.x41; Byte.x05; Byte.x41; Byte.x1b; Byte.x5d; Byte.x07] /\
  gen_lingo (reify_s en [] 0 (SSetThe TSystem 27 (EInt 5))) 1 = ("    set the stageColor = 5" ++ "
")%string /\
  gen_lingo (reify_s en [] 0 (SSetThe TSpecial 0 (EInt 4))) 1 = ("    set the floatPrecision = 4" ++ "
")%string /\
  (* set the <name> of <o> = v (SSetAcc, 62 n) *)
  compile_s (SSetAcc 0 (ECall 0 [EInt 2]) (EInt 1)) = [Byte.x41; Byte.x02; Byte.x43; Byte.x01; Byte.x57; Byte.x00; Byte.x41; Byte.x01; Byte.x62; Byte.x00] /\
  gen_lingo (reify_s en [] 0 (SSetAcc 0 (ECall 0 [EInt 2]) (EInt 1))) 1 = ("    set the x of x(2) = 1" ++ "
")%string /\
  (* set the <property> of menuItem i of menu m = v (SSetMenu, 5D 03) *)
  gen_lingo (reify_s en [] 0 (SSetMenu 3 (EInt 2) (EInt 1) (EInt 0))) 1 = ("    set the enabled of menuItem 2 of menu 1 = 0" ++ "
")%string /\
  gen_js (reify_s en [] 0 (SSetMenu 3 (EInt 2) (EInt 1) (EInt 0))) 1 false = ("    _menuBar.menu[1].item[2].enabled = 0;" ++ "
")%string /\
  (* put v into / after / before field f, and a local variable (SPutField, SPutLoc: 59 x6 / 59 x5) *)
  gen_lingo (reify_s en [] 0 (SPutField PAfter (EInt 3) (EInt 7))) 1 = ("    put 7 after field 3" ++ "
")%string.
Proof. split; [cbn; repeat split; try lia; right; reflexivity|]. split; [cbn; repeat split; reflexivity|]. repeat split; vm_compute; reflexivity. Qed.

(* Statement lines: the line emitted for a decompiled assignment or statement-position call is the canonical
   line of the SOURCE statement - "set <target> = <expression>" with the target written as a variable, or as
   "the <name>" for a property the script does not declare; "<handler> <arguments>" without parentheses. *)
Theorem C02_statement_line :
  forall en props s, text_ok_s en props s -> forall pc ind,
    gen_lingo (reify_s en props pc s) ind = (PyString.indent ind ++ stmt_text en props s ++ "
")%string.
Proof. exact stmt_line. Qed.
Print Assumptions C02_statement_line.

(* Structured handlers: for every exit-free nest of if / if-else / repeat while over straight-line statements (any
   depth, any length) the text emitted for the rebuilt statement list (C03_exit_free_nests_rebuilt_unbounded gives
   that list from the bytes) is the canonical layout of the SOURCE program: "if <cond> then" / "else" / "end if",
   "repeat while <cond>" / "end repeat", bodies one level deeper, every condition and statement line as above. *)
From DRX Require Import Spec.SpecNest Proofs.LingoNestText.
Theorem C02_structured_text_is_canonical :
  forall en props p, text_ok_p en props p -> forall pc ind,
    text_of (rebuilt en props pc p) ind = pp_p en props ind p.
Proof. exact nest_text. Qed.
Print Assumptions C02_structured_text_is_canonical.

(* ... and with counting loops: "repeat with v = a to b" / "repeat with v = a down to b" (SpecFor.final is what
   C03_counting_loops_rebuilt_unbounded gives from the bytes). *)
From DRX Require Import Spec.SpecFor Proofs.LingoNestForText.
Theorem C02_structured_text_with_counting_loops :
  forall en props q, text_ok_q en props q -> forall pc ind,
    text_of (final en props pc q) ind = pp_q en props ind q.
Proof. exact for_text. Qed.
Print Assumptions C02_structured_text_with_counting_loops.

(* The spec tie (tie/spec_tie.py, Spec/SpecIO.v) compares the texts named by the theorems above with the text the
   implementation emits whenever the boolean side conditions hold; those imply the hypotheses of the theorems, and the
   exit offsets it fills in are the ones C03's hypothesis exits_ok asks for. *)
From DRX Require Import Spec.SpecIO Proofs.SpecIOFacts Proofs.LingoNestJs.
Theorem C02_spec_tie_conditions_sound :
  forall en props q, ok2b en q = true ->
    ok2 en q /\ (text_okb_q en props q = true -> text_ok_q en props q) /\ (js_okb_q en props q = true -> js_ok_q en props q).
Proof. intros en props q H. split; [apply ok2b_sound; exact H|]. split; [apply text_okb_q_sound | apply js_okb_q_sound]. Qed.
Print Assumptions C02_spec_tie_conditions_sound.
Theorem C02_spec_tie_exit_offsets :
  forall p, exits_inside false p -> exits_ok None (fill None p).
Proof. intros p H. apply (fill_ok p None). exact H. Qed.
Print Assumptions C02_spec_tie_exit_offsets.
