(* C07 - sound decoding preserves every sample and the header's format. Statements only;
   proofs in Proofs/SndFacts.v. [enc_snd r] lays out a format-1/2 resource: header, data-type
   records, command list (leading null commands, then bufferCmd/soundCmd pointing at the sound
   header), the standard or extended sound header, and the sample area. *)
From Coq Require Import List ZArith.
From Coq.Strings Require Import Byte.
From DRX Require Import Py.PyBytes Py.Layout Model.Snd Proofs.SndFacts.
Import ListNotations.
Open Scope Z_scope.

(* any number of data-type records and null commands, any sample count, any rate 0..65535,
   both commands, both headers, both widths, any channel count *)
Theorem C07_snd_decode : forall r, wf_res_spec r ->
  snd_to_sampled (enc_snd r) = Ok (result_sound (r_sound r), decoded_samples (r_sound r)).
Proof. exact snd_decode. Qed.

(* 16-bit samples come out byte-swapped, pair by pair; the sample count is preserved *)
Theorem C07_swap16_pairs : forall l, swap16 (pairs_of l) = pairs_of (map (fun p => (snd p, fst p)) l).
Proof. exact swap16_pairs. Qed.
Theorem C07_sample_count : forall l, zlen (pairs_of l) = 2 * zlen l.
Proof. exact zlen_pairs. Qed.

(* non-vacuity: a format-1 resource, one data-type record, one null command, extended header,
   16 bit stereo at 44100 Hz, two frames *)
Example C07_example :
  let s := {| s_ext := true; s_channels := 2; s_bits := 16; s_rate := 44100; s_frac := 0; s_loop1 := 0; s_loop2 := 0;
              s_nframes := 2; s_fill := []; s_extvals := [0;0;0;0;0;0;0]; s_samples8 := [];
              s_samples16 := [(x01, x02); (x03, x04); (x05, x06); (x07, x08)] |} in
  let r := {| r_fmt1 := true; r_dtypes := [(5, 128)]; r_refcount := 0; r_nulls := [(0, 0)]; r_buffer := true;
              r_p1 := 0; r_gap := []; r_sound := s; r_tail := [] |} in
  snd_to_sampled (enc_snd r) = Ok ({| nch := 2; bps := 16; rate := 44100 |}, [x02; x01; x04; x03; x06; x05; x08; x07]).
Proof. vm_compute. reflexivity. Qed.

Print Assumptions C07_snd_decode.
Print Assumptions C07_swap16_pairs.
Print Assumptions C07_sample_count.
