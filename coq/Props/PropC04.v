(* C04 - the emitted JavaScript is valid and denotes the same program as the Lingo.  Property theorems only. *)
From Coq Require Import ZArith List Bool String.
From DRX Require Import Py.PyBytes Model.LingoAst Model.LingoGen Model.LingoOps Spec.SpecLingo Spec.SpecJs
  Proofs.LingoExecFacts Proofs.LingoJsFacts Proofs.LingoMutFacts.
Import ListNotations.

(* For every expression tree of the core families (any depth, any width) the JavaScript text the translator
   emits for the decompiled tree is exactly the print of the JavaScript syntax tree  to_js e : the fixed
   correspondence (string-object literals, symbol(), list() / propList(), method-style string operators,
   % == != && || !, _global. / this. prefixes) applied to the source expression, operand for operand.  It is
   therefore well formed by construction of the printer, and it is the image of the same source expression
   as the emitted Lingo (PropC02).  The operator tables JS_BIN_OP / JS_UNA_OP are the regenerated ones. *)
Theorem C04_expression_is_print_of_correspondence :
  forall fm en e, js_ok en e -> forall pc ind, gen_js (reify_e en pc e) ind fm = pp_js (to_js fm en e).
Proof. exact gen_js_is_pp. Qed.
Print Assumptions C04_expression_is_print_of_correspondence.

(* End to end with PropC02: the bytes of e, decompiled, print as to_js e. *)
Corollary C04_compiled_expression :
  forall fm en e d off fuel r m ind,
    wf_e en e -> js_ok en e -> agrees en m -> code_at d off (compile_e e) ->
    exists r' m', run_ops (ninstr e + fuel) d off (zlen (compile_e e)) off r m = Ok (r', m') /\
                  match m_stack m' with top :: _ => gen_js top ind fm = pp_js (to_js fm en e) | [] => False end.
Proof.
  intros fm en e d off fuel r m ind Hwf Hok Hag Hc.
  destruct (exec_whole en e d off fuel r m Hwf Hag Hc) as [r' E].
  exists r', (after_e en off e m). split; [exact E|].
  rewrite after_e_stack. apply gen_js_is_pp. exact Hok.
Qed.
Print Assumptions C04_compiled_expression.

(* The JavaScript generator never depends on what was generated before (shared with C12). *)
Theorem C04_js_independent_of_earlier_generation :
  forall ml n ind fm, gen_js (Model.LingoMut.mutg ml n) ind fm = gen_js n ind fm.
Proof. exact PJ_all. Qed.
Print Assumptions C04_js_independent_of_earlier_generation.

(* The JavaScript tree denotes the source expression: reading it back through the inverse of the fixed
   correspondences (infix operators, method-style operators, sprite(...) forms, -() / !(), _global. / owner.
   prefixes, symbol(), calls, list() / propList()) yields the source expression with its names looked up -
   the same operators, operand order, variable kinds (variable / global / property of an owner / this),
   literals and argument order.  The operator correspondence is injective (19 operators, by computation). *)
Theorem C04_js_denotes_the_expression :
  forall fm en e, read_js (to_js fm en e) = Some (name_e fm en e).
Proof. exact read_to_js. Qed.
Print Assumptions C04_js_denotes_the_expression.

(* The object-property forms (SpecLingo.EObj / EMenu: the <property> of sound / sprite / cast / field, the last <chunk> /
   the number of <chunk>s of a text, the name / number of menuItems of a menu, the <property> of menuItem i of menu m) are
   inside the three theorems above: sound(id).prop, sprite(id).prop, member(id).prop, field(x).prop, x.word["last"],
   x.word.length, _menuBar.menu[id].name, _menuBar.menu[id].item.length, _menuBar.menu[m].item[i].prop - the identifier of
   an object written as it is when it is a constant.  js_ok excludes a chunk of a number or of a signed value, which would
   need parentheses the generator does not write.  Non-vacuity: *)
Example C04_object_js_example :
  let en := Build_env ["x"] [] [Leaf KLocal "s" 0 true] [] [CStr """title"""] in
  let e1 := EObj FCast 2 (EConst 0) in                                  (* the text of cast "title" *)
  let e2 := EMenu 3 (EInt 2) (EBin Add (ELoc 0) (EInt 1)) in            (* the enabled of menuItem 2 of menu (s + 1) *)
  let e3 := EObj FNumber 4 (EObj FField 2 (ELoc 0)) in                  (* the number of lines of the text of field s *)
  let e4 := EObj FLast 13 (ELoc 0) in                                   (* the last word of s *)
  (js_ok en e1 /\ js_ok en e2 /\ js_ok en e3 /\ js_ok en e4) /\
  gen_js (reify_e en 0 e1) 0 false = "member(""title"").text" /\
  gen_js (reify_e en 0 e2) 0 false = "_menuBar.menu[(s + 1)].item[2].enabled" /\
  gen_js (reify_e en 0 e3) 0 false = "field(s).text.line.length" /\
  gen_js (reify_e en 0 e4) 0 false = "s.word[""last""]" /\
  read_js (to_js false en e3) = Some (NChunkCount "line" (NObj "field" "text" (NVar "s"))) /\
  read_js (to_js false en e2) = Some (NMenuItem "enabled" (NLit "2") (NBin Add (NVar "s") (NLit "1"))).
Proof. split; [cbn; tauto|]. repeat split; vm_compute; reflexivity. Qed.

(* ... and the zero-operand "the" forms: _system.floatPrecision, _system.date('long date'), _movie.stageColor *)
Example C04_the_forms_js_example :
  let en := Build_env ["x"] [] [] [] [] in
  gen_js (reify_e en 0 (EThe TSpecial 0)) 0 false = "_system.floatPrecision" /\
  gen_js (reify_e en 0 (EThe TDateTime 5)) 0 false = "_system.date('long date')" /\
  gen_js (reify_e en 0 (EBin Add (EThe TSystem 27) (EInt 1))) 0 false = "(_movie.stageColor + 1)" /\
  read_js (to_js false en (EThe TSystem 27)) = Some (NProp "_movie" "stageColor") /\
  (* key / mouse / date properties (EKey): _key.<name>, the object the table names, or _system.date('...') *)
  (let en2 := Build_env ["shiftDown"; "lastClick"; "date"] [] [] [] [] in
   gen_js (reify_e en2 0 (EKey 0)) 0 false = "_key.shiftDown" /\ gen_js (reify_e en2 0 (EKey 1)) 0 false = "_player.lastClick" /\
   gen_js (reify_e en2 0 (EKey 2)) 0 false = "_system.date('date')").
Proof. repeat split; vm_compute; reflexivity. Qed.

(* Statements and structure.  The line emitted for a decompiled assignment / statement call is the canonical
   JavaScript of the SOURCE statement ("<target> = <expr>;", "f(args);", "fn_call(h(args));" for a handler of the
   script; a line gets its semicolon unless its text ends in a closing brace), and for every exit-free nest of
   if / if-else / repeat while over such statements (any depth, any length; C03_exit_free_nests_rebuilt_unbounded gives
   the rebuilt statement list from the bytes) the emitted JavaScript is the canonical layout of the source program:
   "if (<cond>) {" / "} else {" / "}", "while (<cond>) {" / "}", bodies one level deeper, a condition between
   parentheses exactly once. *)
From DRX Require Import Spec.SpecNest Proofs.LingoNestJs.
Theorem C04_statement_js :
  forall fm en props s, js_ok_s en props s -> forall pc ind,
    gen_js (reify_s en props pc s) ind fm = js_line ind (js_stmt_text fm en props s).
Proof. exact js_stmt_line. Qed.
Print Assumptions C04_statement_js.
Theorem C04_structured_js_is_canonical :
  forall fm en props p, js_ok_p en props p -> forall pc ind,
    js_of (rebuilt en props pc p) ind fm = pp_js_p fm en props ind p.
Proof. exact nest_js. Qed.
Print Assumptions C04_structured_js_is_canonical.

(* ... and with counting loops: "for(v = a; v <= b; v++) {" / "for(v = a; v >= b; v--) {" *)
From DRX Require Import Spec.SpecFor Proofs.LingoNestForText.
Theorem C04_structured_js_with_counting_loops :
  forall fm en props q, js_ok_q en props q -> forall pc ind,
    js_of (final en props pc q) ind fm = pp_js_q fm en props ind q.
Proof. exact for_js. Qed.
Print Assumptions C04_structured_js_with_counting_loops.
