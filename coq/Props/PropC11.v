(* C11 - constants are rendered as literals that evaluate to the original value. Statements only;
   proofs in Proofs/ConstFacts.v. Text = list of code points; valid = 0 <= c < 0x110000.
   eval_lingo_lit / eval_js_lit are the specification side: the meaning of
     piece ( & piece)*  with piece = quoted literal | EMPTY | BACKSPACE | ENTER | QUOTE | RETURN | TAB
   and of  new LingoString(<quoted literal>)  under the escapes the tool emits; both evaluators are tied to
   independent evaluators (Python unicode_escape decoding, node) by the correspondence check. *)
From Coq Require Import List ZArith.
From Coq.Strings Require Import Byte.
From DRX Require Import Py.PyBytes Model.Const Proofs.ConstFacts.
Import ListNotations.
Open Scope Z_scope.

(* every string (any length, any code points, quotes / control characters anywhere) *)
Theorem C11_lingo_string : forall s, Forall valid s ->
  eval_lingo_lit (generate_lingo_str (escape_string s)) = Some s.
Proof. exact lingo_literal_roundtrip. Qed.
Theorem C11_js_string : forall s, Forall valid s ->
  eval_js_lit (generate_js_str (escape_string s)) = Some s.
Proof. exact js_literal_roundtrip. Qed.
(* the general path alone is already exact (the predefined-name table is only a shortcut) *)
Theorem C11_lingo_general_path : forall s, Forall valid s ->
  eval_lingo_lit (replace_chars_with_lingo_constants (escape_string s)) = Some s.
Proof. exact replace_chars_roundtrip. Qed.
(* the escape itself loses nothing *)
Theorem C11_escape_injective : forall s t, Forall valid s -> Forall valid t -> escape_string s = escape_string t -> s = t.
Proof. exact escape_injective. Qed.

(* inline integer operands: exact two's complement of the operand bytes *)
Theorem C11_int1 : forall p, 0 <= p < 256 -> -128 <= int1b p < 128 /\ (int1b p) mod 256 = p.
Proof. exact int1b_exact. Qed.
Theorem C11_int2 : forall p1 p2, 0 <= p1 < 256 -> 0 <= p2 < 256 ->
  -32768 <= int2b p1 p2 < 32768 /\ (int2b p1 p2) mod 65536 = p1 * 256 + p2.
Proof. exact int2b_exact. Qed.

(* 80-bit floats: sign, 64-bit mantissa and exponent are all read back exactly, negative values included *)
Theorem C11_float80 : forall (sgn : bool) ebits q, 0 <= ebits < 32768 -> 0 <= q < 2 ^ 64 ->
  float80_parts (pack 2 Big ((if sgn then 32768 else 0) + ebits) ++ pack 8 Big q) = Some (sgn, q, ebits - 16383 - 63).
Proof. exact float80_roundtrip. Qed.

(* a concrete literal with every kind of piece *)
Theorem C11_example :
  generate_lingo_str (escape_string [97; 34; 98; 9; 13; 233; 8364; 128512; 92; 10; 11]) =
  [34;97;34; 32;38;32; 81;85;79;84;69; 32;38;32; 34;98;34; 32;38;32; 84;65;66; 32;38;32; 82;69;84;85;82;78; 32;38;32;
   34; 92;120;101;57; 92;117;50;48;97;99; 92;85;48;48;48;49;102;54;48;48; 92;92; 92;110; 92;120;48;98; 34].
Proof. exact lingo_example. Qed.

Print Assumptions C11_lingo_string.
Print Assumptions C11_js_string.
Print Assumptions C11_lingo_general_path.
Print Assumptions C11_escape_injective.
Print Assumptions C11_int1.
Print Assumptions C11_int2.
Print Assumptions C11_float80.
Print Assumptions C11_example.
