(* C12 - decompiler output does not depend on what was generated or parsed before.  Property theorems only. *)
From Coq Require Import ZArith List String.
From DRX Require Import Py.PyBytes Model.LingoAst Model.LingoGen Model.LingoOps Model.Lscr Model.LingoMut
  Proofs.LingoMutFacts Proofs.LingoRegsFacts.
Import ListNotations.

(* Generating Lingo and JavaScript from one parsed script, in any order and any number of times: every text
   of the history is the text of a fresh tree.  run_history threads the tree through the explicit updates
   the Python generators make while walking it (Model/LingoMut.v). *)
Theorem C12_history_free :
  forall (ops : list gop) (sc : script), run_history sc ops = map (fresh sc) ops.
Proof. exact history_free. Qed.
Print Assumptions C12_history_free.

(* The library's whole-movie path (Lingo, then JavaScript, from one tree) and the two tools (one generation from
   a fresh parse each) produce the same two texts. *)
Corollary C12_movie_path_is_the_tools :
  forall sc, run_history sc [GL; GJ] = [(GL, generate_lingo_code sc); (GJ, generate_js_code sc)].
Proof. intros sc. apply (history_free [GL; GJ] sc). Qed.
Print Assumptions C12_movie_path_is_the_tools.

(* Decompiling a script gives the same result whatever was decompiled earlier in the process: the only state that
   survives a parse are the operand registers of the shared opcode objects, and the parse of any chunk (valid or
   not) is the same for all register contents. *)
Theorem C12_parse_registers_free :
  forall d names codec floats r1 r2,
    rel2 (parse_lscr d names codec floats r1) (parse_lscr d names codec floats r2).
Proof. exact parse_lscr_regs. Qed.
Print Assumptions C12_parse_registers_free.

(* non-vacuity: a history that really updates the tree (a symbol argument of a list function becomes a global
   variable node, a statement-position call loses its parentheses flag) *)
Example C12_updates_happen :
  let call := Call "getaProp" 0 (Some (LoadList "load_list" 0 [Leaf KConst "1" 0 true; Leaf KSymbol "gList" 0 true])) true false false in
  let sc := Build_script [] [] [Build_fndef "h" 0 [] [] [] [Stmt 0 call] false] 0 (-1) "" in
  mut_script_lingo sc <> sc /\ run_history sc [GL; GL] = map (fresh sc) [GL; GL].
Proof. split; [intros H; discriminate H | apply history_free]. Qed.
