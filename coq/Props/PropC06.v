(* C06 - bitmap decoding reproduces every source pixel for a standard BMP reader.
   Statements only; proofs in Proofs/BitdFacts.v.  PROVED here: the 8-bit compressed decoder for every
   valid scan-line PackBits encoding (rows given as token lists: any cut into literals of 1..128 bytes
   and runs of 2..129 copies), under the geometry condition "stored row fits the BMP stride";
   the header fields a BMP reader uses.  NOT proved (model + correspondence + direct oracle only):
   raw rows, 1-, 16- and 32-bit decoders; see the open known findings of C06. *)
From Coq Require Import List ZArith.
From Coq.Strings Require Import Byte.
From DRX Require Import Py.PyBytes Model.Riff Model.Clut Model.Bitd Proofs.BitdFacts.
Import ListNotations.
Open Scope Z_scope.

(* every source pixel at (w_padding, h_padding), background elsewhere, bottom-up rows of [stride4 bw] bytes *)
Theorem C06_compressed8_pixels : forall bw bh pw ph rows,
  let w := bw - pw in let W := w + w mod 2 in let width := stride4 bw in
  0 <= pw -> 0 < w -> 0 <= ph -> zlen rows = bh - ph ->
  pw + W <= width ->
  Forall (wf_row W) rows ->
  decode_compressed8 (concat (map enc_toks rows)) bw bh pw ph width
  = Ok (concat (map (fun ts => canvas_row pw W width (dec_toks ts)) (rev rows)) ++ zerosZ (width * ph)).
Proof. exact compressed8_pixels. Qed.

(* two different valid encodings of one image yield identical pixel arrays *)
Theorem C06_compressed8_encoding_independent : forall bw bh pw ph rows1 rows2,
  let w := bw - pw in let W := w + w mod 2 in let width := stride4 bw in
  0 <= pw -> 0 < w -> 0 <= ph -> zlen rows1 = bh - ph -> zlen rows2 = bh - ph -> pw + W <= width ->
  Forall (wf_row W) rows1 -> Forall (wf_row W) rows2 ->
  map dec_toks rows1 = map dec_toks rows2 ->
  decode_compressed8 (concat (map enc_toks rows1)) bw bh pw ph width
  = decode_compressed8 (concat (map enc_toks rows2)) bw bh pw ph width.
Proof. exact compressed8_encoding_independent. Qed.

(* the full statement without the geometry condition is false on the faithful model (open finding C06-8bit-pad-leak) *)
Theorem C06_compressed8_leak_refuted :
  exists data, decode_compressed8 (concat (map enc_toks leak_rows)) 4 2 1 0 (stride4 4) = Ok data /\
               nth 4 data x00 = x55 /\
               firstn 8 data <> canvas_row 1 3 4 [x04; x05; x06] ++ canvas_row 1 3 4 [x01; x02; x03].
Proof. exact compressed8_leak_witness. Qed.

(* token level: a run paints n equal values, a literal copies its bytes, over any cells of the row *)
Theorem C06_run_paints : forall n a seg b x y w width pw v,
  length seg = n -> zlen a = y * width + x + pw -> x + Z.of_nat n <= w ->
  put_run8 n (a ++ seg ++ b) x y w width pw v = Ok (a ++ repeat v n ++ b, x + Z.of_nat n).
Proof. exact put_run8_paints. Qed.
Theorem C06_literal_paints : forall l fp fs a seg b x y w width pw,
  length seg = length l -> zlen a = y * width + x + pw -> x + zlen l <= w ->
  put_lit8 (length l) (fp ++ l ++ fs) (a ++ seg ++ b) x y w width pw (zlen fp)
  = Ok (a ++ l ++ b, x + zlen l, zlen fp + zlen l).
Proof. exact put_lit8_paints. Qed.

(* what a BMP reader looks at: signature, data offset, width, height, bits per pixel; 4-byte aligned stride *)
Theorem C06_stride : forall w, 0 <= w -> stride4 w mod 4 = 0 /\ w <= stride4 w < w + 4.
Proof. exact stride4_spec. Qed.
Theorem C06_header_fields : forall size offset rest,
  slice (bmp_header size offset ++ rest) 0 2 = ["B"; "M"]%byte /\
  slice (bmp_header size offset ++ rest) 10 14 = pack 4 Little offset.
Proof. exact bmp_header_fields. Qed.
Theorem C06_info_fields : forall w h bpp nc pre rest, zlen pre = 14 ->
  slice (pre ++ bmp_info_header w h bpp nc ++ rest) 18 22 = pack 4 Little w /\
  slice (pre ++ bmp_info_header w h bpp nc ++ rest) 22 26 = pack 4 Little h /\
  slice (pre ++ bmp_info_header w h bpp nc ++ rest) 28 30 = pack 2 Little bpp.
Proof. exact bmp_info_fields. Qed.

(* non-vacuity: two segmentations of a 3x2 image at offset (1,1) on a 4x3 canvas decode to the same array *)
Example C06_example :
  let r1 := [[TRun 2 x07; TLit [x09; x00]]; [TLit [x01]; TRun 3 x00]] in
  let r2 := [[TLit [x07; x07; x09; x00]]; [TLit [x01; x00]; TRun 2 x00]] in
  map dec_toks r1 = map dec_toks r2 /\
  decode_compressed8 (concat (map enc_toks r1)) 4 3 0 1 (stride4 4) = Ok [x01; x00; x00; x00; x07; x07; x09; x00; x00; x00; x00; x00] /\
  decode_compressed8 (concat (map enc_toks r2)) 4 3 0 1 (stride4 4) = Ok [x01; x00; x00; x00; x07; x07; x09; x00; x00; x00; x00; x00].
Proof. vm_compute. repeat split; reflexivity. Qed.

Print Assumptions C06_compressed8_pixels.
Print Assumptions C06_compressed8_encoding_independent.
Print Assumptions C06_compressed8_leak_refuted.
Print Assumptions C06_run_paints.
Print Assumptions C06_literal_paints.
Print Assumptions C06_stride.
Print Assumptions C06_header_fields.
Print Assumptions C06_info_fields.
