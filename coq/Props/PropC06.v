(* C06 - bitmap decoding reproduces every source pixel for a standard BMP reader.
   Statements only; proofs in Proofs/BitdFacts.v.  PROVED here: the 8-bit compressed decoder for every
   valid scan-line PackBits encoding (rows given as token lists: any cut into literals of 1..128 bytes
   and runs of 2..129 copies), without geometry condition since the repair of the pad-byte / pad-bit findings;
   the header fields a BMP reader uses; the raw 8-bit and 1-bit row loops and the compressed 1-bit decoder (same
   token lists, 8 pixels per byte) for images of any size; and, at the level of the property's wording, what a
   standard BMP reader (offset field, width / height / bits-per-pixel fields, 4-byte aligned stride, bottom-up rows)
   sees in the whole file written for an 8-bit or 1-bit image: the source pixel inside the image area, background
   elsewhere (C06_bmp*_reader); the 32-bit decoder (any segmentation of the linear stream) and the 16-bit decoder
   (tokens confined to a colour plane) with their reader-level theorems, for images without registration offsets
   (those decoders do not apply the offsets: open finding).  NOT proved: 16/32-bit raw storage (not implemented in
   /repo: open finding). *)
From Coq Require Import List ZArith Lia.
From Coq.Strings Require Import Byte.
From DRX Require Import Py.PyBytes Model.Riff Model.Clut Model.Bitd Proofs.BitdFacts Proofs.BitdRawFacts Proofs.Bitd1Facts Proofs.BmpReadFacts Proofs.Bitd24Facts Proofs.Bmp24ReadFacts Proofs.Bitd16Facts Proofs.Bmp16ReadFacts.
Import ListNotations.
Open Scope Z_scope.

(* every source pixel at (w_padding, h_padding), background elsewhere, bottom-up rows of [stride4 bw] bytes; the pad byte
   of a stored row of odd width is not painted; [extra8]: trailing bytes the decoder appends when the stored row is
   wider than the stride (pinned by fixtures, after the area a reader looks at) *)
Theorem C06_compressed8_pixels : forall bw bh pw ph rows,
  let w := bw - pw in let W := w + w mod 2 in let width := stride4 bw in
  0 <= pw -> 0 < w -> 0 <= ph -> zlen rows = bh - ph ->
  Forall (wf_row W) rows ->
  decode_compressed8 (concat (map enc_toks rows)) bw bh pw ph width
  = Ok (concat (map (fun ts => raw_canvas8 pw w width (dec_toks ts)) (rev rows)) ++ zerosZ (width * ph) ++ zerosZ (extra8 bw bh pw)).
Proof. exact compressed8_pixels. Qed.

(* two different valid encodings of one image yield identical pixel arrays *)
Theorem C06_compressed8_encoding_independent : forall bw bh pw ph rows1 rows2,
  let w := bw - pw in let W := w + w mod 2 in let width := stride4 bw in
  0 <= pw -> 0 < w -> 0 <= ph -> zlen rows1 = bh - ph -> zlen rows2 = bh - ph ->
  Forall (wf_row W) rows1 -> Forall (wf_row W) rows2 ->
  map dec_toks rows1 = map dec_toks rows2 ->
  decode_compressed8 (concat (map enc_toks rows1)) bw bh pw ph width
  = decode_compressed8 (concat (map enc_toks rows2)) bw bh pw ph width.
Proof. exact compressed8_encoding_independent. Qed.

(* the geometry of the former finding C06-8bit-pad-leak (repaired in /repo): the pad byte 0x55 is not painted *)
Theorem C06_compressed8_former_leak :
  exists data, decode_compressed8 (concat (map enc_toks leak_rows)) 4 2 1 0 (stride4 4) = Ok data /\
               firstn 8 data = canvas_row 1 3 4 [x04; x05; x06] ++ canvas_row 1 3 4 [x01; x02; x03].
Proof. exact compressed8_former_leak. Qed.

(* token level: a run paints n equal values, a literal copies its bytes, over the cells inside the image *)
Theorem C06_run_paints : forall n a seg b x y w iw width pw v,
  length seg = length (vis iw x (repeat v n)) -> (x < iw -> zlen a = y * width + x + pw) -> x + Z.of_nat n <= w ->
  put_run8 n (a ++ seg ++ b) x y w iw width pw v = Ok (a ++ vis iw x (repeat v n) ++ b, x + Z.of_nat n).
Proof. exact put_run8_paints. Qed.
Theorem C06_literal_paints : forall l fp fs a seg b x y w iw width pw,
  length seg = length (vis iw x l) -> (x < iw -> zlen a = y * width + x + pw) -> x + zlen l <= w ->
  put_lit8 (length l) (fp ++ l ++ fs) (a ++ seg ++ b) x y w iw width pw (zlen fp)
  = Ok (a ++ vis iw x l ++ b, x + zlen l, zlen fp + zlen l).
Proof. exact put_lit8_paints. Qed.

(* what a BMP reader looks at: signature, data offset, width, height, bits per pixel; 4-byte aligned stride *)
Theorem C06_stride : forall w, 0 <= w -> stride4 w mod 4 = 0 /\ w <= stride4 w < w + 4.
Proof. exact stride4_spec. Qed.
Theorem C06_header_fields : forall size offset rest,
  slice (bmp_header size offset ++ rest) 0 2 = ["B"; "M"]%byte /\
  slice (bmp_header size offset ++ rest) 10 14 = pack 4 Little offset.
Proof. exact bmp_header_fields. Qed.
Theorem C06_info_fields : forall w h bpp nc pre rest, zlen pre = 14 ->
  slice (pre ++ bmp_info_header w h bpp nc ++ rest) 18 22 = pack 4 Little w /\
  slice (pre ++ bmp_info_header w h bpp nc ++ rest) 22 26 = pack 4 Little h /\
  slice (pre ++ bmp_info_header w h bpp nc ++ rest) 28 30 = pack 2 Little bpp.
Proof. exact bmp_info_fields. Qed.

(* ---- raw rows (any image size): the first w bytes / bits of every stored row at (w_padding, h_padding) ---- *)
Theorem C06_raw8_pixels : forall bw bh pw ph W rows,
  let w := bw - pw in let width := stride4 bw in
  0 <= pw -> 0 < w -> w <= W -> 0 <= ph -> zlen rows = bh - ph -> Forall (fun r => zlen r = W) rows ->
  decode_raw8 (concat rows) bw bh pw ph width W
  = Ok (concat (map (raw_canvas8 pw w width) (rev rows)) ++ zerosZ (width * ph)).
Proof. exact raw8_pixels. Qed.
Theorem C06_raw1_pixels : forall bw bh pw ph W rows,
  let w := bw - pw in let width := stride4 bw in
  0 <= pw -> 0 < w -> (w + 7) / 8 <= W -> 0 <= ph -> zlen rows = bh - ph -> Forall (fun r => zlen r = W) rows ->
  decode_raw1 (concat rows) bw bh pw ph width W
  = Ok (concat (map (raw_canvas1 pw w width) (rev rows)) ++ zerosZ (width * ph)).
Proof. exact raw1_pixels. Qed.

(* ---- compressed 1 bit: every segmentation of rows of width16 w / 8 bytes; the pad bits are not painted ---- *)
Theorem C06_compressed1_pixels : forall bw bh pw ph rows,
  let w := bw - pw in let W := width16 w in let width := stride4 bw in
  0 <= pw -> 0 < w -> 0 <= ph -> zlen rows = bh - ph -> Forall (wf_row (W / 8)) rows ->
  decode_compressed1 (concat (map enc_toks rows)) bw bh pw ph width
  = Ok (concat (map (canvas1 pw w width) (rev rows)) ++ zerosZ (width * ph)).
Proof. exact compressed1_pixels. Qed.
Theorem C06_compressed1_encoding_independent : forall bw bh pw ph rows1 rows2,
  let w := bw - pw in let W := width16 w in let width := stride4 bw in
  0 <= pw -> 0 < w -> 0 <= ph -> zlen rows1 = bh - ph -> zlen rows2 = bh - ph ->
  Forall (wf_row (W / 8)) rows1 -> Forall (wf_row (W / 8)) rows2 ->
  map dec_toks rows1 = map dec_toks rows2 ->
  decode_compressed1 (concat (map enc_toks rows1)) bw bh pw ph width
  = decode_compressed1 (concat (map enc_toks rows2)) bw bh pw ph width.
Proof. exact compressed1_encoding_independent. Qed.
(* raw and compressed storage of the same rows give the same pixel array (1 bit; 8 bit up to the trailing extra8 bytes) *)
Theorem C06_raw_equals_compressed1 : forall bw bh pw ph rows,
  let w := bw - pw in let W := width16 w in let width := stride4 bw in
  0 <= pw -> 0 < w -> 0 <= ph -> zlen rows = bh - ph -> Forall (wf_row (W / 8)) rows ->
  decode_compressed1 (concat (map enc_toks rows)) bw bh pw ph width
  = decode_raw1 (concat (map dec_toks rows)) bw bh pw ph width (W / 8).
Proof.
  intros bw bh pw ph rows. cbv zeta. intros Hpw Hw Hph Hrows Hwf.
  rewrite (compressed1_pixels bw bh pw ph rows) by assumption.
  pose proof (width16_spec (bw - pw) ltac:(lia)) as [_ HWr]. pose proof (width16_bytes (bw - pw) ltac:(lia)) as HW8.
  rewrite (raw1_pixels bw bh pw ph (width16 (bw - pw) / 8) (map dec_toks rows)); try assumption.
  - rewrite <- map_rev, map_map. reflexivity.
  - assert ((bw - pw + 7) / 8 < width16 (bw - pw) / 8 + 1) by (apply Z.div_lt_upper_bound; lia). lia.
  - unfold zlen in *. rewrite map_length. exact Hrows.
  - apply Forall_forall. intros r Hin. apply in_map_iff in Hin. destruct Hin as (ts & <- & Hin).
    rewrite Forall_forall in Hwf. apply (Hwf ts Hin).
Qed.

(* ---- the property as worded: a standard BMP reader applied to the whole file ---- *)
(* bmp_read: offset from the file header, width / height / bpp from the info header, stride ((w*bpp+31)/32)*4,
   rows bottom-up; want: the source pixel inside the image area, background elsewhere (y counted from the top) *)
Theorem C06_bmp8_compressed_reader : forall bw bh pw ph rows pname pdata pal,
  let w := bw - pw in let W := w + w mod 2 in let enc := concat (map enc_toks rows) in
  0 <= pw -> 0 < w -> 0 <= ph -> zlen rows = bh - ph -> Forall (wf_row W) rows ->
  bw < 2 ^ 31 -> bh < 2 ^ 31 -> bw * bh + 1078 < 2 ^ 31 -> pal_ok 8 256 pname pdata pal ->
  zlen enc <> W * (bh - ph) ->
  exists bmp, decode8 enc bw bh pw ph pname pdata = Ok bmp /\
    forall x y, 0 <= x < bw -> 0 <= y < bh -> bmp_read bmp x y = Some (want dec_toks [] rows pw ph w x y).
Proof. exact bmp8_compressed_reader. Qed.
Theorem C06_bmp8_raw_reader : forall bw bh pw ph rows pname pdata pal,
  let w := bw - pw in let W := w + w mod 2 in
  0 <= pw -> 0 < w -> 0 <= ph -> zlen rows = bh - ph -> Forall (fun r => zlen r = W) rows ->
  bw < 2 ^ 31 -> bh < 2 ^ 31 -> bw * bh + 1078 < 2 ^ 31 -> pal_ok 8 256 pname pdata pal ->
  exists bmp, decode8 (concat rows) bw bh pw ph pname pdata = Ok bmp /\
    forall x y, 0 <= x < bw -> 0 <= y < bh -> bmp_read bmp x y = Some (want (fun r => r) [] rows pw ph w x y).
Proof. exact bmp8_raw_reader. Qed.
Theorem C06_bmp1_compressed_reader : forall bw bh pw ph rows pname pdata pal,
  let w := bw - pw in let W := width16 w in let enc := concat (map enc_toks rows) in
  0 <= pw -> 0 < w -> 0 <= ph -> zlen rows = bh - ph -> Forall (wf_row (W / 8)) rows ->
  bw < 2 ^ 31 -> bh < 2 ^ 31 -> bw * bh + 62 < 2 ^ 31 -> pal_ok 1 2 pname pdata pal ->
  zlen enc <> w_size1 w * (bh - ph) ->
  exists bmp, decode1 enc bw bh pw ph pname pdata = Ok bmp /\
    forall x y, 0 <= x < bw -> 0 <= y < bh ->
    bmp_read bmp x y = Some (want (fun ts => bits_of (dec_toks ts)) [] rows pw ph w x y).
Proof. exact bmp1_compressed_reader. Qed.
Theorem C06_bmp1_raw_reader : forall bw bh pw ph rows pname pdata pal,
  let w := bw - pw in let W := w_size1 w in
  0 <= pw -> 0 < w -> 0 <= ph -> zlen rows = bh - ph -> Forall (fun r => zlen r = W) rows ->
  bw < 2 ^ 31 -> bh < 2 ^ 31 -> bw * bh + 62 < 2 ^ 31 -> pal_ok 1 2 pname pdata pal ->
  exists bmp, decode1 (concat rows) bw bh pw ph pname pdata = Ok bmp /\
    forall x y, 0 <= x < bw -> 0 <= y < bh -> bmp_read bmp x y = Some (want bits_of [] rows pw ph w x y).
Proof. exact bmp1_raw_reader. Qed.

(* ---- 32 bit (written as 24 bits per pixel) ---- *)
(* the stream is written linearly into rows of four colour planes; any PackBits segmentation of the concatenated rows
   (tokens may cross plane and row boundaries); output rows: 3-byte pixels (plane 3, 2, 1), padded to 4 bytes *)
Theorem C06_compressed24_pixels : forall w h ts rows,
  0 < w -> Forall wf_tok ts -> dec_toks ts = concat rows -> Forall (fun r => zlen r = w * 4) rows -> zlen rows = h ->
  decode_compressed24 (enc_toks ts) w h (w * 4) = Ok (concat (map (out_row24 w) (rev rows))).
Proof. exact compressed24_pixels. Qed.
Theorem C06_compressed24_encoding_independent : forall w h ts1 ts2 rows,
  0 < w -> Forall wf_tok ts1 -> Forall wf_tok ts2 -> dec_toks ts1 = concat rows -> dec_toks ts2 = concat rows ->
  Forall (fun r => zlen r = w * 4) rows -> zlen rows = h ->
  decode_compressed24 (enc_toks ts1) w h (w * 4) = decode_compressed24 (enc_toks ts2) w h (w * 4).
Proof. exact compressed24_encoding_independent. Qed.
(* the whole file under a standard reader (3 bytes per pixel, stride ((w*24+31)/32)*4, bottom-up): at every canvas
   position the three colour bytes of the stored row.  The registration offsets are not applied by this decoder
   (open finding C06-16-32-offsets-ignored): this is the property's demand for images without offsets. *)
Theorem C06_bmp24_reader : forall bw bh pw ph ts rows,
  0 < bw -> 0 <= ph -> Forall wf_tok ts -> dec_toks ts = concat rows -> Forall (fun r => zlen r = bw * 4) rows -> zlen rows = bh ->
  bw < 2 ^ 31 -> bh < 2 ^ 31 -> bw * bh * 3 + 54 < 2 ^ 31 -> zlen (enc_toks ts) <> (bw - pw) * 2 * (bh - ph) ->
  exists bmp, decode24 (enc_toks ts) bw bh pw ph = Ok bmp /\
    forall x y, 0 <= x < bw -> 0 <= y < bh -> bmp_read3 bmp x y = Some (pixel24 bw (nth (Z.to_nat y) rows []) x).
Proof. exact bmp24_reader. Qed.
Example C06_reader_example24 :      (* a 3 x 2 image: odd width, rows padded from 9 to 12 bytes; one token crosses the row boundary *)
  let rows := [[x00; x00; x00; x11; x12; x13; x21; x22; x23; x31; x32; x33]; [x00; x00; x00; x41; x42; x43; x51; x52; x53; x61; x62; x63]] in
  let ts := [TLit [x00; x00; x00; x11; x12; x13; x21; x22; x23; x31]; TLit [x32; x33; x00]; TRun 2 x00; TLit [x41; x42; x43; x51; x52; x53; x61; x62; x63]] in
  dec_toks ts = concat rows /\
  match decode24 (enc_toks ts) 3 2 0 0 with
  | Ok bmp => map (fun y => map (fun x => bmp_read3 bmp x y) [0; 1; 2]) [0; 1]
              = [[Some [x31; x21; x11]; Some [x32; x22; x12]; Some [x33; x23; x13]];
                 [Some [x61; x51; x41]; Some [x62; x52; x42]; Some [x63; x53; x43]]]
  | _ => False
  end.
Proof. vm_compute. split; reflexivity. Qed.

(* ---- 16 bit ---- *)
(* a stored row has two planes of w bytes (high bytes, low bytes); the decoder moves to the next plane / row before a
   token that would not fit, so the theorem is for encodings whose tokens stay inside a plane (confined): the scan-line
   encodings of the property's quantifier ("runs confined to a colour plane") *)
Theorem C06_compressed16_pixels : forall w h ts rows,
  0 < w -> Forall wf_tok ts -> confined w (w * 2) 0 ts -> dec_toks ts = concat rows ->
  Forall (fun r => zlen r = w * 2) rows -> zlen rows = h ->
  decode_compressed16 (enc_toks ts) w h (w * 2) = Ok (concat (map (out_row16 w) (rev rows))).
Proof. exact compressed16_pixels. Qed.
Theorem C06_compressed16_encoding_independent : forall w h ts1 ts2 rows,
  0 < w -> Forall wf_tok ts1 -> Forall wf_tok ts2 -> confined w (w * 2) 0 ts1 -> confined w (w * 2) 0 ts2 ->
  dec_toks ts1 = concat rows -> dec_toks ts2 = concat rows ->
  Forall (fun r => zlen r = w * 2) rows -> zlen rows = h ->
  decode_compressed16 (enc_toks ts1) w h (w * 2) = decode_compressed16 (enc_toks ts2) w h (w * 2).
Proof. exact compressed16_encoding_independent. Qed.
Theorem C06_bmp16_reader : forall bw bh pw ph ts rows,
  0 < bw -> 0 <= ph -> Forall wf_tok ts -> confined bw (bw * 2) 0 ts -> dec_toks ts = concat rows ->
  Forall (fun r => zlen r = bw * 2) rows -> zlen rows = bh ->
  bw < 2 ^ 31 -> bh < 2 ^ 31 -> bw * bh * 2 + 138 < 2 ^ 31 -> zlen (enc_toks ts) <> (bw - pw) * 2 * (bh - ph) ->
  exists bmp, decode16 (enc_toks ts) bw bh pw ph = Ok bmp /\
    forall x y, 0 <= x < bw -> 0 <= y < bh -> bmp_read2 bmp x y = Some (pixel16 bw (nth (Z.to_nat y) rows []) x).
Proof. exact bmp16_reader. Qed.
Example C06_reader_example16 :      (* a 3 x 2 image: odd width, output rows padded from 6 to 8 bytes; runs end exactly at plane / row ends *)
  let rows := [[x7c; x03; x00; x00; xe0; x1f]; [x7f; x7f; x7f; xff; xff; xff]] in
  let ts := [TLit [x7c; x03; x00]; TLit [x00; xe0]; TLit [x1f]; TRun 3 x7f; TRun 3 xff] in
  dec_toks ts = concat rows /\ confined 3 6 0 ts /\
  match decode16 (enc_toks ts) 3 2 0 0 with
  | Ok bmp => map (fun y => map (fun x => bmp_read2 bmp x y) [0; 1; 2]) [0; 1]
              = [[Some [x00; x7c]; Some [xe0; x03]; Some [x1f; x00]];
                 [Some [xff; x7f]; Some [xff; x7f]; Some [xff; x7f]]]
  | _ => False
  end.
Proof. vm_compute. repeat split; try reflexivity; try discriminate; intros; exact I. Qed.

(* the control-byte boundary (seed C06_i): a run of 129 copies is the control byte 0x80, a literal of 128 bytes is 0x7f;
   both are inside [wf_tok], so the theorems above cover them.  A 129 x 1 image: each plane is one run of 129, or the
   same plane cut as a run of 128 + a literal of 1 - the reader sees the same pixels in both files *)
Example C06_boundary_example16 :
  let ts1 := [TRun 129 x12; TRun 129 x34] in
  enc_toks ts1 = [x80; x12; x80; x34] /\ Forall wf_tok ts1 /\ confined 129 258 0 ts1 /\
  nth 0 (enc_toks [TLit (repeat x34 128)]) x00 = x7f /\
  dec_toks ts1 = repeat x12 129 ++ repeat x34 129 /\
  match decode16 (enc_toks ts1) 129 1 0 0, decode16 (enc_toks [TRun 128 x12; TLit [x12]; TLit (repeat x34 128); TLit [x34]]) 129 1 0 0 with
  | Ok bmp1, Ok bmp2 => bmp1 = bmp2 /\ map (fun x => bmp_read2 bmp1 x 0) [0; 64; 127; 128] = repeat (Some [x34; x12]) 4
  | _, _ => False
  end.
Proof. vm_compute. repeat split; try reflexivity; try discriminate; try lia; repeat constructor; intros; try exact I. Qed.

(* non-vacuity of the reader theorems: the premises hold for a 3x2 image at offset (1,1) on a 5x3 canvas with the
   default palettes, and the reader sees the expected pixels in the file the model writes *)
Definition ex_rows8 : list (list tok) := [[TRun 2 x07; TLit [x09; x00]]; [TLit [x01]; TRun 3 x00]].
Example C06_reader_premises8 :
  Forall (wf_row 4) ex_rows8 /\ (exists pal, pal_ok 8 256 [] [] pal) /\
  zlen (concat (map enc_toks ex_rows8)) <> 4 * 2.
Proof.
  split; [repeat constructor; cbn; try lia; discriminate|]. split; [|vm_compute; discriminate].
  destruct (write_color_palette 8 256 [] []) as [p| |] eqn:E; [|vm_compute in E; discriminate E..].
  exists p. split; [exact E|]. vm_compute in E. injection E as <-. reflexivity.
Qed.
Example C06_reader_example8 :
  match decode8 (concat (map enc_toks ex_rows8)) 4 3 1 1 [] [] with
  | Ok bmp => map (fun y => map (fun x => bmp_read bmp x y) [0; 1; 2; 3]) [0; 1; 2]
              = [[Some x00; Some x00; Some x00; Some x00];
                 [Some x00; Some x07; Some x07; Some x09];
                 [Some x00; Some x01; Some x00; Some x00]]
  | _ => False
  end.
Proof. vm_compute. reflexivity. Qed.
Example C06_reader_premises1 : exists pal, pal_ok 1 2 s_bw [] pal.
Proof.
  destruct (write_color_palette 1 2 s_bw []) as [p| |] eqn:E; [|vm_compute in E; discriminate E..].
  exists p. split; [exact E|]. vm_compute in E. injection E as <-. reflexivity.
Qed.
Example C06_reader_example1 :
  match decode1 [xa0; x00; x40; x00] 4 3 1 1 s_bw [] with      (* raw 1-bit rows 101 / 010, two bytes per row *)
  | Ok bmp => map (fun y => map (fun x => bmp_read bmp x y) [0; 1; 2; 3]) [0; 1; 2]
              = [[Some x00; Some x00; Some x00; Some x00];
                 [Some x00; Some x01; Some x00; Some x01];
                 [Some x00; Some x00; Some x01; Some x00]]
  | _ => False
  end.
Proof. vm_compute. reflexivity. Qed.

(* non-vacuity: two segmentations of a 3x2 image at offset (1,1) on a 4x3 canvas decode to the same array *)
Example C06_example :
  let r1 := [[TRun 2 x07; TLit [x09; x00]]; [TLit [x01]; TRun 3 x00]] in
  let r2 := [[TLit [x07; x07; x09; x00]]; [TLit [x01; x00]; TRun 2 x00]] in
  map dec_toks r1 = map dec_toks r2 /\
  decode_compressed8 (concat (map enc_toks r1)) 4 3 0 1 (stride4 4) = Ok [x01; x00; x00; x00; x07; x07; x09; x00; x00; x00; x00; x00] /\
  decode_compressed8 (concat (map enc_toks r2)) 4 3 0 1 (stride4 4) = Ok [x01; x00; x00; x00; x07; x07; x09; x00; x00; x00; x00; x00].
Proof. vm_compute. repeat split; reflexivity. Qed.

Print Assumptions C06_compressed8_pixels.
Print Assumptions C06_compressed8_encoding_independent.
Print Assumptions C06_compressed8_former_leak.
Print Assumptions C06_raw_equals_compressed1.
Print Assumptions C06_run_paints.
Print Assumptions C06_literal_paints.
Print Assumptions C06_stride.
Print Assumptions C06_header_fields.
Print Assumptions C06_info_fields.
Print Assumptions C06_raw8_pixels.
Print Assumptions C06_raw1_pixels.
Print Assumptions C06_compressed1_pixels.
Print Assumptions C06_compressed1_encoding_independent.
Print Assumptions C06_bmp8_compressed_reader.
Print Assumptions C06_bmp8_raw_reader.
Print Assumptions C06_bmp1_compressed_reader.
Print Assumptions C06_bmp1_raw_reader.
Print Assumptions C06_compressed24_pixels.
Print Assumptions C06_compressed24_encoding_independent.
Print Assumptions C06_bmp24_reader.
Print Assumptions C06_compressed16_pixels.
Print Assumptions C06_compressed16_encoding_independent.
Print Assumptions C06_bmp16_reader.
