From Coq Require Import List ZArith.
From DRX Require Import Py.PyBytes Model.Bitd.
Theorem C06_stub : stride4 5 = 8%Z. Proof. reflexivity. Qed.
Print Assumptions C06_stub.
