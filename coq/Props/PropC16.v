(* C16 - text members keep their characters, styles and fonts. Statements only; proofs in
   Proofs/TextFacts.v.  Text and names are the stored bytes (the configured codec is applied outside). *)
From Coq Require Import List ZArith.
From Coq.Strings Require Import Byte.
From DRX Require Import Py.PyBytes Py.Layout Model.Riff Proofs.RiffFacts Model.Vwsc Model.Text Proofs.TextFacts Gen.Gen_Layouts.
Import ListNotations.
Open Scope Z_scope.

(* the decoded text is the stored byte range; run i reports the fields stored in record i *)
Theorem C16_stxt_roundtrip : forall fm gap text fds runs tail,
  in32 (12 + zlen gap) -> in32 (zlen text) -> in32 fds -> in16 (zlen runs) ->
  Forall (fits_all stxt_run_layout) runs -> 0 < lwidth stxt_run_layout ->
  parse_stxt_data (enc_stxt gap text fds runs tail) fm
  = Ok (text, map (fun vs => run_of_fields fm (fld stxt_run_names vs)) runs).
Proof. exact stxt_roundtrip. Qed.

(* font family: the font-map entry with the run's id, or the explicit unknown marker *)
Theorem C16_font_known : forall fm f, NoDup (map f_id fm) -> In f fm ->
  forall acc, find_font fm (f_id f) acc = Known (f_name f).
Proof. exact find_font_known. Qed.
Theorem C16_font_unknown : forall fm id, (forall f, In f fm -> f_id f <> id) ->
  forall acc, find_font fm id acc = acc.
Proof. exact find_font_unknown. Qed.

(* a font map decodes to its (id, name) pairs in order; unused capacity slots are skipped;
   names may sit anywhere in the name area (each at its displacement) *)
Theorem C16_fmap_roundtrip : forall hv used spare basic,
  fits_all fmap_header_layout hv ->
  fld fmap_header_names hv k_nfonts = zlen used ->
  fld fmap_header_names hv k_nfonts_cap = zlen (used ++ spare) ->
  Forall (fun s => fits_all fmap_meta_layout (sl_vals s)) (used ++ spare) ->
  Forall (stored basic) used -> 0 < lwidth fmap_meta_layout ->
  in32 (zlen (enc_layout Big fmap_header_layout hv [] ++ concat (map enc_slot (used ++ spare)))) -> in32 (zlen basic) ->
  parse_fmap_data (enc_fmap hv used spare basic) = Ok (map (fun s => Build_font (sl_name s) (id_of s)) used).
Proof. exact fmap_roundtrip. Qed.
Theorem C16_fmap_size_mismatch : forall hs asz rest,
  in32 hs -> in32 asz -> 8 + hs + asz <> 8 + zlen rest ->
  parse_fmap_data (pack 4 Big hs ++ pack 4 Big asz ++ rest) = Err EValue.
Proof. exact fmap_size_mismatch. Qed.

(* non-vacuity: the generated layouts have the documented sizes and the model runs on a concrete chunk *)
Example C16_layout_sizes : lwidth stxt_run_layout = 20 /\ lwidth fmap_header_layout = 28 /\ lwidth fmap_meta_layout = 8.
Proof. vm_compute. repeat split. Qed.
Example C16_example :
  parse_stxt_data (enc_stxt [] ["H";"i";x8e]%byte 22 [[0; 1; 0; 0; 7; 5; 0; 12; 255; 0; 128; 0; 0; 0]] [])
                  [Build_font ["G";"e";"n";"e";"v";"a"]%byte 7]
  = Ok (["H";"i";x8e]%byte,
        [{| r_color := (xff, x80, x00); r_start := 1; r_bold := true; r_italic := false; r_underline := true;
            r_size := 12; r_family := Known ["G";"e";"n";"e";"v";"a"]%byte |}]).
Proof. vm_compute. reflexivity. Qed.

Print Assumptions C16_stxt_roundtrip.
Print Assumptions C16_font_known.
Print Assumptions C16_font_unknown.
Print Assumptions C16_fmap_roundtrip.
Print Assumptions C16_fmap_size_mismatch.
