(* C03 - control-flow reconstruction restores the source nesting exactly.  Property theorems only. *)
From Coq Require Import ZArith List Bool String Lia.
From DRX Require Import Model.LingoAst Spec.SpecFlow Proofs.LingoFlowFacts.
Import ListNotations.

(* For every handler skeleton with at most 2 compound constructs and bodies of one or two items, and every
   skeleton with at most 4 compound constructs and one-item bodies (if, if-else, repeat while, repeat with up /
   down, exit repeat at EVERY legal position; 4430 + 5893 handlers): decompiling its compilation yields exactly
   the source nesting - every numbered statement once, in order, in the same construct, every construct with its
   original condition / loop variable / bounds, no raw jump left.  The bound is in the statement; the proof is a
   computation of the decompiler model on every one of these handlers inside the kernel.  (Before the repair
   ca070ba of /repo the statement needed the hypothesis "none of the four exit-repeat patterns P1-P4" and the
   unrestricted statement was refuted by four witnesses; they are now positive examples in LingoFlowFacts.) *)
Theorem C03_all_reconstructed_bounded :
  forall l, In l (skeletons 2 2 ++ skeletons 4 1) -> reconstructed l = true.
Proof. exact all_reconstructed. Qed.
Print Assumptions C03_all_reconstructed_bounded.

(* the skeletons that contain one of the formerly failing exit-repeat patterns are part of that enumeration *)
Theorem C03_former_findings_covered :
  (List.length (filter bad (skeletons 2 2)) =? 0)%nat = false /\ (List.length (filter bad (skeletons 4 1)) =? 0)%nat = false /\
  reconstructed [SWhile 1 [SS 1; SX]] = true /\
  reconstructed [SWhile 1 [SIfE 2 [SS 1] [SX]]] = true /\
  reconstructed [SWhile 1 [SIf 2 [SX; SS 1; SS 2]]] = true /\
  reconstructed [SWhile 1 [SIf 2 [SX]; SIf 3 [SS 1]]] = true.
Proof. exact (conj (proj1 formerly_bad) (conj (proj2 formerly_bad) (conj P1_now (conj P2_now (conj P3_now P4_now))))). Qed.
Print Assumptions C03_former_findings_covered.

(* ---- unbounded part: nests of  if ... then ... [else ...] end if  and  repeat while ... end repeat ---- *)
From DRX Require Import Py.PyBytes Model.LingoGen Model.LingoOps Model.LingoLoop Spec.SpecLingo Spec.SpecNest
  Proofs.LingoExecFacts Proofs.LingoStmtFacts Proofs.LingoNestFacts Proofs.LingoNestExec.
Open Scope Z_scope.

(* For every program built from straight-line statements (assignments to every kind of variable, statement
   calls),  if <any expression> then <non-empty body> end if,  if ... then <body> else <body> end if  and
   repeat while <expression> <body> end repeat  (the condition not of the  x <= n / x >= n  counting form nor starting
   with a constant, which loop_detect reads as repeat with), nested to ANY depth with ANY number of statements per body
   (the only bounds are those of the format: two-byte forward jump offsets, one-byte backward jump): running the handler's
   compiled code through the stack machine and the control-flow passes (detect = condition_detect, then
   loop_detect, with the fuel parse_opcodes gives them) yields exactly the source nesting - every statement once,
   in order, inside the same branch of the same if or the same loop, every if and loop with its own condition, no raw
   jump left - followed by the handler's exit statement.  Proof: induction over the program for the execution
   (LingoNestExec.exec_p; the backward jump gathers the statements of its loop), induction over the nesting depth and
   the statement list for the passes (LingoNestFacts.detect_nest). *)
(* Since the execution part also knows  exit repeat  (SpecNest.PExit: a forward jump whose operand is checked by
   [exits_ok] to lead to the address after the back jump of the innermost loop around it, from any place of the body -
   directly, in a then or else part, followed by further statements), the theorem below covers nests with exits too;
   its name is kept.  [exits_ok None p]: no exit outside a loop. *)
Theorem C03_exit_free_nests_rebuilt_unbounded :
  forall en props p d off fuel r m,
  wf_p wcond_ok en p -> exits_ok None p -> agrees_p en props m -> m_stack m = [] -> f_stmts (m_fn m) = [] ->
  code_at d off (compile_p p ++ [b 1]) ->
  let pexit := off + zlen (compile_p p) in
  let exit_st := Stmt pexit (Call "exit" pexit None true false false) in
  exists r' m',
    run_ops (ninstr_p p + (1 + fuel)) d off (zlen (compile_p p ++ [b 1])) off r m = Ok (r', m') /\
    f_stmts (m_fn m') = flats (items en props off p) ++ [exit_st] /\
    detect (f_stmts (m_fn m')) = Ok (rebuilt en props off p ++ [exit_st]).
Proof. exact nest_handler. Qed.
Print Assumptions C03_exit_free_nests_rebuilt_unbounded.

(* the passes alone, on any well-positioned flat list (the form the theorem above shows the machine leaves) - here also
   with  exit repeat : an item  IExit false p t  is the raw forward jump at p to an address t past the end of the loop
   that contains it (wp demands t > end for every exit of a loop body, through ifs: exits_gt), at any place of the body -
   directly in the loop, in a then part, in an else part, followed by further statements.  At the top level (no loop
   around) there is no exit left to convert (exits_done).  Every exit comes out as the statement  exit repeat  at its
   place, and the ifs / loops around it are rebuilt as without it. *)
Theorem C03_passes_rebuild_any_nest : forall l lo hi, wpw lo hi l -> exits_done l = true -> detect (flats l) = Ok (fins l).
Proof. exact detect_nest. Qed.
Print Assumptions C03_passes_rebuild_any_nest.

(* non-vacuity of the exit part: a loop whose body has exits in a then part, alone in a then part with an else, at the
   end of an else part and directly in the body *)
Definition pl (p : Z) : node := Stmt p (Call "put" p None true false false).
Definition exits_example : list item :=
  [IPlain (pl 0);
   IWhile false 1 2 (true_at 1) 40
     [IPlain (pl 5);
      IIf 8 (true_at 7) 20 [IPlain (pl 10); IExit false 12 43];
      IIfE 20 (true_at 20) 30 [IExit false 22 43] 27 38 [IPlain (pl 31); IExit false 33 43];
      IExit false 38 43];
   IPlain (pl 45)].
Example C03_exits_example_wp : wpw 0 46 exits_example /\ exits_done exits_example = true.
Proof.
  split; [|reflexivity]. unfold exits_example.
  repeat (first [apply wp_nil; lia | apply wp_plain; [reflexivity | cbn [pos_of pl]; lia | cbn [pos_of pl]]
                | apply wp_if; [lia | discriminate | |] | apply wp_ife; [lia | discriminate | discriminate | | lia | |]
                | apply wp_while; [lia | lia | reflexivity | | reflexivity |] | apply wp_exit; [lia|]]).
Qed.
Example C03_exits_example_run : detect (flats exits_example) = Ok (fins exits_example) /\
  fins exits_example =
  [pl 0;
   loop_stmt 1 40 (true_at 1)
     [pl 5;
      Stmt 8 (IfThen 8 (true_at 7) [pl 10; Stmt 12 (ExitRepeat 12)] []);
      Stmt 20 (IfThen 20 (true_at 20) [Stmt 22 (ExitRepeat 22)] [pl 31; Stmt 33 (ExitRepeat 33)]);
      Stmt 38 (ExitRepeat 38)];
   pl 45].
Proof. split; [vm_compute; reflexivity | reflexivity]. Qed.

(* non-vacuity, and agreement with the run used by the bounded theorem: a three-level nest in the test handler *)
Definition flow_env : env := Build_env flow_names [] flow_locals ["h"%string] [].
Definition put_s (n : Z) : stmt := SCallS 9 [EInt n].
Definition c_lt (k : Z) : expr := EBin Lt (ELoc 0) (EInt k).
Definition nest3 : prog :=
  PStmt (put_s 1)
   (PIf (c_lt 2) (PStmt (put_s 3) (PIfE (c_lt 4) (PIf (c_lt 5) (PStmt (put_s 6) (PStmt (SSet (TLoc 1) (EInt 7)) PNil)) (PStmt (put_s 8) PNil))
                                                 (PIfE (c_lt 11) (PStmt (put_s 12) PNil) (PStmt (put_s 13) PNil) PNil) (PStmt (put_s 9) PNil)))
   (PIfE (c_lt 14) (PStmt (put_s 15) PNil) (PIf (c_lt 16) (PStmt (put_s 17) PNil) PNil)
   (PWhile (c_lt 18) (PStmt (put_s 19) (PIf (c_lt 20) (PWhile (c_lt 21) (PStmt (put_s 22) PNil) (PStmt (put_s 23) PNil)) PNil))
   (PIf (c_lt 24) (PWhile (c_lt 25) (PIfE (c_lt 26) (PStmt (put_s 27) PNil) (PStmt (put_s 28) PNil) PNil) PNil) (PStmt (put_s 10) PNil))))).
Example C03_nest3_wf : wf_p wcond_ok flow_env nest3.
Proof. cbn. repeat split; try lia; try discriminate; intros; reflexivity. Qed.
Example C03_nest3_run :
  decompile_handler (compile_p nest3 ++ [b 1])
  = Ok (rebuilt flow_env [] 0 nest3 ++ [let e := zlen (compile_p nest3) in Stmt e (Call "exit" e None true false false)]).
Proof. vm_compute. reflexivity. Qed.

(* a nest with exits at the execution level: in a then part after a statement, alone in a then part with an else part
   that ends in an exit, and directly in the loop body followed by a statement; the offsets are the ones Director
   writes (exits_ok) *)
Definition exits_prog : prog :=
  PStmt (put_s 1)
   (PWhile (c_lt 2)
      (PStmt (put_s 3)
       (PIf (c_lt 4) (PStmt (put_s 5) (PExit 37 PNil))
       (PIfE (c_lt 6) (PExit 26 PNil) (PStmt (put_s 7) (PExit 14 PNil))
       (PExit 11 (PStmt (put_s 8) PNil)))))
   (PStmt (put_s 9) PNil)).
Example C03_exits_prog_wf : wf_p wcond_ok flow_env exits_prog /\ exits_ok None exits_prog.
Proof. cbn. repeat split; try lia; try discriminate; try (intros; reflexivity); eexists; split; reflexivity. Qed.
Example C03_exits_prog_run :
  decompile_handler (compile_p exits_prog ++ [b 1])
  = Ok (rebuilt flow_env [] 0 exits_prog ++ [let e := zlen (compile_p exits_prog) in Stmt e (Call "exit" e None true false false)]).
Proof. vm_compute. reflexivity. Qed.

(* ---- unbounded part, with counting loops ---- *)
From DRX Require Import Spec.SpecFor Proofs.LingoNestFor.

(* The same for programs that also contain  repeat with v = a to b  and  repeat with v = a down to b  (any
   expressions as bounds, a local variable as counter): Director compiles them as an assignment, a loop on
   v <= b / v >= b and a last statement adding 1 / -1 (SpecFor.desugar); the decompiler recognises the pattern,
   restores the header with its variable, bounds and direction, drops the step and deletes the initial assignment
   (SpecFor.final), to any nesting depth and mixed freely with if / if-else / repeat while and with  exit repeat
   (SpecFor.QExit: out of a plain loop or out of a counting loop, from any place of the body; [exits_ok None]: every
   exit jumps to the address after the back jump of its loop, none stands outside a loop).  Only
   repeat with ... in <list>  is outside this theorem. *)
Theorem C03_counting_loops_rebuilt_unbounded :
  forall en props q d off fuel r m,
  wf_p any_cond en (desugar q) -> exits_ok None (desugar q) -> ok2 en q ->
  agrees_p en props m -> m_stack m = [] -> f_stmts (m_fn m) = [] ->
  code_at d off (code2 q ++ [b 1]) ->
  let pexit := off + zlen (code2 q) in
  let exit_st := Stmt pexit (Call "exit" pexit None true false false) in
  exists r' m',
    run_ops (ninstr_p (desugar q) + (1 + fuel)) d off (zlen (code2 q ++ [b 1])) off r m = Ok (r', m') /\
    detect (f_stmts (m_fn m')) = Ok (final en props off q ++ [exit_st]).
Proof. exact for_handler. Qed.
Print Assumptions C03_counting_loops_rebuilt_unbounded.

Definition qput (n : Z) : stmt := SCallS 9 [EInt n].
Definition forq : prog2 :=
  QStmt (qput 1)
   (QFor false 1 (EInt 1) (EInt 9)
      (QStmt (qput 2) (QIf (c_lt 3) (QFor true 2 (EInt 9) (ELoc 1) (QStmt (qput 4) QNil) QNil) (QWhile (c_lt 5) (QStmt (qput 6) QNil) QNil)))
   (QFor false 3 (ELoc 0) (EBin Add (ELoc 0) (EInt 2)) (QStmt (qput 7) QNil) (QStmt (qput 8) QNil))).
Example C03_forq_ok : wf_p any_cond flow_env (desugar forq) /\ exits_ok None (desugar forq) /\ ok2 flow_env forq.
Proof. cbn. repeat split; try lia; try discriminate; intros; reflexivity. Qed.
Example C03_forq_run :
  decompile_handler (code2 forq ++ [b 1])
  = Ok (final flow_env [] 0 forq ++ [let e := zlen (code2 forq) in Stmt e (Call "exit" e None true false false)]).
Proof. vm_compute. reflexivity. Qed.

(* exit repeat out of a counting loop: from a then part of its body (followed by a further statement and the step
   assignment Director appends) and out of a plain loop nested in it *)
Definition forx : prog2 :=
  QFor false 1 (EInt 1) (EInt 9)
    (QStmt (qput 2)
      (QIf (c_lt 3) (QExit (3 + (2 + zlen (compile_p (PStmt (qput 4) (PStmt (for_step false 1) PNil))))) QNil)
      (QStmt (qput 4) QNil)))
    (QWhile (c_lt 5) (QStmt (qput 6) (QExit (3 + 2) QNil)) QNil).
Example C03_forx_ok : wf_p any_cond flow_env (desugar forx) /\ exits_ok None (desugar forx) /\ ok2 flow_env forx.
Proof. cbn. repeat split; try lia; try discriminate; try (intros; reflexivity); eexists; split; reflexivity. Qed.
Example C03_forx_run :
  decompile_handler (code2 forx ++ [b 1])
  = Ok (final flow_env [] 0 forx ++ [let e := zlen (code2 forx) in Stmt e (Call "exit" e None true false false)]).
Proof. vm_compute. reflexivity. Qed.
