(* C03 - control-flow reconstruction restores the source nesting exactly.  Property theorems only. *)
From Coq Require Import ZArith List Bool String.
From DRX Require Import Model.LingoAst Spec.SpecFlow Proofs.LingoFlowFacts.
Import ListNotations.

(* For every handler skeleton with at most 2 compound constructs and bodies of one or two items, and every
   skeleton with at most 4 compound constructs and one-item bodies (if, if-else, repeat while, repeat with up /
   down, exit repeat at every legal position; 4430 + 5893 handlers): if the handler contains none of the four
   patterns P1-P4 (SpecFlow.bad) then decompiling its compilation yields exactly the source nesting - every
   numbered statement once, in order, in the same construct, every construct with its original condition /
   loop variable / bounds, no raw jump left.  The bound is in the statement; the proof is a computation of the
   decompiler model on every one of these handlers inside the kernel. *)
Theorem C03_pattern_free_reconstructed_bounded :
  forall l, In l (skeletons 2 2 ++ skeletons 4 1) -> bad l = false -> reconstructed l = true.
Proof. exact pattern_free_reconstructed. Qed.
Print Assumptions C03_pattern_free_reconstructed_bounded.

(* The unrestricted statement is refuted on the unchanged tree: one witness per open finding. *)
Theorem C03_refuted :
  reconstructed [SWhile 1 [SS 1; SX]] = false /\
  reconstructed [SWhile 1 [SIfE 2 [SS 1] [SX]]] = false /\
  reconstructed [SWhile 1 [SIf 2 [SX; SS 1; SS 2]]] = false /\
  reconstructed [SWhile 1 [SIf 2 [SX]; SIf 3 [SS 1]]] = false.
Proof. exact (conj P1_refuted (conj P2_refuted (conj P3_refuted P4_refuted))). Qed.
Print Assumptions C03_refuted.
