(* C09 — Score timeline spans reproduce the per-frame table without loss.
   Statements only; proofs are in Proofs/RLFacts.v and Proofs/ScoreFacts.v.
   "frames" is any decoded frame table; "column frames j" the cells of channel j. *)
From Coq Require Import List Arith ZArith Sorting.Sorted.
From DRX Require Import Py.PyBytes Model.RL Model.Score Proofs.RLFacts Proofs.ScoreFacts.
Import ListNotations.
Close Scope Z_scope.
Open Scope nat_scope.

(* the exported sprite list of channel j is the run-length view of column j, channel by channel *)
Theorem C09_channel_independent : forall frames, frames_rectangular frames ->
  exists o, vwsc_to_score frames = Ok o /\ length (o_sprite o) = nchannels frames /\
    forall j, j < nchannels frames ->
      nth j (o_sprite o) [] = map (sprite_of_span j) (spans_of attrs_eqb (column frames j)).
Proof. exact vwsc_to_score_sprites. Qed.

Theorem C09_ragged_rejected : forall frames, ~ frames_rectangular frames ->
  vwsc_to_score frames = Err EIndex.
Proof. exact vwsc_to_score_ragged. Qed.

(* every cell that holds a sprite is covered by a span with exactly the cell's attributes *)
Theorem C09_covered : forall col k a, nth k col None = Some a ->
  exists s, In s (spans_of attrs_eqb col) /\ covers s k /\ sattrs s = a.
Proof. exact (spans_complete attrs attrs_eqb attrs_eqb_spec). Qed.

(* ... by exactly one *)
Theorem C09_unique : forall col s1 s2 k,
  In s1 (spans_of attrs_eqb col) -> In s2 (spans_of attrs_eqb col) ->
  covers s1 k -> covers s2 k -> s1 = s2.
Proof. exact (spans_unique attrs attrs_eqb attrs_eqb_spec). Qed.

(* a span covers only cells with its attributes: in particular no span covers an empty cell *)
Theorem C09_no_span_on_other_cell : forall col s k,
  In s (spans_of attrs_eqb col) -> covers s k -> nth k col None = Some (sattrs s).
Proof. exact (spans_sound attrs attrs_eqb attrs_eqb_spec). Qed.

Theorem C09_bounds : forall col s, In s (spans_of attrs_eqb col) ->
  1 <= sstart s /\ sstart s <= send s /\ send s <= length col.
Proof. exact (spans_bounds attrs attrs_eqb attrs_eqb_spec). Qed.

(* ordered and disjoint *)
Theorem C09_sorted_disjoint : forall col l1 s1 l2 s2 l3,
  spans_of attrs_eqb col = l1 ++ s1 :: l2 ++ s2 :: l3 -> send s1 < sstart s2.
Proof. exact (spans_sorted attrs attrs_eqb attrs_eqb_spec). Qed.

(* maximal *)
Theorem C09_maximal : forall col l1 s1 s2 l2,
  spans_of attrs_eqb col = l1 ++ s1 :: s2 :: l2 -> send s1 + 1 = sstart s2 -> sattrs s1 <> sattrs s2.
Proof. exact (spans_maximal attrs attrs_eqb attrs_eqb_spec). Qed.

(* derived rectangle: left = ceil(locH - width/2), right = left + width, ... *)
Theorem C09_rect : forall j s,
  let o := sprite_of_span j s in let a := sattrs s in
  (2 * a_locH a - a_width a <= 2 * so_left o < 2 * a_locH a - a_width a + 2 /\
  2 * a_locV a - a_height a <= 2 * so_top o < 2 * a_locV a - a_height a + 2 /\
  so_right o = so_left o + a_width a /\ so_bottom o = so_top o + a_height a /\
  so_locZ o = Z.of_nat j + 1 /\ so_attrs o = a /\
  so_start o = Z.of_nat (sstart s) /\ so_end o = Z.of_nat (send s))%Z.
Proof. exact rect_consistent. Qed.

(* tempo / script / palette / transition events: exactly at the 1-based frames carrying them *)
Theorem C09_events_exact : forall E (pick : frame -> option E) frames n e,
  In (n, e) (events pick 0 frames) <->
  exists k f, nth_error frames k = Some f /\ n = (Z.of_nat (0 + k) + 1)%Z /\ pick f = Some e.
Proof. intros. apply events_in. Qed.

Theorem C09_events_sorted : forall E (pick : frame -> option E) frames,
  StronglySorted (fun a b => (fst a < fst b)%Z) (events pick 0 frames).
Proof. intros. apply events_sorted. Qed.

(* sounds: the same run-length view over the column of positive cast ids *)
Theorem C09_sound_covered : forall col k a, nth k col None = Some a ->
  exists s, In s (spans_of Z.eqb col) /\ covers s k /\ sattrs s = a.
Proof. exact (spans_complete Z Z.eqb Zeqb_spec). Qed.
Theorem C09_sound_sound : forall col s k,
  In s (spans_of Z.eqb col) -> covers s k -> nth k col None = Some (sattrs s).
Proof. exact (spans_sound Z Z.eqb Zeqb_spec). Qed.
Theorem C09_sound_merged : forall col l1 s1 s2 l2,
  spans_of Z.eqb col = l1 ++ s1 :: s2 :: l2 -> send s1 + 1 = sstart s2 -> sattrs s1 <> sattrs s2.
Proof. exact (spans_maximal Z Z.eqb Zeqb_spec). Qed.
Theorem C09_sound_sorted : forall col l1 s1 l2 s2 l3,
  spans_of Z.eqb col = l1 ++ s1 :: l2 ++ s2 :: l3 -> send s1 < sstart s2.
Proof. exact (spans_sorted Z Z.eqb Zeqb_spec). Qed.

(* non-vacuity: a concrete table with a sprite appearing, changing, vanishing, reappearing *)
Example C09_example :
  let a := Build_attrs 5 0 255 10 7 0 1 100 50 0 0 0 in
  let b := Build_attrs 5 0 255 10 7 0 1 101 50 0 0 0 in
  map (fun s => (sstart s, send s)) (spans_of attrs_eqb [Some a; Some a; Some b; None; Some b; Some b])
  = [(1, 2); (3, 3); (5, 6)].
Proof. vm_compute. reflexivity. Qed.

Print Assumptions C09_channel_independent.
Print Assumptions C09_ragged_rejected.
Print Assumptions C09_covered.
Print Assumptions C09_unique.
Print Assumptions C09_no_span_on_other_cell.
Print Assumptions C09_bounds.
Print Assumptions C09_sorted_disjoint.
Print Assumptions C09_maximal.
Print Assumptions C09_rect.
Print Assumptions C09_events_exact.
Print Assumptions C09_events_sorted.
Print Assumptions C09_sound_covered.
Print Assumptions C09_sound_sound.
Print Assumptions C09_sound_merged.
Print Assumptions C09_sound_sorted.
