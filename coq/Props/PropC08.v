(* C08 - score decoding applies frame deltas exactly, independent of how they are cut.
   Statements only; proofs in Proofs/VwscFacts.v.
   records: RSame | RDelta [(offset, bytes)...]; states z rs = the channel buffer after records 1..k;
   decoded fs cc rs = the field view (parse_vwsc_channels) of every state, in order. *)
From Coq Require Import List ZArith.
From Coq.Strings Require Import Byte.
From DRX Require Import Py.PyBytes Py.Layout Model.Vwsc Proofs.VwscFacts Gen.Gen_Layouts.
Import ListNotations.
Open Scope Z_scope.

(* frame k = fields of the state after records 1..k; any number of records, ranges, channels *)
Theorem C08_score_decode : forall fs cc fcount u1 u2 rs,
  fs = 20 \/ fs = 24 -> 0 <= cc ->
  fits_all inner_layout [20 + zlen (enc_recs rs); 20; fcount; u1; fs; cc; u2] ->
  Forall (wf_rec (cc * fs)) rs ->
  parse_vwsc_data (enc_inner fs cc fcount u1 u2 rs) = decoded fs cc rs.
Proof. exact score_decode. Qed.

(* different segmentation / redundant bytes / full rewrites: equal states => equal results *)
Theorem C08_segmentation_independent : forall fs cc f1 f2 a1 a2 b1 b2 r1 r2,
  fs = 20 \/ fs = 24 -> 0 <= cc ->
  fits_all inner_layout [20 + zlen (enc_recs r1); 20; f1; a1; fs; cc; b1] ->
  fits_all inner_layout [20 + zlen (enc_recs r2); 20; f2; a2; fs; cc; b2] ->
  Forall (wf_rec (cc * fs)) r1 -> Forall (wf_rec (cc * fs)) r2 ->
  states (zeros (Z.to_nat (cc * fs))) r1 = states (zeros (Z.to_nat (cc * fs))) r2 ->
  parse_vwsc_data (enc_inner fs cc f1 a1 b1 r1) = parse_vwsc_data (enc_inner fs cc f2 a2 b2 r2).
Proof. exact segmentation_independent. Qed.

(* with or without the outer wrapper *)
Theorem C08_file_unwrapped : forall inner tail,
  rd_s 4 Big inner 0 = Ok (zlen inner) -> rd_s 4 Big inner 4 = Ok 20 -> 8 <= zlen inner ->
  parse_vwsc_file_data (inner ++ tail) = parse_vwsc_data inner.
Proof. exact file_unwrapped. Qed.
Theorem C08_file_wrapped : forall total marker u nm nm1 lm markers inner tail,
  let d := enc_layout Big [FS 4; FS 4; FS 4; FS 4; FS 4; FS 4] [total; marker; u; nm; nm1; lm] [] ++ markers ++ inner ++ tail in
  fits_all [FS 4; FS 4; FS 4; FS 4; FS 4; FS 4] [total; marker; u; nm; nm1; lm] ->
  marker <> 20 -> total = zlen d -> zlen markers = nm1 * 4 ->
  rd_s 4 Big inner 0 = Ok (zlen inner) -> rd_s 4 Big inner 4 = Ok 20 -> 8 <= zlen inner ->
  parse_vwsc_file_data d = parse_vwsc_data inner.
Proof. exact file_wrapped. Qed.

(* one delta patch writes exactly its bytes at its offset and nothing else *)
Theorem C08_patch_exact : forall data buf off,
  0 <= off -> off + zlen data <= zlen buf ->
  patch_loop buf off data (length data) = Ok (apply_patch buf (off, data)).
Proof. exact patch_loop_spec. Qed.

(* the per-channel readers see exactly the fields of the encoded 20- / 24-byte record *)
Theorem C08_d4_sprite_fields : forall vs fill, fits_all d4_sprite_layout vs ->
  d4_sprite (enc_layout Big d4_sprite_layout vs fill) = d4_sprite_dict (fld d4_sprite_names vs).
Proof. exact d4_sprite_fields. Qed.
Theorem C08_d5_sprite_fields : forall vs fill, fits_all d5_sprite_layout vs ->
  d5_sprite (enc_layout Big d5_sprite_layout vs fill) = d5_sprite_dict (fld d5_sprite_names vs).
Proof. exact d5_sprite_fields. Qed.
Theorem C08_d4_main_fields : forall vs fill, fits_all d4_main_layout vs ->
  d4_main (enc_layout Big d4_main_layout vs fill) = d4_main_dict (fld d4_main_names vs).
Proof. exact d4_main_fields. Qed.
Theorem C08_d5_main_fields : forall vs fill, fits_all d5_main_layout vs ->
  d5_main (enc_layout Big d5_main_layout vs fill) = d5_main_dict (fld d5_main_names vs).
Proof. exact d5_main_fields. Qed.

(* non-vacuity: 3 channels x 20 bytes; a delta, a 'same', an overlapping two-range delta *)
Example C08_example_wf : Forall (wf_rec 60) example_rs.
Proof. exact example_rs_wf. Qed.
Example C08_example_states : map (fun st => nth 47 st x00) (states (zeros 60) example_rs) = [x07; x07; x08].
Proof. vm_compute. reflexivity. Qed.

Print Assumptions C08_score_decode.
Print Assumptions C08_segmentation_independent.
Print Assumptions C08_file_unwrapped.
Print Assumptions C08_file_wrapped.
Print Assumptions C08_patch_exact.
Print Assumptions C08_d4_sprite_fields.
Print Assumptions C08_d5_sprite_fields.
Print Assumptions C08_d4_main_fields.
Print Assumptions C08_d5_main_fields.
