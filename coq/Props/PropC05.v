(* C05 - whole-movie assembly links every member to exactly its own resources. Statements only;
   proofs in Proofs/DirFacts.v.  The model (coq/Model/Dir.v) composes the chunk models of the other
   properties; the Lingo decompiler is a parameter. *)
From Coq Require Import List ZArith Bool.
From Coq.Strings Require Import Byte.
From DRX Require Import Py.PyBytes Py.PyStr Model.Riff Model.Index Proofs.IndexFacts Model.Dir Proofs.DirFacts.
Import ListNotations.
Open Scope Z_scope.

(* one cast entry per cast-table slot, in order; a slot holding 0 is an empty entry *)
Theorem C05_one_entry_per_slot : forall chunks off rs fontmap key cas cast out,
  cast_loop chunks off rs fontmap key cas cast = Ok out -> length out = (length cast + length cas)%nat.
Proof. exact cast_loop_length. Qed.
Theorem C05_empty_slot : forall chunks off rs fontmap key cas1 cas2 out,
  cast_loop chunks off rs fontmap key (cas1 ++ 0 :: cas2) [] = Ok out -> nth_error out (length cas1) = Some None.
Proof. exact empty_slot_is_empty. Qed.

(* frame: the cast is assembled from each member's own key links; links of other owners have no influence *)
Theorem C05_own_links_only : forall chunks off rs fontmap key1 key2 cas cast,
  (forall ci, In ci cas -> key_refs key1 ci = key_refs key2 ci) ->
  cast_loop chunks off rs fontmap key1 cas cast = cast_loop chunks off rs fontmap key2 cas cast.
Proof. exact cast_depends_on_own_links. Qed.
Theorem C05_links_of_owner : forall es owner,
  key_refs (group es) owner = map ref_of (filter (fun e => linked e && (k_owner e =? owner)) es).
Proof. exact key_refs_of_group. Qed.

(* scripts keyed by script number *)
Theorem C05_script_set_same : forall s n v, assoc n (scr_set s n v) = Some v.
Proof. exact assoc_scr_set_same. Qed.
Theorem C05_script_set_other : forall s n m v, m <> n -> assoc m (scr_set s n v) = assoc m s.
Proof. exact assoc_scr_set_other. Qed.

(* Mac and PC encodings: the byte order is used only to load container, memory map and key table *)
Theorem C05_byte_order_factored : forall decompile bo1 bo2 off d1 d2 p,
  load_parts bo1 off d1 = Ok p -> load_parts bo2 off d2 = Ok p ->
  parse_dir_file_data decompile bo1 off d1 = parse_dir_file_data decompile bo2 off d2.
Proof. exact byte_order_factored. Qed.

Print Assumptions C05_one_entry_per_slot.
Print Assumptions C05_empty_slot.
Print Assumptions C05_own_links_only.
Print Assumptions C05_links_of_owner.
Print Assumptions C05_script_set_same.
Print Assumptions C05_script_set_other.
Print Assumptions C05_byte_order_factored.
