(* C05 - whole-movie assembly links every member to exactly its own resources. Statements only;
   proofs in Proofs/DirFacts.v.  The model (coq/Model/Dir.v) composes the chunk models of the other
   properties; the Lingo decompiler is a parameter. *)
From Coq Require Import List ZArith Bool String.
From Coq.Strings Require Import Byte.
From DRX Require Import Py.PyBytes Py.PyStr Py.Layout Model.Riff Model.Index Proofs.IndexFacts Model.Vwsc Model.Cast Model.Bitd Model.Dir Proofs.DirFacts.
Import ListNotations.
Open Scope Z_scope.
Local Notation length := List.length (only parsing).

(* one cast entry per cast-table slot, in order; a slot holding 0 is an empty entry (first pass: the cast loop; pd: the
   bitmaps registered for the second pass) *)
Theorem C05_one_entry_per_slot : forall chunks off rs fontmap key cas cast pd out pd',
  cast_loop chunks off rs fontmap key cas cast pd = Ok (out, pd') -> length out = (length cast + length cas)%nat.
Proof. exact cast_loop_length. Qed.
Theorem C05_empty_slot : forall chunks off rs fontmap key cas1 cas2 out pd',
  cast_loop chunks off rs fontmap key (cas1 ++ 0 :: cas2) [] [] = Ok (out, pd') -> nth_error out (length cas1) = Some None.
Proof. exact empty_slot_is_empty. Qed.
(* second pass (since the repair of C05-forward-palette): the bitmaps are decoded once the whole cast is known; the
   pass keeps the slots and the empty entries, changes nothing but 'bitmap', and a bitmap is decoded with the palette
   of the member it designates wherever that member stands - before or after it *)
Theorem C05_bitmap_pass_slots : forall pd cast out, bitmap_pass cast pd = Ok out -> length out = length cast.
Proof. exact bitmap_pass_length. Qed.
Theorem C05_bitmap_pass_empty : forall pd cast out k, bitmap_pass cast pd = Ok out -> nth_error cast k = Some None -> nth_error out k = Some None.
Proof. exact bitmap_pass_empty. Qed.
Theorem C05_decode_changes_bitmap_only : forall cast m pid data m', decode_bitmap cast m pid data = Ok m' ->
  m_cast m' = m_cast m /\ m_text m' = m_text m /\ m_sound m' = m_sound m /\ m_palette m' = m_palette m.
Proof. exact decode_bitmap_keeps. Qed.
Theorem C05_bitmap_palette_of_designated_member : forall cast m pid data m' pm c,
  decode_bitmap cast m pid data = Ok m' -> pid > 0 -> index cast (pid - 1) = Some (Some pm) -> m_palette pm = Some c ->
  exists h w depth pw ph ptxt bmp,
    dict_Z (m_cast m) (B "height"%string) = Ok h /\ dict_Z (m_cast m) (B "width"%string) = Ok w /\ dict_Z (m_cast m) (B "depth"%string) = Ok depth /\
    dict_Z (m_cast m) (B "w_padding"%string) = Ok pw /\ dict_Z (m_cast m) (B "h_padding"%string) = Ok ph /\
    Bitd.bitd2bmp w h depth pw ph ptxt c data = Ok bmp /\ m_bitmap m' = Some bmp.
Proof. exact bitmap_palette_of_designated_member. Qed.

(* frame: the cast is assembled from each member's own key links; links of other owners have no influence *)
Theorem C05_own_links_only : forall chunks off rs fontmap key1 key2 cas cast pd,
  (forall ci, In ci cas -> key_refs key1 ci = key_refs key2 ci) ->
  cast_loop chunks off rs fontmap key1 cas cast pd = cast_loop chunks off rs fontmap key2 cas cast pd.
Proof. exact cast_depends_on_own_links. Qed.
Theorem C05_links_of_owner : forall es owner,
  key_refs (group es) owner = map ref_of (filter (fun e => linked e && (k_owner e =? owner)) es).
Proof. exact key_refs_of_group. Qed.

(* scripts keyed by script number *)
Theorem C05_script_set_same : forall s n v, assoc n (scr_set s n v) = Some v.
Proof. exact assoc_scr_set_same. Qed.
Theorem C05_script_set_other : forall s n m v, m <> n -> assoc m (scr_set s n v) = assoc m s.
Proof. exact assoc_scr_set_other. Qed.

(* Mac and PC encodings: the byte order is used only to load container, memory map and key table *)
Theorem C05_byte_order_factored : forall decompile bo1 bo2 off d1 d2 p,
  load_parts bo1 off d1 = Ok p -> load_parts bo2 off d2 = Ok p ->
  parse_dir_file_data decompile bo1 off d1 = parse_dir_file_data decompile bo2 off d2.
Proof. exact byte_order_factored. Qed.

Print Assumptions C05_one_entry_per_slot.
Print Assumptions C05_empty_slot.
Print Assumptions C05_own_links_only.
Print Assumptions C05_links_of_owner.
Print Assumptions C05_script_set_same.
Print Assumptions C05_script_set_other.
Print Assumptions C05_byte_order_factored.
Print Assumptions C05_bitmap_pass_slots.
Print Assumptions C05_bitmap_pass_empty.
Print Assumptions C05_decode_changes_bitmap_only.
Print Assumptions C05_bitmap_palette_of_designated_member.
