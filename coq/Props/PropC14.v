(* C14 - the BMP colour table is exactly the palette the member selects. Statements only;
   proofs in Proofs/ClutFacts.v. *)
From Coq Require Import List ZArith.
From Coq.Strings Require Import Byte.
From DRX Require Import Py.PyBytes Py.PyStr Model.Riff Model.Index Model.Clut Proofs.ClutFacts Gen.Gen_Common.
From DRX Require Gen.Gen_Palettes Spec.SpecPalettes.
Import ListNotations.
Open Scope Z_scope.

(* custom palette: entry i = (hi blue, hi green, hi red, 0) of CLUT entry i, all 256 entries,
   arbitrary 16-bit components, trailing bytes ignored *)
Theorem C14_custom_table : forall es tail, length es = 256%nat ->
  clut2palette (enc_clut es ++ tail) = Ok (concat (map bgr0 es)).
Proof. exact custom_table. Qed.

(* the JSON colour list: (hi red, hi green, hi blue) per entry, any number of entries ... *)
Theorem C14_json_colours : forall es, clut2rgb (enc_clut es) = Ok (map rgb es).
Proof. exact json_colours. Qed.
(* ... and it agrees entry for entry with the BMP table derived from the same chunk *)
Theorem C14_json_agrees : forall es, length es = 256%nat ->
  exists cs p, clut2rgb (enc_clut es) = Ok cs /\ clut2palette (enc_clut es) = Ok p /\
    p = concat (map (fun c : byte * byte * byte => [snd c; snd (fst c); fst (fst c); x00]) cs).
Proof. exact json_agrees. Qed.

(* named system palettes: the table of that name for 8-bit images; unknown names -> default Windows table *)
Theorem C14_named_table : forall name t, assoc_bytes name tables8 = Some t -> write_color_palette 8 256 name [] = Ok t.
Proof. exact named_table. Qed.
Theorem C14_unknown_default : forall name, assoc_bytes name tables8 = None ->
  write_color_palette 8 256 name [] = Ok Gen.Gen_Palettes.SYSTEM_WINDOWS_256COLORS_PALETTE.
Proof. exact unknown_default. Qed.
(* the tables in the current source are the pinned reference tables (1024 bytes each, reserved byte 0) *)
Theorem C14_palettes_pinned : Gen.Gen_Palettes.PALETTES = Spec.SpecPalettes.PALETTES.
Proof. exact palettes_pinned. Qed.
(* custom data wins over the named table and must be complete *)
Theorem C14_custom_wins : forall name data, 1024 <= zlen data ->
  write_color_palette 8 256 name data = Ok (firstn 1024 data).
Proof. exact custom_wins. Qed.
Theorem C14_custom_short_rejected : forall name data, 0 < zlen data < 1024 ->
  write_color_palette 8 256 name data = Err EStruct.
Proof. exact custom_short_rejected. Qed.

(* palette number -> name, for every integer *)
Theorem C14_palette_name_positive : forall v, 0 < v -> get_palette_name v = str_of_Z v.
Proof. exact palette_name_positive. Qed.
Theorem C14_palette_name_unlisted : forall v, v <= 0 ->
  ~ In (v - 1) [-1; -102; -2; -3; -4; -5; -6; -7; -8; -101] -> get_palette_name v = str_of_Z (v - 1).
Proof. exact palette_name_unlisted. Qed.
Theorem C14_palette_names_listed :
  map get_palette_name [0; -1; -2; -3; -4; -5; -6; -7; -100; -101] =
  map (fun s => s) [
    ["s";"y";"s";"t";"e";"m";"M";"a";"c"]; ["r";"a";"i";"n";"b";"o";"w"]; ["g";"r";"a";"y";"s";"c";"a";"l";"e"];
    ["p";"a";"s";"t";"e";"l";"s"]; ["v";"i";"v";"i";"d"]; ["n";"t";"s";"c"]; ["m";"e";"t";"a";"l";"l";"i";"c"];
    ["w";"e";"b";"2";"1";"6"]; ["s";"y";"s";"t";"e";"m";"W";"i";"n";"D";"i";"r";"4"]; ["s";"y";"s";"t";"e";"m";"W";"i";"n"]]%byte.
Proof. exact palette_names_listed. Qed.

Print Assumptions C14_custom_table.
Print Assumptions C14_json_colours.
Print Assumptions C14_json_agrees.
Print Assumptions C14_named_table.
Print Assumptions C14_unknown_default.
Print Assumptions C14_palettes_pinned.
Print Assumptions C14_custom_wins.
Print Assumptions C14_custom_short_rejected.
Print Assumptions C14_palette_name_positive.
Print Assumptions C14_palette_name_unlisted.
Print Assumptions C14_palette_names_listed.
