(* C01 — container extraction returns exactly the bytes the memory map designates.
   Statements only; proofs in Proofs/RiffFacts.v.  [enc_movie bo flen cs] is the layout of a
   well-formed movie: header, then for each chunk FourCC, 4-byte length, payload, pad byte when
   the length is odd; [pre] is any enclosing-executable prefix; [view c] = (sanitised FourCC, payload). *)
From Coq Require Import List ZArith.
From Coq.Strings Require Import Byte.
From DRX Require Import Py.PyBytes Py.Layout Model.Riff Proofs.RiffFacts.
Import ListNotations.
Open Scope Z_scope.

(* the chunk walk returns every chunk with exactly its type and payload: any chunk count, any
   payload lengths (odd ones padded), any FourCC bytes, any prefix, both byte orders *)
Theorem C01_walk_exact : forall pre bo flen cs,
  in32 flen -> Forall wf_chunk cs ->
  parse_riff (pre ++ enc_movie bo flen cs) (zlen pre) bo = Ok (map view cs).
Proof. exact parse_riff_enc. Qed.

(* the walk partitions the movie: chunk i occupies exactly [offset_of i, offset_of (i+1)),
   offset_of 0 = 12 and offset_of (number of chunks) = length of the movie *)
Theorem C01_spans_tile : forall pre bo flen cs i dflt,
  Forall wf_chunk cs -> (i < length cs)%nat ->
  slice (pre ++ enc_movie bo flen cs) (zlen pre + offset_of cs i) (zlen pre + offset_of cs (S i))
  = enc_chunk bo (nth i cs dflt).
Proof. exact chunk_spans_tile. Qed.
Theorem C01_movie_length : forall pre bo flen cs, Forall wf_chunk cs ->
  zlen (pre ++ enc_movie bo flen cs) = zlen pre + offset_of cs (length cs).
Proof. exact movie_length. Qed.
Theorem C01_offsets_increase : forall cs i, (i < length cs)%nat -> offset_of cs i + 8 <= offset_of cs (S i).
Proof. exact offset_of_increasing. Qed.

(* a resource recorded at the offset of chunk i is returned as chunk i, any other offset is refused *)
Theorem C01_lookup_designated : forall cs i dflt, (i < length cs)%nat ->
  get_by_offset (map view cs) (offset_of cs i) = Ok (view (nth i cs dflt)).
Proof. exact get_by_offset_nth. Qed.
Theorem C01_lookup_other : forall cs off,
  (forall i, (i < length cs)%nat -> off <> offset_of cs i) ->
  get_by_offset (map view cs) off = Err EIndex.
Proof. exact get_by_offset_other. Qed.

(* memory map and input map decode to the encoded fields: any number of entries, full field ranges,
   free/junk entries and sizes <= 0 included, unused slots after the used ones ([tail]) *)
Theorem C01_mmap_roundtrip : forall bo h rs tail,
  wf_hdr h -> h_used h = zlen rs -> Forall wf_res rs ->
  parse_mmap (enc_mmap bo h rs ++ tail) bo = Ok (h, map view_res rs).
Proof. exact mmap_roundtrip. Qed.
Theorem C01_imap_roundtrip : forall bo vs,
  fits_all imap_layout vs -> parse_imap (enc_imap bo vs) bo = Ok (firstn 6 vs).
Proof. exact imap_roundtrip. Qed.

(* FourCCs: always four characters of ' '..'z', for every one of the 2^32 byte combinations *)
Theorem C01_chunk_id_safe : forall d pos bo s,
  parse_chunk_id d pos bo = Ok s -> length s = 4%nat /\ Forall (fun b => 32 <= u8 b <= 122) s.
Proof. exact chunk_id_safe. Qed.
Theorem C01_chunk_id_total : forall pre b0 b1 b2 b3 post bo,
  parse_chunk_id (pre ++ [b0; b1; b2; b3] ++ post) (zlen pre) bo
  = Ok (map sanitize_char (orient bo [b0; b1; b2; b3])).
Proof. exact chunk_id_total. Qed.

(* the locator returns the first genuine header, whatever precedes it *)
Theorem C01_locator_first_genuine : forall d p,
  genuine (skipn p d) = true ->
  (forall q, (q < p)%nat -> genuine (skipn q d) = false) ->
  find_riff_in_exe d = Ok (Z.of_nat p).
Proof. exact find_riff_first_genuine. Qed.
Theorem C01_movie_is_genuine : forall pre flen cs post,
  genuine (skipn (length pre) (pre ++ enc_movie Little flen cs ++ post)) = true.
Proof. exact genuine_enc_movie. Qed.

(* non-vacuity: a concrete two-chunk movie (odd payload, unsafe FourCC byte) behind a decoy *)
Example C01_example :
  let cs := [Build_chunk_spec ["C";"A";"S";"t"]%byte ["a";"b";"c"]%byte "255"%byte;
             Build_chunk_spec [x80;"/";".";"."]%byte [] x00] in
  let d := XFIR ++ ["d";"e";"c";"o";"y"]%byte ++ enc_movie Little 44 cs in
  find_riff_in_exe d = Ok 9 /\
  parse_riff d 9 Little = Ok [(["C";"A";"S";"t"]%byte, ["a";"b";"c"]%byte); (["_";"/";".";"."]%byte, [])].
Proof. vm_compute. split; reflexivity. Qed.

Print Assumptions C01_walk_exact.
Print Assumptions C01_spans_tile.
Print Assumptions C01_movie_length.
Print Assumptions C01_offsets_increase.
Print Assumptions C01_lookup_designated.
Print Assumptions C01_lookup_other.
Print Assumptions C01_mmap_roundtrip.
Print Assumptions C01_imap_roundtrip.
Print Assumptions C01_chunk_id_safe.
Print Assumptions C01_chunk_id_total.
Print Assumptions C01_locator_first_genuine.
Print Assumptions C01_movie_is_genuine.
