(* C10 - every decoder terminates with work bounded by the size of its input.
   Statements only; proofs in Proofs/FuelFacts.v and Proofs/FuelFacts2.v.
   Every loop of the models consumes one unit of fuel per iteration and is given |input|+1 units
   (the script-context table: + 2731 for a negative stored offset).  "<> OutOfFuel" therefore says:
   on ANY byte string the loop ends (with a value or an ordinary error) after at most that many
   iterations.  Not covered here: the Lingo decompiler (measured only). *)
From Coq Require Import List ZArith.
From Coq.Strings Require Import Byte.
From DRX Require Import Py.PyBytes Model.Riff Model.Index Model.Snd Model.Clut Model.Vwsc Model.Bitd
  Proofs.FuelFacts Proofs.FuelFacts2 Proofs.FuelFacts3 Proofs.FuelFacts4 Model.Text Py.Layout.
Import ListNotations.
Open Scope Z_scope.

Theorem C10_container_walk : forall d offset bo, 0 <= offset -> parse_riff d offset bo <> OutOfFuel.
Proof. exact parse_riff_terminates. Qed.
Theorem C10_locator : forall d, find_riff_in_exe d <> OutOfFuel.
Proof. exact find_riff_terminates. Qed.
Theorem C10_memory_map_entries : forall bo d fuel n offset, 0 <= offset -> (Z.to_nat (zlen d - offset) < fuel)%nat ->
  parse_mmap_entries fuel n d offset bo <> OutOfFuel.
Proof. exact mmap_entries_not_oof. Qed.
Theorem C10_cast_table : forall d, parse_cas_file_data d <> OutOfFuel.
Proof. exact cas_terminates. Qed.
Theorem C10_key_table : forall bo d, parse_key_file_data bo d <> OutOfFuel.
Proof. exact key_terminates. Qed.
Theorem C10_name_table : forall d, parse_lnam_file_data d <> OutOfFuel.
Proof. exact lnam_terminates. Qed.
Theorem C10_marker_list : forall d, parse_vwlb_data d <> OutOfFuel.
Proof. exact vwlb_terminates. Qed.
(* the output, too: the marker names handed out are consecutive pieces of the input (their offsets are checked to be in
   order), so their total size is within three times the input length whatever the offsets are *)
Theorem C10_marker_output_bounded : forall d ms, parse_vwlb_data d = Ok ms -> names_total ms <= 3 * zlen d.
Proof. exact vwlb_output_bounded. Qed.
Theorem C10_palette_json : forall d, clut2rgb d <> OutOfFuel.
Proof. exact clut2rgb_terminates. Qed.
Theorem C10_palette_bmp : forall d, clut2palette d <> OutOfFuel.
Proof. exact clut2palette_terminates. Qed.
Theorem C10_sound_header : forall d, parse_snd_fmt d <> OutOfFuel.
Proof. exact snd_header_terminates. Qed.

(* the score walker: every record advances the index by its declared size, which is at least 2 *)
Theorem C10_score_delta_progress : forall d fuel buf idx csize, 0 <= idx -> (Z.to_nat (zlen d - idx) < fuel)%nat ->
  match delta_loop fuel d buf idx csize with
  | Ok (b, i', r) => i' + r = idx + csize /\ idx <= i'
  | Err _ => True
  | OutOfFuel => False
  end.
Proof. exact delta_loop_progress. Qed.
Theorem C10_score : forall d, parse_vwsc_file_data d <> OutOfFuel.
Proof. exact vwsc_file_terminates. Qed.

(* the 8-bit PackBits loop consumes at least one byte of the stream per iteration *)
Theorem C10_bitmap8 : forall f w0 h pw ph width, decode_compressed8 f w0 h pw ph width <> OutOfFuel.
Proof. exact compressed8_terminates. Qed.
(* the same for the 1-bit, 16-bit and 32-bit PackBits loops (every iteration consumes at least one byte of the stream)
   and the plane de-interleaving that follows them: on every byte string and every geometry the decoders return a
   bitmap or an ordinary error within [S (length f)] iterations - in particular on streams that end in a control byte
   whose operand is missing (seed C10_i) *)
Theorem C10_bitmap1 : forall f w0 h pw ph width, decode_compressed1 f w0 h pw ph width <> OutOfFuel.
Proof. exact compressed1_terminates. Qed.
Theorem C10_bitmap16 : forall f w h width, decode_compressed16 f w h width <> OutOfFuel.
Proof. exact compressed16_terminates. Qed.
Theorem C10_bitmap24 : forall f w h width, decode_compressed24 f w h width <> OutOfFuel.
Proof. exact compressed24_terminates. Qed.
Example C10_bitmap_dangling_control :      (* the input of seed C10_i: a literal of 4, then a run control byte with nothing after it *)
  decode_compressed8 [x03; x01; x02; x03; x04; xfe] 4 4 0 0 4 = Ok ([x00; x00; x00; x00; x00; x00; x00; x00; x00; x00; x00; x00; x01; x02; x03; x04]).
Proof. vm_compute. reflexivity. Qed.
(* the style-run loop of a styled-text chunk reads one 20-byte record per iteration inside the data.  PARTIAL: proved for
   chunks whose run table starts at a non-negative position (data offset + text length >= 0); for a negative position
   Python's slices count from the end of the data - that case is covered by the measurement side only *)
Theorem C10_styled_text_partial : forall d fm,
  (forall a b, rd_s 4 Big d 0 = Ok a -> rd_s 4 Big d 4 = Ok b -> 0 <= a + b) -> parse_stxt_data d fm <> OutOfFuel.
Proof. exact stxt_terminates_partial. Qed.
Theorem C10_layout_read_inside : forall bo l d pos v, existsb real_field l = true -> 0 <= pos ->
  read_layout bo l d pos = Ok v -> pos < zlen d.
Proof. exact read_layout_ok_inside. Qed.

Print Assumptions C10_container_walk.
Print Assumptions C10_locator.
Print Assumptions C10_memory_map_entries.
Print Assumptions C10_cast_table.
Print Assumptions C10_key_table.
Print Assumptions C10_name_table.
Print Assumptions C10_marker_list.
Print Assumptions C10_marker_output_bounded.
Print Assumptions C10_palette_json.
Print Assumptions C10_palette_bmp.
Print Assumptions C10_sound_header.
Print Assumptions C10_score_delta_progress.
Print Assumptions C10_score.
Print Assumptions C10_bitmap8.
Print Assumptions C10_bitmap1.
Print Assumptions C10_bitmap16.
Print Assumptions C10_bitmap24.
Print Assumptions C10_styled_text_partial.
Print Assumptions C10_layout_read_inside.
