(* C17 — index chunks decode to exactly the tables they store. Statements only;
   proofs in Proofs/IndexFacts.v. The enc_ functions are the specification of each chunk layout. *)
From Coq Require Import List ZArith Bool.
From Coq.Strings Require Import Byte.
From DRX Require Import Py.PyBytes Py.Layout Py.PyStr Model.Riff Proofs.RiffFacts Model.Index Proofs.IndexFacts Gen.Gen_Common.
Import ListNotations.
Open Scope Z_scope.

(* ---- key table: what is decoded is the grouping of all used entries BUT THE LAST (known finding) *)
Theorem C17_key_roundtrip_partial : forall bo u1 u2 es last unused,
  in32 u1 -> in32 u2 -> in32 (zlen es + 1) -> Forall wf_key_entry es ->
  parse_key_file_data bo (enc_key bo u1 u2 (zlen es + 1) (es ++ [last]) ++ unused) = Ok (group es).
Proof. exact key_roundtrip_partial. Qed.
(* [group]: under each owner exactly its links with positive ids, in order; owners distinct *)
Theorem C17_key_links : forall es owner,
  refs (group es) owner = map ref_of (filter (fun e => linked e && (k_owner e =? owner)) es).
Proof. exact group_links. Qed.
Theorem C17_key_owners_distinct : forall es, NoDup (map fst (group es)).
Proof. exact group_owners_distinct. Qed.
Theorem C17_key_mac_pc : forall u1 u2 es last unused1 unused2,
  in32 u1 -> in32 u2 -> in32 (zlen es + 1) -> Forall wf_key_entry es ->
  parse_key_file_data Big (enc_key Big u1 u2 (zlen es + 1) (es ++ [last]) ++ unused1)
  = parse_key_file_data Little (enc_key Little u1 u2 (zlen es + 1) (es ++ [last]) ++ unused2).
Proof. exact key_mac_pc. Qed.
(* the full statement (every used entry decoded) is refuted on the faithful model *)
Theorem C17_key_roundtrip_refuted : ~ key_full_statement.
Proof. exact key_roundtrip_refuted. Qed.

(* ---- cast table *)
Theorem C17_cas_roundtrip : forall vs tail,
  Forall in32 vs -> zlen tail < 4 -> parse_cas_file_data (enc_cas vs ++ tail) = Ok vs.
Proof. exact cas_roundtrip. Qed.

(* ---- script-context table *)
Theorem C17_lctx_roundtrip : forall u1 u2 ns2 gap es tail,
  fits_all lctx_hdr_layout [u1; u2; zlen es; ns2; 18 + zlen gap] -> Forall wf_lctx_entry es ->
  parse_lctx_file_data (enc_lctx u1 u2 ns2 gap es ++ tail)
  = Ok (map (fun e : Z * Z * Z => (fst (fst e), snd (fst e))) es).
Proof. exact lctx_roundtrip. Qed.

(* ---- name table (names as stored bytes; the codec is applied outside the model) *)
Theorem C17_lnam_roundtrip : forall u1 u2 fs u3 names tail,
  fits_all lnam_hdr_layout [u1; u2; fs; fs; u3; zlen names] -> Forall (fun n => zlen n <= 255) names ->
  parse_lnam_file_data (enc_lnam u1 u2 fs u3 names ++ tail) = Ok names.
Proof. exact lnam_roundtrip. Qed.
Theorem C17_lnam_size_mismatch : forall u1 u2 fs fs2 u3 n rest,
  fits_all lnam_hdr_layout [u1; u2; fs; fs2; u3; n] -> fs2 <> fs ->
  parse_lnam_file_data (enc_layout Big lnam_hdr_layout [u1; u2; fs; fs2; u3; n] [] ++ rest) = Err EValue.
Proof. exact lnam_size_mismatch. Qed.

(* ---- marker list *)
Theorem C17_vwlb_roundtrip : forall ms sf tail,
  in16 (zlen ms) -> Forall wf_ent (mk_tab 0 ms sf) ->
  parse_vwlb_data (enc_vwlb ms sf ++ tail) = Ok ms.
Proof. exact vwlb_roundtrip. Qed.

(* ---- movie settings *)
Theorem C17_vwcf_roundtrip : forall f fill r1 r2 r3 pal4 pal5,
  fits_all vwcf_layout f -> zlen r1 = 42 -> zlen r2 = 6 -> in16 pal4 -> in16 pal5 ->
  in16 (2 + zlen (enc_layout Big vwcf_layout f fill ++ r1 ++ pack 2 Big pal4 ++ r2 ++ pack 2 Big pal5 ++ r3)) ->
  parse_vwcf_file_data (enc_vwcf f fill r1 r2 r3 pal4 pal5) = Ok (vwcf_expected f pal4 pal5).
Proof. exact vwcf_roundtrip. Qed.
Theorem C17_vwcf_size_mismatch : forall d sz,
  rd_s 2 Big d 0 = Ok sz -> sz <> zlen d -> parse_vwcf_file_data d = Err EValue.
Proof. exact vwcf_size_mismatch. Qed.
Theorem C17_palette_names_pinned :
  DIR_PALETTE_NAMES = [
    (-1, ["s";"y";"s";"t";"e";"m";"M";"a";"c"]); (-102, ["s";"y";"s";"t";"e";"m";"W";"i";"n"]);
    (-2, ["r";"a";"i";"n";"b";"o";"w"]); (-3, ["g";"r";"a";"y";"s";"c";"a";"l";"e"]);
    (-4, ["p";"a";"s";"t";"e";"l";"s"]); (-5, ["v";"i";"v";"i";"d"]); (-6, ["n";"t";"s";"c"]);
    (-7, ["m";"e";"t";"a";"l";"l";"i";"c"]); (-8, ["w";"e";"b";"2";"1";"6"]);
    (-101, ["s";"y";"s";"t";"e";"m";"W";"i";"n";"D";"i";"r";"4"])]%byte.
Proof. exact palette_names_pinned. Qed.

(* non-vacuity *)
Example C17_example_key :
  parse_key_file_data Little (enc_key Little 12 12 3
     [Build_key_entry 7 3 ["B";"I";"T";"D"]; Build_key_entry 9 3 ["C";"L";"U";"T"]; Build_key_entry 4 5 ["s";"n";"d";" "]]%byte)
  = Ok [(3, [(["B";"I";"T";"D"], 7); (["C";"L";"U";"T"], 9)])]%byte.
Proof. vm_compute. reflexivity. Qed.
Example C17_example_vwlb :
  parse_vwlb_data (enc_vwlb [(["i";"n"]%byte, 1); ([x8e]%byte, 30)] 0) = Ok [(["i";"n"]%byte, 1); ([x8e]%byte, 30)].
Proof. vm_compute. reflexivity. Qed.

Print Assumptions C17_key_roundtrip_partial.
Print Assumptions C17_key_links.
Print Assumptions C17_key_owners_distinct.
Print Assumptions C17_key_mac_pc.
Print Assumptions C17_key_roundtrip_refuted.
Print Assumptions C17_cas_roundtrip.
Print Assumptions C17_lctx_roundtrip.
Print Assumptions C17_lnam_roundtrip.
Print Assumptions C17_lnam_size_mismatch.
Print Assumptions C17_vwlb_roundtrip.
Print Assumptions C17_vwcf_roundtrip.
Print Assumptions C17_vwcf_size_mismatch.
Print Assumptions C17_palette_names_pinned.
