(* C13 - a decode result never depends on earlier calls, including failed ones. Statements only;
   proofs in Proofs/BitdStateFacts.v.  [bitd_history bs h] runs the calls of h one after another on
   decoder objects whose buffers are bs; a failing call leaves its partial output in its decoder's buffer. *)
From Coq Require Import List ZArith.
From Coq.Strings Require Import Byte.
From DRX Require Import Py.PyBytes Model.Bitd Proofs.BitdStateFacts.
From DRX Require Gen.Gen_State.
Import ListNotations.

Theorem C13_decode_history_free : forall bs h a,
  last (bitd_history bs (h ++ [a])) (Err EOther) = snd (bitd_step [] a).
Proof. exact decode_history_free. Qed.

Theorem C13_step_is_stateless : forall bs a k, decoder_of (a_depth a) = Some k ->
  snd (bitd_step bs a) =
  match bitd2bmp (a_w a) (a_h a) (a_depth a) (a_pw a) (a_ph a) (a_pt a) (a_clut a) (a_f a) with
  | Ok b => Ok b | Err e => Err e | OutOfFuel => Err EOther end.
Proof. exact step_is_stateless. Qed.

Theorem C13_mutable_state_pinned :
  map (fun p => snd p) Gen.Gen_State.mutable_attrs =
  [ ["d";"e";"c";"o";"d";"e";"r";".";"b";"y";"t";"e";"s";"I";"o"];
    ["s";"o";"u";"n";"d";".";"b";"i";"t";"s";"_";"p";"e";"r";"_";"s";"a";"m";"p";"l";"e"];
    ["s";"o";"u";"n";"d";".";"n";"u";"m";"_";"c";"h";"a";"n";"n";"e";"l";"s"];
    ["s";"o";"u";"n";"d";".";"s";"a";"m";"p";"l";"e";"_";"r";"a";"t";"e"];
    ["s";"e";"l";"f";".";"b";"y";"t";"e";"s";"I";"o"];
    ["s";"o";"u";"n";"d";".";"s";"a";"m";"p";"l";"e";"s"] ]%byte.
Proof. exact mutable_state_pinned. Qed.

(* non-vacuity: a failing 8-bit decode (palette of one byte) followed by a valid one *)
Example C13_example :
  let bad := Build_bitd_args 3 2 8 0 0 [] [x01] [x01; x05; x06] in
  let good := Build_bitd_args 2 1 8 0 0 [] [] [x01; x05; x06] in
  match bitd_history [] [bad; good], bitd_step [] good with
  | [Err _; Ok a], (_, Ok b) => a = b /\ length a = 1082%nat
  | _, _ => False end.
Proof. vm_compute. split; reflexivity. Qed.

Print Assumptions C13_decode_history_free.
Print Assumptions C13_step_is_stateless.
Print Assumptions C13_mutable_state_pinned.
