(* The "append or extend the last span" loop body that vwsc.py vwsc_to_score uses three
   times (sprite channels, sound1, sound2), generic in the compared attribute type.
   Frames are list positions, so they are [nat]; the loop variable [i] is the 0-based
   frame index, spans record 1-based frame numbers exactly as the Python does. *)
From Coq Require Import List Arith Bool.
Import ListNotations.

Section RL.
Variable A : Type.
Variable eqb : A -> A -> bool.

Record span := { sstart : nat; send : nat; sattrs : A }.

(* one iteration for one channel: [sp] is data['sprite'][j] (oldest first), [c] the cell *)
Definition step (i : nat) (sp : list span) (c : option A) : list span :=
  match c with
  | None => sp
  | Some a =>
    match rev sp with
    | last :: before =>
        if Nat.eqb (send last) i && eqb (sattrs last) a
        then rev before ++ [ {| sstart := sstart last; send := i + 1; sattrs := sattrs last |} ]
        else sp ++ [ {| sstart := i + 1; send := i + 1; sattrs := a |} ]
    | [] => [ {| sstart := i + 1; send := i + 1; sattrs := a |} ]
    end
  end.

Fixpoint run (i : nat) (sp : list span) (col : list (option A)) : list span :=
  match col with
  | [] => sp
  | c :: rest => run (S i) (step i sp c) rest
  end.

Definition spans_of (col : list (option A)) : list span := run 0 [] col.

(* specification side: does span [s] cover the 0-based frame index [k]? *)
Definition covers (s : span) (k : nat) : Prop := sstart s <= k + 1 /\ k + 1 <= send s.
End RL.

Arguments sstart {A} _.
Arguments send {A} _.
Arguments sattrs {A} _.
Arguments Build_span {A} _ _ _.
Arguments step {A} _ _ _ _.
Arguments run {A} _ _ _ _.
Arguments spans_of {A} _ _.
Arguments covers {A} _ _.
