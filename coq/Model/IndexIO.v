From Coq Require Import ZArith List.
From DRX Require Import Py.PyBytes Py.Val Model.Index.
Import ListNotations.
Open Scope Z_scope.

Definition v_keymap (m : keymap) : val :=
  vlist (fun e : Z * list (bytes * Z) => VL [VZ (fst e); vlist (fun r : bytes * Z => VL [VB (fst r); VZ (snd r)]) (snd e)]) m.
Definition run_parse_key (v : val) : val :=
  match v with
  | VL [VB d; bo] => match getBO bo with Some bo => vresult v_keymap (parse_key_file_data bo d) | None => vbad end
  | _ => vbad end.
Definition run_parse_cas (v : val) : val :=
  match v with VB d => vresult (vlist VZ) (parse_cas_file_data d) | _ => vbad end.
Definition run_parse_lctx (v : val) : val :=
  match v with VB d => vresult (vlist (fun p : Z * Z => VL [VZ (fst p); VZ (snd p)])) (parse_lctx_file_data d) | _ => vbad end.
Definition run_parse_lnam (v : val) : val :=
  match v with VB d => vresult (vlist VB) (parse_lnam_file_data d) | _ => vbad end.
Definition run_parse_vwlb (v : val) : val :=
  match v with VB d => vresult (vlist (fun p : bytes * Z => VL [VB (fst p); VZ (snd p)])) (parse_vwlb_data d) | _ => vbad end.
Definition v_vwcf (c : vwcf) : val :=
  VL [VB (v_version c); VZ (v_top c); VZ (v_left c); VZ (v_bottom c); VZ (v_right c);
      VZ (v_castStart c); VZ (v_castEnd c); VZ (v_rate c); VZ (v_color c); VB (v_palette c)].
Definition run_parse_vwcf (v : val) : val :=
  match v with VB d => vresult v_vwcf (parse_vwcf_file_data d) | _ => vbad end.
