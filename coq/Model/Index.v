(* Model of the index-chunk parsers: key/key.py, cas/cas.py, lctx/lctx.py,
   lingosrc/parse/lnam.py, vwlb/vwlb.py, vwcf/vwcf.py.
   Text is kept as the stored bytes; decoding with the configured codec is applied by the caller
   (the codec is a trusted Python primitive). *)
From Coq Require Import List ZArith Bool.
From Coq.Strings Require Import Byte.
From DRX Require Import Py.PyBytes Py.Layout Py.PyStr Model.Riff Gen.Gen_Common.
Import ListNotations.
Open Scope Z_scope.

(* ---------------- key.py ---------------- *)
Definition keymap := list (Z * list (bytes * Z)).     (* owner -> [(chunkID, index)], insertion order *)

Fixpoint key_insert (m : keymap) (owner : Z) (ref : bytes * Z) : keymap :=
  match m with
  | [] => [(owner, [ref])]
  | (o, l) :: r => if o =? owner then (o, l ++ [ref]) :: r else (o, l) :: key_insert r owner ref
  end.

(* counted loops over an input-declared count: Z counter + fuel (the loop reads fresh bytes in every
   iteration and raises when they run out, so |d|+1 iterations are never completed) *)
Fixpoint key_loop (fuel : nat) (n : Z) (bo : byteorder) (d : bytes) (indx : Z) (m : keymap) : result keymap :=
  if n <=? 0 then Ok m else
  match fuel with
  | O => OutOfFuel
  | S k =>
    let! nfile := rd_s 4 bo d indx in
    let! cas_index := rd_s 4 bo d (indx + 4) in
    let! chunkId := parse_chunk_id d (indx + 8) bo in
    let m' := if (cas_index >? 0) && (nfile >? 0) then key_insert m cas_index (chunkId, nfile) else m in
    key_loop k (n - 1) bo d (indx + 12) m'
  end.

Definition parse_key_file_data (bo : byteorder) (d : bytes) : result keymap :=
  let! unk1 := rd_s 4 bo d 0 in
  let! unk2 := rd_s 4 bo d 4 in
  let! nelements := rd_s 4 bo d 8 in
  (* for _ in range(nelements-1) *)
  key_loop (S (length d)) (nelements - 1) bo d 12 [].

(* ---------------- cas.py ---------------- *)
Fixpoint cas_loop (fuel : nat) (d : bytes) (indx : Z) : result (list Z) :=
  if zlen d >=? indx + 4 then
    match fuel with
    | O => OutOfFuel
    | S f => let! v := rd_s 4 Big d indx in let! r := cas_loop f d (indx + 4) in Ok (v :: r)
    end
  else Ok [].
Definition parse_cas_file_data (d : bytes) : result (list Z) := cas_loop (S (length d)) d 0.

(* ---------------- lctx.py ---------------- *)
Fixpoint lctx_loop (fuel : nat) (n : Z) (d : bytes) (indx : Z) : result (list (Z * Z)) :=
  if n <=? 0 then Ok [] else
  match fuel with
  | O => OutOfFuel
  | S k =>
    let! key := rd_u 4 Big d indx in
    let! scrfile := rd_s 4 Big d (indx + 4) in
    let! unk := rd_s 4 Big d (indx + 8) in
    let! r := lctx_loop k (n - 1) d (indx + 12) in
    Ok ((key, scrfile) :: r)
  end.
Definition parse_lctx_file_data (d : bytes) : result (list (Z * Z)) :=
  let! hdr := read_layout Big [FS 4; FS 4; FS 4; FS 4; FS 2] d 0 in
  (* the stored table offset is a signed 16-bit field: a negative start adds at most 32768/12 iterations *)
  lctx_loop (S (length d) + 2731) (getv hdr 2) d (getv hdr 4).

(* ---------------- lnam.py ---------------- *)
Fixpoint lnam_loop (fuel : nat) (n : Z) (d : bytes) (indx : Z) : result (list bytes) :=
  if n <=? 0 then Ok [] else
  match fuel with
  | O => OutOfFuel
  | S k =>
    let! nb := of_option EIndex (index d indx) in
    let nbytes := u8 nb in
    let name := slice d (indx + 1) (indx + 1 + nbytes) in
    let! r := lnam_loop k (n - 1) d (indx + 1 + nbytes) in
    Ok (name :: r)
  end.
Definition parse_lnam_file_data (d : bytes) : result (list bytes) :=
  let! hdr := read_layout Big [FS 4; FS 4; FS 4; FS 4; FS 2; FS 2] d 0 in
  if negb (getv hdr 3 =? getv hdr 2) then Err EValue else
  lnam_loop (S (length d)) (getv hdr 5) d 20.

(* ---------------- vwlb.py ---------------- *)
Fixpoint vwlb_loop (fuel : nat) (n : Z) (d : bytes) (indx mnidx : Z) : result (list (bytes * Z)) :=
  if n <=? 0 then Ok [] else
  match fuel with
  | O => OutOfFuel
  | S k =>
    let! frame := rd_s 2 Big d indx in
    let! s := rd_s 2 Big d (indx + 2) in
    let! e := rd_s 2 Big d (indx + 6) in
    (* the names are stored one after another *)
    if e <? s then Err EValue else
    let name := slice d (mnidx + s) (mnidx + e) in
    let! r := vwlb_loop k (n - 1) d (indx + 4) mnidx in
    Ok ((name, frame) :: r)
  end.
Definition parse_vwlb_data (d : bytes) : result (list (bytes * Z)) :=
  let! nmarkers := rd_s 2 Big d 0 in
  vwlb_loop (S (length d)) nmarkers d 2 (2 + 4 * (nmarkers + 1)).

(* ---------------- vwcf.py ---------------- *)
Definition get_palette_name (v : Z) : bytes :=
  let v := if v <=? 0 then v + palette_shift_nonpositive else v in
  name_or_str DIR_PALETTE_NAMES v.

Definition S_ (s : list byte) : bytes := s.
Definition version_class (version : Z) : bytes :=
  let major := (version / 256) mod 256 in
  let minor := version mod 256 in
  if major =? 4 then
    (if minor <? 192 then ["d";"i";"r";"4"] else if minor <? 198 then ["d";"i";"r";"5"] else ["d";"i";"r";"6"])%byte
  else if major =? 5 then ["d";"i";"r";"7"]%byte
  else if major =? 7 then
    (if minor <=? 58 then ["d";"i";"r";"8"] else if minor <=? 66 then ["d";"i";"r";"M";"X"] else ["u";"n";"k";"n";"o";"w";"n"])%byte
  else if (major =? 22) && (minor =? 60) then ["p";"u";"b";"l";"i";"s";"h";"e";"d"]%byte
  else ["u";"n";"k";"n";"o";"w";"n"]%byte.

Record vwcf := { v_version : bytes; v_top : Z; v_left : Z; v_bottom : Z; v_right : Z;
                 v_castStart : Z; v_castEnd : Z; v_rate : Z; v_color : Z; v_palette : bytes }.

Definition dir4 : bytes := ["d";"i";"r";"4"]%byte.
Definition dir5 : bytes := ["d";"i";"r";"5"]%byte.

Definition parse_vwcf_file_data (d : bytes) : result vwcf :=
  let! dataSize := rd_s 2 Big d 0 in
  if negb (zlen d =? dataSize) then Err EValue else
  let! f := read_layout Big [FS 2; FS 2; FS 2; FS 2; FS 2; FS 2; FS 2; FS 2; FSkip 9; FU 1] d 2 in
  let vc := version_class (getv f 0) in
  let! pal :=
    if bytes_eqb vc dir4 then let! p := rd_s 2 Big d 70 in Ok (get_palette_name p)
    else if bytes_eqb vc dir5 then let! p := rd_s 2 Big d 78 in Ok (get_palette_name p)
    else Ok ["u";"n";"k";"n";"o";"n";"w"]%byte in
  Ok {| v_version := vc; v_top := getv f 1; v_left := getv f 2; v_bottom := getv f 3; v_right := getv f 4;
        v_castStart := getv f 5; v_castEnd := getv f 6; v_rate := getv f 7; v_color := getv f 8;
        v_palette := pal |}.
