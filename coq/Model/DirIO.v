From Coq Require Import ZArith List String.
From Coq.Strings Require Import Byte.
From DRX Require Import Py.PyBytes Py.Val Model.Riff Model.Index Model.IndexIO Model.Vwsc Model.VwscIO Model.Text Model.TextIO
  Model.Snd Model.Score Model.ScoreIO Model.Dir.
Import ListNotations.
Open Scope Z_scope.

(* tagging decompiler used by the correspondence check: payload = scr_num (2 bytes, signed), cont_scr_num (2 bytes),
   then text; lingo = 'L' + text + names..., js = 'J' + text *)
Definition decompile_tag (d : bytes) (names : list bytes) : result (Z * Z * bytes * bytes) :=
  let! n := rd_s 2 Big d 0 in
  let! c := rd_s 2 Big d 2 in
  let t := slice_from d 4 in
  Ok (n, c, "L"%byte :: t ++ List.concat names, "J"%byte :: t).

Definition v_member (m : member) : val :=
  VL [v_dict (m_cast m);
      vopt (fun t : bytes * list Text.run => VL [VB (fst t); vlist v_run (snd t)]) (m_text m);
      vopt (fun s : sound * bytes => VL [VZ (nch (fst s)); VZ (bps (fst s)); VZ (rate (fst s)); VB (snd s)]) (m_sound m);
      vopt VB (m_palette m); vopt VB (m_bitmap m)].
Definition v_dirfile (d : dirfile) : val :=
  VL [v_vwcf (d_info d); vlist (vopt v_member) (d_cast d);
      vlist (fun s : Z * (bytes * bytes) => VL [VZ (fst s); VB (fst (snd s)); VB (snd (snd s))]) (d_scripts d);
      vlist (fun p : bytes * Z => VL [VB (fst p); VZ (snd p)]) (d_markers d);
      vopt v_score (d_score d);
      vlist (fun f : font => VL [VB (f_name f); VZ (f_id f)]) (d_fontmap d)].
Definition run_parse_dir (v : val) : val :=
  match v with
  | VL [VB d; VZ off; bo] =>
    match getBO bo with Some bo => vresult v_dirfile (parse_dir_file_data decompile_tag bo off d) | None => vbad end
  | _ => vbad end.
