From Coq Require Import ZArith List.
From Coq.Strings Require Import Byte.
From DRX Require Import Py.PyBytes Py.Val Model.Clut Model.Index.
Import ListNotations.
Definition run_clut2palette (v : val) : val :=
  match v with VB d => vresult VB (clut2palette d) | _ => vbad end.
Definition run_clut2rgb (v : val) : val :=
  match v with VB d => vresult (vlist (fun c : byte * byte * byte => VB [fst (fst c); snd (fst c); snd c])) (clut2rgb d) | _ => vbad end.
Definition run_write_color_palette (v : val) : val :=
  match v with VL [VZ nb; VZ nc; VB name; VB data] => vresult VB (write_color_palette nb nc name data) | _ => vbad end.
Definition run_get_palette_name (v : val) : val :=
  match v with VZ z => VB (get_palette_name z) | _ => vbad end.
