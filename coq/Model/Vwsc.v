(* Model of drxtract/vwsc/vwsc.py (parse_vwsc_file_data, parse_vwsc_data), cparser.py
   (parse_vwsc_channels) and the per-channel field readers of dir4cparser.py / dir5cparser.py.
   The fixed-offset reads come from Gen_Layouts (regenerated from the source on every run);
   the dict construction after the reads is written here by hand. *)
From Coq Require Import List ZArith Bool String.
From Coq.Strings Require Import Byte.
From DRX Require Import Py.PyBytes Py.Layout Py.PyStr Model.Riff Gen.Gen_Common Gen.Gen_Layouts.
Import ListNotations.
Open Scope Z_scope.

Definition B (s : string) : bytes := list_byte_of_string s.
Arguments B s%string.

(* python values stored in the result dicts *)
Inductive pv := PZ (z : Z) | PS (s : bytes) | PB (b : bool) | PD (d : list (bytes * pv)) | PL (l : list pv).
Definition dict := list (bytes * pv).

Fixpoint index_of (n : bytes) (names : list bytes) : option nat :=
  match names with
  | [] => None
  | x :: r => if bytes_eqb x n then Some O else match index_of n r with Some i => Some (S i) | None => None end
  end.
Definition fld (names : list bytes) (vs : list Z) (n : string) : Z :=
  match index_of (B n) names with Some i => getv vs i | None => 0 end.

Arguments fld names vs n%string.

(* cparser.py get_operation_name *)
Definition get_operation_name (operation : Z) : bytes :=
  let op := (operation / 16) mod 16 in
  if negb (Z.land op 8 =? 0) then
    (if negb (Z.land op 1 =? 0) then B "color_cycling_auto_reverse" else B "color_cycling_loop")
  else if negb (Z.land op 4 =? 0) then
    (if negb (Z.land op 2 =? 0) then B "fade_to_black" else B "fade_to_white")
  else str_of_Z op.

Definition bit (v : Z) (k : Z) : bool := negb (((v / 2 ^ k) mod 2) =? 0).

(* ---- Director 4 (20-byte channels) ---- *)
Definition d4_main_dict (f : string -> Z) : result dict :=
  let dur := Z.land (f "transition_duration"%string) 127 in
  if negb (f "fps"%string =? 0) || negb (f "sound1_cast"%string =? 0) || negb (f "sound2_cast"%string =? 0) || negb (f "script"%string =? 0)
  then Ok [(B "fps", PZ (f "fps"%string)); (B "transition_id", PS (name_or_str DIR_TRANSITION_NAMES (f "transition_id"%string)));
           (B "sound1_cast", PZ (f "sound1_cast"%string)); (B "sound2_cast", PZ (f "sound2_cast"%string));
           (B "script", PZ (f "script"%string)); (B "transition_chunk_size", PZ (f "transition_chunk_size"%string));
           (B "transition_duration", PZ dur)]
  else Ok [].
Definition d4_main (fr : bytes) : result dict :=
  let! v := read_layout Big d4_main_layout fr 0 in d4_main_dict (fld d4_main_names v).

Definition d4_palette_dict (f : string -> Z) : result dict :=
  if negb (f "palette_id"%string =? 0)
  then Ok [(B "fps", PZ (f "fps"%string)); (B "operation", PS (get_operation_name (f "operation_code"%string)));
           (B "palette_id", PZ (f "palette_id"%string)); (B "cycles", PZ (f "cycles"%string))]
  else Ok [].
Definition d4_palette (fr : bytes) : result dict :=
  let! v := read_layout Big d4_palette_layout fr 0 in d4_palette_dict (fld d4_palette_names v).

Definition d4_sprite_dict (f : string -> Z) : result dict :=
  let ink := f "ink_type"%string mod 64 in
  let flag2 := f "flag2"%string mod 65536 in
  if f "castId"%string >? 0
  then Ok [(B "spriteType", PZ (f "spriteType"%string)); (B "castId", PZ (f "castId"%string));
           (B "foregroundColor", PZ (f "foregroundColor"%string)); (B "backgroundColor", PZ (f "backgroundColor"%string));
           (B "ink_type", PZ ink); (B "flags", PZ (f "flags"%string)); (B "y", PZ (f "y"%string)); (B "x", PZ (f "x"%string));
           (B "height", PZ (f "height"%string)); (B "width", PZ (f "width"%string)); (B "trails", PZ ((ink / 64) mod 2));
           (B "moveable", PB (bit flag2 15)); (B "editable", PB (bit flag2 14))]
  else Ok [].
Definition d4_sprite (fr : bytes) : result dict :=
  let! v := read_layout Big d4_sprite_layout fr 0 in d4_sprite_dict (fld d4_sprite_names v).

(* ---- Director 5 (24-byte channels) ---- *)
Definition d5_main_dict (f : string -> Z) : result dict :=
  if negb (f "fps"%string =? 0) || negb (f "sound1_cast"%string =? 0) || negb (f "sound2_cast"%string =? 0) || negb (f "script"%string =? 0)
  then Ok [(B "fps", PZ (f "fps"%string)); (B "transition_cast_id", PZ (f "transition_cast_id"%string));
           (B "sound1_cast", PZ (f "sound1_cast"%string)); (B "sound2_cast", PZ (f "sound2_cast"%string));
           (B "script", PZ (f "script"%string))]
  else Ok [].
Definition d5_main (fr : bytes) : result dict :=
  let! v := read_layout Big d5_main_layout fr 0 in d5_main_dict (fld d5_main_names v).

Definition d5_palette_dict (f : string -> Z) : result dict :=
  if negb (f "palette_id"%string =? 0)
  then Ok [(B "fps", PZ (f "fps"%string)); (B "palette_id", PZ (f "palette_id"%string));
           (B "operation", PS (get_operation_name (f "operation_code"%string))); (B "cycles", PZ (f "cycles"%string))]
  else Ok [].
Definition d5_palette (fr : bytes) : result dict :=
  let! v := read_layout Big d5_palette_layout fr 0 in d5_palette_dict (fld d5_palette_names v).

Definition d5_sprite_dict (f : string -> Z) : result dict :=
  let ink := f "ink_type"%string mod 64 in
  let flag2 := f "flag2"%string mod 65536 in
  if f "castId"%string >? 0
  then Ok [(B "spriteType", PZ (f "spriteType"%string)); (B "castId", PZ (f "castId"%string));
           (B "foregroundColor", PZ (f "foregroundColor"%string)); (B "backgroundColor", PZ (f "backgroundColor"%string));
           (B "ink_type", PZ ink); (B "y", PZ (f "y"%string)); (B "x", PZ (f "x"%string));
           (B "height", PZ (f "height"%string)); (B "width", PZ (f "width"%string)); (B "trails", PZ ((ink / 64) mod 2));
           (B "moveable", PB (bit flag2 15)); (B "editable", PB (bit flag2 14))]
  else Ok [].
Definition d5_sprite (fr : bytes) : result dict :=
  let! v := read_layout Big d5_sprite_layout fr 0 in d5_sprite_dict (fld d5_sprite_names v).

Record cparser := { cp_fs : Z; cp_main : bytes -> result dict; cp_palette : bytes -> result dict;
                    cp_sprite : bytes -> result dict }.
Definition D4 : cparser := Build_cparser 20 d4_main d4_palette d4_sprite.
Definition D5 : cparser := Build_cparser 24 d5_main d5_palette d5_sprite.

Record frame_out := { fo_main : dict; fo_palette : dict; fo_score : list dict }.

(* cparser.py parse_vwsc_channels: main, palette, then sprites while indx < len(channelData) *)
Fixpoint sprites_loop (fuel : nat) (cp : cparser) (buf : bytes) (indx : Z) : result (list dict) :=
  if indx <? zlen buf then
    match fuel with
    | O => OutOfFuel
    | S f =>
      let! s := cp_sprite cp (slice buf indx (indx + cp_fs cp)) in
      let! r := sprites_loop f cp buf (indx + cp_fs cp) in
      Ok (s :: r)
    end
  else Ok [].
Definition parse_vwsc_channels (cp : cparser) (buf : bytes) : result frame_out :=
  let fs := cp_fs cp in
  let! m := cp_main cp (slice buf 0 fs) in
  let! p := cp_palette cp (slice buf fs (2 * fs)) in
  let! s := sprites_loop (S (List.length buf)) cp buf (2 * fs) in
  Ok (Build_frame_out m p s).

(* channelDataList[delta_offset + i] = deltaData[i] for i in range(delta_size) *)
Fixpoint set_nth (buf : bytes) (p : nat) (b : byte) : option bytes :=
  match buf, p with
  | [], _ => None
  | _ :: r, O => Some (b :: r)
  | x :: r, S q => match set_nth r q b with Some r' => Some (x :: r') | None => None end
  end.
Fixpoint patch_loop (buf : bytes) (off : Z) (data : bytes) (n : nat) : result bytes :=
  (* n = delta_size iterations; data may be shorter than n when the input is truncated *)
  match n with
  | O => Ok buf
  | S m =>
    match data with
    | [] => Err EIndex
    | b :: data' =>
      let! buf' := of_option EIndex (if off <? 0 then None else set_nth buf (Z.to_nat off) b) in
      patch_loop buf' (off + 1) data' m
    end
  end.

(* the inner while loop over the deltas of one record: returns (buffer, idx, remaining channelSize) *)
Fixpoint delta_loop (fuel : nat) (d : bytes) (buf : bytes) (idx csize : Z) : result (bytes * Z * Z) :=
  if csize >? 0 then
    match fuel with
    | O => OutOfFuel
    | S f =>
      let! dsize := rd_s 2 Big d idx in
      if (dsize >? csize) || (dsize <=? 0) then Ok (buf, idx, csize) else
      let! doff := rd_s 2 Big d (idx + 2) in
      let doff := if doff <? 0 then Z.land doff 255 else doff in
      let idx := idx + 4 in
      let data := slice d idx (idx + dsize) in
      (* delta_size <= 32767: a small nat *)
      let! buf' := patch_loop buf doff data (Z.to_nat dsize) in
      delta_loop f d buf' (idx + dsize) (csize - 4 - dsize)
    end
  else Ok (buf, idx, csize).

(* entries of vwsc_data: a parsed frame, or [] for an 'empty channel' record *)
Inductive entry := EFrame (f : frame_out) | EEmpty.

Fixpoint record_loop (fuel : nat) (cp : cparser) (d : bytes) (dataSize : Z) (buf : bytes) (idx : Z)
         (acc : list entry) : result (list entry) :=
  if idx <? dataSize then
    match fuel with
    | O => OutOfFuel
    | S f =>
      let! csize := rd_s 2 Big d idx in
      let idx := idx + 2 in
      if csize <? 2 then Err EValue else          (* 'Bad VWSC record size' *)
      if csize =? 2 then
        match acc with
        | [] =>                                 (* first record: repeats the initial state *)
          let! fr := parse_vwsc_channels cp buf in
          record_loop f cp d dataSize buf idx [EFrame fr]
        | last :: _ => record_loop f cp d dataSize buf idx (last :: acc)
        end
      else
        let csize := csize - 2 in
        if csize >? 0 then
          let! (buf', idx', rest) := delta_loop (S (List.length d)) d buf idx csize in
          let! fr := parse_vwsc_channels cp buf' in
          record_loop f cp d dataSize buf' (idx' + rest) (EFrame fr :: acc)
        else
          record_loop f cp d dataSize buf (idx + csize) (EEmpty :: acc)
    end
  else Ok (rev acc).

Definition parse_vwsc_data (d : bytes) : result (list entry) :=
  let! h := read_layout Big [FS 4; FS 4; FS 4; FS 2; FS 2; FS 2; FS 2] d 0 in
  let dataSize := getv h 0 in
  if negb (getv h 1 =? 20) then Err EValue else
  if negb (zlen d =? dataSize) then Err EValue else
  let frame_size := getv h 4 in
  let channel_count := getv h 5 in
  let! cp := if frame_size =? 20 then Ok D4 else if frame_size =? 24 then Ok D5 else Err EKey in
  if channel_count * frame_size <? 0 then Err EValue else    (* bytearray(negative) *)
  (* channel_count, frame_size are 16-bit: the buffer has at most 2^30 bytes; sizes beyond the input's
     own length only occur on malformed input *)
  let buf := zeros (Z.to_nat (channel_count * frame_size)) in
  record_loop (S (List.length d)) cp d dataSize buf 20 [].

Definition parse_vwsc_file_data (d : bytes) : result (list entry) :=
  let! dataSize := rd_s 4 Big d 0 in
  let! dataMarker := rd_s 4 Big d 4 in
  let! (indx, dataSize, dataMarker) :=
    if negb (dataMarker =? 20) then
      if negb (zlen d =? dataSize) then Err EValue else
      let! w := read_layout Big [FS 4; FS 4; FS 4; FS 4] d 8 in
      let indx := 24 + getv w 2 * 4 in
      let! ds := rd_s 4 Big d indx in
      let! dm := rd_s 4 Big d (indx + 4) in
      Ok (indx + 8, ds, dm)
    else Ok (8, dataSize, dataMarker) in
  if negb (dataMarker =? 20) then Err EValue else
  let indx := indx - 8 in
  parse_vwsc_data (slice d indx (indx + dataSize)).
