(* The decompiler's syntax tree: drxtract/lingosrc/ast/*.py as one inductive type.
   Every Python node class is a constructor (leaf classes share [Leaf] with a class tag); fields keep
   their Python names.  Positions are the absolute byte addresses the parser records; they matter
   because list removal and several comparisons in the parser go through Node.__eq__, which compares
   class, name and position. *)
From Coq Require Import ZArith List Bool String.
From DRX Require Import Py.PyString.
Import ListNotations.
Open Scope Z_scope.

Inductive lclass :=
| KNode | KConst | KConstInt   (* ConstantValue whose name is a str / a Python int (pool integer) *)
| KSymbol | KLocal | KGlobal | KPropName | KDefPropName | KParam
| KDateTime | KMenu | KMenuItem | KSound | KSprite | KCast.

Inductive node :=
| Leaf (k : lclass) (name : string) (pos : Z) (flag : bool)      (* flag = Symbol.use_hash *)
| Unary (name : string) (pos : Z) (operand : node)
| Binary (name : string) (pos : Z) (l r : node)
| SpAssign (pos : Z) (l r : node) (mode : string)
| StrOp (name : string) (pos : Z) (start : node) (en : option node) (of_ : node)
| UStrOp (name : string) (pos : Z) (ty : option string) (of_ : node)
| Accessor (pos : Z) (obj : node) (prop : string)
| KeyAccessor (pos : Z) (prop : string)
| MenuItemAcc (pos : Z) (menu item : node)
| MenuItemsAcc (pos : Z) (menu : node)
| LoadList (name : string) (pos : Z) (ops : list node)            (* operands, in pop order *)
| ToList (pos : Z) (operand : node)
| ToDict (pos : Z) (operand : node)
| Stmt (pos : Z) (code : node)
| Call (name : string) (pos : Z) (params : option node) (use_paren in_tell with_result : bool)
| CallMethod (name : string) (pos : Z) (obj params : node)
| Repeat (pos endpos : Z) (cond : node) (body : list node) (ty : string)
         (start en : option node) (varname sign : string)
| IfThen (pos : Z) (cond : node) (ifs elses : list node)
| Jump (pos addr : Z)
| Jz (pos : Z) (cond : node) (addr : Z)
| ExitRepeat (pos : Z)
| Tell (pos : Z) (operand : node) (body : list node)
(* sprite / cast / sound / menu / menuItem given by an expression; name = the operand's name at construction *)
| ObjRef (k : lclass) (name : string) (pos : Z) (ident : node).

(* class tags for Node.__eq__ (same class) *)
Inductive ctag := TLeaf (k : lclass) | TUnary | TBinary | TSpAssign | TStrOp | TUStrOp | TAccessor | TKeyAccessor
 | TMenuItemAcc | TMenuItemsAcc | TLoadList | TToList | TToDict | TStmt | TCall | TCallMethod | TRepeat | TIfThen
 | TJump | TJz | TExitRepeat | TTell.

Definition tag_of (n : node) : ctag :=
  match n with
  | Leaf k _ _ _ => TLeaf k | Unary _ _ _ => TUnary | Binary _ _ _ _ => TBinary | SpAssign _ _ _ _ => TSpAssign
  | StrOp _ _ _ _ _ => TStrOp | UStrOp _ _ _ _ => TUStrOp | Accessor _ _ _ => TAccessor | KeyAccessor _ _ => TKeyAccessor
  | MenuItemAcc _ _ _ => TMenuItemAcc | MenuItemsAcc _ _ => TMenuItemsAcc | LoadList _ _ _ => TLoadList
  | ToList _ _ => TToList | ToDict _ _ => TToDict | Stmt _ _ => TStmt | Call _ _ _ _ _ _ => TCall
  | CallMethod _ _ _ _ => TCallMethod | Repeat _ _ _ _ _ _ _ _ _ => TRepeat | IfThen _ _ _ _ => TIfThen
  | Jump _ _ => TJump | Jz _ _ _ => TJz | ExitRepeat _ => TExitRepeat | Tell _ _ _ => TTell
  | ObjRef k _ _ _ => TLeaf k
  end.

(* Node.name *)
Definition name_of (n : node) : string :=
  match n with
  | Leaf _ s _ _ => s | Unary s _ _ => s | Binary s _ _ _ => s | SpAssign _ _ _ _ => "assign"
  | StrOp s _ _ _ _ => s | UStrOp s _ _ _ => s | Accessor _ _ _ => "accessor" | KeyAccessor _ _ => "accessor"
  | MenuItemAcc _ _ _ => "menu_item" | MenuItemsAcc _ _ => "menu_items" | LoadList s _ _ => s
  | ToList _ _ => "to_list" | ToDict _ _ => "to_dict" | Stmt _ _ => "statement" | Call s _ _ _ _ _ => s
  | CallMethod s _ _ _ => s | Repeat _ _ _ _ _ _ _ _ _ => "repeat" | IfThen _ _ _ _ => "if-then"
  | Jump _ _ => "jump" | Jz _ _ _ => "jz" | ExitRepeat _ => "exit repeat" | Tell _ _ _ => "tell"
  | ObjRef _ s _ _ => s
  end.

Definition pos_of (n : node) : Z :=
  match n with
  | Leaf _ _ p _ => p | Unary _ p _ => p | Binary _ p _ _ => p | SpAssign p _ _ _ => p
  | StrOp _ p _ _ _ => p | UStrOp _ p _ _ => p | Accessor p _ _ => p | KeyAccessor p _ => p
  | MenuItemAcc p _ _ => p | MenuItemsAcc p _ => p | LoadList _ p _ => p
  | ToList p _ => p | ToDict p _ => p | Stmt p _ => p | Call _ p _ _ _ _ => p
  | CallMethod _ p _ _ => p | Repeat p _ _ _ _ _ _ _ _ => p | IfThen p _ _ _ => p
  | Jump p _ => p | Jz p _ _ => p | ExitRepeat p => p | Tell p _ _ => p
  | ObjRef _ _ p _ => p
  end.

(* the name is a Python int, not a str: comparisons with string literals are False *)
Definition name_is_int (n : node) : bool := match n with Leaf KConstInt _ _ _ => true | _ => false end.
(* n.name == 'lit' *)
Definition name_is (n : node) (lit : string) : bool := negb (name_is_int n) && String.eqb (name_of n) lit.
(* a.name == b.name *)
Definition name_eq (a b : node) : bool := Bool.eqb (name_is_int a) (name_is_int b) && String.eqb (name_of a) (name_of b).

Definition lclass_eqb (a b : lclass) : bool :=
  match a, b with
  | KNode, KNode | KConst, KConst | KConstInt, KConstInt | KSymbol, KSymbol | KLocal, KLocal | KGlobal, KGlobal
  | KPropName, KPropName | KDefPropName, KDefPropName | KParam, KParam | KDateTime, KDateTime | KMenu, KMenu
  | KMenuItem, KMenuItem | KSound, KSound | KSprite, KSprite | KCast, KCast => true
  | _, _ => false
  end.
(* isinstance(other, self.__class__): other's class is self's class or a subclass of it.
   Subclassing among node classes: everything below Node; DefinedPropertyName below PropertyName;
   KConst / KConstInt are the same Python class. *)
Definition leaf_isinstance (other self : lclass) : bool :=
  match self with
  | KNode => true
  | KPropName => match other with KPropName | KDefPropName => true | _ => false end
  | KConst | KConstInt => match other with KConst | KConstInt => true | _ => false end
  | _ => lclass_eqb other self
  end.
Definition ctag_eqb (a b : ctag) : bool :=
  match a, b with
  | TLeaf x, TLeaf y => lclass_eqb x y
  | TUnary, TUnary | TBinary, TBinary | TSpAssign, TSpAssign | TStrOp, TStrOp | TUStrOp, TUStrOp | TAccessor, TAccessor
  | TKeyAccessor, TKeyAccessor | TMenuItemAcc, TMenuItemAcc | TMenuItemsAcc, TMenuItemsAcc | TLoadList, TLoadList
  | TToList, TToList | TToDict, TToDict | TStmt, TStmt | TCall, TCall | TCallMethod, TCallMethod | TRepeat, TRepeat
  | TIfThen, TIfThen | TJump, TJump | TJz, TJz | TExitRepeat, TExitRepeat | TTell, TTell => true
  | _, _ => false
  end.
Definition isinstance_of (other self : node) : bool :=
  match tag_of other, tag_of self with
  | TLeaf o, TLeaf s => leaf_isinstance o s
  | _, TLeaf KNode => true
  | o, s => ctag_eqb o s
  end.

(* self == other  (Node.__eq__; GlobalVariable.__eq__ ignores the position) *)
Definition node_eq (self other : node) : bool :=
  isinstance_of other self && name_eq self other &&
  (match self with Leaf KGlobal _ _ _ => true | _ => pos_of self =? pos_of other end).

(* list.remove(x): drop the first element equal to x (ValueError when there is none) *)
Fixpoint remove_first (x : node) (l : list node) : option (list node) :=
  match l with
  | [] => None
  | y :: r => if node_eq y x then Some r else option_map (cons y) (remove_first x r)
  end.
(* x in l *)
Fixpoint mem_node (x : node) (l : list node) : bool :=
  match l with [] => false | y :: r => node_eq y x || mem_node x r end.

Definition is_stmt_code (P : node -> bool) (st : node) : bool := match st with Stmt _ c => P c | _ => false end.
Definition code_of (st : node) : node := match st with Stmt _ c => c | _ => st end.
Definition is_jump (n : node) : bool := match n with Jump _ _ => true | _ => false end.
Definition is_jz (n : node) : bool := match n with Jz _ _ _ => true | _ => false end.
