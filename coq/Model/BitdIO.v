From Coq Require Import ZArith List.
From DRX Require Import Py.PyBytes Py.Val Model.Bitd.
Import ListNotations.
(* (width height depth w_padding h_padding palette_txt clut data) *)
Definition run_bitd2bmp (v : val) : val :=
  match v with
  | VL [VZ w; VZ h; VZ depth; VZ pw; VZ ph; VB pt; VB clut; VB f] => vresult VB (bitd2bmp w h depth pw ph pt clut f)
  | _ => vbad end.

Definition get_args (v : val) : option bitd_args :=
  match v with
  | VL [VZ w; VZ h; VZ depth; VZ pw; VZ ph; VB pt; VB clut; VB f] => Some (Build_bitd_args w h depth pw ph pt clut f)
  | _ => None end.
Definition v_res (r : result bytes) : val := vresult VB r.
Definition run_bitd_history (v : val) : val :=
  match getLof get_args v with
  | Some h => vlist v_res (bitd_history [] h)
  | None => vbad end.
