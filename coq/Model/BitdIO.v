From Coq Require Import ZArith List.
From DRX Require Import Py.PyBytes Py.Val Model.Bitd.
Import ListNotations.
(* (width height depth w_padding h_padding palette_txt clut data) *)
Definition run_bitd2bmp (v : val) : val :=
  match v with
  | VL [VZ w; VZ h; VZ depth; VZ pw; VZ ph; VB pt; VB clut; VB f] => vresult VB (bitd2bmp w h depth pw ph pt clut f)
  | _ => vbad end.
