From Coq Require Import ZArith List.
From DRX Require Import Py.PyBytes Py.Val Model.Riff Model.Xtract.
Import ListNotations.
Definition run_extract (v : val) : val :=
  match v with
  | VL [VB d; bo; VZ exe] =>
    match getBO bo with
    | Some bo =>
      let '(ws, st) := extract d bo (Z.eqb exe 1) in
      VL [vlist (fun w : write => VL [VB (fst w); VB (snd w)]) ws; VZ (match st with Done => 1%Z | Aborted => 0%Z end)]
    | None => vbad end
  | _ => vbad end.
