From Coq Require Import ZArith List String.
From Coq.Strings Require Import Byte.
From DRX Require Import Py.PyBytes Py.Val Py.PyString Model.LingoAst Model.LingoGen Model.LingoOps Model.LingoLoop Model.Lscr.
Import ListNotations.
Open Scope string_scope.

Definition v_str (s : string) : val := VB (bytes_of_str s).
Definition get_str (v : val) : option string := option_map str_of_bytes (getB v).
Definition get_oracle (v : val) : option oracle :=
  getLof (fun x => match x with VL [VB k; VB t] => Some (k, str_of_bytes t) | _ => None end) v.
Definition get_regs (v : val) : option regs :=
  getLof (fun x => match x with VL [VZ k; VZ a; VZ b] => Some (k, (a, b)) | _ => None end) v.

(* (fdata, names, codec, floats, regs) -> (lingo text, js text) *)
Definition run_decompile (v : val) : val :=
  match v with
  | VL [VB d; ns; co; fl; rg] =>
    match getLof get_str ns, get_oracle co, get_oracle fl, get_regs rg with
    | Some names, Some codec, Some floats, Some r =>
      vresult (fun p : regs * script => VL [v_str (generate_lingo_code (snd p)); v_str (generate_js_code (snd p))])
              (parse_lscr d names codec floats r)
    | _, _, _, _ => vbad
    end
  | _ => vbad
  end.
