From Coq Require Import ZArith List String.
From Coq.Strings Require Import Byte.
From DRX Require Import Py.PyBytes Py.Val Py.PyString Model.LingoAst Model.LingoGen Model.LingoOps Model.LingoLoop Model.Lscr Model.LingoMut.
Import ListNotations.
Open Scope string_scope.

Definition v_str (s : string) : val := VB (bytes_of_str s).
Definition get_str (v : val) : option string := option_map str_of_bytes (getB v).
Definition get_oracle (v : val) : option oracle :=
  getLof (fun x => match x with VL [VB k; VB t] => Some (k, str_of_bytes t) | _ => None end) v.
Definition get_regs (v : val) : option regs :=
  getLof (fun x => match x with VL [VZ k; VZ a; VZ b] => Some (k, (a, b)) | _ => None end) v.

(* (fdata, names, codec, floats, regs) -> (lingo text, js text) *)
Definition run_decompile (v : val) : val :=
  match v with
  | VL [VB d; ns; co; fl; rg] =>
    match getLof get_str ns, get_oracle co, get_oracle fl, get_regs rg with
    | Some names, Some codec, Some floats, Some r =>
      vresult (fun p : regs * script => VL [v_str (generate_lingo_code (snd p)); v_str (generate_js_code (snd p))])
              (parse_lscr d names codec floats r)
    | _, _, _, _ => vbad
    end
  | _ => vbad
  end.

Definition get_ops (v : val) : option (list gop) :=
  match v with
  | VB b => Some (map (fun c => if (u8 c =? 76)%Z then GL else GJ) b)
  | _ => None end.
Definition v_hist (h : list (gop * string)) : list val :=
  map (fun p : gop * string => VL [vstr (match fst p with GL => "L" | GJ => "J" end); v_str (snd p)]) h.

(* (fdata, names, codec, floats, [histories]) -> every text of every history, in order *)
Definition run_decompile_history (v : val) : val :=
  match v with
  | VL [VB d; ns; co; fl; VL seqs] =>
    match getLof get_str ns, get_oracle co, get_oracle fl, all_some (map get_ops seqs) with
    | Some names, Some codec, Some floats, Some hs =>
      vresult (fun p : regs * script => VL (flat_map (fun ops => v_hist (run_history (snd p) ops)) hs))
              (parse_lscr d names codec floats [])
    | _, _, _, _ => vbad
    end
  | _ => vbad
  end.

(* two chunks decompiled one after the other with the registers carried over: the texts of the second *)
Definition run_decompile_pair (v : val) : val :=
  match v with
  | VL [VL [VB d1; ns1; co1; fl1]; VL [VB d2; ns2; co2; fl2]] =>
    match getLof get_str ns1, get_oracle co1, get_oracle fl1, getLof get_str ns2, get_oracle co2, get_oracle fl2 with
    | Some n1, Some c1, Some f1, Some n2, Some c2, Some f2 =>
      let r1 := match parse_lscr d1 n1 c1 f1 [] with Ok (r, _) => r | _ => [] end in
      vresult (fun p : regs * script => VL (v_hist (run_history (snd p) [GL]) ++ v_hist (run_history (snd p) [GJ])))
              (parse_lscr d2 n2 c2 f2 r1)
    | _, _, _, _, _, _ => vbad
    end
  | _ => vbad
  end.
