From Coq Require Import ZArith List String.
From DRX Require Import Py.PyBytes Py.Val Model.Vwsc.
Import ListNotations.
Fixpoint v_pv (p : pv) : val :=
  match p with
  | PZ z => VZ z | PS s => VB s | PB b => VL [vstr "b"; vbool b]
  | PD d => VL [vstr "d"; VL (map (fun e : bytes * pv => VL [VB (fst e); v_pv (snd e)]) d)]
  | PL l => VL [vstr "l"; VL (map v_pv l)]
  end.
Definition v_dict (d : dict) : val := vlist (fun e : bytes * pv => VL [VB (fst e); v_pv (snd e)]) d.
Definition v_entry (e : entry) : val :=
  match e with
  | EFrame f => VL [v_dict (fo_main f); v_dict (fo_palette f); vlist v_dict (fo_score f)]
  | EEmpty => VL []
  end.
Definition run_parse_vwsc_file (v : val) : val :=
  match v with VB d => vresult (vlist v_entry) (parse_vwsc_file_data d) | _ => vbad end.
