(* val <-> Score model glue (used only by the correspondence runner) *)
From Coq Require Import ZArith List String.
From DRX Require Import Py.PyBytes Py.Val Model.RL Model.Score.
Import ListNotations.
Open Scope Z_scope.

Definition get_attrs (v : val) : option attrs :=
  match getLof getZ v with
  | Some [a;b;c;d;e;f;g;h;i;j;k;l] => Some (Build_attrs a b c d e f g h i j k l)
  | _ => None end.
Definition get_main (v : val) : option mainrec :=
  match v with
  | VL [VZ fps; VB tr; VZ s1; VZ s2; VZ sc; VZ ch; VZ du] => Some (Build_mainrec fps tr s1 s2 sc ch du)
  | _ => None end.
Definition get_frame (v : val) : option frame :=
  match v with
  | VL [m; p; s] =>
    match getOpt get_main m, getOpt getZ p, getLof (getOpt get_attrs) s with
    | Some m', Some p', Some s' => Some (Build_frame m' p' s')
    | _, _, _ => None end
  | _ => None end.

Definition v_attrs (a : attrs) : val :=
  VL (map VZ [a_castId a; a_backColor a; a_foreColor a; a_width a; a_height a; a_ink a;
              a_type a; a_locH a; a_locV a; a_editable a; a_moveable a; a_trails a]).
Definition v_sprite (s : sprite_out) : val :=
  VL [v_attrs (so_attrs s); VZ (so_start s); VZ (so_end s); VZ (so_locZ s);
      VZ (so_left s); VZ (so_top s); VZ (so_right s); VZ (so_bottom s)].
Definition v_snd (s : span Z) : val := VL [vnat (sstart s); vnat (send s); VZ (sattrs s)].
Definition v_ev (e : Z * Z) : val := VL [VZ (fst e); VZ (snd e)].
Definition v_tr (e : Z * (bytes * Z * Z)) : val :=
  let '(f, (t, c, d)) := e in VL [VZ f; VB t; VZ c; VZ d].
Definition v_score (o : score_out) : val :=
  VL [VZ (o_lastChannel o); VZ (o_lastFrame o); vlist v_tr (o_transition o);
      vlist v_ev (o_palette o); vlist v_snd (o_sound1 o); vlist v_snd (o_sound2 o);
      vlist v_ev (o_tempo o); vlist v_ev (o_script o); vlist (vlist v_sprite) (o_sprite o)].

Definition run_vwsc_to_score (v : val) : val :=
  match getLof get_frame v with
  | Some frames => vresult v_score (vwsc_to_score frames)
  | None => vbad end.
