(* Model of drxtract/cast/cast.py (layout detection, the two record layouts, the info block) and the
   per-type header parsers cast/*.py.  Fixed-offset reads come from Gen_Layouts; names are the stored
   bytes (codec applied by the caller) after the file-name sanitising step, which is modelled here on
   the decoded code points the codec maps 1:1 (see harness for the codec part). *)
From Coq Require Import List ZArith Bool String.
From Coq.Strings Require Import Byte.
From DRX Require Import Py.PyBytes Py.Layout Py.PyStr Model.Riff Model.Index Model.Vwsc Gen.Gen_Common Gen.Gen_Layouts.
Import ListNotations.
Open Scope Z_scope.

Record cast_struct := { cs_type : Z; cs_header : bytes; cs_basic : bytes }.

Definition parse_struct_dir4 (d : bytes) : result cast_struct :=
  let! header_size := rd_s 2 Big d 0 in
  let! additional_size := rd_s 4 Big d 2 in
  if negb (6 + header_size + additional_size =? zlen d) then Err EValue else
  let! t := of_option EIndex (index d 6) in
  let header := slice d 7 (7 + header_size - 1) in
  let idx := 7 + (header_size - 1) in
  let basic := if additional_size >? 0 then slice d idx (idx + additional_size) else [] in
  Ok (Build_cast_struct (u8 t) header basic).

Definition parse_struct_dir5 (d : bytes) : result cast_struct :=
  let! data_type := rd_s 4 Big d 0 in
  let! additional_size := rd_s 4 Big d 4 in
  let! header_size := rd_s 4 Big d 8 in
  if negb (12 + header_size + additional_size =? zlen d) then Err EValue else
  let basic := if additional_size >? 0 then slice d 12 (12 + additional_size) else [] in
  let idx := if additional_size >? 0 then 12 + additional_size else 12 in
  let header := slice d idx (idx + header_size) in
  Ok (Build_cast_struct data_type header basic).

(* ---- info block ---- *)
Definition PURGE_PRIORITY : list bytes := [B "Normal"; B "Never"; B "Last"; B "Next"].

Fixpoint skip_loop (fuel : nat) (n : Z) (d : bytes) (idx : Z) : result Z :=
  if n <=? 0 then Ok idx else
  match fuel with
  | O => OutOfFuel
  | S f => let! u := rd_s 4 Big d idx in skip_loop f (n - 1) d (idx + 4)
  end.
Fixpoint offs_loop (fuel : nat) (n : Z) (d : bytes) (idx : Z) : result (list Z * Z) :=
  if n <=? 0 then Ok ([], idx) else
  match fuel with
  | O => OutOfFuel
  | S f =>
    let! o := rd_s 4 Big d idx in
    let! (r, e) := offs_loop f (n - 1) d (idx + 4) in
    Ok (o :: r, e)
  end.
(* for i in range(nstruct): stlen = off[i+1]-off[i]; if stlen > 0: take stlen bytes *)
Fixpoint extra_loop (offs : list Z) (d : bytes) (idx : Z) : list bytes :=
  match offs with
  | a :: ((b :: _) as rest) =>
    let stlen := b - a in
    if stlen >? 0 then slice d idx (idx + stlen) :: extra_loop rest d (idx + stlen)
    else [] :: extra_loop rest d idx
  | _ => []
  end.

(* re.sub(r"[^A-Za-z0-9\-_\. ]", "_", name) on characters; bytes >= 0x80 decode (mac_roman, latin-1) to
   non-ASCII letters, which are replaced too *)
Definition name_safe (b : byte) : bool :=
  let v := u8 b in
  ((65 <=? v) && (v <=? 90)) || ((97 <=? v) && (v <=? 122)) || ((48 <=? v) && (v <=? 57)) ||
  (v =? 45) || (v =? 95) || (v =? 46) || (v =? 32).
Definition name_char (b : byte) : byte := if name_safe b then b else "_"%byte.

Definition k_name : bytes := B "name".
Definition k_basic : bytes := B "basic".
Definition k_extra : bytes := B "extra".
Definition basic_dict (script_key bd1 bd2 script_index : Z) : dict :=
  [(B "script_key", PZ script_key); (B "basic_data1", PZ bd1); (B "basic_data2", PZ bd2);
   (B "purge_priority", PS (nth (Z.to_nat ((bd2 / 4) mod 4)) PURGE_PRIORITY [])); (B "script_index", PZ script_index)].
(* the member name: entry 1 of the info entries is a pascal string; sanitised for use in file names *)
Definition name_of_extra (extra : list bytes) : bytes :=
  match extra with
  | _ :: (c :: r) as nm :: _ => let n := u8 c in map name_char (slice nm 1 (n + 1))
  | _ => []
  end.

Definition parse_basic_cast_data (bd : bytes) : result dict :=
  if zlen bd <=? 0 then Ok [] else
  let! numbers_size := rd_s 4 Big bd 0 in
  if numbers_size <? 20 then Err EValue else
  let! script_key := rd_u 4 Big bd 4 in
  let! bd1 := rd_s 4 Big bd 8 in
  let! bd2 := rd_s 4 Big bd 12 in
  let! script_index := rd_s 4 Big bd 16 in
  let basic := basic_dict script_key bd1 bd2 script_index in
  let nelems := (numbers_size - 20) / 4 in
  let! idx := skip_loop (S (List.length bd)) nelems bd 20 in
  let! nstruct := rd_s 2 Big bd idx in
  if nstruct >? 0 then
    let! (offs, idx2) := offs_loop (S (List.length bd)) (nstruct + 1) bd (idx + 2) in
    let extra := extra_loop offs bd idx2 in
    Ok [(k_basic, PD basic); (k_extra, PL (map PS extra)); (k_name, PS (name_of_extra extra))]
  else Ok [(k_basic, PD basic)].

(* ---- per-type parsers (cast/*.py) ---- *)
Definition k (s : string) : string := s.

Definition image_depth (v : Z) : Z :=
  if v =? 128 then 8 else if v =? 129 then 4 else if v =? 130 then 8 else if v =? 132 then 16
  else if v =? 133 then 16 else if v =? 138 then 24 else if v =? 0 then 1 else 8.

Definition image_dict (f : string -> Z) (ext : option (string -> Z)) : dict :=
  let bpp0 := image_depth (f "bmp_bpp_val"%string) in
  let '(bpp, palette, palette_txt) :=
    match ext with
    | Some e =>
      let bd := e "bitdepth"%string in
      ((if bd >? bpp0 then bd else bpp0), str_of_Z (e "palette_id"%string), get_palette_name (e "palette_id"%string))
    | None => (bpp0, B "systemMac", B "systemMac")
    end in
  [(B "type", PS (B "bitmap")); (B "height", PZ (f "bmp_height"%string)); (B "width", PZ (f "bmp_width"%string));
   (B "top", PZ (f "top"%string)); (B "left", PZ (f "left"%string)); (B "bottom", PZ (f "bottom"%string));
   (B "right", PZ (f "right"%string)); (B "h_padding", PZ (f "h_padding"%string)); (B "w_padding", PZ (f "w_padding"%string));
   (B "locH", PZ (f "locH"%string)); (B "locV", PZ (f "locV"%string)); (B "depth", PZ bpp)] ++
  (if bpp =? 8 then [(B "palette", PS palette); (B "palette_txt", PS palette_txt)] else []).

Definition parse_image (h : bytes) : result dict :=
  let! v := read_layout Big cast_image_layout h 0 in
  if zlen h >? 24 then
    let! e := read_layout Big cast_image_ext_layout h (lwidth cast_image_layout) in
    Ok (image_dict (fld cast_image_names v) (Some (fld cast_image_ext_names e)))
  else Ok (image_dict (fld cast_image_names v) None).

Definition box_type_name (t : Z) : bytes :=
  if t =? 0 then B "adjust" else if t =? 1 then B "scroll" else if t =? 2 then B "fixed" else if t =? 3 then B "limit" else str_of_Z t.
Definition alignment_pv (a : Z) : pv :=
  if a =? 0 then PS (B "left") else if a =? 1 then PS (B "center") else if a =? -1 then PS (B "right") else PZ a.
Definition hex2 (v : Z) : bytes :=
  let h d := byte_of_Z (if d <? 10 then 48 + d else 55 + d) in [h ((v / 16) mod 16); h (v mod 16)].
Definition color_hex (r g b : Z) : bytes := "#"%byte :: hex2 r ++ hex2 g ++ hex2 b.

Definition field_dict (f : string -> Z) : dict :=
  let options := f "options"%string in
  [(B "type", PS (B "field"));
   (B "wordWrap", PB (Z.land options 4 =? 0)); (B "boxType", PS (box_type_name (f "boxType"%string)));
   (B "editable", PB (negb (Z.land options 1 =? 0))); (B "autoTab", PB (negb (Z.land options 2 =? 0)));
   (B "alignment", alignment_pv (f "alignment"%string)); (B "border", PZ (f "border"%string));
   (B "margin", PZ (f "margin"%string / 2)); (B "boxDropShadow", PZ (f "boxDropShadow"%string / 2));
   (B "dropShadow", PZ (f "dropShadow"%string));
   (B "backgroundColor", PS (color_hex (f "bgcolor_red"%string) (f "bgcolor_green"%string) (f "bgcolor_blue"%string)));
   (B "height", PZ (f "bottom"%string - f "top"%string)); (B "width", PZ (f "right"%string - f "left"%string));
   (B "pageHeight", PZ (f "pageHeight"%string)); (B "scrollHeight", PZ (f "scrollHeight"%string));
   (B "scrollTop", PZ (f "scrollTop"%string))].
Definition parse_field (h : bytes) : result dict :=
  let! v := read_layout Big cast_field_layout h 0 in Ok (field_dict (fld cast_field_names v)).

Definition button_type_pv (t : Z) : pv :=
  if t =? 1 then PS (B "pushButton") else if t =? 2 then PS (B "checkBox") else if t =? 3 then PS (B "radioButton") else PZ t.
Definition button_dict (f : string -> Z) : dict :=
  [(B "type", PS (B "button")); (B "alignment", alignment_pv (f "alignment"%string));
   (B "backgroundColor", PS (color_hex (f "bgcolor_red"%string) (f "bgcolor_green"%string) (f "bgcolor_blue"%string)));
   (B "buttonType", button_type_pv (f "buttonType"%string))].
Definition parse_button (h : bytes) : result dict :=
  let! v := read_layout Big cast_button_layout h 0 in Ok (button_dict (fld cast_button_names v)).

Definition direction_name (v : Z) : bytes :=
  if v =? 5 then B "lt_br" else if v =? 6 then B "bl_tr" else str_of_Z v.
Definition shape_dict (f : string -> Z) : dict :=
  [(B "type", PS (B "shape")); (B "shapeType", PS (name_or_str DIR_SHAPE_NAMES (f "shape_type"%string)));
   (B "top", PZ (f "top"%string)); (B "left", PZ (f "left"%string)); (B "bottom", PZ (f "bottom"%string));
   (B "right", PZ (f "right"%string)); (B "pattern", PZ (f "pattern"%string)); (B "foreColor", PZ (f "fgColor"%string));
   (B "backColor", PZ (f "bgColor"%string)); (B "filled", PZ (f "filled"%string));
   (B "lineSize", PZ (f "line_width"%string - 1)); (B "direction", PS (direction_name (f "dir_val"%string)))].
Definition parse_shape (h : bytes) : result dict :=
  let! v := read_layout Big cast_shape_layout h 0 in Ok (shape_dict (fld cast_shape_names v)).

Definition text_dict (f : string -> Z) : dict :=
  let th := f "anti_threshold"%string in
  [(B "type", PS (B "richText")); (B "boxType", PS (box_type_name (f "boxType"%string)));
   (B "antiAlias", PB (negb (f "antialias"%string =? 0))); (B "antiAliasThreshold", PZ (if th <? 0 then 0 else th));
   (B "width", PZ (f "txt_width"%string)); (B "height", PZ (f "txt_height"%string));
   (B "top", PZ (f "top"%string)); (B "left", PZ (f "left"%string)); (B "bottom", PZ (f "bottom"%string));
   (B "right", PZ (f "right"%string)); (B "h_padding", PZ (f "h_padding"%string)); (B "w_padding", PZ (f "w_padding"%string))].
Definition parse_text (h : bytes) : result dict :=
  let! v := read_layout Big cast_text_layout h 0 in Ok (text_dict (fld cast_text_names v)).

Definition transition_dict (f : string -> Z) : dict :=
  [(B "type", PS (B "transition"));
   (B "transition", PD [(B "type", PS (name_or_str DIR_TRANSITION_NAMES (f "transition"%string)));
                        (B "smoothness", PZ (f "smoothness"%string)); (B "duration", PZ (f "duration"%string));
                        (B "in_changing_area", PB (f "stage_or_area"%string =? 2))])].
Definition parse_transition (h : bytes) : result dict :=
  let! v := read_layout Big cast_transition_layout h 0 in Ok (transition_dict (fld cast_transition_names v)).

Fixpoint dict_get (d : dict) (key : bytes) : option pv :=
  match d with [] => None | (k', v) :: r => if bytes_eqb k' key then Some v else dict_get r key end.

Definition parse_sound (content : dict) : result dict :=
  match dict_get content (B "basic") with
  | Some (PD basic) =>
    match dict_get basic (B "basic_data2") with
    | Some (PZ v) => Ok [(B "type", PS (B "sound")); (B "loop", PB (negb (v =? 16)))]
    | _ => Err EKey
    end
  | _ => Err EKey
  end.

Definition parse_member (t : Z) (h : bytes) (content : dict) : result dict :=
  if t =? 1 then parse_image h
  else if t =? 3 then parse_field h
  else if t =? 4 then Ok [(B "type", PS (B "palette"))]
  else if t =? 6 then parse_sound content
  else if t =? 7 then parse_button h
  else if t =? 8 then parse_shape h
  else if t =? 11 then Ok [(B "type", PS (B "script"))]
  else if t =? 12 then parse_text h
  else if t =? 14 then parse_transition h
  else Ok [].

(* what is done with the record once its three parts are known *)
Definition decode_member (t : Z) (header info : bytes) : result dict :=
  let! content := parse_basic_cast_data info in
  let! cd := parse_member t header content in
  Ok (cd ++ [(B "content", PD content)]).

Definition parse_cast_file_data (d : bytes) : result dict :=
  let! data_type := rd_s 4 Big d 0 in
  let! st := if negb ((data_type / 256) =? 0) then parse_struct_dir4 d else parse_struct_dir5 d in
  decode_member (cs_type st) (cs_header st) (cs_basic st).
