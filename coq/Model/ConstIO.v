From Coq Require Import ZArith List.
From Coq.Strings Require Import Byte.
From DRX Require Import Py.PyBytes Py.Val Model.Const.
Import ListNotations.
Definition v_text (t : text) : val := vlist VZ t.
Definition get_text (v : val) : option text := getLof getZ v.
(* (code points of the decoded string) -> (escaped, lingo literal, js literal, eval lingo, eval js) *)
Definition run_const_string (v : val) : val :=
  match get_text v with
  | Some s =>
    let n := escape_string s in
    let l := generate_lingo_str n in
    let j := generate_js_str n in
    VL [v_text n; v_text l; v_text j; vopt v_text (eval_lingo_lit l); vopt v_text (eval_js_lit j)]
  | None => vbad end.
Definition run_const_int (v : val) : val :=
  match v with
  | VL [VZ 1; VZ p1] => VZ (int1b p1)
  | VL [VZ 2; VZ p1; VZ p2] => VZ (int2b p1 p2)
  | _ => vbad end.
Definition run_float80 (v : val) : val :=
  match v with
  | VB b => vopt (fun p : bool * Z * Z => VL [vbool (fst (fst p)); VZ (snd (fst p)); VZ (snd p)]) (float80_parts b)
  | _ => vbad end.
