(* Model of drxtract/riff/riff_chunk.py, riff.py, mmap.py, imap.py *)
From Coq Require Import List ZArith Bool.
From Coq.Strings Require Import Byte.
From DRX Require Import Py.PyBytes Py.Layout.
Import ListNotations.
Open Scope Z_scope.

Definition byte_eqb (a b : byte) : bool := Byte.eqb a b.
Fixpoint bytes_eqb (a b : bytes) : bool :=
  match a, b with
  | [], [] => true
  | x :: a', y :: b' => byte_eqb x y && bytes_eqb a' b'
  | _, _ => false
  end.

(* riff_chunk.py parse_chunk_id: chars in ' '..'z' kept, everything else '_' *)
Definition sanitize_char (b : byte) : byte :=
  if (32 <=? u8 b) && (u8 b <=? 122) then b else "_"%byte.

Definition parse_chunk_id (d : bytes) (pos : Z) (bo : byteorder) : result bytes :=
  let s := slice d pos (pos + 4) in
  if Nat.eqb (length s) 4 then Ok (map sanitize_char (orient bo s)) else Err EStruct.

Definition chunk := (bytes * bytes)%type.      (* identifier, data *)

Definition parse_chunk (d : bytes) (pos : Z) (bo : byteorder) : result chunk :=
  let! bt := parse_chunk_id d pos bo in
  let! size := rd_s 4 bo d (pos + 4) in
  Ok (bt, slice d (pos + 8) (pos + 8 + size)).

Definition RIFX : bytes := ["R"; "I"; "F"; "X"]%byte.
Definition MV93 : bytes := ["M"; "V"; "9"; "3"]%byte.
Definition XFIR : bytes := ["X"; "F"; "I"; "R"]%byte.
Definition VM39 : bytes := ["3"; "9"; "V"; "M"]%byte.

(* the while loop of parse_riff *)
Fixpoint walk (fuel : nat) (d : bytes) (index : Z) (bo : byteorder) : result (list chunk) :=
  if index <? zlen d then
    match fuel with
    | O => OutOfFuel
    | S f =>
      let! c := parse_chunk d index bo in
      let l := zlen (snd c) in
      let! rest := walk f d (index + 8 + l + l mod 2) bo in
      Ok (c :: rest)
    end
  else Ok [].

Definition parse_riff (d : bytes) (offset : Z) (bo : byteorder) : result (list chunk) :=
  let! ff := parse_chunk_id d offset bo in
  if negb (bytes_eqb ff RIFX) then Err EType else
  let! file_length := rd_s 4 bo d (offset + 4) in
  let! mv := parse_chunk_id d (offset + 8) bo in
  if negb (bytes_eqb mv MV93) then Err EType else
  walk (S (length d)) d (offset + 12) bo.

(* RiffData.get_by_offset *)
Fixpoint get_by_offset_from (index : Z) (chunks : list chunk) (offset : Z) : result chunk :=
  match chunks with
  | [] => Err EIndex
  | c :: rest =>
    if index =? offset then Ok c
    else let l := zlen (snd c) in get_by_offset_from (index + 8 + l + l mod 2) rest offset
  end.
Definition get_by_offset := get_by_offset_from 12.

(* bytes.find *)
Fixpoint is_prefix (p d : bytes) : bool :=
  match p, d with
  | [], _ => true
  | x :: p', y :: d' => byte_eqb x y && is_prefix p' d'
  | _ :: _, [] => false
  end.
Fixpoint bytes_find (p d : bytes) : option nat :=
  if is_prefix p d then Some O else
  match d with
  | [] => None
  | _ :: d' => match bytes_find p d' with Some i => Some (S i) | None => None end
  end.

Fixpoint find_riff_loop (fuel : nat) (content : bytes) (acc : Z) : result Z :=
  match bytes_find XFIR content with
  | None => Ok acc
  | Some idx =>
    match fuel with
    | O => OutOfFuel
    | S f =>
      let acc := acc + Z.of_nat idx in
      let content := skipn idx content in
      if bytes_eqb (slice content 8 12) VM39 then Ok acc
      else find_riff_loop f (skipn 4 content) (acc + 4)
    end
  end.
Definition find_riff_in_exe (content : bytes) : result Z :=
  find_riff_loop (S (length content)) content 0.

(* mmap.py *)
Record mmap_res := { r_id : bytes; r_size : Z; r_off : Z; r_flags : Z; r_unused : Z; r_next : Z }.
Record mmap_hdr := { h_props : Z; h_ressize : Z; h_max : Z; h_used : Z; h_junk : Z; h_old : Z; h_free : Z }.

Definition res_layout : layout := [FS 4; FS 4; FS 2; FS 2; FS 4].
Definition hdr_layout : layout := [FS 2; FS 2; FS 4; FS 4; FS 4; FS 4; FS 4].
Definition imap_layout : layout := [FS 4; FS 4; FS 4; FS 2; FS 2; FS 4; FS 4].

Definition parse_mmap_resource (d : bytes) (offset : Z) (bo : byteorder) : result mmap_res :=
  let! id := parse_chunk_id d offset bo in
  let! vs := read_layout bo res_layout d (offset + 4) in
  Ok (Build_mmap_res id (getv vs 0) (getv vs 1) (getv vs 2) (getv vs 3) (getv vs 4)).

(* for _ in range(0, usedResourceCount): the count is an input field, so the loop is modelled with a
   Z counter and fuel |d|+1 (each iteration reads fresh bytes and fails when they run out) *)
Fixpoint parse_mmap_entries (fuel : nat) (n : Z) (d : bytes) (offset : Z) (bo : byteorder) : result (list mmap_res) :=
  if n <=? 0 then Ok [] else
  match fuel with
  | O => OutOfFuel
  | S f =>
    let! r := parse_mmap_resource d offset bo in
    let! rest := parse_mmap_entries f (n - 1) d (offset + 20) bo in
    Ok (r :: rest)
  end.

(* struct.unpack(bo+"hhiiiii", fdata[0:24]); range(0, used) runs zero times for used <= 0 *)
Definition parse_mmap (d : bytes) (bo : byteorder) : result (mmap_hdr * list mmap_res) :=
  let h := slice d 0 24 in
  if negb (Nat.eqb (length h) 24) then Err EStruct else
  let! vs := read_layout bo hdr_layout h 0 in
  let! rs := parse_mmap_entries (S (length d)) (getv vs 3) d 24 bo in
  Ok (Build_mmap_hdr (getv vs 0) (getv vs 1) (getv vs 2) (getv vs 3) (getv vs 4) (getv vs 5) (getv vs 6), rs).

(* imap.py: struct.unpack(bo+"iiihhii", fdata), first six values *)
Definition parse_imap (d : bytes) (bo : byteorder) : result (list Z) :=
  if negb (Nat.eqb (length d) 24) then Err EStruct else
  let! vs := read_layout bo imap_layout d 0 in
  Ok (firstn 6 vs).

(* ------------- specification side: how a movie is laid out ------------- *)
Record chunk_spec := { cc : bytes; payload : bytes; padbyte : byte }.
Definition pad_of (c : chunk_spec) : bytes := if Z.odd (zlen (payload c)) then [padbyte c] else [].
Definition enc_chunk (bo : byteorder) (c : chunk_spec) : bytes :=
  orient bo (cc c) ++ pack 4 bo (zlen (payload c)) ++ payload c ++ pad_of c.
Definition enc_body (bo : byteorder) (cs : list chunk_spec) : bytes := concat (map (enc_chunk bo) cs).
Definition enc_movie (bo : byteorder) (flen : Z) (cs : list chunk_spec) : bytes :=
  orient bo RIFX ++ pack 4 bo flen ++ orient bo MV93 ++ enc_body bo cs.
Definition wf_chunk (c : chunk_spec) : Prop := length (cc c) = 4%nat /\ zlen (payload c) < 2 ^ 31.
Definition view (c : chunk_spec) : chunk := (map sanitize_char (cc c), payload c).
(* offset of chunk number i relative to the start of the movie *)
Fixpoint offset_of (cs : list chunk_spec) (i : nat) : Z :=
  match i, cs with
  | O, _ => 12
  | S j, c :: rest => 8 + zlen (payload c) + zlen (payload c) mod 2 + offset_of rest j
  | S _, [] => 12
  end.

Definition res_vals (r : mmap_res) : list Z := [r_size r; r_off r; r_flags r; r_unused r; r_next r].
Definition hdr_vals (h : mmap_hdr) : list Z := [h_props h; h_ressize h; h_max h; h_used h; h_junk h; h_old h; h_free h].
Definition enc_res (bo : byteorder) (r : mmap_res) : bytes :=
  orient bo (r_id r) ++ enc_layout bo res_layout (res_vals r) [].
Definition enc_mmap (bo : byteorder) (h : mmap_hdr) (rs : list mmap_res) : bytes :=
  enc_layout bo hdr_layout (hdr_vals h) [] ++ concat (map (enc_res bo) rs).
Definition enc_imap (bo : byteorder) (vs : list Z) : bytes := enc_layout bo imap_layout vs [].
Definition view_res (r : mmap_res) : mmap_res :=
  Build_mmap_res (map sanitize_char (r_id r)) (r_size r) (r_off r) (r_flags r) (r_unused r) (r_next r).
