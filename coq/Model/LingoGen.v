(* The two code generators: generate_lingo / generate_js of every node class (lingosrc/ast/*.py) and
   the script-level drivers codegen/lingo.py, codegen/js.py.
   The generators are modelled as pure functions of the tree.  The assignments the Python generators
   make to the tree while walking it (Statement: use_parenthesis := False, Symbol: use_hash := False for
   known symbols, CallFunction.gv_as_sym, FunctionDef.global_vars := sorted) are folded into the reading
   side here; Model/LingoMut.v models them as explicit tree updates and Proofs/LingoMutFacts.v proves that
   they do not change what either generator returns (property C12). *)
From Coq Require Import ZArith List Bool Ascii String.
From DRX Require Model.Const.
From DRX Require Import Py.PyBytes Py.PyStr Py.PyString Model.LingoAst Gen.Gen_Lingo.
Notation text := Model.Const.text.
Import ListNotations.
Open Scope string_scope.

Definition text_of_str (s : string) : text := map (fun a => Z.of_nat (nat_of_ascii a)) (list_ascii_of_string s).
Definition str_of_text (t : text) : string := string_of_list_ascii (map (fun z => ascii_of_nat (Z.to_nat z)) t).

Definition assoc_or (k : string) (t : list (string * string)) : string :=
  match assoc_str k t with Some v => v | None => "" end.

(* vsprintf(fmt, a, b) for a format with two %s *)
Fixpoint format_s (fuel : nat) (fmt : string) (args : list string) : string :=
  match fuel with
  | O => fmt
  | S f =>
    match fmt with
    | EmptyString => ""
    | String "%" (String "s" r) => match args with a :: more => a ++ format_s f r more | [] => "%s" ++ format_s f r [] end
    | String c r => String c (format_s f r args)
    end
  end.
Definition format2 (fmt a b : string) : string := format_s (String.length fmt) fmt [a; b].

(* operation.field_text: every leftmost non-overlapping  field( ... )  gets .text appended; the closing parenthesis
   is found by counting, string literals (with backslash escapes) skipped *)
Definition scan_cons (c : Ascii.ascii) (o : option (string * string)) : option (string * string) :=
  match o with Some (a, b) => Some (String c a, b) | None => None end.
(* from the opening parenthesis: (text up to and including the closing parenthesis, rest) *)
Fixpoint close_scan (s : string) (depth : Z) (in_string skip : bool) : option (string * string) :=
  match s with
  | EmptyString => None
  | String c r =>
    if skip then scan_cons c (close_scan r depth in_string false)
    else if in_string then
      if Ascii.eqb c "\" then scan_cons c (close_scan r depth true true)
      else if Ascii.eqb c """" then scan_cons c (close_scan r depth false false)
      else scan_cons c (close_scan r depth true false)
    else if Ascii.eqb c """" then scan_cons c (close_scan r depth true false)
    else if Ascii.eqb c "(" then scan_cons c (close_scan r (depth + 1) false false)
    else if Ascii.eqb c ")" then
      if (depth - 1 =? 0)%Z then Some (String c "", r) else scan_cons c (close_scan r (depth - 1) false false)
    else scan_cons c (close_scan r depth false false)
  end.
Fixpoint field_text_fuel (fuel : nat) (s : string) : string :=
  match fuel with
  | O => s
  | S f =>
    match s with
    | EmptyString => ""
    | String c r =>
      if starts_with "field(" s then
        match close_scan (drop 5 s) 0 false false with
        | Some (ref, rest) => "field" ++ ref ++ ".text" ++ field_text_fuel f rest
        | None => s
        end
      else String c (field_text_fuel f r)
    end
  end.
Definition field_text (s : string) : string := field_text_fuel (String.length s) s.

(* CallFunction.gv_as_sym: a Symbol in first-argument position of a list function is a global variable *)
Definition gv_as_sym (name : string) (ops : list node) : list node :=
  match rev ops with
  | Leaf KSymbol s p _ :: before => if mem_str (lower name) LIST_FUNCTIONS then rev (Leaf KGlobal s p true :: before) else ops
  | _ => ops
  end.

(* the name of the symbol that gv_as_sym turns into a global variable, if it does *)
Definition gv_sym_name (name : string) (ops : list node) : option string :=
  match rev ops with
  | Leaf KSymbol s _ _ :: _ => if mem_str (lower name) LIST_FUNCTIONS then Some s else None
  | _ => None
  end.
(* the only operand, when it is a symbol *)
Definition single_sym (ops : list node) : option string :=
  match ops with [Leaf KSymbol s _ _] => Some s | _ => None end.
(* the commands go loop / go next / go previous: the only operand is one of these symbols, statement position *)
Definition go_bare (name : string) (paren : bool) (ops : list node) : option string :=
  if String.eqb name "go" && negb paren then
    match single_sym ops with
    | Some s => if mem_str s ["loop"; "next"; "previous"] then Some s else None
    | None => None
    end
  else None.
Definition set_last (l : list string) (o : option string) : list string :=
  match o with
  | Some s => match rev l with _ :: before => rev (s :: before) | [] => [] end
  | None => l
  end.

Definition lingo_const (k : lclass) (n : string) : string :=
  match k with
  | KConstInt => n
  | _ => str_of_text (Model.Const.generate_lingo_str (text_of_str n))
  end.
Definition js_const (k : lclass) (n : string) : string :=
  match k with
  | KConstInt => n
  | _ => if starts_with """" n then str_of_text (Model.Const.generate_js_str (text_of_str n)) else n
  end.

Definition last_opt {A} (l : list A) : option A := match rev l with x :: _ => Some x | [] => None end.
Definition but_last {A} (l : list A) : list A := rev (tl (rev l)).

(* pairs (val, sym) of a property list in operand order *)
Fixpoint pairs {A} (l : list A) : list (A * A) :=
  match l with a :: b :: r => (a, b) :: pairs r | _ => [] end.

Definition ops_of (n : node) : list node := match n with LoadList _ _ ops => ops | _ => [] end.

(* isinstance(x, ConstantValue) *)
Definition is_const_node (n : node) : bool := match n with Leaf KConst _ _ _ | Leaf KConstInt _ _ _ => true | _ => false end.
(* "sprite <id>", "cast <id>", ... *)
Definition lingo_leaf_obj (k : lclass) (s : string) : string :=
  match k with
  | KMenu => "menu " ++ s | KMenuItem => "menuItem " ++ s | KSound => "sound " ++ s | KSprite => "sprite " ++ s | KCast => "cast " ++ s
  | _ => s
  end.

Fixpoint gen_lingo_sp (sp : bool) (n : node) (ind : nat) {struct n} : string :=
  let gen_lingo := gen_lingo_sp false in
  match n with
  | Leaf k name _ flag =>
    match k with
    | KConst | KConstInt => lingo_const k name
    | KSymbol => if negb flag then name else "#" ++ name
    | KPropName => if mem_str name VARIABLE_KNOWN_SYMBOLS then name else "the " ++ name
    | KDefPropName => name
    | KDateTime => "the " ++ name
    | KMenu => "menu " ++ name
    | KMenuItem => "menuItem " ++ name
    | KSound => "sound " ++ name
    | KSprite => "sprite " ++ name
    | KCast => "cast " ++ name
    | _ => name
    end
  | Unary name _ operand =>
    let os := gen_lingo operand ind in
    if String.eqb name "minus" then "-" ++ (if starts_with "-" os then "(" ++ os ++ ")" else os)
    else name ++ " " ++ os
  | Binary name _ l r =>
    let ls := gen_lingo l ind in
    let rs := gen_lingo r ind in
    if String.eqb name "assign" then
      if starts_with "field(" ls && ends_with ")" ls then "put " ++ rs ++ " into " ++ ls
      else "set " ++ ls ++ " = " ++ rs
    else
      let op := assoc_or name LINGO_BIN_OP in
      if starts_with "sprite... " op then "sprite " ++ ls ++ " " ++ drop 10 op ++ " " ++ rs
      else "(" ++ ls ++ " " ++ op ++ " " ++ rs ++ ")"
  | SpAssign _ l r mode => "put " ++ gen_lingo r ind ++ " " ++ mode ++ " " ++ gen_lingo l ind
  | StrOp name _ start en of_ =>
    match en with
    | None => name ++ " " ++ gen_lingo start 0%nat ++ " of " ++ gen_lingo of_ 0%nat
    | Some e => name ++ " " ++ gen_lingo start 0%nat ++ " to " ++ gen_lingo e 0%nat ++ " of " ++ gen_lingo of_ 0%nat
    end
  | UStrOp name _ ty of_ =>
    match ty with
    | Some t => if String.eqb name "last" then "the " ++ name ++ " " ++ t ++ " of " ++ gen_lingo of_ ind
                else "the " ++ name ++ " of " ++ t ++ "s of " ++ gen_lingo of_ ind
    | None => "the " ++ name ++ " of " ++ gen_lingo of_ ind
    end
  | Accessor _ obj prop =>
    let o := gen_lingo obj ind in
    if String.eqb o "me" then prop
    else if starts_with "_" o || String.eqb o "tell_obj" then "the " ++ prop
    else "the " ++ prop ++ " of " ++ o
  | KeyAccessor _ prop => "the " ++ prop
  | MenuItemAcc _ menu item => gen_lingo item 0%nat ++ " of " ++ gen_lingo menu 0%nat
  | MenuItemsAcc _ menu => "menuItems of " ++ gen_lingo menu 0%nat
  | LoadList _ _ ops => join ", " (rev (map (fun x => gen_lingo x ind) ops))
  | ToList _ operand =>
    match operand with
    | LoadList _ _ ops => "[" ++ join ", " (rev (map (fun x => gen_lingo x ind) ops)) ++ "]"
    | _ => "[]"
    end
  | ToDict _ operand =>
    match operand with
    | LoadList _ _ ops =>
      match ops with
      | [] => "[:]"
      | _ => "[" ++ join ", " (rev ((fix go (l : list node) : list string :=
                                      match l with
                                      | v :: s :: r => (gen_lingo s ind ++ ": " ++ gen_lingo v ind) :: go r
                                      | _ => []
                                      end) ops)) ++ "]"
      end
    | _ => "[:]"
    end
  | Stmt _ code =>
    indent ind ++ gen_lingo_sp true code ind ++ "
"
  | Call name _ params use_paren _ with_result =>
    match params with
    | Some (LoadList ln lp ops) =>
      (* gv_as_sym changes the last operand only, and only its text *)
      let strs := set_last (map (fun x => gen_lingo x ind) ops) (gv_sym_name name ops) in
      match ops with
      | [] => if use_paren && negb sp && negb with_result && starts_with "<" ln then name ++ "()" else name
      | _ =>
        if String.eqb name "sound" then
          match last_opt ops with
          | Some modif => "sound " ++ name_of modif ++ " " ++ join ", " (rev (but_last strs))
          | None => name
          end
        else
          match go_bare name (use_paren && negb sp) ops with
          | Some s => name ++ " " ++ s
          | None =>
            let ps := join ", " (rev strs) in
            if use_paren && negb sp then name ++ "(" ++ ps ++ ")" else name ++ " " ++ ps
          end
      end
    | _ => name
    end
  | CallMethod name _ obj params => "tell " ++ gen_lingo obj ind ++ " to " ++ name ++ "(" ++ gen_lingo params ind ++ ")"
  | Repeat _ _ cond body ty start en varname sign =>
    let c0 := gen_lingo cond 0%nat in
    let c := if starts_with "(" c0 then strip_ends c0 else c0 in
    let head :=
      if String.eqb ty "while" then "repeat while " ++ c ++ "
"
      else if String.eqb ty "for" then
        "repeat with " ++ varname ++ " = " ++ match start with Some s => gen_lingo s 0%nat | None => "" end ++ " " ++
        (if String.eqb sign "+" then "to" else "down to") ++ " " ++ match en with Some e => gen_lingo e 0%nat | None => "" end ++ "
"
      else "repeat with " ++ varname ++ " in " ++ match start with Some s => gen_lingo s 0%nat | None => "" end ++ "
" in
    head ++ concat_all (map (fun st => gen_lingo st (S ind)) body) ++ indent ind ++ "end repeat"
  | IfThen _ cond ifs elses =>
    "if " ++ gen_lingo cond 0%nat ++ " then
" ++ concat_all (map (fun st => gen_lingo st (S ind)) ifs) ++
    match elses with
    | [] => ""
    | _ => indent ind ++ "else
" ++ concat_all (map (fun st => gen_lingo st (S ind)) elses)
    end ++ indent ind ++ "end if"
  | Jump _ _ => "jump"
  | Jz _ _ _ => "jz"
  | ExitRepeat _ => "exit repeat"
  | Tell _ operand body =>
    "tell " ++ gen_lingo operand 0%nat ++ "
" ++ concat_all (map (fun st => gen_lingo st (S ind)) body) ++ indent ind ++ "end tell"
  | ObjRef k name _ ident =>
    (* IdentifiedObject: a number or a name (ConstantValue) is written as it is, anything else is generated *)
    lingo_leaf_obj k (if is_const_node ident then name else gen_lingo ident ind)
  end.

Definition gen_lingo := gen_lingo_sp false.

(* copy.copy(operand); copy.name = s *)
Definition rename (n : node) (s : string) : node :=
  match n with
  | Leaf k _ p f => Leaf (match k with KConstInt => KConst | _ => k end) s p f
  | Unary _ p o => Unary s p o
  | Binary _ p l r => Binary s p l r
  | StrOp _ p a b c => StrOp s p a b c
  | UStrOp _ p t o => UStrOp s p t o
  | LoadList _ p ops => LoadList s p ops
  | Call _ p a b c d => Call s p a b c d
  | CallMethod _ p a b => CallMethod s p a b
  | _ => n
  end.

Definition js_call_code (nm params : string) : string :=
  if String.eqb nm "return" then (if String.eqb params "" then nm else nm ++ " " ++ params)
  else nm ++ "(" ++ params ++ ")".

(* operation.js_between_parentheses: the text is kept only when the node is an infix operation (whose text is "( ... )") *)
Definition wrap_paren (n : node) (s : string) : string :=
  let op := match n with Binary name _ _ _ => (match assoc_str name JS_BIN_OP with Some v => v | None => "." end) | _ => "." end in
  if starts_with "." op || starts_with "sprite(" op || negb (starts_with "(" s) then "(" ++ s ++ ")" else s.
(* the receiver of a method-style operator: a number or a signed value is put between parentheses *)
Definition js_receiver (l : node) (ls : string) : string :=
  match l with
  | Unary name _ _ => if String.eqb name "minus" || String.eqb name "not" then "(" ++ ls ++ ")" else ls
  | Leaf KConst name _ _ | Leaf KConstInt name _ _ => if starts_with """" name then ls else "(" ++ ls ++ ")"
  | _ => ls
  end.

(* CallFunction.generate_js once the operand texts (in operand order) are known *)
(* the only operand of a go command when it is a symbol: go next / go previous / go loop *)
Definition go_sym (name : string) (o : list node) : option string :=
  if String.eqb name "go" then single_sym o else None.

Definition js_call (name : string) (in_tell fm has_params : bool) (strs : list string) (last_name : option string)
           (gosym : option string) : string :=
    let params_str := if has_params then join ", " (rev strs) else "" in
    let nm := if String.eqb name "birth" then "_movie.newScript" else name in
    let nm := if String.eqb nm "new" then (if starts_with "symbol(" params_str then "_movie.newMember" else "_movie.newScript") else nm in
    let '(nm, params_str) :=
      if String.eqb nm "go" then
        let pre := if in_tell then "" else "_movie." in
        match gosym with
        | Some sy => (pre ++ "go" ++ capitalize sy, "")
        | None => (pre ++ "go", params_str)
        end
      else (nm, params_str) in
    let nm := if String.eqb nm "cast" then "member" else nm in
    let nm := if String.eqb nm "continue" then "resume" else nm in
    if fm && String.eqb nm "me" then
      let nm' := match last_name with Some s => "this." ++ s | None => nm end in
      js_call_code nm' (join ", " (rev (but_last strs)))
    else js_call_code nm params_str.

Definition js_leaf (k : lclass) (name : string) (fm : bool) : string :=
    match k with
    | KConst | KConstInt => js_const k name
    | KSymbol => "symbol('" ++ name ++ "')"
    | KGlobal => "_global." ++ name
    | KPropName | KDefPropName =>
      (match assoc_str name VARIABLE_KNOWN_PROPERTIES with Some o => o | None => if fm then "this" else "me" end) ++ "." ++ name
    | KDateTime => "_system.date('" ++ name ++ "')"
    | KMenu => "_menuBar.menu[" ++ name ++ "]"
    | KMenuItem => "item[" ++ name ++ "]"
    | KSound => "sound(" ++ name ++ ")"
    | KSprite => "sprite(" ++ name ++ ")"
    | KCast => "member(" ++ name ++ ")"
    | _ => if fm && String.eqb name "me" then "this" else name
    end.

Fixpoint gen_js (n : node) (ind : nat) (fm : bool) {struct n} : string :=
  match n with
  | Leaf k name _ _ => js_leaf k name fm
  | Unary name _ operand => assoc_or name JS_UNA_OP ++ "(" ++ gen_js operand ind fm ++ ")"
  | Binary name _ l r =>
    let ls := gen_js l ind fm in
    let rs := gen_js r ind fm in
    if String.eqb name "assign" then ls ++ " = " ++ rs
    else
      let op := assoc_or name JS_BIN_OP in
      if starts_with "sprite(" op then format2 op ls rs
      else if starts_with "." op then js_receiver l ls ++ op ++ "(" ++ rs ++ ")"
      else "(" ++ ls ++ " " ++ op ++ " " ++ rs ++ ")"
  | SpAssign _ l r mode =>
    let left := field_text (gen_js l ind fm) in
    let rs := gen_js r ind fm in
    if String.eqb mode "after" then left ++ " = new LingoString(" ++ left ++ " + " ++ rs ++ ")"
    else if String.eqb mode "before" then left ++ " = new LingoString(" ++ rs ++ " + " ++ left ++ ")"
    else left ++ " = " ++ rs
  | StrOp name _ start en of_ =>
    match en with
    | None => gen_js of_ 0%nat fm ++ "." ++ name ++ "[" ++ gen_js start 0%nat fm ++ "]"
    | Some e => gen_js of_ 0%nat fm ++ "." ++ name ++ "[range(" ++ gen_js start 0%nat fm ++ ", " ++ gen_js e 0%nat fm ++ ")]"
    end
  | UStrOp name _ ty of_ =>
    let operation := assoc_or name JS_UNA_OP in
    match ty with
    | Some t => if String.eqb name "last" then gen_js of_ ind fm ++ "." ++ t ++ "[""" ++ operation ++ """]"
                else gen_js of_ ind fm ++ "." ++ t ++ "." ++ operation
    | None =>
      (if name_is of_ "menus"
       then match of_ with
            | Leaf k _ p f => js_leaf (match k with KConstInt => KConst | _ => k end) "_menuBar.menu" fm
            | _ => gen_js of_ ind fm
            end
       else gen_js of_ ind fm) ++ "." ++ operation
    end
  | Accessor _ obj prop =>
    let o := gen_js obj ind fm in
    if String.eqb o "tell_obj" then prop else o ++ "." ++ prop
  | KeyAccessor _ prop =>
    if String.eqb prop "date" || String.eqb prop "time" then "_system.date('" ++ prop ++ "')"
    else match assoc_str prop OPERATION_KNOWN_PROPERTIES with
         | Some o => o ++ "." ++ prop
         | None => "_key." ++ prop
         end
  | MenuItemAcc _ menu item => gen_js menu 0%nat fm ++ "." ++ gen_js item 0%nat fm
  | MenuItemsAcc _ menu => gen_js menu 0%nat fm ++ ".item"
  | LoadList _ _ ops => join ", " (rev (map (fun x => gen_js x ind fm) ops))
  | ToList _ operand =>
    match operand with
    | LoadList _ _ ops => "list(" ++ join ", " (rev (map (fun x => gen_js x ind fm) ops)) ++ ")"
    | _ => "list()"
    end
  | ToDict _ operand =>
    match operand with
    | LoadList _ _ ops => "propList(" ++ join ", " (rev (map (fun x => gen_js x ind fm) ops)) ++ ")"
    | _ => "propList()"
    end
  | Stmt _ code =>
    let js0 := gen_js code ind fm in
    let js := match code with Call _ _ _ _ _ true => "fn_call(" ++ js0 ++ ")" | _ => js0 end in
    if ends_with "}" js then indent ind ++ js ++ "
" else indent ind ++ js ++ ";
"
  | Call name _ params _ in_tell _ =>
    match params with
    | Some (LoadList _ _ o) =>
      js_call name in_tell fm true
              (set_last (map (fun x => gen_js x ind fm) o) (option_map (fun s => "_global." ++ s) (gv_sym_name name o)))
              (option_map name_of (last_opt o)) (go_sym name o)
    | Some _ => js_call name in_tell fm true [] None None
    | None => js_call name in_tell fm false [] None None
    end
  | CallMethod name _ obj params => gen_js obj ind fm ++ "." ++ name ++ "(" ++ gen_js params ind fm ++ ")"
  | Repeat _ _ cond body ty start en varname sign =>
    let c := wrap_paren cond (gen_js cond 0%nat fm) in
    let head :=
      if String.eqb ty "while" then "while " ++ c ++ " {
"
      else if String.eqb ty "for" then
        "for(" ++ varname ++ " = " ++ match start with Some s => gen_js s 0%nat fm | None => "" end ++ "; " ++ strip_ends c ++ "; " ++
        varname ++ (if String.eqb sign "+" then "++" else "--") ++ ") {
"
      else "for(" ++ varname ++ " of " ++ match start with Some s => gen_js s 0%nat fm | None => "" end ++ ") {
" in
    head ++ concat_all (map (fun st => gen_js st (S ind) fm) body) ++ indent ind ++ "}"
  | IfThen _ cond ifs elses =>
    "if " ++ wrap_paren cond (gen_js cond 0%nat fm) ++ " {
" ++ concat_all (map (fun st => gen_js st (S ind) fm) ifs) ++
    match elses with
    | [] => ""
    | _ => indent ind ++ "} else {
" ++ concat_all (map (fun st => gen_js st (S ind) fm) elses)
    end ++ indent ind ++ "}"
  | Jump _ _ => "jump"
  | Jz _ _ _ => "jz"
  | ExitRepeat _ => "break"
  | Tell _ operand body =>
    "with " ++ wrap_paren operand (gen_js operand 0%nat fm) ++ " {
" ++ concat_all (map (fun st => gen_js st (S ind) fm) body) ++ indent ind ++ "}"
  | ObjRef k name _ ident => js_leaf k (if is_const_node ident then name else gen_js ident ind fm) fm
  end.

(* ---------------------------------------------------------------- script level *)
Record fndef := {
  f_name : string; f_pos : Z;
  f_params : list node;          (* ParameterName leaves *)
  f_locals : list node;          (* LocalVariable leaves *)
  f_globals : list node;         (* GlobalVariable leaves, in order of first use *)
  f_stmts : list node;
  f_is_method : bool }.
Record script := {
  s_props : list string; s_globals : list string; s_funcs : list fndef;
  s_scr_num : Z; s_cont : Z; s_factory : string }.

(* sorted(l, key=name): stable insertion sort *)
Fixpoint insert_by_name (x : node) (l : list node) : list node :=
  match l with
  | [] => [x]
  | y :: r => if str_leb (name_of y) (name_of x) then y :: insert_by_name x r else x :: l
  end.
Definition sort_by_name (l : list node) : list node := fold_left (fun acc x => insert_by_name x acc) l [].

(* statements except a trailing 'exit' *)
Definition emitted_stmts (sts : list node) : list node :=
  match rev sts with
  | last :: before => if String.eqb (name_of (code_of last)) "exit" && negb (name_is_int (code_of last)) then rev before else sts
  | [] => []
  end.

Definition lingo_function (sc : script) (f : fndef) : string :=
  let names := map name_of (f_params f) in
  let shown := if f_is_method f then tl names else names in
  let head := (if f_is_method f then "method " else "on ") ++ f_name f ++
              (match f_params f with [] => "" | _ => rstrip (" " ++ join ", " shown) end) ++ "
" in
  let inst := if String.eqb (lower (f_name f)) "mnew" && f_is_method f && (3 <? List.length (s_props sc))%nat
              then indent 1 ++ "instance " ++ join ", " (skipn 3 (s_props sc)) ++ "

" else "" in
  let gvs := filter (fun g => negb (mem_str (name_of g) (s_globals sc))) (sort_by_name (f_globals f)) in
  let gtxt := concat_all (map (fun g => indent 1 ++ "global " ++ name_of g ++ "
") gvs) ++ (match gvs with [] => "" | _ => "
" end) in
  head ++ inst ++ gtxt ++ concat_all (map (fun st => gen_lingo st 1) (emitted_stmts (f_stmts f))) ++ "end
".

Definition generate_lingo_code (sc : script) : string :=
  (if negb (Nat.eqb (List.length (s_props sc)) 0) && String.eqb (s_factory sc) "" then "property " ++ join ", " (s_props sc) ++ "
" else "") ++
  (if negb (String.eqb (s_factory sc) "") then "factory " ++ s_factory sc ++ "

" else "") ++
  (match s_globals sc with [] => "" | gl => concat_all (map (fun g => "global " ++ g ++ "
") gl) ++ "
" end) ++
  join "
" (map (lingo_function sc) (s_funcs sc)).

Definition js_locals (f : fndef) (ind : nat) : string :=
  concat_all (map (fun lv => indent ind ++ "var " ++ name_of lv ++ ";
") (f_locals f)) ++ (match f_locals f with [] => "" | _ => "
" end).

Definition js_method (f : fndef) : string :=
  "
" ++ indent 1 ++ f_name f ++ "(" ++
  join ", " (filter (fun s => negb (String.eqb s "me")) (map name_of (f_params f))) ++ ") {
" ++
  js_locals f 2 ++ concat_all (map (fun st => gen_js st 2 true) (emitted_stmts (f_stmts f))) ++ indent 1 ++ "}
".

Definition generate_class_js_code (sc : script) : string :=
  "class Object__" ++ str_of_int (s_scr_num sc) ++ " extends ObjectBase {" ++
  concat_all (map js_method (s_funcs sc)) ++ "}

" ++
  concat_all (map (fun f =>
    if String.eqb (f_name f) "birth" || String.eqb (f_name f) "new"
    then ""
    else "function " ++ f_name f ++ "(obj, ...args) {
" ++ indent 1 ++ "return obj." ++ f_name f ++ "(...args);
}
") (s_funcs sc)).

Definition generate_factory_js_code (sc : script) : string :=
  "class Factory__" ++ s_factory sc ++ " extends FactoryBase {" ++
  concat_all (map js_method (s_funcs sc)) ++ "}

" ++
  "function " ++ s_factory sc ++ "(methodName, ...args) {
" ++ indent 1 ++ "return factoryCall('" ++ s_factory sc ++ "', methodName, args);
}
".

Definition js_function (f : fndef) : string :=
  let fname := if String.eqb (f_name f) "new" then "birth" else f_name f in
  "function " ++ fname ++ "(" ++ join ", " (map name_of (f_params f)) ++ ") {
" ++
  js_locals f 1 ++ concat_all (map (fun st => gen_js st 1 true) (emitted_stmts (f_stmts f))) ++ "}
".

Definition generate_common_js_code (sc : script) : string := join "
" (map js_function (s_funcs sc)).

Definition generate_js_code (sc : script) : string :=
  if negb (String.eqb (s_factory sc) "") then generate_factory_js_code sc
  else if negb (Nat.eqb (List.length (s_props sc)) 0) then generate_class_js_code sc
  else generate_common_js_code sc.
