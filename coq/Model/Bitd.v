(* Model of drxtract/bitd: decoder8b.py, decoder1b.py, decoder16b.py, decoder24b.py (decode,
   decode_compressed_data, decode_raw_data) and bitd2bmp.py.  Arrays are byte lists with Python's
   index semantics (negative indices wrap, out of range raises). *)
From Coq Require Import List ZArith Bool.
From Coq.Strings Require Import Byte.
From DRX Require Import Py.PyBytes Py.PyStr Model.Riff Model.Clut.
Import ListNotations.
Open Scope Z_scope.

Fixpoint set_nth (buf : bytes) (p : nat) (b : byte) : option bytes :=
  match buf, p with
  | [], _ => None
  | _ :: r, O => Some (b :: r)
  | x :: r, S q => match set_nth r q b with Some r' => Some (x :: r') | None => None end
  end.
(* data[p] = v *)
Definition set_idx (data : bytes) (p : Z) (v : byte) : result bytes :=
  let n := zlen data in
  let q := if p <? 0 then p + n else p in
  if (q <? 0) || (n <=? q) then Err EIndex else of_option EIndex (set_nth data (Z.to_nat q) v).
Definition get_idx (d : bytes) (p : Z) : result byte := of_option EIndex (index d p).

(* bytearray(n): n < 0 raises *)
Definition bytearray (n : Z) : result bytes := if n <? 0 then Err EValue else Ok (zeros (Z.to_nat n)).

(* a decode is a sequence of writes into the decoder's buffer; each chunk may fail to be produced *)
Fixpoint collect {A} (l : list (result (list A))) : result (list A) :=
  match l with
  | [] => Ok []
  | r :: rest => let! a := r in let! b := collect rest in Ok (a ++ b)
  end.
(* chunks are produced one after another; a later chunk is not computed when an earlier one fails *)
Definition part := unit -> result bytes.
Fixpoint collect_parts (l : list part) : result bytes :=
  match l with
  | [] => Ok []
  | p :: rest => let! a := p tt in let! b := collect_parts rest in Ok (a ++ b)
  end.
Definition fits_i32 (z : Z) : bool := (- 2147483648 <=? z) && (z <? 2147483648).
Definition fits_i16 (z : Z) : bool := (- 32768 <=? z) && (z <? 32768).
(* 'BM' is written before struct.pack('<ihhi', size, 0, 0, offset) is evaluated *)
Definition hdr_parts (size offset : Z) : list part :=
  [fun _ => Ok ["B"; "M"]%byte;
   fun _ => if fits_i32 size && fits_i32 offset then Ok (pack 4 Little size ++ pack 2 Little 0 ++ pack 2 Little 0 ++ pack 4 Little offset)
            else Err EStruct].
Definition info_part (w h bpp ncolors : Z) : part :=
  fun _ => if fits_i32 w && fits_i32 h then Ok (bmp_info_header w h bpp ncolors) else Err EStruct.

Record st := { s_data : bytes; s_x : Z; s_y : Z; s_idx : Z }.

(* ===================== 8 bit ===================== *)
(* for _ in range(n): if x >= w: break; if x < iw: data[y*width+x+pw] = v; x += 1
   (iw: the pixels of the image in a row; w: the stored row, one pad byte more when iw is odd) *)
Fixpoint put_run8 (n : nat) (data : bytes) (x y w iw width pw : Z) (v : byte) : result (bytes * Z) :=
  match n with
  | O => Ok (data, x)
  | S m =>
    if x >=? w then Ok (data, x) else
    let! data' := (if x <? iw then set_idx data (y * width + x + pw) v else Ok data) in
    put_run8 m data' (x + 1) y w iw width pw v
  end.
(* literal bytes: for _ in range(n): if x >= w: break; data[p] = fdata[idx]; x += 1; idx += 1; if idx > len: break *)
Fixpoint put_lit8 (n : nat) (f : bytes) (data : bytes) (x y w iw width pw idx : Z) : result (bytes * Z * Z) :=
  match n with
  | O => Ok (data, x, idx)
  | S m =>
    if x >=? w then Ok (data, x, idx) else
    let! data' := (if x <? iw then (let! v := get_idx f idx in set_idx data (y * width + x + pw) v) else Ok data) in
    if idx + 1 >? zlen f then Ok (data', x + 1, idx + 1)
    else put_lit8 m f data' (x + 1) y w iw width pw (idx + 1)
  end.

Fixpoint loop8 (fuel : nat) (f : bytes) (s : st) (w iw width pw : Z) : result st :=
  if (s_idx s <? zlen f) && (s_y s >=? 0) then
    match fuel with
    | O => OutOfFuel
    | S k =>
      let! vb := get_idx f (s_idx s) in
      let val := u8 vb in
      if negb (Z.land val 128 =? 0) then
        let run_length := 257 - val in
        if s_idx s + 1 >=? zlen f then Ok s else
        let! rv := get_idx f (s_idx s + 1) in
        let idx := s_idx s + 2 in
        let! (data, x) := put_run8 (Z.to_nat run_length) (s_data s) (s_x s) (s_y s) w iw width pw rv in
        if x >=? w then
          (if s_y s - 1 <? 0 then Ok (Build_st data 0 (s_y s - 1) idx)
           else loop8 k f (Build_st data 0 (s_y s - 1) idx) w iw width pw)
        else loop8 k f (Build_st data x (s_y s) idx) w iw width pw
      else
        let run_length := val + 1 in
        let idx := s_idx s + 1 in
        if idx + run_length >? zlen f then Ok (Build_st (s_data s) (s_x s) (s_y s) idx) else
        let! (data, x, idx') := put_lit8 (Z.to_nat run_length) f (s_data s) (s_x s) (s_y s) w iw width pw idx in
        if x >=? w then
          (if s_y s - 1 <? 0 then Ok (Build_st data 0 (s_y s - 1) idx')
           else loop8 k f (Build_st data 0 (s_y s - 1) idx') w iw width pw)
        else loop8 k f (Build_st data x (s_y s) idx') w iw width pw
    end
  else Ok s.

Definition decode_compressed8 (f : bytes) (w0 h pw ph width : Z) : result bytes :=
  let iw := w0 - pw in
  let w := iw + iw mod 2 in
  let bw := if w + pw >? width then width + 4 else width in
  let! data := bytearray (bw * h) in
  let! s := loop8 (S (length f)) f (Build_st data 0 (h - 1 - ph) 0) w iw width pw in
  Ok (s_data s).

(* raw rows *)
Fixpoint raw_row8 (fuel : nat) (f data : bytes) (x w data_idx idx : Z) : result (bytes * Z) :=
  if x <? w then
    match fuel with
    | O => OutOfFuel
    | S k =>
      let! v := get_idx f idx in
      let! data' := set_idx data data_idx v in
      if x + 1 >=? w then Ok (data', data_idx + 1) else raw_row8 k f data' (x + 1) w (data_idx + 1) (idx + 1)
    end
  else Ok (data, data_idx).
Fixpoint raw_rows8 (fuel : nat) (f data : bytes) (y w width pw w_size data_idx : Z) : result bytes :=
  if y >=? 0 then
    match fuel with
    | O => OutOfFuel
    | S k =>
      let data_idx := data_idx + pw in
      let! (data', di) := raw_row8 (S (Z.to_nat w)) f data 0 w data_idx (y * w_size) in
      let di := if width - w - pw >? 0 then di + width - w - pw else di in
      raw_rows8 k f data' (y - 1) w width pw w_size di
    end
  else Ok data.
Definition decode_raw8 (f : bytes) (w0 h pw ph width w_size : Z) : result bytes :=
  let! data := bytearray (width * h) in
  raw_rows8 (S (Z.to_nat h)) f data (h - 1 - ph) (w0 - pw) width pw w_size 0.

Definition stride4 (w : Z) : Z := if w mod 4 >? 0 then w + 4 - w mod 4 else w.

Definition parts8 (f : bytes) (bw bh pw ph : Z) (pname pdata : bytes) : list part :=
  let '(bh, ph) := if ph <? 0 then (bh - ph, 0) else (bh, ph) in
  let size := bw * bh + 256 * 4 + 40 + 14 in
  let offset := 256 * 4 + 40 + 14 in
  let width := stride4 bw in
  let w := bw - pw in
  let w_size := w + w mod 2 in
  hdr_parts size offset ++
  [info_part bw bh 8 256; fun _ => write_color_palette 8 256 pname pdata;
   fun _ => if zlen f =? w_size * (bh - ph) then decode_raw8 f bw bh pw ph width w_size
            else decode_compressed8 f bw bh pw ph width].
Definition decode8 (f : bytes) (bw bh pw ph : Z) (pname pdata : bytes) : result bytes :=
  collect_parts (parts8 f bw bh pw ph pname pdata).

(* ===================== 1 bit ===================== *)
Definition bit_of (v : Z) (j : Z) : byte := byte_of_Z ((v / 2 ^ (7 - j)) mod 2).
(* for j in range(8): bitval; if x >= w: break; data[p] = bitval; x += 1 *)
Fixpoint put_bits (j : nat) (data : bytes) (x y w iw width pw v : Z) : result (bytes * Z) :=
  match j with
  | O => Ok (data, x)
  | S m =>
    if x >=? w then Ok (data, x) else
    let! data' := (if x <? iw then set_idx data (y * width + x + pw) (bit_of v (8 - Z.of_nat j)) else Ok data) in
    put_bits m data' (x + 1) y w iw width pw v
  end.
Fixpoint put_run1 (n : nat) (data : bytes) (x y w iw width pw v : Z) : result (bytes * Z) :=
  match n with
  | O => Ok (data, x)
  | S m => let! (data', x') := put_bits 8 data x y w iw width pw v in put_run1 m data' x' y w iw width pw v
  end.
Fixpoint put_lit1 (n : nat) (f : bytes) (data : bytes) (x y w iw width pw idx : Z) : result (bytes * Z * Z) :=
  match n with
  | O => Ok (data, x, idx)
  | S m =>
    (* fdata[idx] is evaluated inside the bit loop: at least once *)
    let! vb := get_idx f idx in
    let! (data', x') := put_bits 8 data x y w iw width pw (u8 vb) in
    if idx + 1 >? zlen f then Ok (data', x', idx + 1)
    else put_lit1 m f data' x' y w iw width pw (idx + 1)
  end.

Fixpoint loop1 (fuel : nat) (f : bytes) (s : st) (w iw width pw : Z) : result st :=
  if (s_idx s <? zlen f) && (s_y s >=? 0) then
    match fuel with
    | O => OutOfFuel
    | S k =>
      let! vb := get_idx f (s_idx s) in
      let val := u8 vb in
      if negb (Z.land val 128 =? 0) then
        let run_length := 257 - val in
        if s_idx s + 1 >=? zlen f then Ok s else
        let! rv := get_idx f (s_idx s + 1) in
        let idx := s_idx s + 2 in
        let! (data, x) := put_run1 (Z.to_nat run_length) (s_data s) (s_x s) (s_y s) w iw width pw (u8 rv) in
        if x >=? w then
          (if s_y s - 1 <? 0 then Ok (Build_st data 0 (s_y s - 1) idx)
           else loop1 k f (Build_st data 0 (s_y s - 1) idx) w iw width pw)
        else loop1 k f (Build_st data x (s_y s) idx) w iw width pw
      else
        let run_length := val + 1 in
        let idx := s_idx s + 1 in
        if idx + run_length >? zlen f then Ok (Build_st (s_data s) (s_x s) (s_y s) idx) else
        let! (data, x, idx') := put_lit1 (Z.to_nat run_length) f (s_data s) (s_x s) (s_y s) w iw width pw idx in
        if x >=? w then
          (if s_y s - 1 <? 0 then Ok (Build_st data 0 (s_y s - 1) idx')
           else loop1 k f (Build_st data 0 (s_y s - 1) idx') w iw width pw)
        else loop1 k f (Build_st data x (s_y s) idx') w iw width pw
    end
  else Ok s.

Definition decode_compressed1 (f : bytes) (w0 h pw ph width : Z) : result bytes :=
  let! data := bytearray (width * h) in
  let iw := w0 - pw in
  let inc := (16 - (iw mod 16)) mod 16 in
  let w := iw + inc in
  let! s := loop1 (S (length f)) f (Build_st data 0 (h - 1 - ph) 0) w iw width pw in
  Ok (s_data s).

(* raw 1 bit: while x < w: for j in range(8): data[data_idx] = bit; data_idx += 1; x += 1; if x >= w: break; idx += 1 *)
Fixpoint raw_bits1 (j : nat) (data : bytes) (x w data_idx v : Z) : result (bytes * Z * Z) :=
  match j with
  | O => Ok (data, x, data_idx)
  | S m =>
    let! data' := set_idx data data_idx (bit_of v (8 - Z.of_nat j)) in
    if x + 1 >=? w then Ok (data', x + 1, data_idx + 1) else raw_bits1 m data' (x + 1) w (data_idx + 1) v
  end.
Fixpoint raw_row1 (fuel : nat) (f data : bytes) (x w data_idx idx : Z) : result (bytes * Z) :=
  if x <? w then
    match fuel with
    | O => OutOfFuel
    | S k =>
      let! vb := get_idx f idx in
      let! (data', x', di) := raw_bits1 8 data x w data_idx (u8 vb) in
      raw_row1 k f data' x' w di (idx + 1)
    end
  else Ok (data, data_idx).
Fixpoint raw_rows1 (fuel : nat) (f data : bytes) (y w width pw w_size data_idx : Z) : result bytes :=
  if y >=? 0 then
    match fuel with
    | O => OutOfFuel
    | S k =>
      let data_idx := data_idx + pw in
      let! (data', di) := raw_row1 (S (Z.to_nat w)) f data 0 w data_idx (y * w_size) in
      let di := if width - w - pw >? 0 then di + width - w - pw else di in
      raw_rows1 k f data' (y - 1) w width pw w_size di
    end
  else Ok data.
Definition decode_raw1 (f : bytes) (w0 h pw ph width w_size : Z) : result bytes :=
  let! data := bytearray (width * h) in
  raw_rows1 (S (Z.to_nat h)) f data (h - 1 - ph) (w0 - pw) width pw w_size 0.

Definition parts1 (f : bytes) (bw bh pw ph : Z) (pname pdata : bytes) : list part :=
  let '(bh, ph) := if ph <? 0 then (bh - ph, 0) else (bh, ph) in
  let size := bw * bh + 2 * 4 + 40 + 14 in
  let offset := 2 * 4 + 40 + 14 in
  let width := stride4 bw in
  let w := bw - pw in
  (* int(w/8): float division then truncation toward zero *)
  let w_size := Z.quot w 8 in
  let w_size := if w mod 8 >? 0 then w_size + 1 else w_size in
  let w_size := w_size + w_size mod 2 in
  hdr_parts size offset ++
  [info_part bw bh 8 2; fun _ => write_color_palette 1 2 pname pdata;
   fun _ => if zlen f =? w_size * (bh - ph) then decode_raw1 f bw bh pw ph width w_size
            else decode_compressed1 f bw bh pw ph width].
Definition decode1 (f : bytes) (bw bh pw ph : Z) (pname pdata : bytes) : result bytes :=
  collect_parts (parts1 f bw bh pw ph pname pdata).

(* ===================== 16 bit ===================== *)
Fixpoint put_n (n : nat) (data : bytes) (x y width : Z) (v : byte) : result (bytes * Z) :=
  match n with
  | O => Ok (data, x)
  | S m => let! data' := set_idx data (y * width + x) v in put_n m data' (x + 1) y width v
  end.
(* literal: data[p] = f[idx]; idx += 1; x += 1; if x >= width: x = 0; y -= 1 *)
Fixpoint put_lit_wrap (n : nat) (f data : bytes) (x y width idx : Z) : result (bytes * Z * Z * Z) :=
  match n with
  | O => Ok (data, x, y, idx)
  | S m =>
    let! v := get_idx f idx in
    let! data' := set_idx data (y * width + x) v in
    let '(x', y') := if x + 1 >=? width then (0, y - 1) else (x + 1, y) in
    put_lit_wrap m f data' x' y' width (idx + 1)
  end.
(* run with wrap (24 bit): data[p] = v; x += 1; if x >= width: x = 0; y -= 1 *)
Fixpoint put_run_wrap (n : nat) (data : bytes) (x y width : Z) (v : byte) : result (bytes * Z * Z) :=
  match n with
  | O => Ok (data, x, y)
  | S m =>
    let! data' := set_idx data (y * width + x) v in
    let '(x', y') := if x + 1 >=? width then (0, y - 1) else (x + 1, y) in
    put_run_wrap m data' x' y' width v
  end.

Definition adjust16 (x y rl w width : Z) : Z * Z :=
  let x := if (x + rl >? w) && (x <? w) then w else x in
  if x + rl >? width then (0, y - 1) else (x, y).

Fixpoint loop16 (fuel : nat) (f : bytes) (s : st) (w width : Z) : result st :=
  if (s_idx s <? zlen f) && (s_y s >=? 0) then
    match fuel with
    | O => OutOfFuel
    | S k =>
      let! vb := get_idx f (s_idx s) in
      let val := u8 vb in
      if negb (Z.land val 128 =? 0) then
        let rl := 257 - val in
        let! rv := get_idx f (s_idx s + 1) in
        let '(x, y) := adjust16 (s_x s) (s_y s) rl w width in
        let! (data, x') := put_n (Z.to_nat rl) (s_data s) x y width rv in
        loop16 k f (Build_st data x' y (s_idx s + 2)) w width
      else
        let rl := val + 1 in
        let '(x, y) := adjust16 (s_x s) (s_y s) rl w width in
        let! (data, x', y', idx') := put_lit_wrap (Z.to_nat rl) f (s_data s) x y width (s_idx s + 1) in
        loop16 k f (Build_st data x' y' idx') w width
    end
  else Ok s.

(* the plane de-interleaving loops, written as the list they fill *)
Fixpoint zrange (n : nat) : list Z := match n with O => [] | S m => zrange m ++ [Z.of_nat m] end.
(* rows of the BMP pixel array are padded to a multiple of 4 bytes *)
Definition row_stride (n : Z) : Z := (n + 3) / 4 * 4.
Definition mix16 (data : bytes) (w h : Z) : result bytes :=
  collect (map (fun y =>
    let! row := collect (map (fun x =>
      let! u := get_idx data (y * (w * 2) + w + x) in
      let! l := get_idx data (y * (w * 2) + x) in
      Ok [u; l]) (zrange (Z.to_nat w))) in
    Ok (row ++ zeros (Z.to_nat (row_stride (w * 2) - w * 2)))) (zrange (Z.to_nat h))).

Definition decode_compressed16 (f : bytes) (w h width : Z) : result bytes :=
  let! data := bytearray (width * h) in
  let! s := loop16 (S (length f)) f (Build_st data 0 (h - 1) 0) w width in
  (* dataMix = bytearray(width * h) exists before the loops: same failure condition as above *)
  mix16 (s_data s) w h.

Definition u32 (v : Z) : bytes := pack 4 Little v.
Definition bmp_info_header16 (w h bpp : Z) : bytes :=
  pack 4 Little 124 ++ pack 4 Little w ++ pack 4 Little h ++ pack 2 Little 1 ++ pack 2 Little bpp ++
  u32 3 ++ u32 0 ++ u32 0 ++ u32 0 ++ u32 0 ++ u32 0 ++ u32 31744 ++ u32 992 ++ u32 31 ++ u32 0 ++ u32 1934772034 ++
  concat (repeat (u32 0) 12) ++ u32 2 ++ u32 0 ++ u32 0 ++ u32 0.

Definition parts16 (f : bytes) (bw bh pw ph : Z) : list part :=
  let '(bh, ph) := if ph <? 0 then (bh - ph, 0) else (bh, ph) in
  let size := bw * bh * 2 + 124 + 14 in
  let width := bw * 2 in
  let w_size := (bw - pw) * 2 in
  hdr_parts size 138 ++
  [fun _ => if fits_i32 bw && fits_i32 bh then Ok (bmp_info_header16 bw bh 16) else Err EStruct;
   fun _ => if zlen f =? w_size * (bh - ph) then Err ENotImpl else decode_compressed16 f bw bh width].
Definition decode16 (f : bytes) (bw bh pw ph : Z) : result bytes := collect_parts (parts16 f bw bh pw ph).

(* ===================== 24 / 32 bit ===================== *)
Fixpoint loop24 (fuel : nat) (f : bytes) (s : st) (width : Z) : result st :=
  if (s_idx s <? zlen f) && (s_y s >=? 0) then
    match fuel with
    | O => OutOfFuel
    | S k =>
      let! vb := get_idx f (s_idx s) in
      let val := u8 vb in
      if negb (Z.land val 128 =? 0) then
        let! rv := get_idx f (s_idx s + 1) in
        let! (data, x, y) := put_run_wrap (Z.to_nat (257 - val)) (s_data s) (s_x s) (s_y s) width rv in
        loop24 k f (Build_st data x y (s_idx s + 2)) width
      else if negb (val =? 0) then
        let! (data, x, y, idx') := put_lit_wrap (Z.to_nat (val + 1)) f (s_data s) (s_x s) (s_y s) width (s_idx s + 1) in
        loop24 k f (Build_st data x y idx') width
      else
        let! rv := get_idx f (s_idx s + 1) in
        let! (data, x, y) := put_run_wrap 1 (s_data s) (s_x s) (s_y s) width rv in
        loop24 k f (Build_st data x y (s_idx s + 2)) width
    end
  else Ok s.

Definition mix24 (data : bytes) (w h : Z) : result bytes :=
  collect (map (fun y =>
    let! row := collect (map (fun x =>
      let! r := get_idx data (y * (w * 4) + w * 3 + x) in
      let! g := get_idx data (y * (w * 4) + w * 2 + x) in
      let! b := get_idx data (y * (w * 4) + w + x) in
      Ok [r; g; b]) (zrange (Z.to_nat w))) in
    Ok (row ++ zeros (Z.to_nat (row_stride (w * 3) - w * 3)))) (zrange (Z.to_nat h))).

Definition decode_compressed24 (f : bytes) (w h width : Z) : result bytes :=
  let! data := bytearray (width * h) in
  let! s := loop24 (S (length f)) f (Build_st data 0 (h - 1) 0) width in
  let! _ := bytearray (row_stride (w * 3) * h) in
  mix24 (s_data s) w h.

Definition parts24 (f : bytes) (bw bh pw ph : Z) : list part :=
  let '(bh, ph) := if ph <? 0 then (bh - ph, 0) else (bh, ph) in
  let size := bw * bh * 3 + 40 + 14 in
  let width := bw * 4 in
  let w_size := (bw - pw) * 2 in
  hdr_parts size 54 ++
  [info_part bw bh 24 0;
   fun _ => if zlen f =? w_size * (bh - ph) then Err ENotImpl else decode_compressed24 f bw bh width].
Definition decode24 (f : bytes) (bw bh pw ph : Z) : result bytes := collect_parts (parts24 f bw bh pw ph).

(* 4 bit: headers and palette are written, then NotImplementedError *)
Definition parts4 (f : bytes) (bw bh pw ph : Z) (pname pdata : bytes) : list part :=
  let '(bh, ph) := if ph <? 0 then (bh - ph, 0) else (bh, ph) in
  hdr_parts (bw * bh + 16 * 4 + 40 + 14) (16 * 4 + 40 + 14) ++
  [info_part bw bh 4 16; fun _ => write_color_palette 4 16 pname pdata; fun _ => Err ENotImpl].

(* ===================== bitd2bmp ===================== *)
Definition s_bw : bytes := ["b";"l";"a";"c";"k";" ";"a";"n";"d";" ";"w";"h";"i";"t";"e"]%byte.
Definition s_none : bytes := ["n";"o";"n";"e"]%byte.
Definition decoder_of (depth : Z) : option Z :=       (* which decoder object (keyed by its own depth) *)
  if depth =? 1 then Some 1 else if depth =? 4 then Some 4 else if depth =? 8 then Some 8
  else if depth =? 16 then Some 16 else if (depth =? 24) || (depth =? 32) then Some 24 else None.
Definition bitd_parts (w h depth pw ph : Z) (palette_txt clut f : bytes) : list part :=
  if depth =? 1 then parts1 f w h pw ph s_bw clut
  else if depth =? 8 then parts8 f w h pw ph palette_txt clut
  else if depth =? 16 then parts16 f w h pw ph
  else if (depth =? 24) || (depth =? 32) then parts24 f w h pw ph
  else if depth =? 4 then parts4 f w h pw ph s_none clut
  else [fun _ => Err EValue].
(* stateless view: the BMP of one decode started on an empty buffer *)
Definition bitd2bmp (w h depth pw ph : Z) (palette_txt clut f : bytes) : result bytes :=
  collect_parts (bitd_parts w h depth pw ph palette_txt clut f).

(* stateful view (C13): every decoder object owns a buffer; bitd2bmp empties it, decode appends its
   chunks until one fails, getBmpImage returns and empties it *)
Fixpoint run_parts (buf : bytes) (ps : list part) : bytes * option errkind :=
  match ps with
  | [] => (buf, None)
  | p :: rest =>
    match p tt with
    | Ok b => run_parts (buf ++ b) rest
    | Err e => (buf, Some e)
    | OutOfFuel => (buf, Some EOther)
    end
  end.
Definition bufs := list (Z * bytes).      (* decoder key -> buffer content *)
Fixpoint get_buf (bs : bufs) (k : Z) : bytes :=
  match bs with [] => [] | (k', b) :: r => if k' =? k then b else get_buf r k end.
Fixpoint set_buf (bs : bufs) (k : Z) (b : bytes) : bufs :=
  match bs with [] => [(k, b)] | (k', b') :: r => if k' =? k then (k, b) :: r else (k', b') :: set_buf r k b end.
Record bitd_args := { a_w : Z; a_h : Z; a_depth : Z; a_pw : Z; a_ph : Z; a_pt : bytes; a_clut : bytes; a_f : bytes }.
Definition bitd_step (bs : bufs) (a : bitd_args) : bufs * result bytes :=
  match decoder_of (a_depth a) with
  | None => (bs, Err EValue)
  | Some k =>
    let start : bytes := [] in                      (* decoder.bytesIo = io.BytesIO() in bitd2bmp *)
    let '(buf, e) := run_parts start (bitd_parts (a_w a) (a_h a) (a_depth a) (a_pw a) (a_ph a) (a_pt a) (a_clut a) (a_f a)) in
    match e with
    | None => (set_buf bs k [], Ok buf)
    | Some err => (set_buf bs k buf, Err err)
    end
  end.
Fixpoint bitd_history (bs : bufs) (h : list bitd_args) : list (result bytes) :=
  match h with
  | [] => []
  | a :: rest => let '(bs', r) := bitd_step bs a in r :: bitd_history bs' rest
  end.
