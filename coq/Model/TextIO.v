From Coq Require Import ZArith List String.
From Coq.Strings Require Import Byte.
From DRX Require Import Py.PyBytes Py.Val Model.Text.
Import ListNotations.
Definition get_font (v : val) : option font :=
  match v with VL [VB n; VZ i] => Some (Build_font n i) | _ => None end.
Definition v_family (f : family) : val :=
  match f with Known n => VL [vstr "known"; VB n] | Unknown i => VL [vstr "unknown"; VZ i] end.
Definition v_run (r : run) : val :=
  let '(cr, cg, cb) := r_color r in
  VL [VB [cr; cg; cb]; VZ (r_start r); vbool (r_bold r); vbool (r_italic r); vbool (r_underline r);
      VZ (r_size r); v_family (r_family r)].
Definition run_parse_stxt (v : val) : val :=
  match v with
  | VL [VB d; fm] =>
    match getLof get_font fm with
    | Some fm => vresult (fun p : bytes * list run => VL [VB (fst p); vlist v_run (snd p)]) (parse_stxt_data d fm)
    | None => vbad end
  | _ => vbad end.
Definition run_parse_fmap (v : val) : val :=
  match v with
  | VB d => vresult (vlist (fun f : font => VL [VB (f_name f); VZ (f_id f)])) (parse_fmap_data d)
  | _ => vbad end.
