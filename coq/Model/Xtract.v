(* Model of drxtract/riffxtract.py main(): the list of files written into <dir>/bin, in order.
   An error or sys.exit part-way leaves the files written so far. *)
From Coq Require Import List ZArith Bool.
From Coq.Strings Require Import Byte.
From DRX Require Import Py.PyBytes Py.Layout Py.PyStr Model.Riff.
Import ListNotations.
Open Scope Z_scope.

(* re.sub(r"[^A-Za-z0-9\-_\.]", "_", name) *)
Definition fn_safe (b : byte) : bool :=
  let v := u8 b in
  ((65 <=? v) && (v <=? 90)) || ((97 <=? v) && (v <=? 122)) || ((48 <=? v) && (v <=? 57)) ||
  (v =? 45) || (v =? 95) || (v =? 46).
Definition fn_char (b : byte) : byte := if fn_safe b then b else "_"%byte.
Definition file_name (number : Z) (id : bytes) : bytes :=
  map fn_char (str_of_Z number ++ "."%byte :: id).

Definition s_imap : bytes := ["i";"m";"a";"p"]%byte.
Definition s_mmap : bytes := ["m";"m";"a";"p"]%byte.
Definition s_free : bytes := ["f";"r";"e";"e"]%byte.
Definition s_junk : bytes := ["j";"u";"n";"k"]%byte.
Definition ignored (id : bytes) : bool :=
  bytes_eqb id RIFX || bytes_eqb id s_imap || bytes_eqb id s_mmap || bytes_eqb id s_free || bytes_eqb id s_junk.

Definition write := (bytes * bytes)%type.     (* file name inside bin/, content *)
Inductive status := Done | Aborted.

(* for resource in mmap.resources: idx += 1; ... *)
Fixpoint write_loop (chunks : list chunk) (off : Z) (rs : list mmap_res) (idx : Z) : list write * status :=
  match rs with
  | [] => ([], Done)
  | r :: rest =>
    if ignored (r_id r) || (r_size r <=? 0) then write_loop chunks off rest (idx + 1)
    else
      match get_by_offset chunks (r_off r - off) with
      | Ok c =>
        if bytes_eqb (r_id r) (fst c) then
          let '(ws, st) := write_loop chunks off rest (idx + 1) in
          ((file_name idx (fst c), snd c) :: ws, st)
        else ([], Aborted)                 (* 'Chunk ID mismatch': sys.exit(-1) *)
      | _ => ([], Aborted)                 (* IndexError *)
      end
  end.

Definition extract (d : bytes) (bo : byteorder) (is_exe : bool) : list write * status :=
  match (if is_exe then find_riff_in_exe d else Ok 0) with
  | Ok off =>
    match parse_riff d off bo with
    | Ok (c0 :: chunks') =>
      let chunks := c0 :: chunks' in
      if negb (bytes_eqb (fst c0) s_imap) then ([], Aborted) else
      match parse_imap (snd c0) bo with
      | Ok im =>
        match get_by_offset chunks (getv im 1 - off) with
        | Ok mc =>
          if negb (bytes_eqb (fst mc) s_mmap) then ([], Aborted) else
          match parse_mmap (snd mc) bo with
          | Ok (_, rs) => write_loop chunks off rs 0
          | _ => ([], Aborted)
          end
        | _ => ([], Aborted)
        end
      | _ => ([], Aborted)
      end
    | _ => ([], Aborted)
    end
  | _ => ([], Aborted)
  end.

(* the folder as a finite map from names to contents; open(name,'wb') truncates and rewrites *)
Definition folder := list (bytes * bytes).
Fixpoint fs_lookup (fs : folder) (name : bytes) : option bytes :=
  match fs with [] => None | (n, c) :: r => if bytes_eqb n name then Some c else fs_lookup r name end.
Definition fs_write (fs : folder) (w : write) : folder := w :: fs.
Definition apply_writes (fs : folder) (ws : list write) : folder := fold_left fs_write ws fs.
