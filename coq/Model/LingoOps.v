(* The stack machine: lingosrc/opcodes/*.py `process` methods and lscr.py parse_opcodes.
   Dispatch goes through the generated tables Gen_Lingo.OPCODES / BI_OPCODES (opcode byte -> class that
   defines process, constructor attribute); the behaviour of each such class is the hand-written
   [process] below.  The operand registers param1 / param2 of the module-level opcode singletons are an
   explicit component [regs] of the machine state (they outlive an instruction, a handler and a script);
   Proofs/LingoRegsFacts.v proves they never influence a result. *)
From Coq Require Import ZArith List Bool String.
From Coq.Strings Require Import Byte.
From DRX Require Import Py.PyBytes Py.PyStr Py.PyString Model.LingoAst Model.LingoGen Gen.Gen_Lingo.
Import ListNotations.
Open Scope string_scope.
Open Scope list_scope.
Open Scope Z_scope.

Inductive const := CStr (s : string) | CInt (z : Z).

Record ctx := {
  c_consts : list const; c_bpc : Z; c_names : list string; c_lfuncs : list string;
  c_props : list string; c_globals : list string; c_tell : bool }.
Definition set_bpc (c : ctx) (b : Z) : ctx :=
  Build_ctx (c_consts c) b (c_names c) (c_lfuncs c) (c_props c) (c_globals c) (c_tell c).
Definition set_tell (c : ctx) (t : bool) : ctx :=
  Build_ctx (c_consts c) (c_bpc c) (c_names c) (c_lfuncs c) (c_props c) (c_globals c) t.

Record mstate := { m_stack : list node; m_fn : fndef; m_ctx : ctx }.      (* stack: head = top *)

Definition with_stack (m : mstate) (s : list node) : mstate := Build_mstate s (m_fn m) (m_ctx m).
Definition with_ctx (m : mstate) (c : ctx) : mstate := Build_mstate (m_stack m) (m_fn m) c.
Definition set_stmts (f : fndef) (s : list node) : fndef :=
  Build_fndef (f_name f) (f_pos f) (f_params f) (f_locals f) (f_globals f) s (f_is_method f).
Definition set_globals (f : fndef) (g : list node) : fndef :=
  Build_fndef (f_name f) (f_pos f) (f_params f) (f_locals f) g (f_stmts f) (f_is_method f).
Definition push (m : mstate) (n : node) : mstate := with_stack m (n :: m_stack m).
Definition add_stmt (m : mstate) (index : Z) (code : node) : mstate :=
  Build_mstate (m_stack m) (set_stmts (m_fn m) (f_stmts (m_fn m) ++ [Stmt index code])) (m_ctx m).

Definition pop (m : mstate) : result (node * mstate) :=
  match m_stack m with x :: r => Ok (x, with_stack m r) | [] => Err EIndex end.
Fixpoint popn (n : nat) (m : mstate) : result (list node * mstate) :=
  match n with
  | O => Ok ([], m)
  | S k => let! (x, m1) := pop m in let! (xs, m2) := popn k m1 in Ok (x :: xs, m2)
  end.

Definition nth_name (l : list string) (i : Z) : result string := of_option EIndex (PyBytes.index l i).

(* if (op1 % bpc) > 0: bpc = op1 % bpc ; idx = int(op1 / bpc) *)
Definition scale (m : mstate) (op1 : Z) : mstate * Z :=
  let bpc := c_bpc (m_ctx m) in
  let bpc' := if (op1 mod bpc) >? 0 then op1 mod bpc else bpc in
  (with_ctx m (set_bpc (m_ctx m) bpc'), Z.quot op1 bpc').

Definition is_const (n : node) : bool := match n with Leaf KConst _ _ _ | Leaf KConstInt _ _ _ => true | _ => false end.
(* int(node.name) *)
Definition int_name (n : node) : result Z := of_option EValue (int_of_str (name_of n)).

Definition const_node (c : const) (index : Z) : node :=
  match c with CStr s => Leaf KConst s index true | CInt z => Leaf KConstInt (str_of_int z) index true end.

Definition global_of (name : string) (index : Z) : node := Leaf KGlobal name index true.
Definition local_of (name : string) (index : Z) : node := Leaf KLocal name index true.
Definition stmt_assign (m : mstate) (index : Z) (l r : node) : mstate := add_stmt m index (Binary "assign" index l r).

(* a call whose argument list was loaded with the "expression" list opcode stays on the stack *)
Definition push_or_stmt (m : mstate) (index : Z) (params op : node) : mstate :=
  if starts_with "<" (name_of params) && negb (name_is_int params) then push m op else add_stmt m index op.

Definition is_loadlist (n : node) : bool := match n with LoadList _ _ _ => true | _ => false end.

(* string_op.add_str_operation / add_modifiers *)
Definition add_str_operation (op start_pos end_pos : node) (name : string) (index : Z) : node :=
  if negb (name_is start_pos "0") then
    StrOp name index start_pos (if negb (name_is end_pos "0") then Some end_pos else None) op
  else op.
Definition add_modifiers (op : node) (m : mstate) (index : Z) : result (node * mstate) :=
  let! (l, m1) := popn 8 m in
  match l with
  | [ll; fl; li; fi; lw; fw; lc; fc] =>
    let op := add_str_operation op fl ll "line" index in
    let op := add_str_operation op fi li "item" index in
    let op := add_str_operation op fw lw "word" index in
    let op := add_str_operation op fc lc "char" index in
    Ok (op, m1)
  | _ => Err EIndex
  end.

(* the behaviours, one constructor per class that defines a process method *)
Inductive opclass :=
| OBinary (opname : string) | OUnary (opname : string)
| OZero | OInt1b | OInt2b | OLiteral | OLiteral2 | OSymbol | OProperty
| OVariable | OGlobalVariable | OPropertyName | OParameterName | OLocalVariable | OTellProperty
| OAssignGlobal | OLoadProperty | OAssignProperty | OAssignParameter | OAssignLocal
| OAssignModeLocal (mode : string) | OAssignModeField (mode : string)
| OExit | OJump | OFwdJump | OCondJump | OTellStart | OTellEnd
| OCallLocal | OCallExternal | OCallObjectMethod | OCallExternalMethod
| OSpecialProps | OAssignSpecialProps | ONumberOfElements | ONameOfCastElements
| OMenuitemProps | OAssignMenuitemProps | OSoundProps | OAssignSoundProps | OSpriteProps | OAssignSpriteProps
| OSystemProps | OAssignSystemProps | ONumberOfCastElements | OCastProps | OAssignCastProps
| OFieldProps | OAssignFieldProps | OVideoProps | OAssignVideoProps
| OPropertyAccessor | OAssignPropertyAccessor | OKeyPropertyAccessor
| OCopySymbol | ODiscardSymbols | OToList | OToDict | OLoadList (name : string) | OLoadLongList (name : string)
| OStringOperation | OHilite | OPutField (mode : string) | OPutList (mode : string) | OPutString (mode : string)
| ODeleteFromList | ODeleteFromString | ODeleteFromField.

(* class defining process (+ constructor attribute) -> behaviour.  The modes of the string_op classes are
   literals inside their process methods. *)
Definition opclass_of (proc attr : string) : option opclass :=
  let t : list (string * opclass) := [
    ("BinaryOperationOpcode", OBinary attr); ("UnaryOperationOpcode", OUnary attr);
    ("ZeroOpcode", OZero); ("Int1bOpcode", OInt1b); ("Int2bOpcode", OInt2b); ("LiteralOpcode", OLiteral);
    ("Literal2Opcode", OLiteral2); ("SymbolOpcode", OSymbol); ("PropertyOpcode", OProperty);
    ("VariableOpcode", OVariable); ("GlobalVariableOpcode", OGlobalVariable); ("PropertyNameOpcode", OPropertyName);
    ("ParameterNameOpcode", OParameterName); ("LocalVariableOpcode", OLocalVariable); ("TellPropertyOpcode", OTellProperty);
    ("AssignGlobalVariableOpcode", OAssignGlobal); ("LoadPropertyOpcode", OLoadProperty);
    ("AssignPropertyOpcode", OAssignProperty); ("AssignParameterOpcode", OAssignParameter);
    ("AssignLocalVariableOpcode", OAssignLocal); ("AssignModeLocalVarOpcode", OAssignModeLocal attr);
    ("AssignModeFieldOpcode", OAssignModeField attr);
    ("ExitOpcode", OExit); ("ExitFactoryMethodOpcode", OExit); ("JumpOpcode", OJump); ("FowardJumpOpcode", OFwdJump);
    ("ConditionalJumpOpcode", OCondJump); ("WindowTellStartOpcode", OTellStart); ("WindowTellEndOpcode", OTellEnd);
    ("CallLocalOpcode", OCallLocal); ("CallExternalOpcode", OCallExternal); ("CallObjectMethodOpcode", OCallObjectMethod);
    ("CallExternalMethodOpcode", OCallExternalMethod);
    ("SpecialPropertiesOpcode", OSpecialProps); ("AssignSpecialPropertiesOpcode", OAssignSpecialProps);
    ("NumberOfElementsOpcode", ONumberOfElements); ("NameOfCastElementsOpcode", ONameOfCastElements);
    ("MenuitemPropertiesOpcode", OMenuitemProps); ("AssignMenuitemPropertiesOpcode", OAssignMenuitemProps);
    ("SoundPropertiesOpcode", OSoundProps); ("AssignSoundPropertiesOpcode", OAssignSoundProps);
    ("SpritePropertiesOpcode", OSpriteProps); ("AssignSpritePropertiesOpcode", OAssignSpriteProps);
    ("SystemPropertiesOpcode", OSystemProps); ("AssignSystemPropertiesOpcode", OAssignSystemProps);
    ("NumberOfCastElementsOpcode", ONumberOfCastElements); ("CastPropertiesOpcode", OCastProps);
    ("AssignCastPropertiesOpcode", OAssignCastProps); ("FieldPropertiesOpcode", OFieldProps);
    ("AssignFieldPropertiesOpcode", OAssignFieldProps); ("VideoPropertiesOpcode", OVideoProps);
    ("AssignVideoPropertiesOpcode", OAssignVideoProps); ("PropertyAccesorOpcode", OPropertyAccessor);
    ("AssignPropertyAccesorOpcode", OAssignPropertyAccessor); ("KeyPropertyAccesorOpcode", OKeyPropertyAccessor);
    ("CopySymbolOpcode", OCopySymbol); ("DiscardSymbolsOpcode", ODiscardSymbols); ("ToListOpcode", OToList);
    ("ToDictionaryOpcode", OToDict); ("LoadListOpcode", OLoadList attr); ("LoadLongListOpcode", OLoadLongList attr);
    ("StringOperationOpcode", OStringOperation); ("HiliteOpcode", OHilite);
    ("PutIntoFieldOpcode", OPutField "into"); ("PutIntoFieldSpOpcode", OPutField "into");
    ("PutAfterFieldOpcode", OPutField "after"); ("PutBeforeFieldOpcode", OPutField "before");
    ("PutIntoListOpcode", OPutList "into"); ("PutAfterListOpcode", OPutList "after"); ("PutBeforeListOpcode", OPutList "before");
    ("PutIntoStringOpcode", OPutString "into"); ("PutAfterStringOpcode", OPutString "after");
    ("PutBeforeStringOpcode", OPutString "before");
    ("DeleteFromListOpcode", ODeleteFromList); ("DeleteFromStringOpcode", ODeleteFromString);
    ("DeleteFromFieldOpcode", ODeleteFromField)] in
  assoc_str proc t.

(* property reads "X of <object> <id>" : pops the property index and the object id *)
Definition obj_prop (m : mstate) (index : Z) (k : lclass) (table : list string) : result mstate :=
  let! (pi, m1) := pop m in
  let! property_index := int_name pi in
  let! (oid, m2) := pop m1 in
  let! prop := nth_name table property_index in
  Ok (push m2 (Accessor index (ObjRef k (name_of oid) index oid) prop)).
Definition assign_obj_prop (m : mstate) (index : Z) (k : lclass) (table : list string) : result mstate :=
  let! (pi, m1) := pop m in
  let! property_index := int_name pi in
  let! (value, m2) := pop m1 in
  let! (oid, m3) := pop m2 in
  let! prop := nth_name table property_index in
  Ok (stmt_assign m3 index (Accessor index (ObjRef k (name_of oid) index oid) prop) value).

Definition special_props (m : mstate) (index : Z) : result mstate :=
  let! (param, m1) := pop m in
  let! property_index := int_name param in
  if property_index <? 6 then
    let! nm := nth_name SPECIAL_PROPERTIES property_index in Ok (push m1 (Leaf KPropName nm index true))
  else if property_index <? 12 then
    let! nm := nth_name DATE_TIME_FUNCTIONS (property_index - 6) in Ok (push m1 (Leaf KDateTime nm index true))
  else
    let! ty := nth_name OPERATION_TYPES (property_index - 11) in
    let! (of_, m2) := pop m1 in
    Ok (push m2 (UStrOp "last" index (Some ty) of_)).

Definition system_props (m : mstate) (index : Z) : result mstate :=
  let! (pi, m1) := pop m in
  let! property_index := int_name pi in
  let! pname := nth_name (map fst SYSTEM_PROPERTIES) property_index in
  let obj := if c_tell (m_ctx m1) then local_of "tell_obj" index else local_of (assoc_or pname SYSTEM_PROPERTIES) index in
  Ok (push m1 (Accessor index obj pname)).

(* pops the assigned target that the read-opcode just pushed, then the value *)
Definition assign_top (m : mstate) (index : Z) : result mstate :=
  let! (lhs, m1) := pop m in
  let! (rhs, m2) := pop m1 in
  Ok (stmt_assign m2 index lhs rhs).

(* call_op.findVarName *)
Definition find_var_name (var_type : Z) (m : mstate) : result (string * mstate) :=
  if (var_type =? 1) || (var_type =? 2) || (var_type =? 3) then
    let! (obj, m1) := pop m in Ok (gen_lingo obj 0, m1)
  else if var_type =? 4 then
    let! (a, m1) := pop m in
    let! num := int_name a in
    let '(m2, idx) := scale m1 num in
    let! p := of_option EIndex (PyBytes.index (f_params (m_fn m2)) idx) in Ok (name_of p, m2)
  else if var_type =? 5 then
    let! (a, m1) := pop m in
    let! num := int_name a in
    let '(m2, idx) := scale m1 num in
    let! p := of_option EIndex (PyBytes.index (f_locals (m_fn m2)) idx) in Ok (name_of p, m2)
  else Err EOther.

(* JumpOpcode: the statements at or after the jump target become the body of a repeat node *)
Definition remove_all (sel : list node) (l : list node) : result (list node) :=
  fold_left (fun acc s => let! a := acc in of_option EValue (remove_first s a)) sel (Ok l).

(* WindowTellEndOpcode: walk the statements backwards up to the innermost tell *)
Fixpoint tell_split (rev_stmts : list node) (acc : list node) : option (node * list node) :=
  match rev_stmts with
  | [] => None
  | st :: r => match st with
               | Stmt _ (Tell _ _ _) => Some (st, acc)
               | _ => tell_split r (st :: acc)
               end
  end.
Fixpoint replace_first_eq (x y : node) (l : list node) : list node :=
  match l with [] => [] | z :: r => if node_eq z x then y :: r else z :: replace_first_eq x y r end.

Definition process (oc : opclass) (p1 p2 : Z) (index : Z) (m : mstate) : result mstate :=
  let names := c_names (m_ctx m) in
  match oc with
  | OBinary opname =>
    let! (r, m1) := pop m in let! (l, m2) := pop m1 in Ok (push m2 (Binary opname index l r))
  | OUnary opname =>
    let! (o, m1) := pop m in Ok (push m1 (Unary opname index o))
  | OZero => Ok (push m (Leaf KConst "0" index true))
  | OInt1b => Ok (push m (Leaf KConst (str_of_int (if p1 >? 127 then p1 - 256 else p1)) index true))
  | OInt2b => let v := p1 * 256 + p2 in
              Ok (push m (Leaf KConst (str_of_int (if v >? 32767 then v - 65536 else v)) index true))
  | OLiteral | OLiteral2 =>
    let op1 := match oc with OLiteral => p1 | _ => p1 * 256 + p2 end in
    let '(m1, idx) := scale m op1 in
    let! c := of_option EIndex (PyBytes.index (c_consts (m_ctx m1)) idx) in
    Ok (push m1 (const_node c index))
  | OSymbol => let! nm := nth_name names p1 in Ok (push m (Leaf KSymbol nm index true))
  | OProperty => let! nm := nth_name names p1 in Ok (push m (Leaf KPropName nm index true))
  | OVariable =>
    let! nm := nth_name names p1 in
    let gv := global_of nm index in
    if mem_node gv (f_globals (m_fn m)) || mem_str nm (c_globals (m_ctx m)) then Ok (push m gv) else Ok (push m (local_of nm index))
  | OGlobalVariable =>
    let! nm := nth_name names p1 in
    let gv := global_of nm index in
    let m1 := push m gv in
    if mem_node gv (f_globals (m_fn m)) then Ok m1
    else Ok (Build_mstate (m_stack m1) (set_globals (m_fn m1) (f_globals (m_fn m1) ++ [gv])) (m_ctx m1))
  | OPropertyName => let! nm := nth_name names p1 in Ok (push m (Leaf KDefPropName nm index true))
  | OParameterName =>
    let '(m1, idx) := scale m p1 in
    let! v := of_option EIndex (PyBytes.index (f_params (m_fn m1)) idx) in
    Ok (push m1 (Leaf KParam (name_of v) index true))
  | OLocalVariable =>
    let '(m1, idx) := scale m p1 in
    let! v := of_option EIndex (PyBytes.index (f_locals (m_fn m1)) idx) in
    Ok (push m1 v)
  | OTellProperty =>
    let! nm := nth_name names p1 in
    let! (params, m1) := pop m in
    if is_loadlist params then Ok (add_stmt m1 index (Call nm index (Some params) true true false)) else Err EOther
  | OAssignGlobal =>
    let! nm := nth_name names p1 in
    let lhs := global_of nm index in
    let! (r, m1) := pop m in
    let m2 := stmt_assign m1 index lhs r in
    if mem_node lhs (f_globals (m_fn m2)) then Ok m2
    else Ok (Build_mstate (m_stack m2) (set_globals (m_fn m2) (f_globals (m_fn m2) ++ [lhs])) (m_ctx m2))
  | OLoadProperty =>
    let! nm := nth_name names p1 in
    match assoc_str nm ASSIGN_KNOWN_PROPERTIES with
    | Some o => Ok (push m (Accessor index (local_of o index) nm))
    | None => Ok (push m (Leaf KPropName nm index true))
    end
  | OAssignProperty =>
    let! nm := nth_name names p1 in
    let lhs := if mem_str nm (c_props (m_ctx m)) then Accessor index (Leaf KNode "me" index true) nm
                else Leaf KPropName nm index true in
    let! (r, m1) := pop m in
    Ok (stmt_assign m1 index lhs r)
  | OAssignParameter =>
    let '(m1, idx) := scale m p1 in
    let! lhs := of_option EIndex (PyBytes.index (f_params (m_fn m1)) idx) in
    let! (r, m2) := pop m1 in
    Ok (stmt_assign m2 index lhs r)
  | OAssignLocal =>
    let '(m1, idx) := scale m p1 in
    let! lhs := of_option EIndex (PyBytes.index (f_locals (m_fn m1)) idx) in
    let! (r, m2) := pop m1 in
    Ok (stmt_assign m2 index lhs r)
  | OAssignModeLocal mode =>
    let! (operand, m1) := pop m in
    if negb (is_const operand) then Err EType else
    let! op1 := int_name operand in
    let '(m2, idx) := scale m1 op1 in
    let! lhs := of_option EIndex (PyBytes.index (f_locals (m_fn m2)) idx) in
    let! (r, m3) := pop m2 in
    Ok (add_stmt m3 index (SpAssign index lhs r mode))
  | OAssignModeField mode =>
    let! (o, m1) := pop m in
    let! (r, m2) := pop m1 in
    Ok (add_stmt m2 index (SpAssign index (Unary "field" index o) r mode))
  | OExit => Ok (add_stmt m index (Call "exit" index None true false false))
  | OJump =>
    let start_index := index - p1 in
    let sts := f_stmts (m_fn m) in
    let body := filter (fun st => start_index <=? pos_of st) sts in
    let! rest := remove_all body sts in
    let op := Repeat start_index index (Leaf KConst "TRUE" start_index true) body "while" None None "" "" in
    Ok (Build_mstate (m_stack m) (set_stmts (m_fn m) (rest ++ [Stmt index op])) (m_ctx m))
  | OFwdJump => Ok (add_stmt m index (Jump index (index + (p1 * 256 + p2))))
  | OCondJump =>
    let! (c, m1) := pop m in Ok (add_stmt m1 index (Jz index c (index + (p1 * 256 + p2))))
  | OTellStart =>
    let! (o, m1) := pop m in
    Ok (with_ctx (add_stmt m1 index (Tell index o [])) (set_tell (m_ctx m1) true))
  | OTellEnd =>
    let sts := f_stmts (m_fn m) in
    let! rest :=
      match tell_split (rev sts) [] with
      | Some (Stmt tp (Tell p o old), after) =>
        let body := old ++ after in
        let sts1 := replace_first_eq (Stmt tp (Tell p o old)) (Stmt tp (Tell p o body)) sts in
        remove_all body sts1
      | _ => remove_all (rev sts) sts
      end in
    Ok (Build_mstate (m_stack m) (set_stmts (m_fn m) rest) (set_tell (m_ctx m) false))
  | OCallLocal | OCallExternal =>
    let! fname := match oc with OCallLocal => nth_name (c_lfuncs (m_ctx m)) p1 | _ => nth_name names p1 end in
    let! (params, m1) := pop m in
    if negb (is_loadlist params) then Err EOther else
    let op := Call fname index (Some params) true false (match oc with OCallLocal => true | _ => false end) in
    Ok (push_or_stmt m1 index params op)
  | OCallObjectMethod =>
    let! (fname, m1) := find_var_name p1 m in
    let! (params, m2) := pop m1 in
    match params with
    | LoadList ln lp ops =>
      let ops' := match rev ops with
                  | Leaf KSymbol s sp _ :: before => rev (Leaf KSymbol s sp false :: before)
                  | _ => ops end in
      let params' := LoadList ln lp ops' in
      Ok (push_or_stmt m2 index params' (Call fname index (Some params') true false false))
    | _ => Err EOther
    end
  | OCallExternalMethod =>
    let! fname := nth_name names p1 in
    let! (params, m1) := pop m in
    match params with
    | ToList _ (LoadList ln lp (obj :: rest)) =>
      let pl := LoadList ln lp rest in
      Ok (push_or_stmt m1 index pl (CallMethod fname index obj pl))
    | _ => Err EOther
    end
  | OSpecialProps => special_props m index
  | OAssignSpecialProps => let! m1 := special_props m index in assign_top m1 index
  | ONumberOfElements =>
    let! (param, m1) := pop m in
    let! optype := int_name param in
    let! ty := nth_name OPERATION_TYPES optype in
    let! (of_, m2) := pop m1 in
    Ok (push m2 (UStrOp "number" index (Some ty) of_))
  | ONameOfCastElements =>
    let! (param1, m1) := pop m in
    let! optype := int_name param1 in
    let! (param2, m2) := pop m1 in
    if optype =? 1 then Ok (push m2 (UStrOp "name" index None (ObjRef KMenu (name_of param2) index param2)))
    else if optype =? 2 then Ok (push m2 (UStrOp "number" index None (MenuItemsAcc index (ObjRef KMenu (name_of param2) index param2))))
    else Err EOther
  | OMenuitemProps =>
    let! (pi, m1) := pop m in
    let! property_index := int_name pi in
    let! (menu_id, m2) := pop m1 in
    let! (item_id, m3) := pop m2 in
    let! prop := nth_name MENUITEM_PROPERTIES property_index in
    Ok (push m3 (Accessor index (MenuItemAcc index (ObjRef KMenu (name_of menu_id) index menu_id)
                                               (ObjRef KMenuItem (name_of item_id) index item_id)) prop))
  | OAssignMenuitemProps =>
    let! (pi, m1) := pop m in
    let! property_index := int_name pi in
    let! (value, m2) := pop m1 in
    let! (menu_id, m3) := pop m2 in
    let! (item_id, m4) := pop m3 in
    let! prop := nth_name MENUITEM_PROPERTIES property_index in
    Ok (stmt_assign m4 index (Accessor index (MenuItemAcc index (ObjRef KMenu (name_of menu_id) index menu_id)
                                                            (ObjRef KMenuItem (name_of item_id) index item_id)) prop) value)
  | OSoundProps => obj_prop m index KSound SOUND_PROPERTIES
  | OAssignSoundProps => assign_obj_prop m index KSound SOUND_PROPERTIES
  | OSpriteProps => obj_prop m index KSprite SPRITE_PROPERTIES
  | OAssignSpriteProps => assign_obj_prop m index KSprite SPRITE_PROPERTIES
  | OSystemProps => system_props m index
  | OAssignSystemProps => let! m1 := system_props m index in assign_top m1 index
  | ONumberOfCastElements =>
    let! (param, m1) := pop m in
    let! optype := int_name param in
    let! ty := nth_name NUM_OF_TYPES optype in
    if String.eqb ty "perFrameHook" then Ok (push m1 (Accessor index (local_of "_system" index) "perFrameHook"))
    else Ok (push m1 (UStrOp "number" index None (local_of ty index)))
  | OCastProps => obj_prop m index KCast CAST_PROPERTIES
  | OAssignCastProps => assign_obj_prop m index KCast CAST_PROPERTIES
  | OFieldProps =>
    let! (pi, m1) := pop m in
    let! property_index := int_name pi in
    let! (o, m2) := pop m1 in
    let! prop := nth_name CAST_PROPERTIES property_index in
    Ok (push m2 (Accessor index (Unary "field" index o) prop))
  | OAssignFieldProps => assign_obj_prop m index KCast CAST_PROPERTIES
  | OVideoProps => obj_prop m index KCast VIDEO_PROPERTIES
  | OAssignVideoProps => assign_obj_prop m index KCast VIDEO_PROPERTIES
  | OPropertyAccessor =>
    let! prop := nth_name names p1 in
    let! (o, m1) := pop m in Ok (push m1 (Accessor index o prop))
  | OAssignPropertyAccessor =>
    let! (value, m1) := pop m in
    let! (nd, m2) := pop m1 in
    let! prop := nth_name names p1 in
    Ok (stmt_assign m2 index (Accessor index nd prop) value)
  | OKeyPropertyAccessor =>
    let! prop := nth_name names p1 in
    let! (e, m1) := pop m in
    match e with
    | LoadList _ _ [] => Ok (push m1 (KeyAccessor index prop))
    | _ => Err EOther
    end
  | OCopySymbol =>
    let st := rev (m_stack m) in
    let! x := of_option EIndex (PyBytes.index st (zlen st - 1 - p1)) in
    Ok (push m x)
  | ODiscardSymbols => let! (_, m1) := popn (Z.to_nat p1) m in Ok m1
  | OToList =>
    let! (o, m1) := pop m in
    if is_loadlist o then Ok (push m1 (ToList index o)) else Err EOther
  | OToDict =>
    let! (o, m1) := pop m in
    match o with
    | LoadList _ _ ops => if Nat.even (List.length ops) then Ok (push m1 (ToDict index o)) else Err EIndex
    | _ => Err EOther
    end
  | OLoadList name => let! (ops, m1) := popn (Z.to_nat p1) m in Ok (push m1 (LoadList name index ops))
  | OLoadLongList name => let! (ops, m1) := popn (Z.to_nat (p1 * 256 + p2)) m in Ok (push m1 (LoadList name index ops))
  | OStringOperation =>
    let! (op, m1) := pop m in
    let! (op', m2) := add_modifiers op m1 index in Ok (push m2 op')
  | OHilite =>
    let! (o, m1) := pop m in
    let! (fld, m2) := add_modifiers (Unary "field" index o) m1 index in
    Ok (add_stmt m2 index (Unary "hilite" index fld))
  | OPutField mode =>
    let! (o, m1) := pop m in
    let! (fld, m2) := add_modifiers (Unary "field" index o) m1 index in
    let! (r, m3) := pop m2 in
    Ok (add_stmt m3 index (SpAssign index fld r mode))
  | OPutList mode =>
    let! (lv, m1) := pop m in
    let! (lv', m2) := add_modifiers lv m1 index in
    let! (r, m3) := pop m2 in
    Ok (add_stmt m3 index (SpAssign index lv' r mode))
  | OPutString mode =>
    let! (a, m1) := pop m in
    let! op1 := int_name a in
    let '(m1, idx) := scale m1 op1 in
    let! lv := of_option EIndex (PyBytes.index (f_locals (m_fn m1)) idx) in
    let! (lv', m2) := add_modifiers lv m1 index in
    let! (r, m3) := pop m2 in
    Ok (add_stmt m3 index (SpAssign index lv' r mode))
  | ODeleteFromList =>
    let! (lv, m1) := pop m in
    let! (lv', m2) := add_modifiers lv m1 index in
    Ok (add_stmt m2 index (Unary "delete" index lv'))
  | ODeleteFromString =>
    let! (a, m1) := pop m in
    let! op1 := int_name a in
    let '(m1, idx) := scale m1 op1 in
    let! lv := of_option EIndex (PyBytes.index (f_locals (m_fn m1)) idx) in
    let! (lv', m2) := add_modifiers lv m1 index in
    Ok (add_stmt m2 index (Unary "delete" index lv'))
  | ODeleteFromField =>
    let! (o, m1) := pop m in
    let! (fld, m2) := add_modifiers (Unary "field" index o) m1 index in
    Ok (add_stmt m2 index (Unary "delete" index fld))
  end.

(* ---------------------------------------------------------------- parse_opcodes (the instruction loop) *)
(* operand registers of the shared opcode objects: opcode byte -> (param1, param2) *)
Definition regs := list (Z * (Z * Z)).
Fixpoint reg_get (r : regs) (op : Z) : Z * Z :=
  match r with [] => (0, 0) | (k, v) :: t => if k =? op then v else reg_get t op end.
Definition reg_set (r : regs) (op : Z) (v : Z * Z) : regs := (op, v) :: r.

Definition byte_at (d : bytes) (i : Z) : result Z := of_option EIndex (option_map u8 (PyBytes.index d i)).

Fixpoint assocZ {V} (k : Z) (t : list (Z * V)) : option V :=
  match t with [] => None | (k', v) :: r => if k =? k' then Some v else assocZ k r end.

(* one instruction at idxc: decodes it, updates the registers, runs process; returns the next address *)
Definition step (d : bytes) (idxc : Z) (r : regs) (m : mstate) : result (Z * regs * mstate) :=
  let index := idxc in
  let! opcode := byte_at d idxc in
  match assocZ opcode OPCODES with
  | None => Err EOther
  | Some (nbytes, kind, proc, attr) =>
    if nbytes =? 2 then
      let! opcode2 := byte_at d (idxc + 1) in
      if String.eqb kind "BiOpcode" then
        match assocZ (opcode * 256 + opcode2) BI_OPCODES with
        | None => Err EKey
        | Some (_, _, proc2, attr2) =>
          let! oc := of_option ENotImpl (opclass_of proc2 attr2) in
          let! m' := process oc 0 0 index m in Ok (idxc + 2, r, m')
        end
      else
        let r' := reg_set r opcode (opcode2, snd (reg_get r opcode)) in
        let! oc := of_option ENotImpl (opclass_of proc attr) in
        let '(p1, p2) := reg_get r' opcode in
        let! m' := process oc p1 p2 index m in Ok (idxc + 2, r', m')
    else if nbytes =? 3 then
      let! opcode2 := byte_at d (idxc + 1) in
      let! opcode3 := byte_at d (idxc + 2) in
      let r' := reg_set r opcode (opcode2, opcode3) in
      let! oc := of_option ENotImpl (opclass_of proc attr) in
      let '(p1, p2) := reg_get r' opcode in
      let! m' := process oc p1 p2 index m in Ok (idxc + 3, r', m')
    else
      let! oc := of_option ENotImpl (opclass_of proc attr) in
      let '(p1, p2) := reg_get r opcode in
      let! m' := process oc p1 p2 index m in Ok (idxc + 1, r, m')
  end.

Fixpoint run_ops (fuel : nat) (d : bytes) (bc_off bc_length idxc : Z) (r : regs) (m : mstate) : result (regs * mstate) :=
  if negb (idxc - bc_off <? bc_length) then Ok (r, m) else
  match fuel with
  | O => OutOfFuel
  | S f => let! (next, r', m') := step d idxc r m in run_ops f d bc_off bc_length next r' m'
  end.
