(* The updates the Python generators make to the tree while walking it, as explicit functions:
     Statement.generate_lingo     code.use_parenthesis = False             (when the code is a CallFunction)
     Symbol.generate_lingo        self.use_hash = False                    (when the name is a known symbol)
     CallFunction.gv_as_sym       operands[last] = GlobalVariable(...)     (both generators; list functions only)
     generate_lingo_code          f.global_vars = sorted(f.global_vars)
   [mut_lingo t] / [mut_js t] is the tree after generate_lingo / generate_js has returned; only nodes the
   generator actually visits are updated (the modifier of a 'sound' command and the statements after a final
   'exit' are not).  Model/LingoGen.v reads a tree the same way whether or not these updates happened; that is
   what Proofs/LingoMutFacts.v proves. *)
From Coq Require Import ZArith List Bool String.
From DRX Require Import Py.PyString Model.LingoAst Model.LingoGen Gen.Gen_Lingo.
Import ListNotations.
Open Scope string_scope.

(* gv_as_sym as an update of the operand list *)
Definition gv_update (name : string) (ops : list node) : list node := gv_as_sym name ops.

(* apply f to all elements but the last *)
Section MapButLast.
  Context {A : Type} (f : A -> A).
  Fixpoint map_but_last (l : list A) : list A :=
    match l with
    | [] => []
    | [x] => [x]
    | x :: r => f x :: map_but_last r
    end.
End MapButLast.

(* [mutg true] = the tree after generate_lingo, [mutg false] = after generate_js *)
Fixpoint mutg (ml : bool) (n : node) {struct n} : node :=
  match n with
  | Leaf _ _ _ _ => n
  | Unary nm p o => Unary nm p (mutg ml o)
  | Binary nm p l r => Binary nm p (mutg ml l) (mutg ml r)
  | SpAssign p l r mode => SpAssign p (mutg ml l) (mutg ml r) mode
  | StrOp nm p s e o => StrOp nm p (mutg ml s) (option_map (mutg ml) e) (mutg ml o)
  | UStrOp nm p ty o => UStrOp nm p ty (mutg ml o)
  | Accessor p o prop => Accessor p (mutg ml o) prop
  | KeyAccessor _ _ => n
  | MenuItemAcc p m i => MenuItemAcc p (mutg ml m) (mutg ml i)
  | MenuItemsAcc p m => MenuItemsAcc p (mutg ml m)
  | LoadList nm p ops => LoadList nm p (map (mutg ml) ops)
  | ToList p o => ToList p (match o with LoadList nm lp ops => LoadList nm lp (map (mutg ml) ops) | _ => o end)
  | ToDict p o => ToDict p (match o with LoadList nm lp ops => LoadList nm lp (map (mutg ml) ops) | _ => o end)
  | Stmt p code =>
    Stmt p (match mutg ml code with
            | Call nm cp params up it wr => Call nm cp params (if ml then false else up) it wr
            | c => c
            end)
  | Call nm p params up it wr =>
    Call nm p (match params with
               | Some (LoadList ln lp ops) =>
                 (* operands visited: all, or (Lingo) all but the modifier of a sound command *)
                 Some (LoadList ln lp (gv_update nm (if ml && String.eqb nm "sound" then map_but_last (mutg ml) ops
                                                     else map (mutg ml) ops)))
               | other => other
               end) up it wr
  | CallMethod nm p o params => CallMethod nm p (mutg ml o) (mutg ml params)
  | Repeat p e c body ty st en v sg =>
    Repeat p e (mutg ml c) (map (mutg ml) body) ty
           (if String.eqb ty "while" then st else option_map (mutg ml) st)
           (if ml && String.eqb ty "for" then option_map (mutg ml) en else en) v sg
  | IfThen p c a b => IfThen p (mutg ml c) (map (mutg ml) a) (map (mutg ml) b)
  | Jump _ _ | Jz _ _ _ | ExitRepeat _ => n
  | Tell p o body => Tell p (mutg ml o) (map (mutg ml) body)
  | ObjRef k nm p i => ObjRef k nm p (mutg ml i)
  end.
Definition mut_lingo := mutg true.
Definition mut_js := mutg false.

(* statements a script-level generator walks: all but a final exit *)
Definition mut_stmts (f : node -> node) (sts : list node) : list node :=
  let k := List.length (emitted_stmts sts) in map f (firstn k sts) ++ skipn k sts.

Definition mut_fn_lingo (f : fndef) : fndef :=
  Build_fndef (f_name f) (f_pos f) (f_params f) (f_locals f) (sort_by_name (f_globals f)) (mut_stmts mut_lingo (f_stmts f)) (f_is_method f).
Definition mut_fn_js (f : fndef) : fndef :=
  Build_fndef (f_name f) (f_pos f) (f_params f) (f_locals f) (f_globals f) (mut_stmts mut_js (f_stmts f)) (f_is_method f).
Definition mut_script_lingo (sc : script) : script :=
  Build_script (s_props sc) (s_globals sc) (map mut_fn_lingo (s_funcs sc)) (s_scr_num sc) (s_cont sc) (s_factory sc).
Definition mut_script_js (sc : script) : script :=
  Build_script (s_props sc) (s_globals sc) (map mut_fn_js (s_funcs sc)) (s_scr_num sc) (s_cont sc) (s_factory sc).

(* a history of generator calls on one tree: the texts, in order *)
Inductive gop := GL | GJ.
Fixpoint run_history (sc : script) (ops : list gop) : list (gop * string) :=
  match ops with
  | [] => []
  | GL :: r => (GL, generate_lingo_code sc) :: run_history (mut_script_lingo sc) r
  | GJ :: r => (GJ, generate_js_code sc) :: run_history (mut_script_js sc) r
  end.
