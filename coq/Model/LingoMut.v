(* The updates the Python generators make to the tree while walking it, as explicit functions:
     Statement.generate_lingo     code.use_parenthesis = False             (when the code is a CallFunction)
     Symbol.generate_lingo        self.use_hash = False                    (when the name is a known symbol)
     CallFunction.gv_as_sym       operands[last] = GlobalVariable(...)     (both generators; list functions only)
     generate_lingo_code          f.global_vars = sorted(f.global_vars)
   [mut_lingo t] / [mut_js t] is the tree after generate_lingo / generate_js has returned; only nodes the
   generator actually visits are updated (the modifier of a 'sound' command and the statements after a final
   'exit' are not).  Model/LingoGen.v reads a tree the same way whether or not these updates happened; that is
   what Proofs/LingoMutFacts.v proves. *)
From Coq Require Import ZArith List Bool String.
From DRX Require Import Py.PyString Model.LingoAst Model.LingoGen Gen.Gen_Lingo.
Import ListNotations.
Open Scope string_scope.

(* gv_as_sym as an update of the operand list *)
Definition gv_update (name : string) (ops : list node) : list node := gv_as_sym name ops.

(* apply f to all elements but the last *)
Section MapButLast.
  Context {A : Type} (f : A -> A).
  Fixpoint map_but_last (l : list A) : list A :=
    match l with
    | [] => []
    | [x] => [x]
    | x :: r => f x :: map_but_last r
    end.
End MapButLast.

Fixpoint mut_lingo (n : node) {struct n} : node :=
  match n with
  | Leaf KSymbol name p flag => Leaf KSymbol name p (if mem_str name CONST_KNOWN_SYMBOLS then false else flag)
  | Leaf _ _ _ _ => n
  | Unary nm p o => Unary nm p (mut_lingo o)
  | Binary nm p l r => Binary nm p (mut_lingo l) (mut_lingo r)
  | SpAssign p l r mode => SpAssign p (mut_lingo l) (mut_lingo r) mode
  | StrOp nm p s e o => StrOp nm p (mut_lingo s) (option_map mut_lingo e) (mut_lingo o)
  | UStrOp nm p ty o => UStrOp nm p ty (mut_lingo o)
  | Accessor p o prop => Accessor p (mut_lingo o) prop
  | KeyAccessor _ _ => n
  | MenuItemAcc p m i => MenuItemAcc p (mut_lingo m) (mut_lingo i)
  | MenuItemsAcc p m => MenuItemsAcc p (mut_lingo m)
  | LoadList nm p ops => LoadList nm p (map mut_lingo ops)
  | ToList p o => ToList p (match o with LoadList nm lp ops => LoadList nm lp (map mut_lingo ops) | _ => o end)
  | ToDict p o => ToDict p (match o with LoadList nm lp ops => LoadList nm lp (map mut_lingo ops) | _ => o end)
  | Stmt p code =>
    Stmt p (match mut_lingo code with
            | Call nm cp params _ it wr => Call nm cp params false it wr
            | c => c
            end)
  | Call nm p params up it wr =>
    Call nm p (match params with
               | Some (LoadList ln lp ops) =>
                 (* operands visited: all, or all but the modifier of a sound command *)
                 Some (LoadList ln lp (gv_update nm (if String.eqb nm "sound" then map_but_last mut_lingo ops
                                                     else map mut_lingo ops)))
               | other => other
               end) up it wr
  | CallMethod nm p o params => CallMethod nm p (mut_lingo o) (mut_lingo params)
  | Repeat p e c body ty st en v sg =>
    Repeat p e (mut_lingo c) (map mut_lingo body) ty
           (if String.eqb ty "while" then st else option_map mut_lingo st)
           (if String.eqb ty "for" then option_map mut_lingo en else en) v sg
  | IfThen p c a b => IfThen p (mut_lingo c) (map mut_lingo a) (map mut_lingo b)
  | Jump _ _ | Jz _ _ _ | ExitRepeat _ => n
  | Tell p o body => Tell p (mut_lingo o) (map mut_lingo body)
  end.

Fixpoint mut_js (n : node) {struct n} : node :=
  match n with
  | Leaf _ _ _ _ => n
  | Unary nm p o => Unary nm p (mut_js o)
  | Binary nm p l r => Binary nm p (mut_js l) (mut_js r)
  | SpAssign p l r mode => SpAssign p (mut_js l) (mut_js r) mode
  | StrOp nm p s e o => StrOp nm p (mut_js s) (option_map mut_js e) (mut_js o)
  | UStrOp nm p ty o => UStrOp nm p ty (mut_js o)
  | Accessor p o prop => Accessor p (mut_js o) prop
  | KeyAccessor _ _ => n
  | MenuItemAcc p m i => MenuItemAcc p (mut_js m) (mut_js i)
  | MenuItemsAcc p m => MenuItemsAcc p (mut_js m)
  | LoadList nm p ops => LoadList nm p (map mut_js ops)
  | ToList p o => ToList p (match o with LoadList nm lp ops => LoadList nm lp (map mut_js ops) | _ => o end)
  | ToDict p o => ToDict p (match o with LoadList nm lp ops => LoadList nm lp (map mut_js ops) | _ => o end)
  | Stmt p code => Stmt p (mut_js code)
  | Call nm p params up it wr =>
    Call nm p (match params with
               | Some (LoadList ln lp ops) => Some (LoadList ln lp (gv_update nm (map mut_js ops)))
               | other => other
               end) up it wr
  | CallMethod nm p o params => CallMethod nm p (mut_js o) (mut_js params)
  | Repeat p e c body ty st en v sg =>
    Repeat p e (mut_js c) (map mut_js body) ty
           (if String.eqb ty "while" then st else option_map mut_js st) en v sg
  | IfThen p c a b => IfThen p (mut_js c) (map mut_js a) (map mut_js b)
  | Jump _ _ | Jz _ _ _ | ExitRepeat _ => n
  | Tell p o body => Tell p (mut_js o) (map mut_js body)
  end.

(* statements a script-level generator walks: all but a final exit *)
Definition mut_stmts (f : node -> node) (sts : list node) : list node :=
  let k := List.length (emitted_stmts sts) in map f (firstn k sts) ++ skipn k sts.

Definition mut_fn_lingo (f : fndef) : fndef :=
  Build_fndef (f_name f) (f_pos f) (f_params f) (f_locals f) (sort_by_name (f_globals f)) (mut_stmts mut_lingo (f_stmts f)) (f_is_method f).
Definition mut_fn_js (f : fndef) : fndef :=
  Build_fndef (f_name f) (f_pos f) (f_params f) (f_locals f) (f_globals f) (mut_stmts mut_js (f_stmts f)) (f_is_method f).
Definition mut_script_lingo (sc : script) : script :=
  Build_script (s_props sc) (s_globals sc) (map mut_fn_lingo (s_funcs sc)) (s_scr_num sc) (s_cont sc) (s_factory sc).
Definition mut_script_js (sc : script) : script :=
  Build_script (s_props sc) (s_globals sc) (map mut_fn_js (s_funcs sc)) (s_scr_num sc) (s_cont sc) (s_factory sc).

(* a history of generator calls on one tree: the texts, in order *)
Inductive gop := GL | GJ.
Fixpoint run_history (sc : script) (ops : list gop) : list (gop * string) :=
  match ops with
  | [] => []
  | GL :: r => (GL, generate_lingo_code sc) :: run_history (mut_script_lingo sc) r
  | GJ :: r => (GJ, generate_js_code sc) :: run_history (mut_script_js sc) r
  end.
