(* Model of drxtract/clut/clut.py (clut2rgb, clut2palette), bitd/decoder.py writeColorPalette and
   the BMP header writers, common/__init__.py get_palette_name (in Model/Index.v). *)
From Coq Require Import List ZArith Bool.
From Coq.Strings Require Import Byte.
From DRX Require Import Py.PyBytes Py.PyStr Model.Riff Gen.Gen_Palettes.
Import ListNotations.
Open Scope Z_scope.

Definition idx_or_err (d : bytes) (i : Z) : result byte := of_option EIndex (index d i).

(* while idx < len(fdata): r0 = fdata[idx]; g0 = fdata[idx+2]; b0 = fdata[idx+4]; idx += 6 *)
Fixpoint clut2rgb_loop (fuel : nat) (d : bytes) (idx : Z) : result (list (byte * byte * byte)) :=
  if idx <? zlen d then
    match fuel with
    | O => OutOfFuel
    | S f =>
      let! r := idx_or_err d idx in
      let! g := idx_or_err d (idx + 2) in
      let! b := idx_or_err d (idx + 4) in
      let! rest := clut2rgb_loop f d (idx + 6) in
      Ok ((r, g, b) :: rest)
    end
  else Ok [].
Definition clut2rgb (d : bytes) : result (list (byte * byte * byte)) := clut2rgb_loop (S (length d)) d 0.

(* for _ in range(256): b, g, r, 0 *)
Fixpoint clut2palette_loop (n : nat) (d : bytes) (idx : Z) : result bytes :=
  match n with
  | O => Ok []
  | S m =>
    let! r := idx_or_err d idx in
    let! g := idx_or_err d (idx + 2) in
    let! b := idx_or_err d (idx + 4) in
    let! rest := clut2palette_loop m d (idx + 6) in
    Ok (b :: g :: r :: x00 :: rest)
  end.
Definition clut2palette (d : bytes) : result bytes := clut2palette_loop 256 d 0.

Fixpoint assoc_bytes {V} (k : bytes) (t : list (bytes * V)) : option V :=
  match t with [] => None | (k', v) :: r => if bytes_eqb k' k then Some v else assoc_bytes k r end.

Definition s_default : bytes := ["d";"e";"f";"a";"u";"l";"t"]%byte.

(* struct.pack('B'*n, *values): exactly n values *)
Definition pack_table (n : Z) (t : bytes) : result bytes := if zlen t =? n then Ok t else Err EStruct.

Definition write_color_palette (nbits ncolors : Z) (name : bytes) (data : bytes) : result bytes :=
  let len := ncolors * 4 in
  if 0 <? zlen data then pack_table len (slice data 0 len)
  else
    match assoc nbits PALETTES with
    | Some tbls =>
      match assoc_bytes name tbls with
      | Some t => pack_table len t
      | None => match assoc_bytes s_default tbls with Some t => pack_table len t | None => Err EKey end
      end
    | None => Ok []
    end.

(* 'BM' + struct.pack('<ihhi', size, 0, 0, offset) *)
Definition bmp_header (size offset : Z) : bytes :=
  ["B"; "M"]%byte ++ pack 4 Little size ++ pack 2 Little 0 ++ pack 2 Little 0 ++ pack 4 Little offset.
(* struct.pack('<iiihhiiiiii', 40, w, h, 1, bpp, 0, 0, 0, 0, ncolors, ncolors) *)
Definition bmp_info_header (w h bpp ncolors : Z) : bytes :=
  pack 4 Little 40 ++ pack 4 Little w ++ pack 4 Little h ++ pack 2 Little 1 ++ pack 2 Little bpp ++
  pack 4 Little 0 ++ pack 4 Little 0 ++ pack 4 Little 0 ++ pack 4 Little 0 ++ pack 4 Little ncolors ++ pack 4 Little ncolors.
