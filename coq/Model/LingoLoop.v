(* Control-flow reconstruction: lingosrc/parse/loop_detection.py.
   The Python code edits statement lists in place (list.remove goes through Node.__eq__, i.e. class,
   name and position); here every function returns the edited list.  Recursion into nested lists is on
   explicit fuel (the nesting depth is bounded by the number of statements). *)
From Coq Require Import ZArith List Bool String.
From DRX Require Import Py.PyBytes Py.PyString Model.LingoAst Model.LingoGen Model.LingoOps.
Import ListNotations.
Open Scope string_scope.
Open Scope list_scope.
Open Scope Z_scope.

Definition lt_opt (e : option Z) (a : Z) : bool := match e with Some x => x <? a | None => false end.

(* ---- break_detect_in_statements ---- *)
Definition break_detect (sts : list node) (rep_end : option Z) : list node :=
  match rep_end with
  | None => sts
  | Some e =>
    match rev sts with
    | else_jump :: Stmt _ (Jump jpos jaddr) :: before =>
      if e <? jaddr then rev before ++ [Stmt jpos (ExitRepeat jpos); else_jump] else sts
    | _ => sts
    end
  end.

(* ---- first pass of condition_detect_in_statements: which jz statements open an if ---- *)
Record scan_state := { sc_addr : option Z; sc_prev : option node; sc_in_else : bool; sc_jz : list node }.

Definition scan_step (rep_end : option Z) (s : scan_state) (st : node) : scan_state :=
  if match sc_addr s with Some a => pos_of st <? a | None => false end
  then Build_scan_state (sc_addr s) (Some st) (sc_in_else s) (sc_jz s)
  else
    let s1 := if sc_in_else s then Build_scan_state None None false (sc_jz s) else s in
    match sc_prev s1 with
    | Some (Stmt _ (Jump _ jaddr)) => Build_scan_state (Some jaddr) (sc_prev s1) true (sc_jz s1)
    | _ =>
      match st with
      | Stmt _ (Jz p c a) =>
        Build_scan_state (if lt_opt rep_end a then None else Some a) (sc_prev s1) (sc_in_else s1) (sc_jz s1 ++ [Jz p c a])
      | _ => s1
      end
    end.
Definition scan_jz (rep_end : option Z) (sts : list node) : list node :=
  sc_jz (fold_left (scan_step rep_end) sts (Build_scan_state None None false [])).

(* "for index in range(len(statements))": statements of the then-part *)
Fixpoint collect_if (op : node) (start en : Z) (sts : list node) : list node :=
  match sts with
  | [] => []
  | st :: r =>
    if node_eq (code_of st) op then collect_if op start en r
    else
      let here := if (start <=? pos_of st) && (pos_of st <? en) then [st] else [] in
      if en <=? pos_of st then here else here ++ collect_if op start en r
  end.
Fixpoint collect_else (start en : Z) (sts : list node) : list node :=
  match sts with
  | [] => []
  | st :: r =>
    let here := if (start <? pos_of st) && (pos_of st <? en) then [st] else [] in
    if en <=? pos_of st then here else here ++ collect_else start en r
  end.

Definition set_code (st : node) (c : node) : node := match st with Stmt p _ => Stmt p c | _ => st end.
Fixpoint replace_code_first (op ifop : node) (sts : list node) : list node :=
  match sts with
  | [] => []
  | st :: r => if node_eq (code_of st) op then set_code st ifop :: r else st :: replace_code_first op ifop r
  end.
Definition replace_code_all (op ifop : node) (sts : list node) : list node :=
  map (fun st => if node_eq (code_of st) op then set_code st ifop else st) sts.

Fixpoint stmt_count (n : node) : nat :=
  match n with
  | Stmt _ c => S (stmt_count c)
  | Repeat _ _ _ body _ _ _ _ _ => S (fold_right (fun x a => stmt_count x + a)%nat O body)
  | IfThen _ _ a b => S (fold_right (fun x acc => stmt_count x + acc)%nat O a + fold_right (fun x acc => stmt_count x + acc)%nat O b)
  | Tell _ _ body => S (fold_right (fun x a => stmt_count x + a)%nat O body)
  | _ => 1%nat
  end.
Definition stmts_count (l : list node) : nat := fold_right (fun x a => stmt_count x + a)%nat O l.

Fixpoint map_result {A B} (f : A -> result B) (l : list A) : result (list B) :=
  match l with
  | [] => Ok []
  | x :: r => let! y := f x in let! ys := map_result f r in Ok (y :: ys)
  end.

(* inside a loop, a forward jump past the end of the loop is an exit repeat, wherever it stands *)
Definition exit_jumps (sts : list node) (rep_end : option Z) : list node :=
  match rep_end with
  | None => sts
  | Some e => map (fun st => match st with
                             | Stmt p (Jump _ addr) => if e <? addr then Stmt p (ExitRepeat p) else st
                             | _ => st
                             end) sts
  end.

Fixpoint condition_detect (fuel : nat) (sts : list node) (rep_end : option Z) : result (list node) :=
  match fuel with
  | O => OutOfFuel
  | S f =>
    let sts := exit_jumps sts rep_end in
    (* loops nested at this level first (their bodies are separate lists) *)
    let! sts1 := map_result (fun st =>
        match st with
        | Stmt p (Repeat rp re c body ty a b v s) =>
          let! body' := condition_detect f body (Some re) in Ok (Stmt p (Repeat rp re c body' ty a b v s))
        | _ => Ok st
        end) sts in
    let jzs := scan_jz rep_end sts1 in
    fold_left (fun acc op =>
      let! cur := acc in
      match op with
      | Jz p cond addr =>
        if lt_opt rep_end addr then
          Ok (replace_code_first op (IfThen p (Unary "not" p cond) [Stmt p (ExitRepeat p)] []) cur)
        else
          let if_list := collect_if op p addr cur in
          let! cur1 := remove_all if_list cur in
          let! if2 := condition_detect f (break_detect if_list rep_end) rep_end in
          match rev if2 with
          | [] => Err EIndex
          | Stmt _ (Jump jpos jaddr) :: before =>
            if lt_opt rep_end jaddr then
              Ok (replace_code_all op (IfThen p cond (rev before ++ [Stmt jpos (ExitRepeat jpos)]) []) cur1)
            else
              let else_list := collect_else jpos jaddr cur1 in
              let! cur2 := remove_all else_list cur1 in
              let! else2 := condition_detect f (break_detect else_list rep_end) rep_end in
              Ok (replace_code_all op (IfThen p cond (rev before) else2) cur2)
          | _ => Ok (replace_code_all op (IfThen p cond if2 []) cur1)
          end
      | _ => Ok cur
      end) jzs (Ok sts1)
  end.

(* ---- loop recognition ---- *)
Definition is_repeat_while (body : list node) : option node :=       (* the loop condition when it is one *)
  match body with
  | Stmt _ (IfThen _ (Unary nm _ operand) [Stmt _ (ExitRepeat _)] []) :: _ => if String.eqb nm "not" then Some operand else None
  | _ => None
  end.

Definition is_assign (n : node) : bool := match n with Binary nm _ _ _ => String.eqb nm "assign" | _ => false end.

Definition is_repeat_with (cond : node) (body : list node) (prev : option node) : bool :=
  match prev with
  | Some (Stmt _ (Binary pn _ pl _)) =>
    String.eqb pn "assign" &&
    match cond with
    | Binary cn _ cl _ =>
      name_eq pl cl &&
      match rev body with
      | Stmt _ (Binary ln _ ll lr) :: _ =>
        String.eqb ln "assign" && name_eq pl ll &&
        match lr with
        | Binary inc _ il ir =>
          name_eq ir ll && String.eqb inc "add" && is_const il &&
          ((String.eqb cn "lte" && name_is il "1") || (String.eqb cn "gte" && name_is il "-1"))
        | _ => false
        end
      | _ => false
      end
    | _ => false
    end
  | _ => false
  end.

(* None: not a list loop; Some (Ok (varname, list)) ; Some (Err _): the check itself raises *)
Definition is_repeat_with_in_list (cond : node) (body : list node) : result (option (string * node)) :=
  match cond with
  | Binary _ _ (Leaf k idx _ _ as cl) (Call cname _ cparams _ _ _) =>
    if negb (is_const cl) then Ok None else
    if negb (name_is cl "1") || negb (String.eqb cname "count") then Ok None else
    match body with
    | Stmt _ (Binary an _ al ar) :: _ =>
      if negb (String.eqb an "assign") then Ok None else
      match ar with
      | Call gname _ gparams _ _ _ =>
        if negb (String.eqb gname "getAt") then Ok None else
        match cparams, gparams with
        | Some (LoadList _ _ (c0 :: _)), Some (LoadList _ _ (g0 :: g1 :: _)) =>
          if negb (node_eq c0 g1) || negb (name_is g0 "1") then Ok None else Ok (Some (name_of al, g1))
        | _, _ => Err EIndex
        end
      | _ => Ok None
      end
    | _ => Ok None
    end
  | _ => Ok None
  end.

Fixpoint loop_detect (fuel : nat) (sts : list node) : result (list node) :=
  match fuel with
  | O => OutOfFuel
  | S f =>
    let! (out, _, to_remove) :=
      fold_left (fun acc st =>
        let! (out, prev, rm) := acc in
        match st with
        | Stmt p (Repeat rp re cond body ty a b v s) =>
          let '(cond1, body1) := match is_repeat_while body with Some c => (c, tl body) | None => (cond, body) end in
          let is_with := is_repeat_with cond1 body1 prev in
          let '(ty2, a2, b2, v2, s2, body2, rm2) :=
            if is_with then
              match prev, cond1, rev body1 with
              | Some (Stmt _ (Binary _ _ pl pr) as pst), Binary _ _ _ cr, Stmt _ (Binary _ _ _ (Binary _ _ inc _)) :: before =>
                ("for", Some pr, Some cr, name_of pl,
                 (if is_const inc && name_is inc "-1" then "-" else "+"), rev before, rm ++ [pst])
              | _, _, _ => (ty, a, b, v, s, body1, rm)
              end
            else (ty, a, b, v, s, body1, rm) in
          let! inlist := is_repeat_with_in_list cond1 body2 in
          let '(ty3, a3, v3, body3) :=
            match inlist with
            | Some (vn, lst) => ("for_in", Some lst, vn, tl body2)
            | None => (ty2, a2, v2, body2)
            end in
          let! body4 := loop_detect f body3 in
          let st' := Stmt p (Repeat rp re cond1 body4 ty3 a3 b2 v3 s2) in
          Ok (out ++ [st'], Some st', rm2)
        | Stmt p (IfThen ip c ifs elses) =>
          let! ifs' := loop_detect f ifs in
          let! elses' := loop_detect f elses in
          let st' := Stmt p (IfThen ip c ifs' elses') in
          Ok (out ++ [st'], Some st', rm)
        | _ => Ok (out ++ [st], Some st, rm)
        end) sts (Ok ([], None, [])) in
    remove_all to_remove out
  end.

(* the end of parse_opcodes *)
Definition detect (sts : list node) : result (list node) :=
  let fuel := S (S (stmts_count sts)) in
  let! a := condition_detect fuel sts None in
  loop_detect (S (S (stmts_count a))) a.
