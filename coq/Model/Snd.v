(* Model of drxtract/snd: format.py (header + command list), command/bufferCmd.py (_get_frames),
   snd2sampled.py (snd_to_sampled). *)
From Coq Require Import List ZArith Bool.
From Coq.Strings Require Import Byte.
From DRX Require Import Py.PyBytes Py.Layout.
Import ListNotations.
Open Scope Z_scope.

Record sound := { nch : Z; bps : Z; rate : Z }.
Definition sound0 : sound := {| nch := 1; bps := 8; rate := 16000 |}.

(* sound header: samplePtr, length/numChannels, rate (16.16: unsigned integer part, fraction),
   loopStart, loopEnd, encode, baseFrequency *)
Definition sh_layout : layout := [FS 4; FS 4; FU 2; FS 2; FS 4; FS 4; FU 1; FU 1].
(* extended part: numFrames, 10-byte AIFF rate, marker, instruments, AES, sample size, 2+4+4+4 future *)
Definition ext_layout : layout := [FS 4; FSkip 10; FS 4; FS 4; FS 4; FS 2; FS 2; FS 4; FS 4; FS 4].

(* for i in range(0, length*2, 2): data[i] = fdata[idx+i+1]; data[i+1] = fdata[idx+i] *)
Fixpoint swap_loop (fuel : nat) (n : Z) (d : bytes) (pos : Z) : result bytes :=
  if n <=? 0 then Ok [] else
  match fuel with
  | O => OutOfFuel
  | S f =>
    let! h := of_option EIndex (index d (pos + 1)) in
    let! l := of_option EIndex (index d pos) in
    let! r := swap_loop f (n - 1) d (pos + 2) in
    Ok (h :: l :: r)
  end.

Definition get_frames (s : sound) (idx : Z) (d : bytes) : result (sound * bytes) :=
  let! h := read_layout Big sh_layout d idx in
  if negb (getv h 0 =? 0) then Err EValue else
  if negb (getv h 7 =? 60) then Err EValue else
  let s1 := {| nch := nch s; bps := bps s; rate := getv h 2 |} in
  let idx := idx + 22 in
  let encode := getv h 6 in
  let! (s2, idx2, len) :=
    if encode =? 0 then
      if nch s1 =? 0 then Err EOther (* ZeroDivisionError in int(length/num_channels) *)
      else Ok (s1, idx, getv h 1)
    else if encode =? 255 then
      let! e := read_layout Big ext_layout d idx in
      let ch := getv h 1 in
      Ok ({| nch := ch; bps := getv e 4; rate := rate s1 |}, idx + 42, getv e 0 * ch)
    else Err EValue in
  if bps s2 =? 8 then Ok (s2, slice d idx2 (idx2 + len))
  else if bps s2 =? 16 then
    if (len <? 0) || (idx2 + len * 2 >? zlen d) then Err EValue (* sample area shorter than declared *)
    else let! b := swap_loop (S (length d)) len d idx2 in Ok (s2, b)
  else Err EValue.

(* command list *)
Fixpoint cmd_loop (fuel : nat) (n : Z) (d : bytes) (idx : Z) : result (list (Z * Z * Z)) :=
  if n <=? 0 then Ok [] else
  match fuel with
  | O => OutOfFuel
  | S f =>
    let! c := rd_s 2 Big d idx in
    let c := if c <? 0 then 65535 + c + 1 else c in
    let! p1 := rd_s 2 Big d (idx + 2) in
    let! p2 := rd_s 4 Big d (idx + 4) in
    let! r := cmd_loop f (n - 1) d (idx + 8) in
    Ok ((c, p1, p2) :: r)
  end.
Definition parse_snd_commands (d : bytes) (idx : Z) : result (list (Z * Z * Z)) :=
  let! n := rd_s 2 Big d idx in cmd_loop (S (length d)) n d (idx + 2).

Fixpoint dt_loop (fuel : nat) (n : Z) (d : bytes) (idx : Z) : result Z :=    (* returns the index after the records *)
  if n <=? 0 then Ok idx else
  match fuel with
  | O => OutOfFuel
  | S f =>
    let! t := rd_s 2 Big d idx in
    let! o := rd_s 4 Big d (idx + 2) in
    dt_loop f (n - 1) d (idx + 6)
  end.

Definition parse_snd_fmt (d : bytes) : result (list (Z * Z * Z)) :=
  let! fmt := rd_s 2 Big d 0 in
  if fmt =? 1 then
    let! nd := rd_s 2 Big d 2 in
    let! idx := dt_loop (S (length d)) nd d 4 in
    parse_snd_commands d idx
  else if fmt =? 2 then
    let! rc := rd_s 2 Big d 2 in
    parse_snd_commands d 4
  else Err EValue.

Fixpoint run_cmds (cmds : list (Z * Z * Z)) (s : sound) (d : bytes) : result (sound * bytes) :=
  match cmds with
  | [] => Ok (s, [])
  | (c, p1, p2) :: rest =>
    let! (s1, b) :=
      if c =? 0 then Ok (s, [])
      else if (c =? 32849) || (c =? 32848) then get_frames s p2 d     (* 0x8051 bufferCmd, 0x8050 soundCmd *)
      else Err EValue in
    let! (s2, b2) := run_cmds rest s1 d in
    Ok (s2, b ++ b2)
  end.

Definition snd_to_sampled (d : bytes) : result (sound * bytes) :=
  let! cmds := parse_snd_fmt d in run_cmds cmds sound0 d.
