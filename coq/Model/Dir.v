(* Model of drxtract/dir/dir.py parse_dir_file_data: composition of the chunk decoders modelled elsewhere
   (Riff, Index, Cast, Text, Snd, Clut, Bitd, Vwsc, Score).  The Lingo decompiler is a parameter. *)
From Coq Require Import List ZArith Bool String.
From Coq.Strings Require Import Byte.
From DRX Require Import Py.PyBytes Py.Layout Py.PyStr Model.Riff Model.Index Model.Vwsc Model.Cast Model.Text
  Model.Snd Model.Clut Model.Bitd Model.RL Model.Score Model.Xtract.
Import ListNotations.
Open Scope Z_scope.

Section Dir.
(* parse_lrcr_file_data + generate_lingo_code + generate_js_code: (scr_num, cont_scr_num, lingo, js) *)
Variable decompile : bytes -> list bytes -> result (Z * Z * bytes * bytes).

Record member := {
  m_cast : dict;                               (* parse_cast_file_data *)
  m_text : option (bytes * list Text.run);          (* 'text', 'txt_format' *)
  m_sound : option (sound * bytes);            (* 'sampled_sound' *)
  m_palette : option bytes;                    (* 'palette' set from a CLUT link *)
  m_bitmap : option bytes }.                   (* 'bitmap' *)

Definition fourcc (s : string) : bytes := list_byte_of_string s.
Arguments fourcc s%string.

Fixpoint locate (rs : list mmap_res) (id : bytes) : option mmap_res :=
  match rs with [] => None | r :: rest => if bytes_eqb (r_id r) id then Some r else locate rest id end.

Definition chunk_of (chunks : list chunk) (off : Z) (r : mmap_res) : result chunk := get_by_offset chunks (r_off r - off).
Definition located_chunk (chunks : list chunk) (off : Z) (rs : list mmap_res) (id : bytes) : result chunk :=
  match locate rs id with Some r => chunk_of chunks off r | None => Err EValue end.

(* int(castData['palette']) made robust (see the repaired dir.py): numeric strings only *)
Fixpoint digits_val (l : bytes) (acc : Z) : option Z :=
  match l with
  | [] => Some acc
  | c :: r => let v := u8 c in if (48 <=? v) && (v <=? 57) then digits_val r (acc * 10 + (v - 48)) else None
  end.
Definition parse_int_str (s : bytes) : option Z :=
  match s with
  | [] => None
  | c :: r => if Byte.eqb c "-"%byte then (match r with [] => None | _ => option_map Z.opp (digits_val r 0) end)
              else digits_val s 0
  end.

Definition dict_Z (d : dict) (key : bytes) : result Z :=
  match dict_get d key with Some (PZ z) => Ok z | _ => Err EKey end.
Definition dict_S (d : dict) (key : bytes) : result bytes :=
  match dict_get d key with Some (PS s) => Ok s | _ => Err EKey end.

(* a BITD link is only registered while the cast is read: the number of the palette member it designates (0: none) and
   the image data; the bitmaps are decoded once every member is known (bitmap_pass) *)
Definition bitmap_ref (m : member) : Z :=
  match m_palette m with
  | Some _ => 0                                        (* str(bytes) is not a number *)
  | None =>
    match dict_get (m_cast m) (B "palette") with
    | Some (PS s) => match parse_int_str s with Some z => z | None => 0 end
    | _ => 0
    end
  end.

Definition decode_bitmap (cast : list (option member)) (m : member) (pal_id : Z) (data : bytes) : result member :=
  let cd := m_cast m in
  let! clut :=
    if pal_id >? 0 then
      match index cast (pal_id - 1) with
      | Some (Some pm) => match m_palette pm with Some c => Ok c | None => Err EKey end
      | Some None => Err EKey
      | None => Err EIndex
      end
    else Ok [] in
  let! h := dict_Z cd (B "height") in
  let! w := dict_Z cd (B "width") in
  let! depth := dict_Z cd (B "depth") in
  let! pw := dict_Z cd (B "w_padding") in
  let! ph := dict_Z cd (B "h_padding") in
  let! ptxt := if depth =? 8 then dict_S cd (B "palette_txt") else Ok [] in
  let! bmp := bitd2bmp w h depth pw ph ptxt clut data in
  Ok {| m_cast := cd; m_text := m_text m; m_sound := m_sound m; m_palette := m_palette m; m_bitmap := Some bmp |}.

Definition link_one (chunks : list chunk) (off : Z) (rs : list mmap_res) (fontmap : list font)
           (m : member) (rf : bytes * Z) : result (member * list (Z * bytes)) :=
  let '(rfid, rfidx) := rf in
  let! res := of_option EIndex (index rs rfidx) in
  if negb (bytes_eqb rfid (r_id res)) then Err EValue else
  let! ch := chunk_of chunks off res in
  let id := r_id res in
  if bytes_eqb id (fourcc "STXT") then
    let! t := parse_stxt_data (snd ch) fontmap in
    Ok ({| m_cast := m_cast m; m_text := Some t; m_sound := m_sound m; m_palette := m_palette m; m_bitmap := m_bitmap m |}, [])
  else if bytes_eqb id (fourcc "snd ") then
    let! s := snd_to_sampled (snd ch) in
    Ok ({| m_cast := m_cast m; m_text := m_text m; m_sound := Some s; m_palette := m_palette m; m_bitmap := m_bitmap m |}, [])
  else if bytes_eqb id (fourcc "CLUT") then
    let! p := clut2palette (snd ch) in
    Ok ({| m_cast := m_cast m; m_text := m_text m; m_sound := m_sound m; m_palette := Some p; m_bitmap := m_bitmap m |}, [])
  else if bytes_eqb id (fourcc "THUM") then Ok (m, [])
  else if bytes_eqb id (fourcc "BITD") then Ok (m, [(bitmap_ref m, snd ch)])
  else Err EValue.

Fixpoint link_all chunks off rs fontmap (m : member) (refs : list (bytes * Z)) : result (member * list (Z * bytes)) :=
  match refs with
  | [] => Ok (m, [])
  | rf :: rest =>
    let! (m', ps) := link_one chunks off rs fontmap m rf in
    let! (m'', ps') := link_all chunks off rs fontmap m' rest in Ok (m'', ps ++ ps')
  end.

Definition key_refs (key : keymap) (owner : Z) : list (bytes * Z) :=
  match assoc owner key with Some l => l | None => [] end.

(* a bitmap waiting to be decoded: cast slot, palette member number, image data *)
Definition pend := (nat * Z * bytes)%type.

(* for cas_index in cas_elements: ... cast.append(...) *)
Fixpoint cast_loop chunks off rs fontmap (key : keymap) (cas : list Z) (cast : list (option member)) (pd : list pend)
  : result (list (option member) * list pend) :=
  match cas with
  | [] => Ok (cast, pd)
  | ci :: rest =>
    if ci =? 0 then cast_loop chunks off rs fontmap key rest (cast ++ [None]) pd else
    let! res := of_option EIndex (index rs ci) in
    let! ch := chunk_of chunks off res in
    let! cd := parse_cast_file_data (snd ch) in
    let m0 := {| m_cast := cd; m_text := None; m_sound := None; m_palette := None; m_bitmap := None |} in
    let! (m, ps) := link_all chunks off rs fontmap m0 (key_refs key ci) in
    cast_loop chunks off rs fontmap key rest (cast ++ [Some m]) (pd ++ map (fun p => (List.length cast, fst p, snd p)) ps)
  end.

(* for castData, paletteId, bitd_data in pending_bitmaps: ... castData['bitmap'] = bitd2bmp(...) *)
Fixpoint set_slot (cast : list (option member)) (k : nat) (v : option member) : list (option member) :=
  match cast, k with
  | [], _ => []
  | _ :: r, O => v :: r
  | x :: r, S k' => x :: set_slot r k' v
  end.
Fixpoint bitmap_pass (cast : list (option member)) (pd : list pend) : result (list (option member)) :=
  match pd with
  | [] => Ok cast
  | (slot, pal_id, data) :: rest =>
    match nth_error cast slot with
    | Some (Some m) => let! m' := decode_bitmap cast m pal_id data in bitmap_pass (set_slot cast slot (Some m')) rest
    | _ => Err EOther
    end
  end.

(* scripts: dict script number -> (lingo, js), in insertion order *)
Definition scripts := list (Z * (bytes * bytes)).
Fixpoint scr_set (s : scripts) (n : Z) (v : bytes * bytes) : scripts :=
  match s with
  | [] => [(n, v)]
  | (k, o) :: r => if k =? n then (k, v) :: r else (k, o) :: scr_set r n v
  end.
Definition nl : bytes := [x0a].
Fixpoint script_loop chunks off rs (names : list bytes) (refs : list (Z * Z)) (acc : scripts) : result scripts :=
  match refs with
  | [] => Ok acc
  | (_, idx) :: rest =>
    if idx <? 0 then script_loop chunks off rs names rest acc else
    let! res := of_option EIndex (index rs idx) in
    let! ch := chunk_of chunks off res in
    let! (num, cont, lingo, js) := decompile (snd ch) names in
    if cont <? 0 then script_loop chunks off rs names rest (scr_set acc num (lingo, js))
    else
      match assoc cont acc with
      | Some (l0, j0) => script_loop chunks off rs names rest (scr_set acc cont (l0 ++ nl ++ lingo, j0 ++ nl ++ js))
      | None => Err EKey
      end
  end.

(* the decoded frame table as vwsc_to_score reads it *)
Definition dZ (d : dict) (key : bytes) : Z := match dict_get d key with Some (PZ z) => z | Some (PB true) => 1 | _ => 0 end.
Definition dS (d : dict) (key : bytes) : bytes := match dict_get d key with Some (PS s) => s | _ => [] end.
Definition frame_of_entry (e : entry) : result frame :=
  match e with
  | EEmpty => Err EType                      (* vwsc_elements[i]['main'] on a list *)
  | EFrame fo =>
    let m := fo_main fo in
    let main := match m with
                | [] => None
                | _ => Some {| m_fps := dZ m (B "fps"); m_trans := dS m (B "transition_id"); m_s1 := dZ m (B "sound1_cast");
                               m_s2 := dZ m (B "sound2_cast"); m_script := dZ m (B "script");
                               m_chunk := dZ m (B "transition_chunk_size"); m_dur := dZ m (B "transition_duration") |}
                end in
    let pal := match dict_get (fo_palette fo) (B "palette_id") with Some (PZ z) => Some z | _ => None end in
    let cell (d : dict) : option attrs :=
      match d with
      | [] => None
      | _ => Some {| a_castId := dZ d (B "castId"); a_backColor := dZ d (B "backgroundColor"); a_foreColor := dZ d (B "foregroundColor");
                     a_width := dZ d (B "width"); a_height := dZ d (B "height"); a_ink := dZ d (B "ink_type");
                     a_type := dZ d (B "spriteType"); a_locH := dZ d (B "x"); a_locV := dZ d (B "y");
                     a_editable := dZ d (B "editable"); a_moveable := dZ d (B "moveable"); a_trails := dZ d (B "trails") |}
      end in
    Ok {| f_main := main; f_pal := pal; f_score := map cell (fo_score fo) |}
  end.
Fixpoint frames_of (es : list entry) : result (list frame) :=
  match es with [] => Ok [] | e :: r => let! f := frame_of_entry e in let! fs := frames_of r in Ok (f :: fs) end.

Record parts := { p_chunks : list chunk; p_res : list mmap_res; p_key : keymap }.

(* the byte-order dependent part: container, memory map, key table *)
Definition load_parts (bo : byteorder) (off : Z) (d : bytes) : result parts :=
  let! chunks := parse_riff d off bo in
  let! c0 := of_option EIndex (index chunks 0) in
  if negb (bytes_eqb (fst c0) s_imap) then Err EValue else
  let! im := parse_imap (snd c0) bo in
  let! mc := get_by_offset chunks (getv im 1 - off) in
  if negb (bytes_eqb (fst mc) s_mmap) then Err EValue else
  let! (_, rs) := parse_mmap (snd mc) bo in
  let! kc := located_chunk chunks off rs (fourcc "KEY*") in
  let! key := parse_key_file_data bo (snd kc) in
  Ok {| p_chunks := chunks; p_res := rs; p_key := key |}.

Record dirfile := {
  d_info : vwcf; d_cast : list (option member); d_scripts : scripts;
  d_markers : list (bytes * Z); d_score : option score_out; d_fontmap : list font }.

Definition has (rs : list mmap_res) (id : bytes) : bool := match locate rs id with Some _ => true | None => false end.

(* the rest does not depend on the byte order *)
Definition assemble (off : Z) (p : parts) : result dirfile :=
  let chunks := p_chunks p in let rs := p_res p in
  let! vc := located_chunk chunks off rs (fourcc "VWCF") in
  let! info := parse_vwcf_file_data (snd vc) in
  let! cc := located_chunk chunks off rs (fourcc "CAS*") in
  let! cas := parse_cas_file_data (snd cc) in
  let! scr :=
    if has rs (fourcc "Lctx") then
      let! lc := located_chunk chunks off rs (fourcc "Lctx") in
      let! refs := parse_lctx_file_data (snd lc) in
      let! names := if has rs (fourcc "Lnam") then
                      let! nc := located_chunk chunks off rs (fourcc "Lnam") in parse_lnam_file_data (snd nc)
                    else Ok [] in
      script_loop chunks off rs names refs []
    else Ok [] in
  let! markers := if has rs (fourcc "VWLB") then
                    let! c := located_chunk chunks off rs (fourcc "VWLB") in parse_vwlb_data (snd c)
                  else Ok [] in
  let! score := if has rs (fourcc "VWSC") then
                  let! c := located_chunk chunks off rs (fourcc "VWSC") in
                  let! es := parse_vwsc_file_data (snd c) in
                  let! frames := frames_of es in
                  let! sc := vwsc_to_score frames in Ok (Some sc)
                else Ok None in
  let! fontmap := if has rs (fourcc "Fmap") then
                    let! c := located_chunk chunks off rs (fourcc "Fmap") in parse_fmap_data (snd c)
                  else Ok [] in
  let! (cast0, pd) := cast_loop chunks off rs fontmap (p_key p) cas [] [] in
  let! cast := bitmap_pass cast0 pd in
  Ok {| d_info := info; d_cast := cast; d_scripts := scr; d_markers := markers; d_score := score; d_fontmap := fontmap |}.

Definition parse_dir_file_data (bo : byteorder) (off : Z) (d : bytes) : result dirfile :=
  let! p := load_parts bo off d in assemble off p.
End Dir.
