From Coq Require Import ZArith List.
From DRX Require Import Py.PyBytes Py.Val Model.Snd.
Import ListNotations.
Definition run_snd_to_sampled (v : val) : val :=
  match v with
  | VB d => vresult (fun p : sound * bytes => VL [VZ (nch (fst p)); VZ (bps (fst p)); VZ (rate (fst p)); VB (snd p)]) (snd_to_sampled d)
  | _ => vbad end.
