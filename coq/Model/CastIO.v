From Coq Require Import ZArith List String.
From DRX Require Import Py.PyBytes Py.Val Model.Vwsc Model.VwscIO Model.Cast.
Import ListNotations.
Definition run_parse_cast (v : val) : val :=
  match v with VB d => vresult v_dict (parse_cast_file_data d) | _ => vbad end.
