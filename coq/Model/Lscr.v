(* The compiled-script container: lingosrc/parse/lscr.py (header, constant / property / global / handler
   record blocks, parse_lrcr_file_data).  The fixed-offset readers come from Gen_Layouts (regenerated from
   the source).  Two things are parameters of the model, supplied per run by the harness and listed in the
   trusted base: the codec ([bytes -> escaped text] of a string constant, i.e. bytes.decode(get_encoding())
   followed by escape_string) and the float printer (unpack_float80), both as finite lookup tables. *)
From Coq Require Import ZArith List Bool String.
From Coq.Strings Require Import Byte.
From DRX Require Import Py.PyBytes Py.Layout Py.PyStr Py.PyString Model.Vwsc Model.LingoAst Model.LingoGen Model.LingoOps
  Model.LingoLoop Gen.Gen_Layouts Gen.Gen_Lingo.
Import ListNotations.
Open Scope string_scope.
Open Scope list_scope.
Open Scope Z_scope.

Definition oracle := list (bytes * string).
Fixpoint bytes_eqb (a b : bytes) : bool :=
  match a, b with
  | [], [] => true
  | x :: a', y :: b' => (u8 x =? u8 y) && bytes_eqb a' b'
  | _, _ => false
  end.
Fixpoint ask (o : oracle) (k : bytes) : option string :=
  match o with [] => None | (k', v) :: r => if bytes_eqb k' k then Some v else ask r k end.

Record header := {
  h_scr_num : Z; h_cont : Z; h_factory_idx : Z; h_con_offset : Z; h_crb_offset : Z; h_crb_n : Z;
  h_frb_n : Z; h_frb_offset : Z; h_prb_offset : Z; h_grb_offset : Z }.

Definition parse_header (d : bytes) : result header :=
  let! v := read_layout Big lscr_header_layout d 0 in
  let g := fld lscr_header_names v in
  if negb (g "filesize1" =? g "filesize0") || negb (g "filesize1" =? zlen d) then Err EValue else
  Ok (Build_header (g "scr_num") (g "cont_scr_num") (g "factory_name_idx") (g "con_offset") (g "crb_offset")
                   (g "crb_nconstants") (g "frb_nrecords") (g "frb_offset") (g "prb_offset") (g "grb_offset")).

(* parse_lrcr_crb *)
Fixpoint crb_loop (n : nat) (d : bytes) (h : header) (codec floats : oracle) (bpc idx : Z) : result (list const * Z) :=
  match n with
  | O => Ok ([], bpc)
  | S k =>
    let! (ctype, idx1, bpc1) :=
      if bpc =? 8 then let! t := rd_s 4 Big d idx in Ok (t, idx + 4, bpc)
      else
        let! t := rd_s 2 Big d idx in
        if t =? 0 then let! t2 := rd_s 2 Big d (idx + 2) in Ok (t2, idx + 4, 8) else Ok (t, idx + 2, bpc) in
    let! off := rd_s 4 Big d idx1 in
    let idx2 := idx1 + 4 in
    let! c :=
      if ctype =? 1 then
        let idxc := h_con_offset h + off in
        let! len := rd_s 4 Big d idxc in
        let raw := slice d (idxc + 4) (idxc + 4 + (len - 1)) in
        let! s := of_option EUnicode (ask codec raw) in Ok (CStr s)
      else if ctype =? 4 then Ok (CInt off)
      else if ctype =? 9 then
        let idxc := h_con_offset h + off in
        let! len := rd_s 4 Big d idxc in
        let raw := slice d (idxc + 4) (idxc + 4 + len) in
        let! s := of_option EStruct (ask floats raw) in Ok (CStr s)
      else Err EValue in
    let! (rest, bpc2) := crb_loop k d h codec floats bpc1 idx2 in
    Ok (c :: rest, bpc2)
  end.

Definition name_or_noname (names : list string) (i : Z) : string :=
  if (0 <=? i) && (i <? zlen names) then match index names i with Some s => s | None => "noname" end else "noname".

(* while idx < stop: name index at idx; idx += 2 *)
Fixpoint names_between (fuel : nat) (d : bytes) (names : list string) (idx stop : Z) : result (list string) :=
  if negb (idx <? stop) then Ok [] else
  match fuel with
  | O => OutOfFuel
  | S f =>
    let! ni := rd_s 2 Big d idx in
    let! rest := names_between f d names (idx + 2) stop in
    Ok (name_or_noname names ni :: rest)
  end.
Definition block_names (d : bytes) (names : list string) (start stop : Z) : result (list string) :=
  if start =? stop then Ok [] else names_between (S (Z.to_nat (stop - start))) d names start stop.

Definition frb_stride : Z := lwidth lscr_frb_layout.

Fixpoint func_names (n : nat) (d : bytes) (names : list string) (idx : Z) : result (list string) :=
  match n with
  | O => Ok []
  | S k =>
    let! ni := rd_s 2 Big d idx in
    let! rest := func_names k d names (idx + 42) in
    Ok (name_or_noname names ni :: rest)
  end.

Fixpoint local_names (n : nat) (nl : Z) (d : bytes) (names : list string) (off : Z) : result (list node) :=
  match n with
  | O => Ok []
  | S k =>
    let idxl := 2 * nl + off in
    let! ni := rd_s 2 Big d idxl in
    let! nm := of_option EIndex (index names ni) in
    let! rest := local_names k (nl + 1) d names off in
    Ok (Leaf KLocal nm idxl true :: rest)
  end.
(* returns the parameters and whether a 'me' parameter was seen *)
Fixpoint param_names (n : nat) (nl : Z) (d : bytes) (names : list string) (off : Z) : result (list node * bool) :=
  match n with
  | O => Ok ([], false)
  | S k =>
    let idxl := 2 * nl + off in
    let! ni := rd_s 2 Big d idxl in
    let! (p, me) := if ni >? 0 then let! nm := of_option EIndex (index names ni) in Ok (Leaf KParam nm idxl true, false)
                    else Ok (Leaf KParam "me" idxl true, true) in
    let! (rest, me') := param_names k (nl + 1) d names off in
    Ok (p :: rest, me || me')
  end.

(* parse_opcodes: the instruction loop, then condition_detect and loop_detect *)
Definition parse_opcodes (d : bytes) (c : ctx) (r : regs) (bc_off bc_length : Z) (fn : fndef) : result (regs * ctx * fndef) :=
  let! (r', m) := run_ops (2 * List.length d + 2) d bc_off bc_length bc_off r (Build_mstate [] fn c) in
  let! sts := detect (f_stmts (m_fn m)) in
  Ok (r', m_ctx m, set_stmts (m_fn m) sts).

Fixpoint frb_loop (n : nat) (d : bytes) (c : ctx) (r : regs) (idx : Z) : result (regs * ctx * list fndef) :=
  match n with
  | O => Ok (r, c, [])
  | S k =>
    let! v := read_layout Big lscr_frb_layout d idx in
    let g := fld lscr_frb_names v in
    let idx' := idx + frb_stride in
    let fname := name_or_noname (c_names c) (g "namelist_index") in
    let! locals := local_names (Z.to_nat (g "bc_nlocal")) 0 d (c_names c) (g "localnames_off") in
    let! (params, me) := param_names (Z.to_nat (g "bc_narg")) 0 d (c_names c) (g "argnames_off") in
    let fn := Build_fndef fname idx' params locals [] [] me in
    let! (r1, c1, fn1) := parse_opcodes d c r (g "bc_off") (g "bc_length") fn in
    let! (r2, c2, rest) := frb_loop k d c1 r1 idx' in
    Ok (r2, c2, fn1 :: rest)
  end.

(* parse_lrcr_file_data *)
Definition parse_lscr (d : bytes) (names : list string) (codec floats : oracle) (r : regs) : result (regs * script) :=
  let! h := parse_header d in
  let! (consts, bpc) := crb_loop (Z.to_nat (h_crb_n h)) d h codec floats 6 (h_crb_offset h) in
  let! factory := if 0 <=? h_factory_idx h then of_option EIndex (index names (h_factory_idx h)) else Ok "" in
  let! props := block_names d names (h_prb_offset h) (h_grb_offset h) in
  let! globs := block_names d names (h_grb_offset h) (h_frb_offset h) in
  let! lf := func_names (Z.to_nat (h_frb_n h)) d names (h_frb_offset h) in
  let c := Build_ctx consts bpc names lf props globs false in
  let! (r', _, funcs) := frb_loop (Z.to_nat (h_frb_n h)) d c r (h_frb_offset h) in
  Ok (r', Build_script props globs funcs (h_scr_num h) (h_cont h) factory).
