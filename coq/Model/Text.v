(* Model of drxtract/stxt/stxt.py parse_stxt_data and drxtract/fmap/fmap.py parse_fmap_data.
   Text and names are the stored bytes; the configured codec (get_encoding) is applied by the caller. *)
From Coq Require Import List ZArith Bool String.
From Coq.Strings Require Import Byte.
From DRX Require Import Py.PyBytes Py.Layout Py.PyStr Model.Riff Model.Vwsc Gen.Gen_Layouts.
Import ListNotations.
Open Scope Z_scope.

Record font := { f_name : bytes; f_id : Z }.

(* font_family = 'unknown_%d' % id; for font in fontmap: if font['id'] == id: font_family = font['name'] *)
Inductive family := Known (name : bytes) | Unknown (id : Z).
Fixpoint find_font (fm : list font) (id : Z) (acc : family) : family :=
  match fm with
  | [] => acc
  | f :: r => find_font r id (if f_id f =? id then Known (f_name f) else acc)
  end.

Record run := { r_color : byte * byte * byte; r_start : Z; r_bold : bool; r_italic : bool; r_underline : bool;
                r_size : Z; r_family : family }.

Definition bit0 (v k : Z) : bool := negb (Z.land v k =? 0).

Definition run_of_fields (fm : list font) (f : string -> Z) : run :=
  let fid := f "font_family_id"%string in
  let fmt := f "font_format"%string in
  {| r_color := (byte_of_Z (f "fg_color_red"%string), byte_of_Z (f "fg_color_green"%string), byte_of_Z (f "fg_color_blue"%string));
     r_start := f "start"%string;
     r_bold := bit0 fmt 1; r_italic := bit0 fmt 2; r_underline := bit0 fmt 4;
     r_size := f "font_size"%string;
     r_family := find_font fm fid (Unknown fid) |}.

Fixpoint runs_loop (fuel : nat) (n : Z) (fm : list font) (d : bytes) (idx : Z) : result (list run) :=
  if n <=? 0 then Ok [] else
  match fuel with
  | O => OutOfFuel
  | S k =>
    let! v := read_layout Big stxt_run_layout d idx in
    let! r := runs_loop k (n - 1) fm d (idx + lwidth stxt_run_layout) in
    Ok (run_of_fields fm (fld stxt_run_names v) :: r)
  end.

Definition parse_stxt_data (d : bytes) (fm : list font) : result (bytes * list run) :=
  let! idxb := rd_s 4 Big d 0 in
  let! nchars := rd_s 4 Big d 4 in
  let! font_data_size := rd_s 4 Big d 8 in
  let txt := slice d idxb (idxb + nchars) in
  let idx := idxb + nchars in
  let! n := rd_s 2 Big d idx in
  let! rs := runs_loop (S (List.length d)) n fm d (idx + 2) in
  Ok (txt, rs).

(* ---- fmap ---- *)
Definition k_displacement : string := "displacement"%string.
Definition k_font_id : string := "font_id"%string.
Definition k_nfonts : string := "nfonts"%string.
Definition k_nfonts_cap : string := "nfonts_cap"%string.
Fixpoint meta_loop (fuel : nat) (n : Z) (h : bytes) (idx : Z) : result (list (Z * Z)) :=   (* displacement, font_id *)
  if n <=? 0 then Ok [] else
  match fuel with
  | O => OutOfFuel
  | S k =>
    let! v := read_layout Big fmap_meta_layout h idx in
    let f := fld fmap_meta_names v in
    let! r := meta_loop k (n - 1) h (idx + lwidth fmap_meta_layout) in
    Ok ((f k_displacement, f k_font_id) :: r)
  end.

Fixpoint names_loop (fuel : nat) (i n : Z) (meta : list (Z * Z)) (basic : bytes) : result (list font) :=
  if n <=? i then Ok [] else
  match fuel with
  | O => OutOfFuel
  | S k =>
    let! m := of_option EIndex (index meta i) in
    let idx := fst m in
    let! nchars := rd_s 4 Big basic idx in
    let name := slice basic (idx + 4) (idx + 4 + nchars) in
    let! r := names_loop k (i + 1) n meta basic in
    Ok ({| f_name := name; f_id := snd m |} :: r)
  end.

Definition parse_fmap_data (d : bytes) : result (list font) :=
  let! header_size := rd_s 4 Big d 0 in
  let! additional_size := rd_s 4 Big d 4 in
  if negb (8 + header_size + additional_size =? zlen d) then Err EValue else
  let header := slice d 8 (8 + header_size) in
  let basic := slice d (8 + header_size) (8 + header_size + additional_size) in
  let! hv := read_layout Big fmap_header_layout header 0 in
  let hf := fld fmap_header_names hv in
  let nfonts := hf k_nfonts in
  let cap := hf k_nfonts_cap in
  let! meta := meta_loop (S (List.length d)) cap header (lwidth fmap_header_layout) in
  names_loop (S (List.length meta)) 0 nfonts meta basic.
