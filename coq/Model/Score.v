(* Model of drxtract/vwsc/vwsc.py : vwsc_to_score.
   Input: the decoded frame table (what parse_vwsc_data returns): per frame a 'main'
   dict (empty or the seven keys), a 'palette' dict (empty or with palette_id) and a
   'score' list with one dict per sprite channel (empty or the thirteen keys, twelve of
   which are compared).  Booleans are modelled as 0/1 in Z. *)
From Coq Require Import List Arith ZArith Bool.
From DRX Require Import Py.PyBytes Model.RL.
Import ListNotations.
Open Scope Z_scope.

Record attrs := {
  a_castId : Z; a_backColor : Z; a_foreColor : Z; a_width : Z; a_height : Z; a_ink : Z;
  a_type : Z; a_locH : Z; a_locV : Z; a_editable : Z; a_moveable : Z; a_trails : Z }.

Definition attrs_eqb (p s : attrs) : bool :=
  (a_castId p =? a_castId s) && (a_backColor p =? a_backColor s) &&
  (a_foreColor p =? a_foreColor s) && (a_width p =? a_width s) &&
  (a_height p =? a_height s) && (a_ink p =? a_ink s) && (a_type p =? a_type s) &&
  (a_locH p =? a_locH s) && (a_locV p =? a_locV s) && (a_editable p =? a_editable s) &&
  (a_moveable p =? a_moveable s) && (a_trails p =? a_trails s).

Record mainrec := {
  m_fps : Z; m_trans : bytes; m_s1 : Z; m_s2 : Z; m_script : Z; m_chunk : Z; m_dur : Z }.

Record frame := {
  f_main : option mainrec;        (* {} or the seven keys *)
  f_pal : option Z;               (* 'palette_id' present? *)
  f_score : list (option attrs) }.

(* ---- sprite loop: for i in frames: for j in channels ---- *)
Fixpoint step_frame (i : nat) (sps : list (list (span attrs))) (cells : list (option attrs))
  : result (list (list (span attrs))) :=
  match sps with
  | [] => Ok []
  | sp :: rest =>
    match cells with
    | [] => Err EIndex                       (* score[j] beyond the frame's channels *)
    | c :: cs =>
      let! r := step_frame i rest cs in Ok (step attrs_eqb i sp c :: r)
    end
  end.

Fixpoint run_frames (i : nat) (sps : list (list (span attrs))) (frames : list frame)
  : result (list (list (span attrs))) :=
  match frames with
  | [] => Ok sps
  | f :: rest => let! sps' := step_frame i sps (f_score f) in run_frames (S i) sps' rest
  end.

Record sprite_out := {
  so_attrs : attrs; so_start : Z; so_end : Z; so_locZ : Z;
  so_left : Z; so_top : Z; so_right : Z; so_bottom : Z }.

(* math.ceil(locH - width/2) with true division = locH - floor(width/2) *)
Definition sprite_of_span (j : nat) (s : span attrs) : sprite_out :=
  let a := sattrs s in
  let left := a_locH a - a_width a / 2 in
  let top := a_locV a - a_height a / 2 in
  {| so_attrs := a; so_start := Z.of_nat (sstart s); so_end := Z.of_nat (send s);
     so_locZ := Z.of_nat j + 1;
     so_left := left; so_top := top; so_right := left + a_width a; so_bottom := top + a_height a |}.

Fixpoint mapi {A B} (f : nat -> A -> B) (j : nat) (l : list A) : list B :=
  match l with [] => [] | x :: r => f j x :: mapi f (S j) r end.

(* ---- event loop ---- *)
Definition snd1_cell (f : frame) : option Z :=
  match f_main f with Some m => if m_s1 m >? 0 then Some (m_s1 m) else None | None => None end.
Definition snd2_cell (f : frame) : option Z :=
  match f_main f with Some m => if m_s2 m >? 0 then Some (m_s2 m) else None | None => None end.

Fixpoint events {E} (pick : frame -> option E) (i : nat) (frames : list frame) : list (Z * E) :=
  match frames with
  | [] => []
  | f :: rest =>
    match pick f with
    | Some e => (Z.of_nat i + 1, e) :: events pick (S i) rest
    | None => events pick (S i) rest
    end
  end.

Definition pick_transition (f : frame) : option (bytes * Z * Z) :=
  match f_main f with
  | Some m => match m_trans m with [] => None | _ => Some (m_trans m, m_chunk m, m_dur m) end
  | None => None end.
Definition pick_script (f : frame) : option Z :=
  match f_main f with Some m => if m_script m >? 0 then Some (m_script m) else None | None => None end.
Definition pick_tempo (f : frame) : option Z :=
  match f_main f with Some m => if m_fps m >? 0 then Some (m_fps m) else None | None => None end.
Definition pick_palette (f : frame) : option Z := f_pal f.

Record score_out := {
  o_lastChannel : Z; o_lastFrame : Z;
  o_transition : list (Z * (bytes * Z * Z));
  o_palette : list (Z * Z);
  o_sound1 : list (span Z); o_sound2 : list (span Z);
  o_tempo : list (Z * Z); o_script : list (Z * Z);
  o_sprite : list (list sprite_out) }.

Definition nchannels (frames : list frame) : nat :=
  match frames with [] => 0%nat | f :: _ => length (f_score f) end.

Definition vwsc_to_score (frames : list frame) : result score_out :=
  let nch := nchannels frames in
  let! sps := run_frames 0 (repeat [] nch) frames in
  Ok {| o_lastChannel := Z.of_nat nch; o_lastFrame := zlen frames;
        o_transition := events pick_transition 0 frames;
        o_palette := events pick_palette 0 frames;
        o_sound1 := spans_of Z.eqb (map snd1_cell frames);
        o_sound2 := spans_of Z.eqb (map snd2_cell frames);
        o_tempo := events pick_tempo 0 frames;
        o_script := events pick_script 0 frames;
        o_sprite := mapi (fun j => map (sprite_of_span j)) 0 sps |}.

(* specification side: the cells of channel j over all frames *)
Definition column (frames : list frame) (j : nat) : list (option attrs) :=
  map (fun f => nth j (f_score f) None) frames.
