From Coq Require Import ZArith List.
From DRX Require Import Py.PyBytes Py.Val Model.Riff.
Import ListNotations.
Open Scope Z_scope.

Definition v_chunk (c : chunk) : val := VL [VB (fst c); VB (snd c)].
Definition v_res (r : mmap_res) : val :=
  VL [VB (r_id r); VZ (r_size r); VZ (r_off r); VZ (r_flags r); VZ (r_unused r); VZ (r_next r)].
Definition v_hdr (h : mmap_hdr) : val :=
  VL (map VZ [h_props h; h_ressize h; h_max h; h_used h; h_junk h; h_old h; h_free h]).

(* (bytes offset bo) *)
Definition run_parse_riff (v : val) : val :=
  match v with
  | VL [VB d; VZ off; bo] =>
    match getBO bo with Some bo => vresult (vlist v_chunk) (parse_riff d off bo) | None => vbad end
  | _ => vbad end.
Definition run_parse_chunk_id (v : val) : val :=
  match v with
  | VL [VB d; VZ off; bo] =>
    match getBO bo with Some bo => vresult VB (parse_chunk_id d off bo) | None => vbad end
  | _ => vbad end.
(* (bytes offset bo lookup_offsets) : parse then get_by_offset for each *)
Definition run_riff_lookup (v : val) : val :=
  match v with
  | VL [VB d; VZ off; bo; offs] =>
    match getBO bo, getLof getZ offs with
    | Some bo, Some offs =>
      vresult (fun cs => vlist (fun o => vresult v_chunk (get_by_offset cs o)) offs) (parse_riff d off bo)
    | _, _ => vbad end
  | _ => vbad end.
Definition run_find_riff (v : val) : val :=
  match v with VB d => vresult VZ (find_riff_in_exe d) | _ => vbad end.
Definition run_parse_mmap (v : val) : val :=
  match v with
  | VL [VB d; bo] =>
    match getBO bo with
    | Some bo => vresult (fun p => VL [v_hdr (fst p); vlist v_res (snd p)]) (parse_mmap d bo)
    | None => vbad end
  | _ => vbad end.
Definition run_parse_imap (v : val) : val :=
  match v with
  | VL [VB d; bo] =>
    match getBO bo with Some bo => vresult (vlist VZ) (parse_imap d bo) | None => vbad end
  | _ => vbad end.
(* specification encoder: ((cc payload padbyte)...) bo flen -> bytes *)
Definition get_cspec (v : val) : option chunk_spec :=
  match v with VL [VB c; VB p; VZ pb] => Some (Build_chunk_spec c p (byte_of_Z pb)) | _ => None end.
Definition run_enc_movie (v : val) : val :=
  match v with
  | VL [cs; bo; VZ flen] =>
    match getLof get_cspec cs, getBO bo with
    | Some cs, Some bo => VL [VB (enc_movie bo flen cs); vlist (fun i => VZ (offset_of cs i)) (seq 0 (S (length cs)))]
    | _, _ => vbad end
  | _ => vbad end.
