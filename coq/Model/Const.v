(* Model of constant rendering: lingosrc/util.py escape_string / unpack_float80, ast/constant_val.py
   ConstantValue.generate_lingo / generate_js, opcodes/constant_op.py Int1b / Int2b.
   Text is a list of character codes (Z). *)
From Coq Require Import List ZArith Bool.
From DRX Require Import Py.PyBytes Py.PyStr Gen.Gen_OpTables.
Import ListNotations.
Open Scope Z_scope.

Definition text := list Z.

Definition hexd (v : Z) : Z := if v <? 10 then 48 + v else 87 + v.      (* lower case *)
Fixpoint hexn (n : nat) (v : Z) : text :=
  match n with O => [] | S m => hexn m (v / 16) ++ [hexd (v mod 16)] end.

(* str.encode('unicode_escape') per character *)
Definition esc_char (c : Z) : text :=
  if c =? 92 then [92; 92]
  else if c =? 9 then [92; 116]
  else if c =? 10 then [92; 110]
  else if c =? 13 then [92; 114]
  else if (32 <=? c) && (c <? 127) then [c]
  else if c <? 256 then 92 :: 120 :: hexn 2 c
  else if c <? 65536 then 92 :: 117 :: hexn 4 c
  else 92 :: 85 :: hexn 8 c.
Definition escape_string (s : text) : text := 34 :: flat_map esc_char s ++ [34].

Fixpoint starts_with (p t : text) : bool :=
  match p, t with
  | [], _ => true
  | a :: p', b :: t' => (a =? b) && starts_with p' t'
  | _ :: _, [] => false
  end.
Fixpoint text_eqb (a b : text) : bool :=
  match a, b with
  | [], [] => true
  | x :: a', y :: b' => (x =? y) && text_eqb a' b'
  | _, _ => false
  end.
Fixpoint lookup_text (k : text) (t : list (text * text)) : option text :=
  match t with [] => None | (k', v) :: r => if text_eqb k' k then Some v else lookup_text k r end.

(* for k in REPLACEMENT_CONSTANTS: v = ...; if v != '<dq>' and body.startswith(v, i): name = k; step = len(v) *)
Fixpoint named_at (tbl : list (text * text)) (t : text) (acc : option (text * Z)) : option (text * Z) :=
  match tbl with
  | [] => acc
  | (k, v) :: r =>
    if negb (text_eqb v [34]) && starts_with v t then named_at r t (Some (k, zlen v)) else named_at r t acc
  end.

Definition quote_lit (t : text) : text := 34 :: t ++ [34].

(* the scan of replace_chars_with_lingo_constants (repaired version): pieces in order *)
Fixpoint scan (fuel : nat) (body : text) (pieces : list text) (cur : text) : list text :=
  match fuel with
  | O => if negb (text_eqb cur []) || (match pieces with [] => true | _ => false end) then pieces ++ [quote_lit cur] else pieces
  | S f =>
    match body with
    | [] => if negb (text_eqb cur []) || (match pieces with [] => true | _ => false end) then pieces ++ [quote_lit cur] else pieces
    | c :: rest =>
      let '(name, step) :=
        if c =? 34 then (Some [81; 85; 79; 84; 69], 1)
        else if c =? 92 then
          match named_at REPLACEMENT_CONSTANTS body None with
          | Some (k, n) => (Some k, n)
          | None => (None, 2)
          end
        else (None, 1) in
      match name with
      | None => scan f (skipn (Z.to_nat step) body) pieces (cur ++ firstn (Z.to_nat step) body)
      | Some k =>
        let pieces' := if negb (text_eqb cur []) then pieces ++ [quote_lit cur] else pieces in
        scan f (skipn (Z.to_nat step) body) (pieces' ++ [k]) []
      end
    end
  end.

Fixpoint join (sep : text) (l : list text) : text :=
  match l with [] => [] | [x] => x | x :: r => x ++ sep ++ join sep r end.
Definition amp : text := [32; 38; 32].          (* <dq> & <dq> *)

Definition inner (n : text) : text := firstn (length n - 2) (skipn 1 n).      (* n[1:len(n)-1] *)

Definition replace_chars_with_lingo_constants (n : text) : text :=
  let body := inner n in join amp (scan (length body) body [] []).

(* ConstantValue.generate_lingo for a string constant n (escaped, with its quotes) *)
Definition generate_lingo_str (n : text) : text :=
  match lookup_text n PREDEFINED_CONSTANTS with
  | Some name => name
  | None => if starts_with [34] n then replace_chars_with_lingo_constants n else n
  end.

(* ConstantValue.generate_js: 'new LingoString(<dq>' + n[1:-1].replace('<dq>', '\\<dq>') + '<dq>)' *)
Definition js_prefix : text := [110;101;119;32;76;105;110;103;111;83;116;114;105;110;103;40;34].   (* new LingoString(<dq> *)
Definition js_suffix : text := [34; 41].
Definition generate_js_str (n : text) : text :=
  js_prefix ++ flat_map (fun c => if c =? 34 then [92; 34] else [c]) (inner n) ++ js_suffix.

(* inline integers *)
Definition int1b (p1 : Z) : Z := if p1 >? 127 then p1 - 256 else p1.
Definition int2b (p1 p2 : Z) : Z := let v := p1 * 256 + p2 in if v >? 32767 then v - 65536 else v.

(* unpack_float80 (repaired: sign bit honoured): exact value = (-1)^s * q * 2^(e - 16383 - 63) *)
Definition float80_parts (b : bytes) : option (bool * Z * Z) :=
  match unpack_u 2 Big (slice b 0 2), unpack_u 8 Big (slice b 2 10) with
  | Some e, Some q => Some (negb (Z.land e 32768 =? 0), q, Z.land e 32767 - 16383 - 63)
  | _, _ => None
  end.

(* ---------------- specification: what a literal means ---------------- *)
Definition hexv (c : Z) : option Z :=
  if (48 <=? c) && (c <=? 57) then Some (c - 48)
  else if (97 <=? c) && (c <=? 102) then Some (c - 87)
  else if (65 <=? c) && (c <=? 70) then Some (c - 55) else None.
Fixpoint hexval (n : nat) (t : text) (acc : Z) : option (Z * text) :=
  match n with
  | O => Some (acc, t)
  | S m => match t with
           | c :: r => match hexv c with Some v => hexval m r (acc * 16 + v) | None => None end
           | [] => None end
  end.
(* inverse of unicode_escape / the escapes of a JavaScript string literal that the tool emits *)
Fixpoint unescape (fuel : nat) (t : text) : option text :=
  match fuel with
  | O => match t with [] => Some [] | _ => None end
  | S f =>
    match t with
    | [] => Some []
    | c :: r =>
      if c =? 92 then
        match r with
        | [] => None
        | e :: r2 =>
          if e =? 92 then option_map (cons 92) (unescape f r2)
          else if e =? 116 then option_map (cons 9) (unescape f r2)
          else if e =? 110 then option_map (cons 10) (unescape f r2)
          else if e =? 114 then option_map (cons 13) (unescape f r2)
          else if e =? 34 then option_map (cons 34) (unescape f r2)          (* JS only *)
          else if e =? 120 then match hexval 2 r2 0 with Some (v, r') => option_map (cons v) (unescape f r') | None => None end
          else if e =? 117 then match hexval 4 r2 0 with Some (v, r') => option_map (cons v) (unescape f r') | None => None end
          else if e =? 85 then match hexval 8 r2 0 with Some (v, r') => option_map (cons v) (unescape f r') | None => None end
          else None
        end
      else option_map (cons c) (unescape f r)
    end
  end.

Definition const_value (name : text) : option text :=
  if text_eqb name [69;77;80;84;89] then Some []
  else if text_eqb name [66;65;67;75;83;80;65;67;69] then Some [8]
  else if text_eqb name [69;78;84;69;82] then Some [3]
  else if text_eqb name [81;85;79;84;69] then Some [34]
  else if text_eqb name [82;69;84;85;82;78] then Some [13]
  else if text_eqb name [84;65;66] then Some [9]
  else None.

(* split off the characters up to (not including) the first c *)
Fixpoint until (c : Z) (t : text) : option (text * text) :=
  match t with
  | [] => None
  | x :: r => if x =? c then Some ([], r) else match until c r with Some (a, b) => Some (x :: a, b) | None => None end
  end.
Fixpoint take_name (t : text) : text * text :=
  match t with
  | x :: r => if (65 <=? x) && (x <=? 90) then let '(a, b) := take_name r in (x :: a, b) else ([], t)
  | [] => ([], [])
  end.

(* value of  piece (<dq> & <dq> piece)*  where piece = <dq>literal<dq> | NAME *)
Definition eval_piece (t : text) : option (text * text) :=
  match t with
  | 34 :: r => match until 34 r with
               | Some (lit, rest) => match unescape (length lit) lit with Some v => Some (v, rest) | None => None end
               | None => None end
  | _ => let '(name, rest) := take_name t in
         match const_value name with Some v => Some (v, rest) | None => None end
  end.
Fixpoint eval_lingo (fuel : nat) (t : text) : option text :=
  match fuel with
  | O => None
  | S f =>
    match eval_piece t with
    | None => None
    | Some (v, rest) =>
      match rest with
      | [] => Some v
      | 32 :: 38 :: 32 :: more => option_map (app v) (eval_lingo f more)
      | _ => None
      end
    end
  end.
Definition eval_lingo_lit (t : text) : option text := eval_lingo (S (length t)) t.

(* value of  new LingoString(<dq>...<dq>)  *)
Definition eval_js_lit (t : text) : option text :=
  if starts_with js_prefix t then
    let body := skipn (length js_prefix) t in
    let lit := firstn (length body - 2) body in
    if text_eqb (skipn (length body - 2) body) js_suffix then unescape (length lit) lit else None
  else None.
