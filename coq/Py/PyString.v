(* Python str operations used by the Lingo decompiler, on Coq [string]s.
   A Coq string here holds the UTF-8 bytes of the Python string: every operation below that inspects
   characters only looks for ASCII ones (which never occur inside a multi-byte sequence), so the
   byte-level result is the UTF-8 image of Python's result.  Exceptions: [lower]/[capitalize] act on
   ASCII letters only (the harness keeps names passed through them ASCII). *)
From Coq Require Import ZArith List Bool Ascii String.
From Coq.Strings Require Import Byte.
From DRX Require Import Py.PyBytes Py.PyStr.
Import ListNotations.
Open Scope string_scope.

Definition str_of_bytes (b : bytes) : string := string_of_list_byte b.
Definition bytes_of_str (s : string) : bytes := list_byte_of_string s.

(* str(int) *)
Definition str_of_int (z : Z) : string := str_of_bytes (str_of_Z z).

Fixpoint concat_all (l : list string) : string :=
  match l with [] => "" | x :: r => x ++ concat_all r end.

(* sep.join(l) *)
Fixpoint join (sep : string) (l : list string) : string :=
  match l with [] => "" | [x] => x | x :: r => x ++ sep ++ join sep r end.

Definition starts_with (p s : string) : bool := String.prefix p s.

Fixpoint rev_string_acc (s acc : string) : string :=
  match s with EmptyString => acc | String c r => rev_string_acc r (String c acc) end.
Definition rev_string (s : string) : string := rev_string_acc s "".
Definition ends_with (p s : string) : bool := String.prefix (rev_string p) (rev_string s).

(* s[a:] and s[:n] and s[1:-1] for non-negative a, n *)
Fixpoint drop (n : nat) (s : string) : string :=
  match n, s with O, _ => s | S m, String _ r => drop m r | S _, EmptyString => "" end.
Fixpoint take (n : nat) (s : string) : string :=
  match n, s with O, _ => "" | S m, String c r => String c (take m r) | S _, EmptyString => "" end.
(* s[1:-1] *)
Definition strip_ends (s : string) : string := take (String.length s - 2) (drop 1 s).
(* s[a:-b] *)
Definition slice_neg (a b : nat) (s : string) : string := take (String.length s - a - b) (drop a s).

Definition ascii_lower (c : ascii) : ascii :=
  let n := nat_of_ascii c in if (65 <=? n)%nat && (n <=? 90)%nat then ascii_of_nat (n + 32) else c.
Definition ascii_upper (c : ascii) : ascii :=
  let n := nat_of_ascii c in if (97 <=? n)%nat && (n <=? 122)%nat then ascii_of_nat (n - 32) else c.
Fixpoint lower (s : string) : string :=
  match s with EmptyString => "" | String c r => String (ascii_lower c) (lower r) end.
Definition capitalize (s : string) : string :=
  match s with EmptyString => "" | String c r => String (ascii_upper c) (lower r) end.

(* s.rstrip() for the ASCII blank *)
Fixpoint rstrip (s : string) : string :=
  match s with
  | EmptyString => ""
  | String c r => let r' := rstrip r in
                  match r' with
                  | EmptyString => if Ascii.eqb c " " then "" else String c ""
                  | _ => String c r'
                  end
  end.

(* haystack.replace(needle, repl) for a one-character needle *)
Fixpoint replace_char (c : ascii) (repl : string) (s : string) : string :=
  match s with
  | EmptyString => ""
  | String x r => (if Ascii.eqb x c then repl else String x "") ++ replace_char c repl r
  end.

Fixpoint mem_str (x : string) (l : list string) : bool :=
  match l with [] => false | y :: r => String.eqb x y || mem_str x r end.
Fixpoint assoc_str {V} (k : string) (t : list (string * V)) : option V :=
  match t with [] => None | (k', v) :: r => if String.eqb k k' then Some v else assoc_str k r end.

(* int(s) for the literals the decompiler produces itself: optional sign, ASCII digits *)
Fixpoint digits_val (s : string) (acc : Z) : option Z :=
  match s with
  | EmptyString => Some acc
  | String c r => let n := Z.of_nat (nat_of_ascii c) in
                  if ((48 <=? n) && (n <=? 57))%Z then digits_val r (acc * 10 + (n - 48))%Z else None
  end.
Definition int_of_str (s : string) : option Z :=
  match s with
  | EmptyString => None
  | String "-" r => match r with EmptyString => None | _ => option_map Z.opp (digits_val r 0) end
  | String "+" r => match r with EmptyString => None | _ => digits_val r 0 end
  | _ => digits_val s 0
  end.

(* '    ' * n *)
Fixpoint indent (n : nat) : string := match n with O => "" | S m => "    " ++ indent m end.

(* code-point order of two UTF-8 strings = byte order *)
Fixpoint str_leb (a b : string) : bool :=
  match a, b with
  | EmptyString, _ => true
  | String _ _, EmptyString => false
  | String x a', String y b' =>
    let nx := nat_of_ascii x in let ny := nat_of_ascii y in
    if (nx <? ny)%nat then true else if (ny <? nx)%nat then false else str_leb a' b'
  end.
