(* Python byte-string primitives: bytes as [list byte], numbers as [Z].
   Models: indexing, slicing (full Python semantics incl. negative indices),
   struct.unpack / struct.pack for b B h H i I in both byte orders. *)
From Coq Require Import ZArith List Lia Bool.
From Coq.Strings Require Import Byte.
Import ListNotations.
Open Scope Z_scope.

Definition bytes := list byte.

Definition u8 (b : byte) : Z := Z.of_N (Byte.to_N b).
Definition byte_of_Z (z : Z) : byte :=
  match Byte.of_N (Z.to_N (z mod 256)) with Some b => b | None => x00 end.

Inductive byteorder := Big | Little.

(* ---------- results ---------- *)
Inductive errkind := EStruct | EIndex | EKey | EValue | EType | EUnicode | ENotImpl | EOther.
Inductive result (A : Type) := Ok (a : A) | Err (e : errkind) | OutOfFuel.
Arguments Ok {A} a.
Arguments Err {A} e.
Arguments OutOfFuel {A}.

Definition bind {A B} (r : result A) (f : A -> result B) : result B :=
  match r with Ok a => f a | Err e => Err e | OutOfFuel => OutOfFuel end.
Notation "'let!' x ':=' r 'in' k" := (bind r (fun x => k))
  (at level 200, x pattern, r at level 100, k at level 200, right associativity).
Definition of_option {A} (e : errkind) (o : option A) : result A :=
  match o with Some a => Ok a | None => Err e end.

(* ---------- lengths, indexing, slicing ---------- *)
Definition zlen {A} (l : list A) : Z := Z.of_nat (length l).

(* d[i] for a non-negative or negative Python index *)
Definition index {A} (d : list A) (i : Z) : option A :=
  let n := zlen d in
  let j := if i <? 0 then n + i else i in
  if (j <? 0) || (n <=? j) then None else nth_error d (Z.to_nat j).

Definition norm_idx (len i : Z) : Z :=
  if i <? 0 then Z.max 0 (len + i) else Z.min i len.

(* d[a:b] *)
Definition slice {A} (d : list A) (a b : Z) : list A :=
  let len := zlen d in
  let a' := norm_idx len a in
  let b' := norm_idx len b in
  firstn (Z.to_nat (b' - a')) (skipn (Z.to_nat a') d).

(* d[a:] *)
Definition slice_from {A} (d : list A) (a : Z) : list A :=
  skipn (Z.to_nat (norm_idx (zlen d) a)) d.

(* ---------- integers from bytes ---------- *)
Fixpoint be_acc (acc : Z) (l : bytes) : Z :=
  match l with [] => acc | b :: r => be_acc (acc * 256 + u8 b) r end.
Definition be_unsigned (l : bytes) : Z := be_acc 0 l.
Definition sext (nbytes : Z) (z : Z) : Z :=
  if z <? 2 ^ (8 * nbytes - 1) then z else z - 2 ^ (8 * nbytes).

Definition orient (bo : byteorder) (l : bytes) : bytes :=
  match bo with Big => l | Little => rev l end.

Definition unpack_u (n : nat) (bo : byteorder) (l : bytes) : option Z :=
  if Nat.eqb (length l) n then Some (be_unsigned (orient bo l)) else None.
Definition unpack_s (n : nat) (bo : byteorder) (l : bytes) : option Z :=
  if Nat.eqb (length l) n then Some (sext (Z.of_nat n) (be_unsigned (orient bo l))) else None.

Definition unpack_B := unpack_u 1.
Definition unpack_b := unpack_s 1.
Definition unpack_H := unpack_u 2.
Definition unpack_h := unpack_s 2.
Definition unpack_I := unpack_u 4.
Definition unpack_i := unpack_s 4.

(* struct.unpack(fmt, d[a:a+n])[0] as a result *)
Definition rd_u (n : nat) bo (d : bytes) (a : Z) : result Z :=
  of_option EStruct (unpack_u n bo (slice d a (a + Z.of_nat n))).
Definition rd_s (n : nat) bo (d : bytes) (a : Z) : result Z :=
  of_option EStruct (unpack_s n bo (slice d a (a + Z.of_nat n))).

(* ---------- bytes from integers (specification side) ---------- *)
Fixpoint be_bytes (n : nat) (z : Z) : bytes :=
  match n with
  | O => []
  | S m => be_bytes m (z / 256) ++ [byte_of_Z z]
  end.
Definition pack (n : nat) (bo : byteorder) (z : Z) : bytes := orient bo (be_bytes n z).

Definition zeros (n : nat) : bytes := repeat x00 n.
