(* Straight-line field readers: a run of
     x = struct.unpack(fmt, d[idx:idx+n])[0]   /   x = int(d[idx])   /   idx += k
   is a [layout]; [read_layout] is what such Python code computes, [enc_layout] the
   specification-side encoder of the same record. *)
From Coq Require Import ZArith List Lia.
From Coq.Strings Require Import Byte.
From DRX Require Import Py.PyBytes.
Import ListNotations.
Open Scope Z_scope.

Inductive field := FS (n : nat) | FU (n : nat) | FSkip (n : nat).
Definition layout := list field.

Definition fwidth (f : field) : nat := match f with FS n | FU n | FSkip n => n end.
Fixpoint lwidth (l : layout) : Z :=
  match l with [] => 0 | f :: r => Z.of_nat (fwidth f) + lwidth r end.

Fixpoint read_layout (bo : byteorder) (l : layout) (d : bytes) (pos : Z) : result (list Z) :=
  match l with
  | [] => Ok []
  | FS n :: r => let! v := rd_s n bo d pos in let! vs := read_layout bo r d (pos + Z.of_nat n) in Ok (v :: vs)
  | FU n :: r => let! v := rd_u n bo d pos in let! vs := read_layout bo r d (pos + Z.of_nat n) in Ok (v :: vs)
  | FSkip n :: r => read_layout bo r d (pos + Z.of_nat n)
  end.

(* value in range for its field *)
Definition fits (f : field) (v : Z) : Prop :=
  match f with
  | FS n => (0 < n)%nat /\ - 2 ^ (8 * Z.of_nat n - 1) <= v < 2 ^ (8 * Z.of_nat n - 1)
  | FU n => 0 <= v < 256 ^ Z.of_nat n
  | FSkip _ => True
  end.

(* fields consume values; skipped areas are filled from [fill] (arbitrary bytes) *)
Fixpoint enc_layout (bo : byteorder) (l : layout) (vs : list Z) (fill : bytes) : bytes :=
  match l with
  | [] => []
  | FSkip n :: r => firstn n (fill ++ zeros n) ++ enc_layout bo r vs (skipn n fill)
  | FS n :: r | FU n :: r =>
    match vs with
    | v :: vs' => pack n bo v ++ enc_layout bo r vs' fill
    | [] => pack n bo 0 ++ enc_layout bo r [] fill
    end
  end.

Fixpoint fits_all (l : layout) (vs : list Z) : Prop :=
  match l with
  | [] => vs = []
  | FSkip _ :: r => fits_all r vs
  | f :: r => match vs with v :: vs' => fits f v /\ fits_all r vs' | [] => False end
  end.

Definition getv (vs : list Z) (i : nat) : Z := nth i vs 0.
