(* Helpers for the case files the harness writes (tie/framework.py, enc tie): byte strings as hexadecimal literals,
   decidable equality of byte strings. *)
From Coq Require Import ZArith List Bool String Ascii.
From Coq.Strings Require Import Byte.
From DRX Require Import Py.PyBytes.
Import ListNotations.

Definition hexval (a : ascii) : N :=
  let n := N_of_ascii a in
  if (N.leb 48 n && N.leb n 57)%bool then n - 48
  else if (N.leb 97 n && N.leb n 102)%bool then n - 87
  else if (N.leb 65 n && N.leb n 70)%bool then n - 55 else 0.
Fixpoint unhex (s : string) : bytes :=
  match s with
  | String a (String c r) => match Byte.of_N (16 * hexval a + hexval c) with Some x => x | None => Byte.x00 end :: unhex r
  | _ => []
  end.
Fixpoint to_pairs (l : bytes) : list (byte * byte) :=
  match l with a :: c :: r => (a, c) :: to_pairs r | _ => [] end.
Definition bytes_eqb (a c : bytes) : bool := if list_eq_dec Byte.byte_eq_dec a c then true else false.
Lemma bytes_eqb_eq a c : bytes_eqb a c = true <-> a = c.
Proof. unfold bytes_eqb. destruct (list_eq_dec Byte.byte_eq_dec a c); split; congruence. Qed.

Example unhex_example : unhex "00ff7aA0" = [Byte.x00; Byte.xff; Byte.x7a; Byte.xa0].
Proof. reflexivity. Qed.
