(* Python string helpers: str(int), table lookups "name or str(value)". Strings are byte lists
   (code points < 256 suffice for everything modelled here). *)
From Coq Require Import ZArith List.
From Coq.Strings Require Import Byte.
From DRX Require Import Py.PyBytes.
Import ListNotations.
Open Scope Z_scope.

Definition digit (d : Z) : byte := byte_of_Z (48 + d).

(* decimal digits of a non-negative number, most significant first *)
Fixpoint dec_pos_fuel (fuel : nat) (n : Z) (acc : bytes) : bytes :=
  match fuel with
  | O => acc
  | S f => if n <? 10 then digit n :: acc else dec_pos_fuel f (n / 10) (digit (n mod 10) :: acc)
  end.
Definition dec_nonneg (n : Z) : bytes := dec_pos_fuel (S (Z.to_nat (Z.log2 n))) n [].
Definition str_of_Z (z : Z) : bytes :=
  if z <? 0 then "-"%byte :: dec_nonneg (- z) else dec_nonneg z.

Fixpoint assoc {V} (k : Z) (t : list (Z * V)) : option V :=
  match t with [] => None | (k', v) :: r => if k =? k' then Some v else assoc k r end.

(* "if value in get_keys(TABLE): return TABLE[value]; return str(value)" *)
Definition name_or_str (t : list (Z * bytes)) (v : Z) : bytes :=
  match assoc v t with Some s => s | None => str_of_Z v end.
