(* Wire format between the Python harness and the extracted model: S-expressions of
   integers, byte strings and lists.  Every model entry point is [val -> val]. *)
From Coq Require Import ZArith List String.
From Coq.Strings Require Import Byte.
From DRX Require Import Py.PyBytes.
Import ListNotations.
Open Scope Z_scope.

Inductive val := VZ (z : Z) | VB (b : bytes) | VL (l : list val).

Definition vstr (s : string) : val := VB (list_byte_of_string s).
Definition verr (e : errkind) : val :=
  VL [vstr "err"; vstr (match e with
    | EStruct => "struct" | EIndex => "index" | EKey => "key" | EValue => "value"
    | EType => "type" | EUnicode => "unicode" | ENotImpl => "notimpl" | EOther => "other" end)].
Definition vbad : val := VL [vstr "badarg"].
Definition vresult {A} (f : A -> val) (r : result A) : val :=
  match r with Ok a => VL [vstr "ok"; f a] | Err e => verr e | OutOfFuel => VL [vstr "outoffuel"] end.
Definition vopt {A} (f : A -> val) (o : option A) : val :=
  match o with Some a => VL [f a] | None => VL [] end.
Definition vlist {A} (f : A -> val) (l : list A) : val := VL (map f l).
Definition vbool (b : bool) : val := VZ (if b then 1 else 0).
Definition vnat (n : nat) : val := VZ (Z.of_nat n).

(* decoding arguments *)
Definition getZ (v : val) : option Z := match v with VZ z => Some z | _ => None end.
Definition getB (v : val) : option bytes := match v with VB b => Some b | _ => None end.
Definition getL (v : val) : option (list val) := match v with VL l => Some l | _ => None end.
Fixpoint all_some {A} (l : list (option A)) : option (list A) :=
  match l with
  | [] => Some []
  | Some a :: r => match all_some r with Some r' => Some (a :: r') | None => None end
  | None :: _ => None
  end.
Definition getLof {A} (f : val -> option A) (v : val) : option (list A) :=
  match v with VL l => all_some (map f l) | _ => None end.
Definition getOpt {A} (f : val -> option A) (v : val) : option (option A) :=
  match v with
  | VL [] => Some None
  | VL [x] => match f x with Some a => Some (Some a) | None => None end
  | _ => None end.
Definition getBO (v : val) : option byteorder :=
  match v with VZ 0 => Some Big | VZ 1 => Some Little | _ => None end.
