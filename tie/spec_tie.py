"""Spec tie: the specification functions the C02 / C03 / C04 theorems are stated with (Coq: code2, pp_q, pp_js_q,
extracted to runner/specrun) evaluated on the source handlers of the generated scripts and compared
  * with the bytes the harness's own compiler (tie/lingo_spec.py) writes for the handler, and
  * with the Lingo / JavaScript text the implementation emits for the compiled chunk.
A handler outside the fragment of the theorems (other statement kinds, methods, ...) is skipped (Unsupported)."""
import lingo_spec as S

class Unsupported(Exception):
    pass

FAM = {'sound': 0, 'sprite': 1, 'cast': 2, 'field': 4}
TARGET = {'loc': 0, 'par': 1, 'glob': 2, 'prop': 3}

class Conv:
    def __init__(self, script, h, pool, lf):
        self.names, self.h, self.pool, self.lf = script['names'], h, pool, lf

    def n(self, s):
        return self.names.index(s)

    def const(self, c):
        for i, x in enumerate(self.pool.items):
            if type(x) is type(c) and x == c:
                return i
        raise Unsupported('constant not in the pool')

    def e(self, e):
        k = e[0]
        if k == 'int':
            n = e[1]
            return [0, n] if -32768 <= n <= 32767 else [1, self.const(n)]
        if k == 'str':
            return [1, self.const(e[1].encode('mac_roman') if isinstance(e[1], str) else e[1])]
        if k == 'sym':
            return [2, self.n(e[1])]
        if k == 'loc':
            return [3, self.h['locals'].index(e[1])]
        if k == 'par':
            return [4, self.h['args'].index(e[1])]
        if k == 'glob':
            return [5, self.n(e[1])]
        if k == 'prop':
            return [6, self.n(e[1])]
        if k == 'bin':
            return [7, e[1].encode(), self.e(e[2]), self.e(e[3])]
        if k == 'neg':
            return [8, self.e(e[1])]
        if k == 'not':
            return [9, self.e(e[1])]
        if k == 'call':
            return [10, self.n(e[1]), [self.e(a) for a in e[2]]]
        if k == 'lcall':
            return [11, self.lf.index(e[1]), [self.e(a) for a in e[2]]]
        if k == 'list':
            return [12, [self.e(a) for a in e[1]]]
        if k == 'plist':
            flat = []
            for kk, vv in e[1]:
                flat += [self.e(kk), self.e(vv)]
            return [13, flat]
        if k == 'objprop':
            if e[1] not in FAM:
                raise Unsupported('object kind ' + e[1])
            return [14, FAM[e[1]], S.OBJ_KINDS[e[1]][1].index(e[3]), self.e(e[2])]
        if k == 'menuprop':
            return [15, S.MENUITEM_PROPS.index(e[1]), self.e(e[2]), self.e(e[3])]
        if k == 'menuname':
            return [14, 7, 1, self.e(e[1])]
        if k == 'menuitems':
            return [14, 8, 2, self.e(e[1])]
        if k == 'lastchunk':
            return [14, 5, 11 + S.CHUNK_TYPES.index(e[1]), self.e(e[2])]
        if k == 'numchunks':
            return [14, 6, S.CHUNK_TYPES.index(e[1]), self.e(e[2])]
        if k == 'the':
            return [17, self.n(e[1])]
        if k == 'accessor':
            return [18, self.n(e[2]), self.e(e[1])]
        if k == 'field':
            return [20, self.e(e[1])]
        if k == 'keyprop':
            return [19, self.n(e[1])]
        if k == 'numberof':
            return [16, 3, S.NUM_OF.index(e[1])]
        if k == 'special':
            return [16, 0, S.SPECIAL_PROPS.index(e[1])]
        if k == 'datetime':
            return [16, 1, S.DATE_TIME.index(e[1])]
        if k == 'sysprop':
            return [16, 2, S.SYS_INDEX[e[1]]]
        raise Unsupported('expression kind ' + k)

    def target(self, t):
        if t[0] not in TARGET:
            raise Unsupported('target kind ' + t[0])
        idx = {'loc': lambda: self.h['locals'].index(t[1]), 'par': lambda: self.h['args'].index(t[1]),
               'glob': lambda: self.n(t[1]), 'prop': lambda: self.n(t[1])}[t[0]]()
        return [TARGET[t[0]], idx]

    def s(self, st):
        k = st[0]
        if k == 'set':
            return [0, [0, self.target(st[1]), self.e(st[2])]]
        if k == 'call':
            return [0, [1, self.n(st[1]), [self.e(a) for a in st[2]]]]
        if k == 'lcall':
            return [0, [2, self.lf.index(st[1]), [self.e(a) for a in st[2]]]]
        if k == 'put':
            mode, v, t = st[1], st[2], st[3]
            if t[0] == 'loc':
                return [0, [9, S.PUT_MODE[mode], self.h['locals'].index(t[1]), self.e(v)]]
            if t[0] == 'field':
                return [0, [8, S.PUT_MODE[mode], self.e(t[1]), self.e(v)]]
            raise Unsupported('put target ' + t[0])
        if k == 'exit':
            return [0, [7]]
        if k == 'setmenuprop':
            return [0, [6, S.MENUITEM_PROPS.index(st[1]), self.e(st[2]), self.e(st[3]), self.e(st[4])]]
        if k == 'setaccessor':
            return [0, [5, self.n(st[2]), self.e(st[1]), self.e(st[3])]]
        if k == 'setsys':
            return [0, [4, 2, S.SYS_INDEX[st[1]], self.e(st[2])]]
        if k == 'setspecial':
            return [0, [4, 0, S.SPECIAL_PROPS.index(st[1]), self.e(st[2])]]
        if k == 'setthe':
            return [0, [0, [4, self.n(st[1])], self.e(st[2])]]
        if k == 'setobjprop':
            if st[1] not in ('sound', 'sprite', 'cast'):
                raise Unsupported('assignment to a property of ' + st[1])
            return [0, [3, FAM[st[1]], S.OBJ_KINDS[st[1]][1].index(st[3]), self.e(st[2]), self.e(st[4])]]
        if k == 'if':
            return [1, self.e(st[1]), self.body(st[2])]
        if k == 'ife':
            return [2, self.e(st[1]), self.body(st[2]), self.body(st[3])]
        if k == 'while':
            return [3, self.e(st[1]), self.body(st[2])]
        if k in ('with', 'down'):
            return [4, 1 if k == 'down' else 0, self.h['locals'].index(st[1]), self.e(st[2]), self.e(st[3]), self.body(st[4])]
        if k == 'exit_repeat':
            return [5]
        raise Unsupported('statement kind ' + k)

    def body(self, b):
        return [self.s(st) for st in b]

def depth(x):
    return 1 + max([depth(y) for y in x], default=0) if isinstance(x, list) else 0

def requests(script, codec):
    """-> [(handler index, handler name, python code bytes, request)] for the handlers inside the fragment.
    codec: {raw constant bytes: text as the chunk parser returns it (bytes)}"""
    names = script['names']
    if script.get('factory'):
        return []
    pool = S.Pool(6)
    lf = [h['name'] for h in script['handlers']]
    codes = []
    for h in script['handlers']:
        cx = S.Ctx(names, pool, h, lf, 6)
        try:
            code, ex = S.comp_body(h['body'], cx)
        except Exception:
            return []
        codes.append(code)
    consts = []
    for c in pool.items:
        if isinstance(c, int):
            consts.append([0, c])
        elif isinstance(c, bytes) and c in codec:
            consts.append([1, codec[c]])
        else:
            return []        # floats and undecodable strings: outside the tie
    jind = 2 if script.get('props') else 1
    out = []
    for i, h in enumerate(script['handlers']):
        if h.get('method'):
            continue
        try:
            body = Conv(script, h, pool, lf).body(h['body'])
        except (Unsupported, ValueError):
            continue
        req = ('spec_handler', [4 * depth(body) + 40, [n.encode('utf-8') for n in names],
                                [a.encode('utf-8') for a in h['args']], [l.encode('utf-8') for l in h['locals']],
                                [x.encode('utf-8') for x in lf], consts, [p.encode('utf-8') for p in script.get('props', [])],
                                jind, body])
        out.append((i, h['name'], codes[i], req))
    return out

def handler_bodies_lingo(text):
    """{position: body text} of the handlers of a decompiled script: the lines between the header (and its global
    declarations) and 'end'"""
    out = []
    lines = text.split('\n')
    i = 0
    while i < len(lines):
        if lines[i].startswith('on '):
            j = i + 1
            had_global = False
            while j < len(lines) and lines[j].startswith('    global '):
                j += 1
                had_global = True
            if had_global and j < len(lines) and lines[j] == '':
                j += 1
            body = []
            while j < len(lines) and lines[j] != 'end':
                body.append(lines[j])
                j += 1
            out.append(''.join(l + '\n' for l in body))
            i = j
        i += 1
    return out

def handler_bodies_js(text, jind):
    """body text of the functions / methods of the emitted JavaScript, in order (wrappers of class scripts excluded)"""
    out = []
    lines = text.split('\n')
    head_ind = '    ' * (jind - 1)
    i = 0
    while i < len(lines):
        ln = lines[i]
        is_head = ln.endswith(') {') and ln.startswith(head_ind) and not ln.startswith(head_ind + ' ') and \
            (jind == 2 or ln.startswith('function ')) and not ln.startswith('class ')
        if is_head and not (jind == 2 and ln.startswith('function ')):
            j = i + 1
            had_var = False
            while j < len(lines) and lines[j].startswith('    ' * jind + 'var '):
                j += 1
                had_var = True
            if had_var and j < len(lines) and lines[j] == '':
                j += 1
            body = []
            while j < len(lines) and lines[j] != head_ind + '}':
                body.append(lines[j])
                j += 1
            out.append(''.join(l + '\n' for l in body))
            i = j
        i += 1
    return out

STATS = {'handlers': 0, 'code': 0, 'lingo': 0, 'js': 0, 'side_conditions_off': 0, 'layout_unreadable': 0}

def judge(script, reqs, results, lingo, js):
    """-> list of failure texts"""
    fails = []
    if not reqs:
        return fails
    jind = 2 if script.get('props') else 1
    lb = handler_bodies_lingo(lingo)
    jb = handler_bodies_js(js, jind)
    nh = len(script['handlers'])
    for (i, name, code, req), res in zip(reqs, results):
        if res is None or not res or res[0] != b'ok':
            fails.append('spec tie: the Coq specification side rejects handler %s: %r' % (name, res))
            continue
        ccode, clingo, cjs, ok2, tok, jok = res[1], res[2].decode('utf-8', 'replace'), res[3].decode('utf-8', 'replace'), res[4], res[5], res[6]
        STATS['handlers'] += 1
        STATS['code'] += 1
        if not (ok2 and tok and jok):
            STATS['side_conditions_off'] += 1
        if len(lb) != nh or len(jb) != nh:
            STATS['layout_unreadable'] += 1
        STATS['lingo'] += 1 if (ok2 and tok and len(lb) == nh) else 0
        STATS['js'] += 1 if (ok2 and jok and len(jb) == nh) else 0
        if bytes(ccode) != code:
            fails.append('spec tie: the bytes of SpecFor.code2 differ from the harness compiler for handler %s: coq %s / python %s'
                         % (name, bytes(ccode).hex(), code.hex()))
            continue
        if ok2 and tok and len(lb) == nh and lb[i] != clingo:
            fails.append('spec tie: the canonical Lingo text of the theorems (pp_q) differs from the emitted text for handler %s: emitted %r / pp_q %r'
                         % (name, lb[i], clingo))
        if ok2 and jok and len(jb) == nh and jb[i] != cjs:
            fails.append('spec tie: the canonical JavaScript of the theorems (pp_js_q) differs from the emitted text for handler %s: emitted %r / pp_js_q %r'
                         % (name, jb[i], cjs))
    return fails
