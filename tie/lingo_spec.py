"""Independent specification of the Lingo program space of C02/C03/C04:
   * a source AST (tuples),
   * Director's code-generation scheme  compile_script : script -> (Lscr bytes, name list),
   * a tokenizer + precedence parser for Lingo text  parse_lingo : text -> script AST,
   * the fixed Lingo->JavaScript correspondences  js_script : script -> JS token list.
   Nothing here imports drxtract.

   script  = {'names': [str], 'props': [str], 'globals': [str], 'factory': None|str, 'scr_num': int,
              'handlers': [handler]}
   handler = {'name': str, 'args': [str], 'locals': [str], 'body': [stmt], 'method': bool}
   expr    = ('int', n) | ('str', s) | ('sym', s) | ('loc', s) | ('par', s) | ('glob', s) | ('prop', s)
           | ('bin', op, a, b) | ('neg', a) | ('not', a) | ('call', f, [args]) | ('lcall', f, [args])
           | ('list', [items]) | ('plist', [(k, v)])
   stmt    = ('set', target, e)   target in loc/par/glob/prop
           | ('call', f, [args]) | ('lcall', f, [args])
           | ('if', c, A) | ('ife', c, A, B) | ('while', c, A) | ('with', v, a, b, A) | ('down', v, a, b, A)
           | ('in', v, l, A) | ('exit_repeat',)
"""
import struct
import re

BINOPS = {'mul': (0x04, '*', 4), 'add': (0x05, '+', 3), 'sub': (0x06, '-', 3), 'div': (0x07, '/', 4), 'mod': (0x08, 'mod', 4),
          'concat': (0x0A, '&', 2), 'concats': (0x0B, '&&', 2), 'lt': (0x0C, '<', 1), 'lte': (0x0D, '<=', 1),
          'ne': (0x0E, '<>', 1), 'eq': (0x0F, '=', 1), 'gt': (0x10, '>', 1), 'gte': (0x11, '>=', 1),
          'and': (0x12, 'and', 4), 'or': (0x13, 'or', 4), 'contains': (0x15, 'contains', 1), 'start': (0x16, 'starts', 1)}
SPRITE_OPS = {'intersects': 0x19, 'within': 0x1A}
JS_BIN = {'add': '+', 'sub': '-', 'mul': '*', 'div': '/', 'mod': '%', 'and': '&&', 'or': '||', 'lt': '<', 'lte': '<=',
          'gt': '>', 'gte': '>=', 'eq': '==', 'ne': '!='}
JS_METHOD = {'concat': 'concat', 'concats': 'concats', 'contains': 'contains', 'start': 'start'}
SYM_OF_TEXT = {v[1]: k for k, v in BINOPS.items()}
SYM_OF_TEXT['start'] = 'start'       # the decompiler spells the operator 'start'

# Director's numbering of the built-in properties (pinned reference copy; the implementation has its own tables)
SPRITE_PROPS = ['UNKNOWN0', 'type', 'backColor', 'bottom', 'castNum', 'constraint', 'cursor', 'foreColor', 'height', 'immediate',
                'ink', 'left', 'lineSize', 'locH', 'locV', 'movieRate', 'movieTime', 'pattern', 'puppet', 'right', 'startTime',
                'stopTime', 'stretch', 'top', 'trails', 'visible', 'volume', 'width', 'blend', 'scriptNum', 'moveableSprite',
                'editabletext', 'scoreColor', 'loc', 'rect']
CAST_PROPS = ['UNKNOWN0', 'name', 'text', 'textStyle', 'textFont', 'textHeight', 'textAlign', 'textSize', 'picture', 'hilite',
              'number', 'size', 'UNKNOWN8', 'UNKNOWN9', 'UNKNOWNA', 'UNKNOWNB', 'UNKNOWNC', 'foreColor', 'backColor']
SOUND_PROPS = ['UNKNOWN0', 'volume']
MENUITEM_PROPS = ['UNKNOWN0', 'name', 'checkMark', 'enabled', 'script']
SPECIAL_PROPS = ['floatPrecision', 'mouseDownScript', 'mouseUpScript', 'keyDownScript', 'keyUpScript', 'timeoutScript']
DATE_TIME = ['short time', 'abbr time', 'long time', 'short date', 'abbr date', 'long date']
CHUNK_TYPES = ['UNKNOWN', 'char', 'word', 'item', 'line']
NUM_OF = ['UNKNOWN0', 'perFrameHook', 'castMembers', 'menus']
SYSTEM_PROPS = {1: ('beepOn', '_movie'), 2: ('buttonStyle', '_movie'), 3: ('centerStage', '_movie'), 4: ('checkBoxAccess', '_system'),
                5: ('checkBoxType', '_system'), 6: ('colorDepth', '_system'), 8: ('exitLock', '_movie'), 9: ('fixStageSize', '_movie'),
                10: ('fullColorPermit', '_system'), 11: ('imageDirect', '_system'), 19: ('timeoutLapsed', '_system'),
                23: ('selEnd', '_movie'), 24: ('selStart', '_movie'), 25: ('soundEnabled', '_sound'), 26: ('soundLevel', '_sound'),
                27: ('stageColor', '_movie'), 29: ('switchColorDepth', '_player'), 30: ('timeoutKeyDown', '_system'),
                31: ('timeoutLength', '_system'), 32: ('timeoutMouse', '_system'), 33: ('timeoutPlay', '_system'), 34: ('timer', '_system')}
SYS_INDEX = {v[0]: k for k, v in SYSTEM_PROPS.items()}
OBJ_KINDS = {'sprite': (0x06, SPRITE_PROPS), 'cast': (0x09, CAST_PROPS), 'sound': (0x04, SOUND_PROPS), 'field': (0x0b, CAST_PROPS)}
# JavaScript objects the translator attaches by-name properties to
JS_PROP_OWNER = {'actorList': '_movie', 'ancestor': 'me', 'floatPrecision': '_system', 'mouseDownScript': '_system',
                 'mouseUpScript': '_system', 'keyDownScript': '_system', 'keyUpScript': '_system', 'timeoutScript': '_system',
                 'itemDelimiter': '_player', 'movieName': '_movie', 'moviePath': '_movie', 'romanLingo': '_system',
                 'cpuHogTicks': '_system', 'traceLoad': '_system', 'traceLogFile': '_system'}

class SpecError(Exception):
    pass

# ------------------------------------------------------------------ compile (Director's scheme)
class Pool:
    def __init__(self, width=6):
        self.items = []
        self.width = width
    def index(self, c):
        for i, x in enumerate(self.items):
            if type(x) is type(c) and x == c:
                return i
        self.items.append(c)
        return len(self.items) - 1

def push_const(pool, c):
    off = pool.index(c) * pool.width
    if off < 256:
        return bytes([0x44, off])
    return bytes([0x84, off >> 8, off & 0xff])

def comp_int(n, pool):
    if n == 0:
        return b'\x03'
    if -128 <= n <= 127:
        return bytes([0x41, n & 0xff])
    if -32768 <= n <= 32767:
        return bytes([0x81, (n >> 8) & 0xff, n & 0xff])
    return push_const(pool, n)

class Ctx:
    def __init__(self, names, pool, handler, local_funcs, width=6):
        self.names, self.pool, self.h, self.lf, self.width = names, pool, handler, local_funcs, width
    def n(self, s):
        return self.names.index(s)

def arglist(args, cx, expr_pos):
    code = b''.join(comp_e(a, cx) for a in args)
    n = len(args)
    if n < 256:
        return code + bytes([0x43 if expr_pos else 0x42, n])
    return code + bytes([0x83 if expr_pos else 0x82, n >> 8, n & 0xff])

def comp_e(e, cx):
    k = e[0]
    if k == 'int':
        return comp_int(e[1], cx.pool)
    if k == 'str':
        return push_const(cx.pool, e[1].encode('mac_roman') if isinstance(e[1], str) else e[1])
    if k == 'sym':
        return bytes([0x45, cx.n(e[1])])
    if k == 'loc':
        return bytes([0x4C, cx.h['locals'].index(e[1]) * cx.width])
    if k == 'par':
        return bytes([0x4B, cx.h['args'].index(e[1]) * cx.width])
    if k == 'glob':
        return bytes([0x49, cx.n(e[1])])
    if k == 'prop':
        return bytes([0x4A, cx.n(e[1])])
    if k == 'bin':
        op = e[1]
        code = BINOPS[op][0] if op in BINOPS else SPRITE_OPS[op]
        return comp_e(e[2], cx) + comp_e(e[3], cx) + bytes([code])
    if k == 'neg':
        return comp_e(e[1], cx) + b'\x09'
    if k == 'not':
        return comp_e(e[1], cx) + b'\x14'
    if k == 'call':
        return arglist(e[2], cx, True) + bytes([0x57, cx.n(e[1])])
    if k == 'lcall':
        return arglist(e[2], cx, True) + bytes([0x56, cx.lf.index(e[1])])
    if k == 'list':
        return arglist(e[1], cx, True) + b'\x1e'
    if k == 'plist':
        flat = []
        for kk, vv in e[1]:
            flat += [kk, vv]
        return arglist(flat, cx, True) + b'\x1f'
    if k == 'the':
        return bytes([0x5F, cx.n(e[1])])
    if k == 'objprop':
        code2, table = OBJ_KINDS[e[1]]
        return comp_e(e[2], cx) + comp_int(table.index(e[3]), cx.pool) + bytes([0x5C, code2])
    if k == 'menuprop':
        return comp_e(e[2], cx) + comp_e(e[3], cx) + comp_int(MENUITEM_PROPS.index(e[1]), cx.pool) + b'\x5c\x03'
    if k == 'menuname':
        return comp_e(e[1], cx) + comp_int(1, cx.pool) + b'\x5c\x02'
    if k == 'menuitems':
        return comp_e(e[1], cx) + comp_int(2, cx.pool) + b'\x5c\x02'
    if k == 'numberof':
        return comp_int(NUM_OF.index(e[1]), cx.pool) + b'\x5c\x08'
    if k == 'sysprop':
        return comp_int(SYS_INDEX[e[1]], cx.pool) + b'\x5c\x07'
    if k == 'special':
        return comp_int(SPECIAL_PROPS.index(e[1]), cx.pool) + b'\x5c\x00'
    if k == 'datetime':
        return comp_int(6 + DATE_TIME.index(e[1]), cx.pool) + b'\x5c\x00'
    if k == 'keyprop':
        return bytes([0x43, 0x00, 0x66, cx.n(e[1])])
    if k == 'lastchunk':
        return comp_e(e[2], cx) + comp_int(11 + CHUNK_TYPES.index(e[1]), cx.pool) + b'\x5c\x00'
    if k == 'numchunks':
        return comp_e(e[2], cx) + comp_int(CHUNK_TYPES.index(e[1]), cx.pool) + b'\x5c\x01'
    if k == 'chunk':
        return chunk_mods(e[1], cx) + comp_e(e[2], cx) + b'\x17'
    if k == 'field':
        return comp_e(e[1], cx) + b'\x1b'
    if k == 'accessor':
        return comp_e(e[1], cx) + bytes([0x61, cx.n(e[2])])
    if k == 'mcall':
        return mcall_code(e, cx, True)
    raise SpecError('expr kind %r' % (k,))

def chunk_mods(mods, cx):
    """the eight range operands: first/last char, word, item, line (0 = absent)"""
    d = {t: (a, b) for t, a, b in mods}
    code = b''
    for t in ('char', 'word', 'item', 'line'):
        a, b = d.get(t, (None, None))
        code += comp_e(a, cx) if a is not None else b'\x03'
        code += comp_e(b, cx) if b is not None else b'\x03'
    return code

def mcall_code(e, cx, expr_pos):
    """object call  obj(mMethod, args) / me mMethod, args : the method symbol is the first list element"""
    obj, meth, args = e[1], e[2], e[3]
    code = bytes([0x45, cx.n(meth)]) + b''.join(comp_e(a, cx) for a in args)
    n = len(args) + 1
    code += bytes([0x43 if expr_pos else 0x42, n])
    if obj[0] == 'me':
        return code + bytes([0x46, cx.n('me'), 0x58, 0x03])
    if obj[0] == 'loc':
        return code + comp_int(cx.h['locals'].index(obj[1]) * cx.width, cx.pool) + bytes([0x58, 0x05])
    if obj[0] == 'par':
        return code + comp_int(cx.h['args'].index(obj[1]) * cx.width, cx.pool) + bytes([0x58, 0x04])
    raise SpecError('object reference %r' % (obj,))

def target_ref(t, cx):
    """(operand code, variable-type nibble) of a put/delete target"""
    if t[0] == 'loc':
        return comp_int(cx.h['locals'].index(t[1]) * cx.width, cx.pool), 5
    if t[0] == 'field':
        return comp_e(t[1], cx), 6
    if t[0] == 'glob':
        return bytes([0x46, cx.n(t[1])]), 2
    raise SpecError('put target %r' % (t,))

PUT_MODE = {'into': 1, 'after': 2, 'before': 3}

def store(target, cx):
    k = target[0]
    if k == 'loc':
        return bytes([0x52, cx.h['locals'].index(target[1]) * cx.width])
    if k == 'par':
        return bytes([0x51, cx.h['args'].index(target[1]) * cx.width])
    if k == 'glob':
        return bytes([0x4F, cx.n(target[1])])
    if k == 'prop':
        return bytes([0x50, cx.n(target[1])])
    raise SpecError('target %r' % (k,))

def jz(off):
    return bytes([0x95, off >> 8, off & 0xff])
def jmp(off):
    return bytes([0x93, off >> 8, off & 0xff])

def comp_body(sts, cx):
    """-> (code, exits) exits = offsets (into code) of exit-repeat jumps to be patched by the enclosing loop"""
    out = b''
    exits = []
    for st in sts:
        c, ex = comp_s(st, cx)
        exits += [p + len(out) for p in ex]
        out += c
    return out, exits

def close_loop(head, body, tail, exits_in_body):
    """head = condition code, body, tail = increment code; returns the loop code with exits patched"""
    code = head + jz(3 + len(body) + len(tail) + 2) + body + tail
    if len(code) > 255:
        raise SpecError('loop too long for a one-byte back jump')
    code += bytes([0x54, len(code)])
    code = bytearray(code)
    base = len(head) + 3
    for p in exits_in_body:
        q = base + p
        off = len(code) - q
        code[q + 1] = off >> 8
        code[q + 2] = off & 0xff
    return bytes(code)

def comp_s(st, cx):
    k = st[0]
    if k == 'set':
        return comp_e(st[2], cx) + store(st[1], cx), []
    if k == 'call':
        return arglist(st[2], cx, False) + bytes([0x57, cx.n(st[1])]), []
    if k == 'lcall':
        return arglist(st[2], cx, False) + bytes([0x56, cx.lf.index(st[1])]), []
    if k == 'setthe':
        return comp_e(st[2], cx) + bytes([0x60, cx.n(st[1])]), []
    if k == 'setobjprop':
        code2, table = OBJ_KINDS[st[1]]
        return comp_e(st[2], cx) + comp_e(st[4], cx) + comp_int(table.index(st[3]), cx.pool) + bytes([0x5D, code2]), []
    if k == 'setmenuprop':
        return (comp_e(st[2], cx) + comp_e(st[3], cx) + comp_e(st[4], cx) + comp_int(MENUITEM_PROPS.index(st[1]), cx.pool)
                + b'\x5d\x03'), []
    if k == 'setsys':
        return comp_e(st[2], cx) + comp_int(SYS_INDEX[st[1]], cx.pool) + b'\x5d\x07', []
    if k == 'setspecial':
        return comp_e(st[2], cx) + comp_int(SPECIAL_PROPS.index(st[1]), cx.pool) + b'\x5d\x00', []
    if k == 'setaccessor':
        return comp_e(st[1], cx) + comp_e(st[3], cx) + bytes([0x62, cx.n(st[2])]), []
    if k == 'put':
        mode, v, t = st[1], st[2], st[3]
        if t[0] == 'chunk':
            ref, vt = target_ref(t[2], cx)
            return comp_e(v, cx) + chunk_mods(t[1], cx) + ref + bytes([0x5A, PUT_MODE[mode] * 16 + vt]), []
        ref, vt = target_ref(t, cx)
        if vt == 2:
            raise SpecError('put into a global goes through set')
        return comp_e(v, cx) + ref + bytes([0x59, PUT_MODE[mode] * 16 + vt]), []
    if k == 'delete':
        t = st[1]
        ref, vt = target_ref(t[2], cx)
        return chunk_mods(t[1], cx) + ref + bytes([0x5B, vt]), []
    if k == 'hilite':
        t = st[1]
        return chunk_mods(t[1], cx) + comp_e(t[2][1], cx) + b'\x18', []
    if k == 'mcall':
        return mcall_code(st, cx, False), []
    if k == 'tell':
        code = comp_e(st[1], cx) + b'\x1c'
        for inner in st[2]:
            if inner[0] == 'call':
                code += arglist(inner[2], cx, False) + bytes([0x63, cx.n(inner[1])])
            else:
                c, ex = comp_s(inner, cx)
                if ex:
                    raise SpecError('exit repeat inside tell')
                code += c
        return code + b'\x1d', []
    if k == 'in':
        v = ('loc', st[1])
        head = comp_e(st[2], cx) + bytes([0x64, 0x00, 0x43, 0x01, 0x57, cx.n('count')]) + comp_int(1, cx.pool)
        c = bytes([0x64, 0x00, 0x64, 0x02, 0x0D])
        A, ex = comp_body(st[3], cx)
        first = bytes([0x64, 0x02, 0x64, 0x01, 0x43, 0x02, 0x57, cx.n('getAt')]) + store(v, cx)
        inc = comp_int(1, cx.pool) + b'\x05'
        loop = close_loop(c, first + A, inc, [p + len(first) for p in ex])
        return head + loop + bytes([0x65, 0x03]), []
    if k == 'exit_repeat':
        return jmp(0), [0]
    if k == 'exit':
        # an explicit exit: the opcode the compiler also puts at the end of every handler
        return (b'\x02' if cx.h.get('method') else b'\x01'), []
    if k == 'if':
        c = comp_e(st[1], cx)
        A, ex = comp_body(st[2], cx)
        return c + jz(3 + len(A)) + A, [p + len(c) + 3 for p in ex]
    if k == 'ife':
        c = comp_e(st[1], cx)
        A, exa = comp_body(st[2], cx)
        B, exb = comp_body(st[3], cx)
        code = c + jz(3 + len(A) + 3) + A + jmp(3 + len(B)) + B
        return code, [p + len(c) + 3 for p in exa] + [p + len(c) + 3 + len(A) + 3 for p in exb]
    if k == 'while':
        c = comp_e(st[1], cx)
        A, ex = comp_body(st[2], cx)
        return close_loop(c, A, b'', ex), []
    if k in ('with', 'down'):
        v = ('loc', st[1])
        init = comp_e(st[2], cx) + store(v, cx)
        c = comp_e(v, cx) + comp_e(st[3], cx) + bytes([0x0D if k == 'with' else 0x11])
        A, ex = comp_body(st[4], cx)
        inc = comp_int(1 if k == 'with' else -1, cx.pool) + comp_e(v, cx) + b'\x05' + store(v, cx)
        return init + close_loop(c, A, inc, ex), []
    raise SpecError('stmt kind %r' % (k,))

def compile_script(script, width=6):
    """-> Lscr chunk bytes"""
    names = script['names']
    pool = Pool(width)
    lf = [h['name'] for h in script['handlers']]
    funcs = []
    for h in script['handlers']:
        cx = Ctx(names, pool, h, lf, width)
        code, ex = comp_body(h['body'], cx)
        if ex:
            raise SpecError('exit repeat outside a loop')
        code += b'\x02' if h.get('method') else b'\x01'
        args = [0 if (h.get('method') and i == 0) else names.index(a) for i, a in enumerate(h['args'])]
        funcs.append((names.index(h['name']), code, args, [names.index(l) for l in h['locals']]))
    consts = pool.items
    props = [names.index(p) for p in script.get('props', [])]
    if script.get('factory'):
        # a factory's property block starts with three entries that are not instance variables
        props = [-1, names.index('me') if 'me' in names else 0, 0] + props
    return assemble(funcs, consts, props,
                    [names.index(g) for g in script.get('globals', [])],
                    names.index(script['factory']) if script.get('factory') else -1, script.get('scr_num', 0), width)

def assemble(funcs, consts, props, globs, factory, scr_num, width=6):
    body = b''
    recs = []
    off = 92
    for (ni, code, args, locs) in funcs:
        bc_off = off + len(body)
        body += code
        if len(body) % 2:
            body += b'\0'
        a_off = off + len(body)
        body += b''.join(struct.pack('>h', a) for a in args)
        l_off = off + len(body)
        body += b''.join(struct.pack('>h', l) for l in locs)
        recs.append(struct.pack('>hhiihihihiihhi', ni, 0, len(code), bc_off, len(args), a_off, len(locs), l_off, 0, 0, 0, 0, 0, 0))
    prb_off = off + len(body)
    body += b''.join(struct.pack('>h', p) for p in props)
    grb_off = off + len(body)
    body += b''.join(struct.pack('>h', g) for g in globs)
    frb_off = off + len(body)
    body += b''.join(recs)
    crb_off = off + len(body)
    cdata = b''
    crecs = b''
    for c in consts:
        if isinstance(c, int):
            crecs += struct.pack('>hi', 4, c) if width == 6 else struct.pack('>ii', 4, c)
        else:
            crecs += struct.pack('>hi', 1, len(cdata)) if width == 6 else struct.pack('>ii', 1, len(cdata))
            cdata += struct.pack('>i', len(c) + 1) + c + b'\0'
            if len(cdata) % 2:
                cdata += b'\0'
    body += crecs
    con_off = off + len(body)
    body += cdata
    total = 92 + len(body)
    h = struct.pack('>iiii hhhh iiiiii hh iii', 0, 0, total, total, 0, scr_num, 0, -1, 0, 0, 0, 0, 0, 0, factory, 0, 0, 0, 0)
    h += struct.pack('>hhhh hhh hhh hhhh', prb_off, len(globs), 0, grb_off, len(funcs), 0, frb_off, len(consts), 0, crb_off, 0, 0, 0, con_off)
    assert len(h) == 92
    return h + body

# ------------------------------------------------------------------ Lingo text -> tokens -> AST
TOKEN_RE = re.compile(r'''
    (?P<ws>[ \t]+) |
    (?P<nl>\n) |
    (?P<comment>--[^\n]*) |
    (?P<str>"[^"\n]*") |
    (?P<float>\d+\.\d*(?:[eE][-+]?\d+)?) |
    (?P<int>\d+) |
    (?P<sym>\#[A-Za-z_][A-Za-z0-9_]*) |
    (?P<id>[A-Za-z_][A-Za-z0-9_]*) |
    (?P<op><=|>=|<>|&&|[-+*/&<>=(),\[\]:])
''', re.X)

def tokenize(text):
    toks = []
    pos = 0
    while pos < len(text):
        m = TOKEN_RE.match(text, pos)
        if not m:
            raise SpecError('cannot tokenize at %r' % text[pos:pos + 20])
        pos = m.end()
        k = m.lastgroup
        if k in ('ws', 'comment'):
            continue
        toks.append((k, m.group()))
    return toks

KEYWORDS_STOP = {'then', 'to', 'down', 'into', 'after', 'before', 'of', 'in'}
NAMED_STR = {'EMPTY': '', 'QUOTE': '"', 'RETURN': '\r', 'TAB': '\t', 'BACKSPACE': '\x08', 'ENTER': '\x03'}

class Parser:
    def __init__(self, toks, scope):
        self.t = toks
        self.i = 0
        self.scope = scope        # {'locals': set, 'args': set, 'globals': set, 'props': set, 'lfuncs': set}
    def peek(self, k=0):
        return self.t[self.i + k] if self.i + k < len(self.t) else ('eof', '')
    def next(self):
        x = self.peek()
        self.i += 1
        return x
    def accept(self, kind, val=None):
        x = self.peek()
        if x[0] == kind and (val is None or x[1] == val):
            self.i += 1
            return True
        return False
    def expect(self, kind, val=None):
        x = self.next()
        if x[0] != kind or (val is not None and x[1] != val):
            raise SpecError('expected %s %r, got %r' % (kind, val, x))
        return x
    # precedence climbing
    def binop_at(self):
        x = self.peek()
        if x[0] == 'op' and x[1] in SYM_OF_TEXT:
            return SYM_OF_TEXT[x[1]]
        if x[0] == 'id' and x[1] in ('mod', 'and', 'or', 'contains', 'starts', 'start'):
            return SYM_OF_TEXT[x[1]]
        return None
    def expr(self, minlevel=1):
        left = self.unary()
        while True:
            op = self.binop_at()
            if op is None:
                return left
            lvl = BINOPS[op][2]
            if lvl < minlevel:
                return left
            self.next()
            right = self.expr(lvl + 1)
            left = ('bin', op, left, right)
    def unary(self):
        x = self.peek()
        if x == ('op', '-'):
            self.next()
            y = self.peek()
            if y[0] == 'int':
                self.next()
                return ('int', -int(y[1]))
            return ('neg', self.unary())
        if x == ('id', 'not'):
            self.next()
            return ('not', self.unary())
        return self.primary()
    def args_until(self, closer):
        args = []
        if self.peek() == ('op', closer):
            self.next()
            return args
        while True:
            args.append(self.expr())
            if self.accept('op', ','):
                continue
            self.expect('op', closer)
            return args
    def primary(self):
        x = self.next()
        if x[0] == 'int':
            return ('int', int(x[1]))
        if x[0] == 'str':
            return ('str', x[1][1:-1])
        if x[0] == 'sym':
            return ('sym', x[1][1:])
        if x == ('op', '('):
            e = self.expr()
            self.expect('op', ')')
            return e
        if x == ('op', '['):
            if self.peek() == ('op', ':') and self.peek(1) == ('op', ']'):
                self.next(); self.next()
                return ('plist', [])
            if self.peek() == ('op', ']'):
                self.next()
                return ('list', [])
            first = self.expr()
            if self.accept('op', ':'):
                pairs = [(first, self.expr())]
                while self.accept('op', ','):
                    k = self.expr()
                    self.expect('op', ':')
                    pairs.append((k, self.expr()))
                self.expect('op', ']')
                return ('plist', pairs)
            items = [first]
            while self.accept('op', ','):
                items.append(self.expr())
            self.expect('op', ']')
            return ('list', items)
        if x[0] == 'id':
            name = x[1]
            if name in NAMED_STR:
                return ('str', NAMED_STR[name])
            if name == 'the':
                return self.the_form()
            if name in CHUNK_TYPES[1:]:
                return self.chunk_form(name)
            if name == 'field':
                return ('field', self.unary())
            if name == 'me' and self.peek() == ('op', '('):
                self.next()
                args = self.args_until(')')
                return ('mcall', ('me',), meth_name(args[0]), args[1:])
            if name == 'sprite':
                a = self.unary()
                y = self.next()
                if y[0] != 'id' or y[1] not in SPRITE_OPS:
                    raise SpecError('sprite ... %r' % (y,))
                return ('bin', y[1], a, self.unary())
            if self.peek() == ('op', '('):
                self.next()
                args = self.args_until(')')
                return ('lcall' if name in self.scope['lfuncs'] else 'call', name, args)
            return self.variable(name)
        raise SpecError('unexpected token %r' % (x,))
    def objid(self):
        """operand of sprite / cast / sound / menu / menuItem: a unary-level expression"""
        return self.unary()
    def the_form(self):
        x = self.next()
        if x[0] != 'id':
            raise SpecError('the %r' % (x,))
        name = x[1]
        if name in ('short', 'abbr', 'long') and self.peek()[0] == 'id' and self.peek()[1] in ('time', 'date'):
            return ('datetime', name + ' ' + self.next()[1])
        if name == 'last' and self.peek()[0] == 'id' and self.peek()[1] in CHUNK_TYPES[1:]:
            t = self.next()[1]
            self.expect('id', 'of')
            return ('lastchunk', t, self.chunk_base())
        if self.peek() != ('id', 'of'):
            if name in SYS_INDEX:
                return ('sysprop', name)
            if name in SPECIAL_PROPS:
                return ('special', name)
            if name in self.scope.get('keyprops', ()):
                return ('keyprop', name)
            return ('the', name)
        self.next()       # of
        y = self.peek()
        if name == 'number' and y[0] == 'id' and y[1].endswith('s') and y[1][:-1] in CHUNK_TYPES[1:] and self.peek(1) == ('id', 'of'):
            self.next(); self.next()
            return ('numchunks', y[1][:-1], self.chunk_base())
        if name == 'number' and y == ('id', 'menuItems'):
            self.next(); self.expect('id', 'of'); self.expect('id', 'menu')
            return ('menuitems', self.objid())
        if name == 'number' and y[0] == 'id' and y[1] in NUM_OF[2:]:
            self.next()
            return ('numberof', y[1])
        if y == ('id', 'menuItem'):
            self.next()
            item = self.objid()
            self.expect('id', 'of'); self.expect('id', 'menu')
            return ('menuprop', name, item, self.objid())
        if y == ('id', 'menu') and name == 'name':
            self.next()
            return ('menuname', self.objid())
        if y[0] == 'id' and y[1] in OBJ_KINDS and (self.peek(1) != ('op', '(') or y[1] in ('sprite', 'sound')):
            # sprite (i + 1): a parenthesised identifier; cast(...) with a parenthesis is read as the call form and
            # identified with the object form by same_object (cast(x) IS the cast member x)
            self.next()
            return ('objprop', y[1], self.objid(), name)
        return ('accessor', self.chunk_base(), name)
    def chunk_base(self):
        """what follows 'of' in a chunk / property expression: a unary-level expression (which may be another chunk)"""
        return self.unary()
    def chunk_form(self, t):
        a = self.unary()
        b = None
        if self.accept('id', 'to'):
            b = self.unary()
        self.expect('id', 'of')
        base = self.chunk_base()
        mods = [(t, a, b)]
        if base[0] == 'chunk' and CHUNK_TYPES.index(t) < CHUNK_TYPES.index(base[1][0][0]):
            # char < word < item < line: one chunk expression; any other order is a chunk of a chunk
            return ('chunk', mods + list(base[1]), base[2])
        return ('chunk', mods, base)
    def variable(self, name):
        s = self.scope
        if name in s['lfuncs'] and name not in s['locals'] and name not in s['args']:
            return ('lcall', name, [])        # Lingo: the bare name of a handler of this script calls it
        if name in s['locals']:
            return ('loc', name)
        if name in s['args']:
            return ('par', name)
        if name in s['globals']:
            return ('glob', name)
        if name in s['props']:
            return ('prop', name)
        return ('loc', name)          # Lingo: an identifier that is not declared otherwise is a local variable

def meth_name(e):
    if e[0] in ('loc', 'par', 'glob', 'prop', 'sym', 'lcall'):
        return e[1]
    raise SpecError('method name %r' % (e,))

def split_lines(text):
    lines = []
    for ln in text.split('\n'):
        toks = tokenize(ln)
        if toks:
            lines.append(toks)
    return lines

def parse_lingo(text):
    """-> script AST (names are not recoverable from text and are left out)"""
    lines = split_lines(text)
    script = {'props': [], 'globals': [], 'factory': None, 'handlers': []}
    i = 0
    def idlist(toks):
        out = []
        k = 0
        while k < len(toks):
            if toks[k][0] != 'id':
                raise SpecError('identifier expected in %r' % (toks,))
            out.append(toks[k][1])
            k += 1
            if k < len(toks):
                if toks[k] != ('op', ','):
                    raise SpecError('comma expected in %r' % (toks,))
                k += 1
        return out
    # header
    while i < len(lines) and lines[i][0] in (('id', 'property'), ('id', 'global'), ('id', 'factory')):
        kw = lines[i][0][1]
        if kw == 'property':
            script['props'] += idlist(lines[i][1:])
        elif kw == 'global':
            script['globals'] += idlist(lines[i][1:])
        else:
            script['factory'] = lines[i][1][1]
        i += 1
    # handler names first (local calls)
    lfuncs = set()
    for ln in lines:
        if ln[0] in (('id', 'on'), ('id', 'method')) and len(ln) > 1:
            lfuncs.add(ln[1][1])
    while i < len(lines):
        ln = lines[i]
        if ln[0] not in (('id', 'on'), ('id', 'method')):
            raise SpecError('handler expected, got %r' % (ln,))
        h = {'name': ln[1][1], 'args': idlist(ln[2:]), 'method': ln[0][1] == 'method', 'globals': [], 'body': None}
        if h['method']:
            h['args'] = ['me'] + h['args']
        i += 1
        while i < len(lines) and lines[i][0] in (('id', 'global'), ('id', 'instance')):
            if lines[i][0][1] == 'instance':
                script['props'] += idlist(lines[i][1:])       # instance variables of the factory
            else:
                h['globals'] += idlist(lines[i][1:])
            i += 1
        # collect body lines up to the matching 'end'
        depth = 0
        body = []
        while True:
            if i >= len(lines):
                raise SpecError('missing end')
            ln = lines[i]
            i += 1
            if ln == [('id', 'end')]:
                break
            body.append(ln)
        # locals are the identifiers assigned by set / repeat with that are not otherwise declared
        scope = {'keyprops': set(KEY_PROPS), 'args': set(h['args']), 'globals': set(script['globals']) | set(h['globals']), 'props': set(script['props']),
                 'lfuncs': lfuncs, 'locals': set()}
        locs = []
        for bl in body:
            tgt = None
            if bl[0] == ('id', 'set') and len(bl) > 2 and bl[1][0] == 'id' and bl[2] == ('op', '='):
                tgt = bl[1][1]
            if bl[0] == ('id', 'repeat') and len(bl) > 3 and bl[1] == ('id', 'with'):
                tgt = bl[2][1]
            if tgt and tgt not in scope['args'] and tgt not in scope['globals'] and tgt not in scope['props'] and tgt not in locs:
                locs.append(tgt)
        scope['locals'] = set(locs)
        h['locals'] = locs
        pos = [0]
        h['body'] = parse_block(body, pos, scope, ())
        if pos[0] != len(body):
            raise SpecError('unbalanced block at %r' % (body[pos[0]],))
        script['handlers'].append(h)
    return script

def parse_block(lines, pos, scope, enders):
    out = []
    while pos[0] < len(lines):
        ln = lines[pos[0]]
        head = tuple(ln[:2])
        if any(head[:len(e)] == e for e in enders):
            return out
        pos[0] += 1
        k0 = ln[0]
        if k0 == ('id', 'set') and len(ln) > 1 and ln[1] == ('id', 'the'):
            p = Parser(ln[1:], scope)
            lhs = p.unary()
            p.expect('op', '=')
            v = p.expr()
            if p.peek()[0] != 'eof':
                raise SpecError('trailing tokens in %r' % (ln,))
            k = lhs[0]
            if k == 'the':
                out.append(('setthe', lhs[1], v))
            elif k == 'objprop':
                out.append(('setobjprop', lhs[1], lhs[2], lhs[3], v))
            elif k == 'menuprop':
                out.append(('setmenuprop', lhs[1], lhs[2], lhs[3], v))
            elif k == 'sysprop':
                out.append(('setsys', lhs[1], v))
            elif k == 'special':
                out.append(('setspecial', lhs[1], v))
            elif k == 'accessor':
                out.append(('setaccessor', lhs[1], lhs[2], v))
            else:
                raise SpecError('cannot assign to %r' % (lhs,))
        elif k0 == ('id', 'put') and any(t in (('id', 'into'), ('id', 'after'), ('id', 'before')) for t in ln):
            p = Parser(ln[1:], scope)
            v = p.expr()
            mode = p.next()[1]
            if mode not in PUT_MODE:
                raise SpecError('put ... %r' % mode)
            t = p.unary()
            if p.peek()[0] != 'eof':
                raise SpecError('trailing tokens in %r' % (ln,))
            out.append(('put', mode, v, t))
        elif k0 == ('id', 'delete'):
            p = Parser(ln[1:], scope)
            t = p.unary()
            if p.peek()[0] != 'eof' or t[0] != 'chunk':
                raise SpecError('delete %r' % (ln,))
            out.append(('delete', t))
        elif k0 == ('id', 'hilite'):
            p = Parser(ln[1:], scope)
            t = p.unary()
            if p.peek()[0] != 'eof' or t[0] != 'chunk':
                raise SpecError('hilite %r' % (ln,))
            out.append(('hilite', t))
        elif k0 == ('id', 'tell') and not any(t == ('id', 'to') for t in ln):
            p = Parser(ln[1:], scope)
            obj = p.expr()
            if p.peek()[0] != 'eof':
                raise SpecError('trailing tokens in %r' % (ln,))
            A = parse_block(lines, pos, scope, ((('id', 'end'), ('id', 'tell')),))
            pos[0] += 1
            out.append(('tell', obj, A))
        elif k0 == ('id', 'me') and len(ln) > 1 and ln[1] != ('op', '('):
            p = Parser(ln[1:], scope)
            args = [p.expr()]
            while p.accept('op', ','):
                args.append(p.expr())
            if p.peek()[0] != 'eof':
                raise SpecError('trailing tokens in %r' % (ln,))
            out.append(('mcall', ('me',), meth_name(args[0]), args[1:]))
        elif k0 == ('id', 'set'):
            p = Parser(ln[1:], scope)
            name = p.expect('id')[1]
            p.expect('op', '=')
            e = p.expr()
            if p.peek()[0] != 'eof':
                raise SpecError('trailing tokens in %r' % (ln,))
            out.append(('set', p.variable(name), e))
        elif k0 == ('id', 'if'):
            p = Parser(ln[1:], scope)
            c = p.expr()
            p.expect('id', 'then')
            A = parse_block(lines, pos, scope, ((('id', 'else'),), (('id', 'end'), ('id', 'if'))))
            nxt = lines[pos[0]]
            pos[0] += 1
            if nxt == [('id', 'else')]:
                B = parse_block(lines, pos, scope, ((('id', 'end'), ('id', 'if')),))
                pos[0] += 1
                out.append(('ife', c, A, B))
            else:
                out.append(('if', c, A))
        elif k0 == ('id', 'repeat'):
            p = Parser(ln[1:], scope)
            if p.accept('id', 'while'):
                c = p.expr()
                hd = ('while', c)
            else:
                p.expect('id', 'with')
                v = p.expect('id')[1]
                if p.accept('id', 'in'):
                    hd = ('in', v, p.expr())
                else:
                    p.expect('op', '=')
                    a = p.expr()
                    if p.accept('id', 'down'):
                        p.expect('id', 'to')
                        hd = ('down', v, a, p.expr())
                    else:
                        p.expect('id', 'to')
                        hd = ('with', v, a, p.expr())
            if p.peek()[0] != 'eof':
                raise SpecError('trailing tokens in %r' % (ln,))
            A = parse_block(lines, pos, scope, ((('id', 'end'), ('id', 'repeat')),))
            pos[0] += 1
            out.append(hd + (A,))
        elif ln == [('id', 'exit'), ('id', 'repeat')]:
            out.append(('exit_repeat',))
        elif ln == [('id', 'exit')]:
            out.append(('exit',))
        elif k0[0] == 'id':
            name = k0[1]
            p = Parser(ln[1:], scope)
            args = []
            if p.peek()[0] != 'eof':
                while True:
                    args.append(p.expr())
                    if not p.accept('op', ','):
                        break
            if p.peek()[0] != 'eof':
                raise SpecError('trailing tokens in %r' % (ln,))
            if name == 'go' and name not in scope['lfuncs'] and ln[1:] in ([('id', 'loop')], [('id', 'next')], [('id', 'previous')]):
                args = [('sym', ln[1][1])]       # the commands go loop / go next / go previous (Director compiles the word as a symbol)
            out.append(('lcall' if name in scope['lfuncs'] else 'call', name, args))
        else:
            raise SpecError('statement expected: %r' % (ln,))
    return out

def same_object(x):
    """cast(x) and cast x denote the same member: one normal form for 'the p of cast(x)' / 'set the p of cast(x)'"""
    if isinstance(x, tuple):
        x = tuple(same_object(y) for y in x)
        if x and x[0] == 'accessor' and isinstance(x[1], tuple) and x[1][:2] == ('call', 'cast') and len(x[1][2]) == 1:
            return ('objprop', 'cast', x[1][2][0], x[2])
        if x and x[0] == 'setaccessor' and isinstance(x[1], tuple) and x[1][:2] == ('call', 'cast') and len(x[1][2]) == 1:
            return ('setobjprop', 'cast', x[1][2][0], x[2], x[3])
        # the p of field x: the object form and the accessor on the field expression are the same text
        if x and x[0] == 'accessor' and isinstance(x[1], tuple) and x[1][0] == 'field':
            return ('objprop', 'field', x[1][1], x[2])
        if x and x[0] == 'setaccessor' and isinstance(x[1], tuple) and x[1][0] == 'field':
            return ('setobjprop', 'field', x[1][1], x[2], x[3])
        return x
    if isinstance(x, list):
        return [same_object(y) for y in x]
    if isinstance(x, dict):
        return {k: same_object(v) for k, v in x.items()}
    return x

def strip_script(script):
    """the part of a source script that its text determines (for comparison with parse_lingo output)"""
    hs = []
    for h in script['handlers']:
        hs.append({'name': h['name'], 'args': list(h['args']), 'method': bool(h.get('method')), 'body': norm_body(h['body'])})
    return {'props': list(script.get('props', [])), 'globals': list(script.get('globals', [])), 'factory': script.get('factory'), 'handlers': hs}

def norm_body(b):
    return [norm_s(s) for s in b]
def norm_s(s):
    k = s[0]
    if k in ('if', 'while'):
        return (k, s[1], norm_body(s[2]))
    if k == 'ife':
        return (k, s[1], norm_body(s[2]), norm_body(s[3]))
    if k in ('with', 'down'):
        return (k, s[1], s[2], s[3], norm_body(s[4]))
    if k == 'in':
        return (k, s[1], s[2], norm_body(s[3]))
    if k in ('call', 'lcall'):
        return (k, s[1], list(s[2]))
    if k == 'tell':
        return (k, s[1], norm_body(s[2]))
    if k == 'mcall':
        return (k, s[1], s[2], list(s[3]))
    return s

def parsed_view(p):
    """parse_lingo output reduced to the same shape as strip_script (handler-level globals folded away)"""
    return {'props': p['props'], 'globals': p['globals'], 'factory': p['factory'],
            'handlers': [{'name': h['name'], 'args': h['args'], 'method': h['method'], 'body': h['body']} for h in p['handlers']]}

# ------------------------------------------------------------------ canonical Lingo text of a source script
def pp_e(e):
    k = e[0]
    if k == 'int':
        return str(e[1])
    if k == 'str':
        return 'EMPTY' if e[1] == '' else '"%s"' % e[1]
    if k == 'sym':
        return '#' + e[1]
    if k in ('loc', 'par', 'glob', 'prop'):
        return e[1]
    if k == 'bin':
        if e[1] in SPRITE_OPS:
            return 'sprite %s %s %s' % (pp_e(e[2]), e[1], pp_e(e[3]))
        sym = BINOPS[e[1]][1]
        if e[1] == 'start':
            sym = 'start'
        return '(%s %s %s)' % (pp_e(e[2]), sym, pp_e(e[3]))
    if k == 'neg':
        return '-' + pp_e(e[1])
    if k == 'not':
        return 'not ' + pp_e(e[1])
    if k in ('call', 'lcall'):
        if not e[2]:
            return e[1] + ('()' if k == 'call' else '')      # the bare name of a handler of this script is a call
        return e[1] + '(' + ', '.join(pp_e(a) for a in e[2]) + ')'
    if k == 'list':
        return '[' + ', '.join(pp_e(a) for a in e[1]) + ']'
    if k == 'plist':
        return '[:]' if not e[1] else '[' + ', '.join('%s: %s' % (pp_e(a), pp_e(b)) for a, b in e[1]) + ']'
    if k == 'the':
        return 'the ' + e[1]
    if k == 'objprop':
        return 'the %s of %s %s' % (e[3], e[1], pp_id(e[2]))
    if k == 'menuprop':
        return 'the %s of menuItem %s of menu %s' % (e[1], pp_id(e[2]), pp_id(e[3]))
    if k == 'menuname':
        return 'the name of menu ' + pp_id(e[1])
    if k == 'menuitems':
        return 'the number of menuItems of menu ' + pp_id(e[1])
    if k == 'numberof':
        return 'the number of ' + e[1]
    if k in ('sysprop', 'special', 'datetime', 'keyprop'):
        return 'the ' + e[1]
    if k == 'lastchunk':
        return 'the last %s of %s' % (e[1], pp_e(e[2]))
    if k == 'numchunks':
        return 'the number of %ss of %s' % (e[1], pp_e(e[2]))
    if k == 'chunk':
        t = ''
        for ty, a, b in e[1]:
            t += '%s %s%s of ' % (ty, pp_e(a), (' to ' + pp_e(b)) if b is not None else '')
        return t + pp_e(e[2])
    if k == 'field':
        return 'field ' + pp_e(e[1])
    if k == 'accessor':
        return 'the %s of %s' % (e[2], pp_e(e[1]))
    if k == 'mcall':
        return 'me(' + ', '.join([e[2]] + [pp_e(a) for a in e[3]]) + ')'
    raise SpecError(k)

def pp_id(e):
    return pp_e(e) if e[0] in ('int', 'str', 'loc', 'par', 'glob', 'prop') else '(' + strip_parens(pp_e(e)) + ')'

def strip_parens(t):
    return t[1:-1] if t.startswith('(') else t

def pp_body(b, ind):
    I = '    ' * ind
    s = ''
    for st in b:
        k = st[0]
        if k == 'set':
            s += I + 'set %s = %s\n' % (st[1][1], pp_e(st[2]))
        elif k == 'call' and st[1] == 'go' and len(st[2]) == 1 and st[2][0] in (('sym', 'loop'), ('sym', 'next'), ('sym', 'previous')):
            s += I + 'go ' + st[2][0][1] + '\n'
        elif k in ('call', 'lcall'):
            s += I + st[1] + (' ' + ', '.join(pp_e(a) for a in st[2]) if st[2] else '') + '\n'
        elif k == 'exit_repeat':
            s += I + 'exit repeat\n'
        elif k == 'exit':
            s += I + 'exit\n'
        elif k == 'if':
            s += I + 'if %s then\n' % pp_e(st[1]) + pp_body(st[2], ind + 1) + I + 'end if\n'
        elif k == 'ife':
            s += I + 'if %s then\n' % pp_e(st[1]) + pp_body(st[2], ind + 1) + I + 'else\n' + pp_body(st[3], ind + 1) + I + 'end if\n'
        elif k == 'while':
            s += I + 'repeat while %s\n' % strip_parens(pp_e(st[1])) + pp_body(st[2], ind + 1) + I + 'end repeat\n'
        elif k == 'with':
            s += I + 'repeat with %s = %s to %s\n' % (st[1], pp_e(st[2]), pp_e(st[3])) + pp_body(st[4], ind + 1) + I + 'end repeat\n'
        elif k == 'down':
            s += I + 'repeat with %s = %s down to %s\n' % (st[1], pp_e(st[2]), pp_e(st[3])) + pp_body(st[4], ind + 1) + I + 'end repeat\n'
        elif k == 'in':
            s += I + 'repeat with %s in %s\n' % (st[1], pp_e(st[2])) + pp_body(st[3], ind + 1) + I + 'end repeat\n'
        elif k == 'setthe':
            s += I + 'set the %s = %s\n' % (st[1], pp_e(st[2]))
        elif k == 'setobjprop':
            s += I + 'set %s = %s\n' % (pp_e(('objprop', st[1], st[2], st[3])), pp_e(st[4]))
        elif k == 'setmenuprop':
            s += I + 'set %s = %s\n' % (pp_e(('menuprop', st[1], st[2], st[3])), pp_e(st[4]))
        elif k in ('setsys', 'setspecial'):
            s += I + 'set the %s = %s\n' % (st[1], pp_e(st[2]))
        elif k == 'setaccessor':
            s += I + 'set the %s of %s = %s\n' % (st[2], pp_e(st[1]), pp_e(st[3]))
        elif k == 'put':
            s += I + 'put %s %s %s\n' % (pp_e(st[2]), st[1], pp_e(st[3]))
        elif k == 'delete':
            s += I + 'delete %s\n' % pp_e(st[1])
        elif k == 'hilite':
            s += I + 'hilite %s\n' % pp_e(st[1])
        elif k == 'tell':
            s += I + 'tell %s\n' % pp_e(st[1]) + pp_body(st[2], ind + 1) + I + 'end tell\n'
        elif k == 'mcall':
            s += I + 'me ' + ', '.join([st[2]] + [pp_e(a) for a in st[3]]) + '\n'
        else:
            raise SpecError(k)
    return s

def handler_globals(h, script):
    seen = []
    def walk_e(e):
        if e[0] == 'glob' and e[1] not in seen:
            seen.append(e[1])
        for x in e[1:]:
            if isinstance(x, tuple):
                walk_e(x)
            elif isinstance(x, list):
                for y in x:
                    if isinstance(y, tuple) and y and isinstance(y[0], str):
                        walk_e(y)
                    elif isinstance(y, tuple):
                        for z in y:
                            walk_e(z)
    def walk_b(b):
        for st in b:
            for x in st[1:]:
                if isinstance(x, tuple):
                    walk_e(x)
                elif isinstance(x, list):
                    if x and isinstance(x[0], tuple) and x[0] and x[0][0] in ('set', 'call', 'lcall', 'if', 'ife', 'while', 'with', 'down', 'in', 'exit_repeat'):
                        walk_b(x)
                    else:
                        for y in x:
                            walk_e(y)
    walk_b(h['body'])
    return sorted(g for g in seen if g not in script.get('globals', []))

def pp_lingo(script):
    s = ''
    if script.get('props') and not script.get('factory'):
        s += 'property %s\n' % ', '.join(script['props'])
    if script.get('factory'):
        s += 'factory %s\n\n' % script['factory']
    if script.get('globals'):
        for g in script['globals']:
            s += 'global %s\n' % g
        s += '\n'
    first = True
    for h in script['handlers']:
        if not first:
            s += '\n'
        first = False
        args = h['args'][1:] if h.get('method') else h['args']
        s += ('method ' if h.get('method') else 'on ') + h['name'] + ((' ' + ', '.join(args)) if args else '') + '\n'
        if h.get('method') and h['name'].lower() == 'mnew' and script.get('factory') and script.get('props'):
            s += '    instance %s\n\n' % ', '.join(script['props'])
        gl = handler_globals(h, script)
        for g in gl:
            s += '    global %s\n' % g
        if gl:
            s += '\n'
        s += pp_body(h['body'], 1)
        s += 'end\n'
    return s

# ------------------------------------------------------------------ the JavaScript correspondences
def js_e(e):
    k = e[0]
    if k == 'int':
        return str(e[1])
    if k == 'str':
        return 'new LingoString("%s")' % e[1]
    if k == 'sym':
        return "symbol('%s')" % e[1]
    if k in ('loc', 'par'):
        return 'this' if e[1] == 'me' else e[1]
    if k == 'glob':
        return '_global.' + e[1]
    if k == 'prop':
        return 'this.' + e[1]
    if k == 'bin':
        op = e[1]
        if op in SPRITE_OPS:
            return 'sprite(%s).%s(sprite(%s))' % (js_e(e[2]), op, js_e(e[3]))
        if op in JS_METHOD:
            recv = js_e(e[2])
            if e[2][0] in ('int', 'neg', 'not'):
                recv = '(%s)' % recv       # 1.concat is no member access; -(x).concat(s) negates the concatenation
            return '%s.%s(%s)' % (recv, JS_METHOD[op], js_e(e[3]))
        return '(%s %s %s)' % (js_e(e[2]), JS_BIN[op], js_e(e[3]))
    if k == 'neg':
        return '-(%s)' % js_e(e[1])
    if k == 'not':
        return '!(%s)' % js_e(e[1])
    if k in ('call', 'lcall'):
        return js_call(e[1], e[2])
    if k == 'list':
        return 'list(' + ', '.join(js_e(a) for a in e[1]) + ')'
    if k == 'plist':
        flat = []
        for a, b in e[1]:
            flat += [js_e(a), js_e(b)]
        return 'propList(' + ', '.join(flat) + ')'
    if k == 'the':
        owner = JS_THE_OWNER.get(e[1])
        if owner:
            return '%s.%s' % (owner, e[1])
        return '%s.%s' % (JS_PROP_OWNER.get(e[1], 'this'), e[1])
    if k == 'objprop':
        obj = {'sprite': 'sprite(%s)', 'cast': 'member(%s)', 'sound': 'sound(%s)', 'field': 'field(%s)'}[e[1]]
        return (obj % (js_e(e[2]) if e[1] == 'field' else js_id(e[2]))) + '.' + e[3]
    if k == 'menuprop':
        return '_menuBar.menu[%s].item[%s].%s' % (js_id(e[3]), js_id(e[2]), e[1])
    if k == 'menuname':
        return '_menuBar.menu[%s].name' % js_id(e[1])
    if k == 'menuitems':
        return '_menuBar.menu[%s].item.length' % js_id(e[1])
    if k == 'numberof':
        return '_menuBar.menu.length' if e[1] == 'menus' else e[1] + '.length'
    if k == 'sysprop':
        return e[1] if JS_IN_TELL[0] else '%s.%s' % (SYSTEM_PROPS[SYS_INDEX[e[1]]][1], e[1])
    if k == 'special':
        return '%s.%s' % (JS_PROP_OWNER.get(e[1], 'this'), e[1])
    if k == 'datetime':
        return "_system.date('%s')" % e[1]
    if k == 'keyprop':
        if e[1] in ('date', 'time'):
            return "_system.date('%s')" % e[1]
        return '%s.%s' % (JS_KEY_OWNER.get(e[1], '_key'), e[1])
    if k == 'lastchunk':
        return '%s.%s["last"]' % (js_e(e[2]), e[1])
    if k == 'numchunks':
        return '%s.%s.length' % (js_e(e[2]), e[1])
    if k == 'chunk':
        t = js_e(e[2])
        for ty, a, b in reversed(e[1]):
            t += '.%s[%s]' % (ty, js_e(a) if b is None else 'range(%s, %s)' % (js_e(a), js_e(b)))
        return t
    if k == 'field':
        return 'field(%s)' % js_e(e[1])
    if k == 'accessor':
        return '%s.%s' % (js_e(e[1]), e[2])
    if k == 'mcall':
        return 'this.%s(%s)' % (e[2], ', '.join(js_e(a) for a in e[3]))
    raise SpecError(k)

JS_IN_TELL = [False]
JS_THE_OWNER = {'updateMovieEnabled': '_movie', 'frameLabel': '_movie'}
JS_KEY_OWNER = {'updateMovieEnabled': '_movie', 'frameLabel': '_movie', 'labelList': '_movie', 'lastClick': '_player',
                'lastEvent': '_player', 'lastKey': '_player', 'lastRoll': '_player', 'machineType': '_player', 'mouseCast': '_mouse',
                'mouseChar': '_mouse', 'mouseDown': '_mouse', 'mouseH': '_mouse', 'mouseItem': '_mouse', 'mouseLine': '_mouse',
                'mouseUp': '_mouse', 'mouseV': '_mouse', 'mouseWord': '_mouse', 'doubleClick': '_mouse', 'clickOn': '_mouse',
                'movie': '_movie', 'pathName': '_movie', 'movieFileSize': '_movie', 'movieFileFreeSize': '_movie',
                'pauseState': '_movie', 'result': '_player', 'selection': '_movie', 'stageBottom': '_movie', 'stageLeft': '_movie',
                'stageRight': '_movie', 'stageTop': '_movie', 'ticks': '_system', 'maxinteger': '_system', 'multiSound': '_system'}
KEY_PROPS = sorted((set(JS_KEY_OWNER) - {'updateMovieEnabled', 'frameLabel'}) | {'date', 'time', 'stillDown', 'key', 'keyCode',
                                                                                 'shiftDown', 'commandDown', 'optionDown', 'controlDown'})

def js_id(e):
    """object ids: a number or a name is written as it is, anything else is the expression"""
    if e[0] == 'int':
        return str(e[1])
    if e[0] == 'str':
        return '"%s"' % e[1]
    return js_e(e)

def js_target(t):
    if t[0] == 'loc':
        return t[1]
    if t[0] == 'field':
        return 'field(%s).text' % js_e(t[1])
    if t[0] == 'glob':
        return '_global.' + t[1]
    if t[0] == 'chunk':
        base = js_target(t[2])
        for ty, a, b in reversed(t[1]):
            base += '.%s[%s]' % (ty, js_e(a) if b is None else 'range(%s, %s)' % (js_e(a), js_e(b)))
        return base
    raise SpecError('target %r' % (t,))

def js_call(name, args, in_tell=False):
    """the translator's fixed renamings of commands"""
    a = ', '.join(js_e(x) for x in args)
    if name == 'return':
        return 'return ' + a if a else 'return'
    if name == 'birth':
        name = '_movie.newScript'
    elif name == 'new':
        # both spellings read back as the command 'new' (same expression tree); the translator picks newMember when
        # the argument text begins with a symbol constructor
        name = '_movie.newMember' if a.startswith('symbol(') else '_movie.newScript'
    elif name == 'go':
        pre = '' if in_tell else '_movie.'
        if len(args) == 1 and args[0][0] == 'sym':
            return '%sgo%s()' % (pre, args[0][1][:1].upper() + args[0][1][1:].lower())
        name = pre + 'go'
    elif name == 'cast':
        name = 'member'
    elif name == 'continue':
        name = 'resume'
    return '%s(%s)' % (name, a)

def cond_js(c):
    """a condition (or the object of with) between parentheses; only an infix operation is parenthesised by itself"""
    t = js_e(c)
    return t if (c[0] == 'bin' and c[1] in JS_BIN) else '(%s)' % t

def js_body(b, ind):
    I = '    ' * ind
    s = ''
    for st in b:
        k = st[0]
        if k == 'set':
            s += I + '%s = %s;\n' % (js_e(st[1]), js_e(st[2]))
        elif k == 'call':
            s += I + js_call(st[1], st[2]) + ';\n'
        elif k == 'lcall':
            s += I + 'fn_call(' + js_call(st[1], st[2]) + ');\n'
        elif k == 'exit_repeat':
            s += I + 'break;\n'
        elif k == 'exit':
            s += I + 'exit();\n'
        elif k == 'if':
            s += I + 'if %s {\n' % cond_js(st[1]) + js_body(st[2], ind + 1) + I + '}\n'
        elif k == 'ife':
            s += I + 'if %s {\n' % cond_js(st[1]) + js_body(st[2], ind + 1) + I + '} else {\n' + js_body(st[3], ind + 1) + I + '}\n'
        elif k == 'while':
            s += I + 'while %s {\n' % cond_js(st[1]) + js_body(st[2], ind + 1) + I + '}\n'
        elif k in ('with', 'down'):
            cmp_ = '<=' if k == 'with' else '>='
            s += I + 'for(%s = %s; %s %s %s; %s%s) {\n' % (st[1], js_e(st[2]), st[1], cmp_, js_e(st[3]), st[1], '++' if k == 'with' else '--') \
                + js_body(st[4], ind + 1) + I + '}\n'
        elif k == 'in':
            s += I + 'for(%s of %s) {\n' % (st[1], js_e(st[2])) + js_body(st[3], ind + 1) + I + '}\n'
        elif k == 'setthe':
            s += I + '%s = %s;\n' % (js_e(('special', st[1])), js_e(st[2]))
        elif k == 'setobjprop':
            s += I + '%s = %s;\n' % (js_e(('objprop', st[1], st[2], st[3])), js_e(st[4]))
        elif k == 'setmenuprop':
            s += I + '%s = %s;\n' % (js_e(('menuprop', st[1], st[2], st[3])), js_e(st[4]))
        elif k == 'setsys':
            s += I + '%s = %s;\n' % (js_e(('sysprop', st[1])), js_e(st[2]))
        elif k == 'setspecial':
            s += I + '%s = %s;\n' % (js_e(('special', st[1])), js_e(st[2]))
        elif k == 'setaccessor':
            s += I + '%s.%s = %s;\n' % (js_e(st[1]), st[2], js_e(st[3]))
        elif k == 'put':
            t = js_target(st[3])
            v = js_e(st[2])
            if st[1] == 'after':
                s += I + '%s = new LingoString(%s + %s);\n' % (t, t, v)
            elif st[1] == 'before':
                s += I + '%s = new LingoString(%s + %s);\n' % (t, v, t)
            else:
                s += I + '%s = %s;\n' % (t, v)
        elif k == 'delete':
            s += I + 'delete(%s);\n' % js_e(st[1])
        elif k == 'hilite':
            s += I + 'hilite(%s);\n' % js_e(st[1])
        elif k == 'tell':
            JS_IN_TELL[0] = True
            try:
                inner = ''
                for x in st[2]:
                    if x[0] == 'call':
                        inner += '    ' * (ind + 1) + js_call(x[1], x[2], True) + ';\n'
                    else:
                        inner += js_body([x], ind + 1)
            finally:
                JS_IN_TELL[0] = False
            s += I + 'with %s {\n' % cond_js(st[1]) + inner + I + '}\n'
        elif k == 'mcall':
            s += I + 'this.%s(%s);\n' % (st[2], ', '.join(js_e(a) for a in st[3]))
        else:
            raise SpecError(k)
    return s

def pp_js(script):
    if script.get('factory') or script.get('props'):
        return pp_js_class(script)
    s = ''
    first = True
    for h in script['handlers']:
        if not first:
            s += '\n'
        first = False
        name = 'birth' if h['name'] == 'new' else h['name']
        s += 'function %s(%s) {\n' % (name, ', '.join(h['args']))
        for l in h['locals']:
            s += '    var %s;\n' % l
        if h['locals']:
            s += '\n'
        s += js_body(h['body'], 1)
        s += '}\n'
    return s

def pp_js_class(script):
    fac = script.get('factory')
    s = ('class Factory__%s extends FactoryBase {' % fac) if fac else ('class Object__%d extends ObjectBase {' % script.get('scr_num', 0))
    for h in script['handlers']:
        s += '\n    %s(%s) {\n' % (h['name'], ', '.join(a for a in h['args'] if a != 'me'))
        for l in h['locals']:
            s += '        var %s;\n' % l
        if h['locals']:
            s += '\n'
        s += js_body(h['body'], 2)
        s += '    }\n'
    s += '}\n\n'
    if fac:
        s += 'function %s(methodName, ...args) {\n    return factoryCall(\'%s\', methodName, args);\n}\n' % (fac, fac)
    else:
        for h in script['handlers']:
            if h['name'] not in ('birth', 'new'):
                s += 'function %s(obj, ...args) {\n    return obj.%s(...args);\n}\n' % (h['name'], h['name'])
    return s

JS_TOKEN_RE = re.compile(r'''\s+|(?P<str>"(?:[^"\\\n]|\\.)*"|'(?:[^'\\\n]|\\.)*')|(?P<num>\d+(?:\.\d*)?(?:[eE][-+]?\d+)?)|(?P<id>[A-Za-z_$][A-Za-z0-9_$]*)|(?P<op>\.\.\.|\+\+|--|&&|\|\||==|!=|<=|>=|[-+*/%<>=!(){}\[\];,.:])''', re.X)
def js_tokens(text):
    out = []
    pos = 0
    while pos < len(text):
        m = JS_TOKEN_RE.match(text, pos)
        if not m:
            raise SpecError('cannot tokenize JS at %r' % text[pos:pos + 20])
        pos = m.end()
        if m.lastgroup:
            out.append(m.group(m.lastgroup))
    return out
