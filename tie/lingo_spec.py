"""Independent specification of the Lingo program space of C02/C03/C04:
   * a source AST (tuples),
   * Director's code-generation scheme  compile_script : script -> (Lscr bytes, name list),
   * a tokenizer + precedence parser for Lingo text  parse_lingo : text -> script AST,
   * the fixed Lingo->JavaScript correspondences  js_script : script -> JS token list.
   Nothing here imports drxtract.

   script  = {'names': [str], 'props': [str], 'globals': [str], 'factory': None|str, 'scr_num': int,
              'handlers': [handler]}
   handler = {'name': str, 'args': [str], 'locals': [str], 'body': [stmt], 'method': bool}
   expr    = ('int', n) | ('str', s) | ('sym', s) | ('loc', s) | ('par', s) | ('glob', s) | ('prop', s)
           | ('bin', op, a, b) | ('neg', a) | ('not', a) | ('call', f, [args]) | ('lcall', f, [args])
           | ('list', [items]) | ('plist', [(k, v)])
   stmt    = ('set', target, e)   target in loc/par/glob/prop
           | ('call', f, [args]) | ('lcall', f, [args])
           | ('if', c, A) | ('ife', c, A, B) | ('while', c, A) | ('with', v, a, b, A) | ('down', v, a, b, A)
           | ('in', v, l, A) | ('exit_repeat',)
"""
import struct
import re

BINOPS = {'mul': (0x04, '*', 4), 'add': (0x05, '+', 3), 'sub': (0x06, '-', 3), 'div': (0x07, '/', 4), 'mod': (0x08, 'mod', 4),
          'concat': (0x0A, '&', 2), 'concats': (0x0B, '&&', 2), 'lt': (0x0C, '<', 1), 'lte': (0x0D, '<=', 1),
          'ne': (0x0E, '<>', 1), 'eq': (0x0F, '=', 1), 'gt': (0x10, '>', 1), 'gte': (0x11, '>=', 1),
          'and': (0x12, 'and', 4), 'or': (0x13, 'or', 4), 'contains': (0x15, 'contains', 1), 'start': (0x16, 'starts', 1)}
SPRITE_OPS = {'intersects': 0x19, 'within': 0x1A}
JS_BIN = {'add': '+', 'sub': '-', 'mul': '*', 'div': '/', 'mod': '%', 'and': '&&', 'or': '||', 'lt': '<', 'lte': '<=',
          'gt': '>', 'gte': '>=', 'eq': '==', 'ne': '!='}
JS_METHOD = {'concat': 'concat', 'concats': 'concats', 'contains': 'contains', 'start': 'start'}
SYM_OF_TEXT = {v[1]: k for k, v in BINOPS.items()}
SYM_OF_TEXT['start'] = 'start'       # the decompiler spells the operator 'start'

class SpecError(Exception):
    pass

# ------------------------------------------------------------------ compile (Director's scheme)
class Pool:
    def __init__(self, width=6):
        self.items = []
        self.width = width
    def index(self, c):
        for i, x in enumerate(self.items):
            if type(x) is type(c) and x == c:
                return i
        self.items.append(c)
        return len(self.items) - 1

def push_const(pool, c):
    off = pool.index(c) * pool.width
    if off < 256:
        return bytes([0x44, off])
    return bytes([0x84, off >> 8, off & 0xff])

def comp_int(n, pool):
    if n == 0:
        return b'\x03'
    if -128 <= n <= 127:
        return bytes([0x41, n & 0xff])
    if -32768 <= n <= 32767:
        return bytes([0x81, (n >> 8) & 0xff, n & 0xff])
    return push_const(pool, n)

class Ctx:
    def __init__(self, names, pool, handler, local_funcs, width=6):
        self.names, self.pool, self.h, self.lf, self.width = names, pool, handler, local_funcs, width
    def n(self, s):
        return self.names.index(s)

def arglist(args, cx, expr_pos):
    code = b''.join(comp_e(a, cx) for a in args)
    n = len(args)
    if n < 256:
        return code + bytes([0x43 if expr_pos else 0x42, n])
    return code + bytes([0x83 if expr_pos else 0x82, n >> 8, n & 0xff])

def comp_e(e, cx):
    k = e[0]
    if k == 'int':
        return comp_int(e[1], cx.pool)
    if k == 'str':
        return push_const(cx.pool, e[1].encode('mac_roman') if isinstance(e[1], str) else e[1])
    if k == 'sym':
        return bytes([0x45, cx.n(e[1])])
    if k == 'loc':
        return bytes([0x4C, cx.h['locals'].index(e[1]) * cx.width])
    if k == 'par':
        return bytes([0x4B, cx.h['args'].index(e[1]) * cx.width])
    if k == 'glob':
        return bytes([0x49, cx.n(e[1])])
    if k == 'prop':
        return bytes([0x4A, cx.n(e[1])])
    if k == 'bin':
        op = e[1]
        code = BINOPS[op][0] if op in BINOPS else SPRITE_OPS[op]
        return comp_e(e[2], cx) + comp_e(e[3], cx) + bytes([code])
    if k == 'neg':
        return comp_e(e[1], cx) + b'\x09'
    if k == 'not':
        return comp_e(e[1], cx) + b'\x14'
    if k == 'call':
        return arglist(e[2], cx, True) + bytes([0x57, cx.n(e[1])])
    if k == 'lcall':
        return arglist(e[2], cx, True) + bytes([0x56, cx.lf.index(e[1])])
    if k == 'list':
        return arglist(e[1], cx, True) + b'\x1e'
    if k == 'plist':
        flat = []
        for kk, vv in e[1]:
            flat += [kk, vv]
        return arglist(flat, cx, True) + b'\x1f'
    raise SpecError('expr kind %r' % (k,))

def store(target, cx):
    k = target[0]
    if k == 'loc':
        return bytes([0x52, cx.h['locals'].index(target[1]) * cx.width])
    if k == 'par':
        return bytes([0x51, cx.h['args'].index(target[1]) * cx.width])
    if k == 'glob':
        return bytes([0x4F, cx.n(target[1])])
    if k == 'prop':
        return bytes([0x50, cx.n(target[1])])
    raise SpecError('target %r' % (k,))

def jz(off):
    return bytes([0x95, off >> 8, off & 0xff])
def jmp(off):
    return bytes([0x93, off >> 8, off & 0xff])

def comp_body(sts, cx):
    """-> (code, exits) exits = offsets (into code) of exit-repeat jumps to be patched by the enclosing loop"""
    out = b''
    exits = []
    for st in sts:
        c, ex = comp_s(st, cx)
        exits += [p + len(out) for p in ex]
        out += c
    return out, exits

def close_loop(head, body, tail, exits_in_body):
    """head = condition code, body, tail = increment code; returns the loop code with exits patched"""
    code = head + jz(3 + len(body) + len(tail) + 2) + body + tail
    if len(code) > 255:
        raise SpecError('loop too long for a one-byte back jump')
    code += bytes([0x54, len(code)])
    code = bytearray(code)
    base = len(head) + 3
    for p in exits_in_body:
        q = base + p
        off = len(code) - q
        code[q + 1] = off >> 8
        code[q + 2] = off & 0xff
    return bytes(code)

def comp_s(st, cx):
    k = st[0]
    if k == 'set':
        return comp_e(st[2], cx) + store(st[1], cx), []
    if k == 'call':
        return arglist(st[2], cx, False) + bytes([0x57, cx.n(st[1])]), []
    if k == 'lcall':
        return arglist(st[2], cx, False) + bytes([0x56, cx.lf.index(st[1])]), []
    if k == 'exit_repeat':
        return jmp(0), [0]
    if k == 'if':
        c = comp_e(st[1], cx)
        A, ex = comp_body(st[2], cx)
        return c + jz(3 + len(A)) + A, [p + len(c) + 3 for p in ex]
    if k == 'ife':
        c = comp_e(st[1], cx)
        A, exa = comp_body(st[2], cx)
        B, exb = comp_body(st[3], cx)
        code = c + jz(3 + len(A) + 3) + A + jmp(3 + len(B)) + B
        return code, [p + len(c) + 3 for p in exa] + [p + len(c) + 3 + len(A) + 3 for p in exb]
    if k == 'while':
        c = comp_e(st[1], cx)
        A, ex = comp_body(st[2], cx)
        return close_loop(c, A, b'', ex), []
    if k in ('with', 'down'):
        v = ('loc', st[1])
        init = comp_e(st[2], cx) + store(v, cx)
        c = comp_e(v, cx) + comp_e(st[3], cx) + bytes([0x0D if k == 'with' else 0x11])
        A, ex = comp_body(st[4], cx)
        inc = comp_int(1 if k == 'with' else -1, cx.pool) + comp_e(v, cx) + b'\x05' + store(v, cx)
        return init + close_loop(c, A, inc, ex), []
    raise SpecError('stmt kind %r' % (k,))

def compile_script(script, width=6):
    """-> Lscr chunk bytes"""
    names = script['names']
    pool = Pool(width)
    lf = [h['name'] for h in script['handlers']]
    funcs = []
    for h in script['handlers']:
        cx = Ctx(names, pool, h, lf, width)
        code, ex = comp_body(h['body'], cx)
        if ex:
            raise SpecError('exit repeat outside a loop')
        code += b'\x01'
        args = [0 if (h.get('method') and i == 0) else names.index(a) for i, a in enumerate(h['args'])]
        funcs.append((names.index(h['name']), code, args, [names.index(l) for l in h['locals']]))
    consts = pool.items
    return assemble(funcs, consts, [names.index(p) for p in script.get('props', [])],
                    [names.index(g) for g in script.get('globals', [])],
                    names.index(script['factory']) if script.get('factory') else -1, script.get('scr_num', 0), width)

def assemble(funcs, consts, props, globs, factory, scr_num, width=6):
    body = b''
    recs = []
    off = 92
    for (ni, code, args, locs) in funcs:
        bc_off = off + len(body)
        body += code
        if len(body) % 2:
            body += b'\0'
        a_off = off + len(body)
        body += b''.join(struct.pack('>h', a) for a in args)
        l_off = off + len(body)
        body += b''.join(struct.pack('>h', l) for l in locs)
        recs.append(struct.pack('>hhiihihihiihhi', ni, 0, len(code), bc_off, len(args), a_off, len(locs), l_off, 0, 0, 0, 0, 0, 0))
    prb_off = off + len(body)
    body += b''.join(struct.pack('>h', p) for p in props)
    grb_off = off + len(body)
    body += b''.join(struct.pack('>h', g) for g in globs)
    frb_off = off + len(body)
    body += b''.join(recs)
    crb_off = off + len(body)
    cdata = b''
    crecs = b''
    for c in consts:
        if isinstance(c, int):
            crecs += struct.pack('>hi', 4, c) if width == 6 else struct.pack('>ii', 4, c)
        else:
            crecs += struct.pack('>hi', 1, len(cdata)) if width == 6 else struct.pack('>ii', 1, len(cdata))
            cdata += struct.pack('>i', len(c) + 1) + c + b'\0'
            if len(cdata) % 2:
                cdata += b'\0'
    body += crecs
    con_off = off + len(body)
    body += cdata
    total = 92 + len(body)
    h = struct.pack('>iiii hhhh iiiiii hh iii', 0, 0, total, total, 0, scr_num, 0, -1, 0, 0, 0, 0, 0, 0, factory, 0, 0, 0, 0)
    h += struct.pack('>hhhh hhh hhh hhhh', prb_off, len(globs), 0, grb_off, len(funcs), 0, frb_off, len(consts), 0, crb_off, 0, 0, 0, con_off)
    assert len(h) == 92
    return h + body

# ------------------------------------------------------------------ Lingo text -> tokens -> AST
TOKEN_RE = re.compile(r'''
    (?P<ws>[ \t]+) |
    (?P<nl>\n) |
    (?P<comment>--[^\n]*) |
    (?P<str>"[^"\n]*") |
    (?P<float>\d+\.\d*(?:[eE][-+]?\d+)?) |
    (?P<int>\d+) |
    (?P<sym>\#[A-Za-z_][A-Za-z0-9_]*) |
    (?P<id>[A-Za-z_][A-Za-z0-9_]*) |
    (?P<op><=|>=|<>|&&|[-+*/&<>=(),\[\]:])
''', re.X)

def tokenize(text):
    toks = []
    pos = 0
    while pos < len(text):
        m = TOKEN_RE.match(text, pos)
        if not m:
            raise SpecError('cannot tokenize at %r' % text[pos:pos + 20])
        pos = m.end()
        k = m.lastgroup
        if k in ('ws', 'comment'):
            continue
        toks.append((k, m.group()))
    return toks

KEYWORDS_STOP = {'then', 'to', 'down', 'into', 'after', 'before', 'of', 'in'}
NAMED_STR = {'EMPTY': '', 'QUOTE': '"', 'RETURN': '\r', 'TAB': '\t', 'BACKSPACE': '\x08', 'ENTER': '\x03'}

class Parser:
    def __init__(self, toks, scope):
        self.t = toks
        self.i = 0
        self.scope = scope        # {'locals': set, 'args': set, 'globals': set, 'props': set, 'lfuncs': set}
    def peek(self, k=0):
        return self.t[self.i + k] if self.i + k < len(self.t) else ('eof', '')
    def next(self):
        x = self.peek()
        self.i += 1
        return x
    def accept(self, kind, val=None):
        x = self.peek()
        if x[0] == kind and (val is None or x[1] == val):
            self.i += 1
            return True
        return False
    def expect(self, kind, val=None):
        x = self.next()
        if x[0] != kind or (val is not None and x[1] != val):
            raise SpecError('expected %s %r, got %r' % (kind, val, x))
        return x
    # precedence climbing
    def binop_at(self):
        x = self.peek()
        if x[0] == 'op' and x[1] in SYM_OF_TEXT:
            return SYM_OF_TEXT[x[1]]
        if x[0] == 'id' and x[1] in ('mod', 'and', 'or', 'contains', 'starts', 'start'):
            return SYM_OF_TEXT[x[1]]
        return None
    def expr(self, minlevel=1):
        left = self.unary()
        while True:
            op = self.binop_at()
            if op is None:
                return left
            lvl = BINOPS[op][2]
            if lvl < minlevel:
                return left
            self.next()
            right = self.expr(lvl + 1)
            left = ('bin', op, left, right)
    def unary(self):
        x = self.peek()
        if x == ('op', '-'):
            self.next()
            y = self.peek()
            if y[0] == 'int':
                self.next()
                return ('int', -int(y[1]))
            return ('neg', self.unary())
        if x == ('id', 'not'):
            self.next()
            return ('not', self.unary())
        return self.primary()
    def args_until(self, closer):
        args = []
        if self.peek() == ('op', closer):
            self.next()
            return args
        while True:
            args.append(self.expr())
            if self.accept('op', ','):
                continue
            self.expect('op', closer)
            return args
    def primary(self):
        x = self.next()
        if x[0] == 'int':
            return ('int', int(x[1]))
        if x[0] == 'str':
            return ('str', x[1][1:-1])
        if x[0] == 'sym':
            return ('sym', x[1][1:])
        if x == ('op', '('):
            e = self.expr()
            self.expect('op', ')')
            return e
        if x == ('op', '['):
            if self.peek() == ('op', ':') and self.peek(1) == ('op', ']'):
                self.next(); self.next()
                return ('plist', [])
            if self.peek() == ('op', ']'):
                self.next()
                return ('list', [])
            first = self.expr()
            if self.accept('op', ':'):
                pairs = [(first, self.expr())]
                while self.accept('op', ','):
                    k = self.expr()
                    self.expect('op', ':')
                    pairs.append((k, self.expr()))
                self.expect('op', ']')
                return ('plist', pairs)
            items = [first]
            while self.accept('op', ','):
                items.append(self.expr())
            self.expect('op', ']')
            return ('list', items)
        if x[0] == 'id':
            name = x[1]
            if name in NAMED_STR:
                return ('str', NAMED_STR[name])
            if name == 'sprite':
                a = self.unary()
                y = self.next()
                if y[0] != 'id' or y[1] not in SPRITE_OPS:
                    raise SpecError('sprite ... %r' % (y,))
                return ('bin', y[1], a, self.unary())
            if self.peek() == ('op', '('):
                self.next()
                args = self.args_until(')')
                return ('lcall' if name in self.scope['lfuncs'] else 'call', name, args)
            return self.variable(name)
        raise SpecError('unexpected token %r' % (x,))
    def variable(self, name):
        s = self.scope
        if name in s['lfuncs'] and name not in s['locals'] and name not in s['args']:
            return ('lcall', name, [])        # Lingo: the bare name of a handler of this script calls it
        if name in s['locals']:
            return ('loc', name)
        if name in s['args']:
            return ('par', name)
        if name in s['globals']:
            return ('glob', name)
        if name in s['props']:
            return ('prop', name)
        return ('loc', name)          # Lingo: an identifier that is not declared otherwise is a local variable

def split_lines(text):
    lines = []
    for ln in text.split('\n'):
        toks = tokenize(ln)
        if toks:
            lines.append(toks)
    return lines

def parse_lingo(text):
    """-> script AST (names are not recoverable from text and are left out)"""
    lines = split_lines(text)
    script = {'props': [], 'globals': [], 'factory': None, 'handlers': []}
    i = 0
    def idlist(toks):
        out = []
        k = 0
        while k < len(toks):
            if toks[k][0] != 'id':
                raise SpecError('identifier expected in %r' % (toks,))
            out.append(toks[k][1])
            k += 1
            if k < len(toks):
                if toks[k] != ('op', ','):
                    raise SpecError('comma expected in %r' % (toks,))
                k += 1
        return out
    # header
    while i < len(lines) and lines[i][0] in (('id', 'property'), ('id', 'global'), ('id', 'factory')):
        kw = lines[i][0][1]
        if kw == 'property':
            script['props'] += idlist(lines[i][1:])
        elif kw == 'global':
            script['globals'] += idlist(lines[i][1:])
        else:
            script['factory'] = lines[i][1][1]
        i += 1
    # handler names first (local calls)
    lfuncs = set()
    for ln in lines:
        if ln[0] in (('id', 'on'), ('id', 'method')) and len(ln) > 1:
            lfuncs.add(ln[1][1])
    while i < len(lines):
        ln = lines[i]
        if ln[0] not in (('id', 'on'), ('id', 'method')):
            raise SpecError('handler expected, got %r' % (ln,))
        h = {'name': ln[1][1], 'args': idlist(ln[2:]), 'method': ln[0][1] == 'method', 'globals': [], 'body': None}
        if h['method']:
            h['args'] = ['me'] + h['args']
        i += 1
        while i < len(lines) and lines[i][0] == ('id', 'global'):
            h['globals'] += idlist(lines[i][1:])
            i += 1
        # collect body lines up to the matching 'end'
        depth = 0
        body = []
        while True:
            if i >= len(lines):
                raise SpecError('missing end')
            ln = lines[i]
            i += 1
            if ln == [('id', 'end')]:
                break
            body.append(ln)
        # locals are the identifiers assigned by set / repeat with that are not otherwise declared
        scope = {'args': set(h['args']), 'globals': set(script['globals']) | set(h['globals']), 'props': set(script['props']),
                 'lfuncs': lfuncs, 'locals': set()}
        locs = []
        for bl in body:
            tgt = None
            if bl[0] == ('id', 'set') and len(bl) > 2 and bl[1][0] == 'id' and bl[2] == ('op', '='):
                tgt = bl[1][1]
            if bl[0] == ('id', 'repeat') and len(bl) > 3 and bl[1] == ('id', 'with'):
                tgt = bl[2][1]
            if tgt and tgt not in scope['args'] and tgt not in scope['globals'] and tgt not in scope['props'] and tgt not in locs:
                locs.append(tgt)
        scope['locals'] = set(locs)
        h['locals'] = locs
        pos = [0]
        h['body'] = parse_block(body, pos, scope, ())
        if pos[0] != len(body):
            raise SpecError('unbalanced block at %r' % (body[pos[0]],))
        script['handlers'].append(h)
    return script

def parse_block(lines, pos, scope, enders):
    out = []
    while pos[0] < len(lines):
        ln = lines[pos[0]]
        head = tuple(ln[:2])
        if any(head[:len(e)] == e for e in enders):
            return out
        pos[0] += 1
        k0 = ln[0]
        if k0 == ('id', 'set'):
            p = Parser(ln[1:], scope)
            name = p.expect('id')[1]
            p.expect('op', '=')
            e = p.expr()
            if p.peek()[0] != 'eof':
                raise SpecError('trailing tokens in %r' % (ln,))
            out.append(('set', p.variable(name), e))
        elif k0 == ('id', 'if'):
            p = Parser(ln[1:], scope)
            c = p.expr()
            p.expect('id', 'then')
            A = parse_block(lines, pos, scope, ((('id', 'else'),), (('id', 'end'), ('id', 'if'))))
            nxt = lines[pos[0]]
            pos[0] += 1
            if nxt == [('id', 'else')]:
                B = parse_block(lines, pos, scope, ((('id', 'end'), ('id', 'if')),))
                pos[0] += 1
                out.append(('ife', c, A, B))
            else:
                out.append(('if', c, A))
        elif k0 == ('id', 'repeat'):
            p = Parser(ln[1:], scope)
            if p.accept('id', 'while'):
                c = p.expr()
                hd = ('while', c)
            else:
                p.expect('id', 'with')
                v = p.expect('id')[1]
                if p.accept('id', 'in'):
                    hd = ('in', v, p.expr())
                else:
                    p.expect('op', '=')
                    a = p.expr()
                    if p.accept('id', 'down'):
                        p.expect('id', 'to')
                        hd = ('down', v, a, p.expr())
                    else:
                        p.expect('id', 'to')
                        hd = ('with', v, a, p.expr())
            if p.peek()[0] != 'eof':
                raise SpecError('trailing tokens in %r' % (ln,))
            A = parse_block(lines, pos, scope, ((('id', 'end'), ('id', 'repeat')),))
            pos[0] += 1
            out.append(hd + (A,))
        elif ln == [('id', 'exit'), ('id', 'repeat')]:
            out.append(('exit_repeat',))
        elif k0[0] == 'id':
            name = k0[1]
            p = Parser(ln[1:], scope)
            args = []
            if p.peek()[0] != 'eof':
                while True:
                    args.append(p.expr())
                    if not p.accept('op', ','):
                        break
            if p.peek()[0] != 'eof':
                raise SpecError('trailing tokens in %r' % (ln,))
            out.append(('lcall' if name in scope['lfuncs'] else 'call', name, args))
        else:
            raise SpecError('statement expected: %r' % (ln,))
    return out

def strip_script(script):
    """the part of a source script that its text determines (for comparison with parse_lingo output)"""
    hs = []
    for h in script['handlers']:
        hs.append({'name': h['name'], 'args': list(h['args']), 'method': bool(h.get('method')), 'body': norm_body(h['body'])})
    return {'props': list(script.get('props', [])), 'globals': list(script.get('globals', [])), 'factory': script.get('factory'), 'handlers': hs}

def norm_body(b):
    return [norm_s(s) for s in b]
def norm_s(s):
    k = s[0]
    if k in ('if', 'while'):
        return (k, s[1], norm_body(s[2]))
    if k == 'ife':
        return (k, s[1], norm_body(s[2]), norm_body(s[3]))
    if k in ('with', 'down'):
        return (k, s[1], s[2], s[3], norm_body(s[4]))
    if k == 'in':
        return (k, s[1], s[2], norm_body(s[3]))
    if k in ('call', 'lcall'):
        return (k, s[1], list(s[2]))
    return s

def parsed_view(p):
    """parse_lingo output reduced to the same shape as strip_script (handler-level globals folded away)"""
    return {'props': p['props'], 'globals': p['globals'], 'factory': p['factory'],
            'handlers': [{'name': h['name'], 'args': h['args'], 'method': h['method'], 'body': h['body']} for h in p['handlers']]}

# ------------------------------------------------------------------ canonical Lingo text of a source script
def pp_e(e):
    k = e[0]
    if k == 'int':
        return str(e[1])
    if k == 'str':
        return 'EMPTY' if e[1] == '' else '"%s"' % e[1]
    if k == 'sym':
        return '#' + e[1]
    if k in ('loc', 'par', 'glob', 'prop'):
        return e[1]
    if k == 'bin':
        if e[1] in SPRITE_OPS:
            return 'sprite %s %s %s' % (pp_e(e[2]), e[1], pp_e(e[3]))
        sym = BINOPS[e[1]][1]
        if e[1] == 'start':
            sym = 'start'
        return '(%s %s %s)' % (pp_e(e[2]), sym, pp_e(e[3]))
    if k == 'neg':
        return '-' + pp_e(e[1])
    if k == 'not':
        return 'not ' + pp_e(e[1])
    if k in ('call', 'lcall'):
        if not e[2]:
            return e[1] + ('()' if k == 'call' else '')      # the bare name of a handler of this script is a call
        return e[1] + '(' + ', '.join(pp_e(a) for a in e[2]) + ')'
    if k == 'list':
        return '[' + ', '.join(pp_e(a) for a in e[1]) + ']'
    if k == 'plist':
        return '[:]' if not e[1] else '[' + ', '.join('%s: %s' % (pp_e(a), pp_e(b)) for a, b in e[1]) + ']'
    raise SpecError(k)

def strip_parens(t):
    return t[1:-1] if t.startswith('(') else t

def pp_body(b, ind):
    I = '    ' * ind
    s = ''
    for st in b:
        k = st[0]
        if k == 'set':
            s += I + 'set %s = %s\n' % (st[1][1], pp_e(st[2]))
        elif k in ('call', 'lcall'):
            s += I + st[1] + (' ' + ', '.join(pp_e(a) for a in st[2]) if st[2] else '') + '\n'
        elif k == 'exit_repeat':
            s += I + 'exit repeat\n'
        elif k == 'if':
            s += I + 'if %s then\n' % pp_e(st[1]) + pp_body(st[2], ind + 1) + I + 'end if\n'
        elif k == 'ife':
            s += I + 'if %s then\n' % pp_e(st[1]) + pp_body(st[2], ind + 1) + I + 'else\n' + pp_body(st[3], ind + 1) + I + 'end if\n'
        elif k == 'while':
            s += I + 'repeat while %s\n' % strip_parens(pp_e(st[1])) + pp_body(st[2], ind + 1) + I + 'end repeat\n'
        elif k == 'with':
            s += I + 'repeat with %s = %s to %s\n' % (st[1], pp_e(st[2]), pp_e(st[3])) + pp_body(st[4], ind + 1) + I + 'end repeat\n'
        elif k == 'down':
            s += I + 'repeat with %s = %s down to %s\n' % (st[1], pp_e(st[2]), pp_e(st[3])) + pp_body(st[4], ind + 1) + I + 'end repeat\n'
        else:
            raise SpecError(k)
    return s

def handler_globals(h, script):
    seen = []
    def walk_e(e):
        if e[0] == 'glob' and e[1] not in seen:
            seen.append(e[1])
        for x in e[1:]:
            if isinstance(x, tuple):
                walk_e(x)
            elif isinstance(x, list):
                for y in x:
                    if isinstance(y, tuple) and y and isinstance(y[0], str):
                        walk_e(y)
                    elif isinstance(y, tuple):
                        for z in y:
                            walk_e(z)
    def walk_b(b):
        for st in b:
            for x in st[1:]:
                if isinstance(x, tuple):
                    walk_e(x)
                elif isinstance(x, list):
                    if x and isinstance(x[0], tuple) and x[0] and x[0][0] in ('set', 'call', 'lcall', 'if', 'ife', 'while', 'with', 'down', 'in', 'exit_repeat'):
                        walk_b(x)
                    else:
                        for y in x:
                            walk_e(y)
    walk_b(h['body'])
    return sorted(g for g in seen if g not in script.get('globals', []))

def pp_lingo(script):
    s = ''
    if script.get('props') and not script.get('factory'):
        s += 'property %s\n' % ', '.join(script['props'])
    if script.get('factory'):
        s += 'factory %s\n\n' % script['factory']
    if script.get('globals'):
        for g in script['globals']:
            s += 'global %s\n' % g
        s += '\n'
    first = True
    for h in script['handlers']:
        if not first:
            s += '\n'
        first = False
        args = h['args'][1:] if h.get('method') else h['args']
        s += ('method ' if h.get('method') else 'on ') + h['name'] + ((' ' + ', '.join(args)) if args else '') + '\n'
        gl = handler_globals(h, script)
        for g in gl:
            s += '    global %s\n' % g
        if gl:
            s += '\n'
        s += pp_body(h['body'], 1)
        s += 'end\n'
    return s

# ------------------------------------------------------------------ the JavaScript correspondences
def js_e(e):
    k = e[0]
    if k == 'int':
        return str(e[1])
    if k == 'str':
        return 'new LingoString("%s")' % e[1]
    if k == 'sym':
        return "symbol('%s')" % e[1]
    if k in ('loc', 'par'):
        return 'this' if e[1] == 'me' else e[1]
    if k == 'glob':
        return '_global.' + e[1]
    if k == 'prop':
        return 'this.' + e[1]
    if k == 'bin':
        op = e[1]
        if op in SPRITE_OPS:
            return 'sprite(%s).%s(sprite(%s))' % (js_e(e[2]), op, js_e(e[3]))
        if op in JS_METHOD:
            return '%s.%s(%s)' % (js_e(e[2]), JS_METHOD[op], js_e(e[3]))
        return '(%s %s %s)' % (js_e(e[2]), JS_BIN[op], js_e(e[3]))
    if k == 'neg':
        return '-(%s)' % js_e(e[1])
    if k == 'not':
        return '!(%s)' % js_e(e[1])
    if k in ('call', 'lcall'):
        return js_call(e[1], e[2])
    if k == 'list':
        return 'list(' + ', '.join(js_e(a) for a in e[1]) + ')'
    if k == 'plist':
        flat = []
        for a, b in e[1]:
            flat += [js_e(a), js_e(b)]
        return 'propList(' + ', '.join(flat) + ')'
    raise SpecError(k)

def js_call(name, args, in_tell=False):
    """the translator's fixed renamings of commands"""
    a = ', '.join(js_e(x) for x in args)
    if name == 'return':
        return 'return ' + a if a else 'return'
    if name == 'birth':
        name = '_movie.newScript'
    elif name == 'new':
        name = '_movie.newMember' if (args and args[0][0] == 'sym') else '_movie.newScript'
    elif name == 'go':
        pre = '' if in_tell else '_movie.'
        if len(args) == 1 and args[0][0] == 'sym':
            return '%sgo%s()' % (pre, args[0][1][:1].upper() + args[0][1][1:].lower())
        name = pre + 'go'
    elif name == 'cast':
        name = 'member'
    elif name == 'continue':
        name = 'resume'
    return '%s(%s)' % (name, a)

def cond_js(c):
    t = js_e(c)
    return t if t.startswith('(') else '(%s)' % t

def js_body(b, ind):
    I = '    ' * ind
    s = ''
    for st in b:
        k = st[0]
        if k == 'set':
            s += I + '%s = %s;\n' % (js_e(st[1]), js_e(st[2]))
        elif k == 'call':
            s += I + js_call(st[1], st[2]) + ';\n'
        elif k == 'lcall':
            s += I + 'fn_call(' + js_call(st[1], st[2]) + ');\n'
        elif k == 'exit_repeat':
            s += I + 'break;\n'
        elif k == 'if':
            s += I + 'if %s {\n' % cond_js(st[1]) + js_body(st[2], ind + 1) + I + '}\n'
        elif k == 'ife':
            s += I + 'if %s {\n' % cond_js(st[1]) + js_body(st[2], ind + 1) + I + '} else {\n' + js_body(st[3], ind + 1) + I + '}\n'
        elif k == 'while':
            s += I + 'while %s {\n' % cond_js(st[1]) + js_body(st[2], ind + 1) + I + '}\n'
        elif k in ('with', 'down'):
            cmp_ = '<=' if k == 'with' else '>='
            s += I + 'for(%s = %s; %s %s %s; %s%s) {\n' % (st[1], js_e(st[2]), st[1], cmp_, js_e(st[3]), st[1], '++' if k == 'with' else '--') \
                + js_body(st[4], ind + 1) + I + '}\n'
        else:
            raise SpecError(k)
    return s

def pp_js(script):
    if script.get('factory') or script.get('props'):
        return pp_js_class(script)
    s = ''
    first = True
    for h in script['handlers']:
        if not first:
            s += '\n'
        first = False
        name = 'birth' if h['name'] == 'new' else h['name']
        s += 'function %s(%s) {\n' % (name, ', '.join(h['args']))
        for l in h['locals']:
            s += '    var %s;\n' % l
        if h['locals']:
            s += '\n'
        s += js_body(h['body'], 1)
        s += '}\n'
    return s

def pp_js_class(script):
    fac = script.get('factory')
    s = ('class Factory__%s extends FactoryBase {' % fac) if fac else ('class Object__%d extends ObjectBase {' % script.get('scr_num', 0))
    for h in script['handlers']:
        s += '\n    %s(%s) {\n' % (h['name'], ', '.join(a for a in h['args'] if a != 'me'))
        for l in h['locals']:
            s += '        var %s;\n' % l
        if h['locals']:
            s += '\n'
        s += js_body(h['body'], 2)
        s += '    }\n'
    s += '}\n\n'
    if fac:
        s += 'function %s(methodName, ...args) {\n    return factoryCall(\'%s\', methodName, args);\n}\n' % (fac, fac)
    else:
        for h in script['handlers']:
            if h['name'] not in ('birth'):
                s += 'function %s(obj, ...args) {\n    return obj.%s(...args);\n}\n' % (h['name'], h['name'])
    return s

JS_TOKEN_RE = re.compile(r'''\s+|(?P<str>"(?:[^"\\\n]|\\.)*"|'(?:[^'\\\n]|\\.)*')|(?P<num>\d+(?:\.\d*)?(?:[eE][-+]?\d+)?)|(?P<id>[A-Za-z_$][A-Za-z0-9_$]*)|(?P<op>\.\.\.|\+\+|--|&&|\|\||==|!=|<=|>=|[-+*/%<>=!(){}\[\];,.:])''', re.X)
def js_tokens(text):
    out = []
    pos = 0
    while pos < len(text):
        m = JS_TOKEN_RE.match(text, pos)
        if not m:
            raise SpecError('cannot tokenize JS at %r' % text[pos:pos + 20])
        pos = m.end()
        if m.lastgroup:
            out.append(m.group(m.lastgroup))
    return out
