"""Translator part: straight-line field readers -> coq/Gen/Gen_Layouts.v.

A reader is a function body made of
    idx = K | idx = idx + K | idx += K
    x = struct.unpack(FMT, DATA[(idx+a):(idx+b)])[0]        (FMT a literal like '>h', or byte_order+'h')
    x = int(DATA[idx+a])   or any expression containing exactly one such read
    pure assignments / logging / `if DEBUG...` blocks / the trailing result construction
The index is executed symbolically; reads must be sequential and non-overlapping.  Output per
reader: a [layout] (gaps become FSkip) and the list of target names of the reads, in order.
Anything else at a place where a read could hide makes the translator fail closed."""
import ast, os, sys
from gen_tables import parse, emit, coq_bytes, TranslatorError, HEADER, GEN

FMT = {'b': ('FS', 1), 'B': ('FU', 1), 'h': ('FS', 2), 'H': ('FU', 2), 'i': ('FS', 4), 'I': ('FU', 4),
       'l': ('FS', 4), 'L': ('FU', 4)}

class Sym:
    """symbolic index: constant offset or None (unknown)"""

def lin(node, idxname, cur):
    """evaluate an index expression to an int given idx = cur; None if not affine-constant"""
    if isinstance(node, ast.Constant) and isinstance(node.value, int):
        return node.value
    if isinstance(node, ast.Name) and node.id == idxname:
        return cur
    if isinstance(node, ast.BinOp) and isinstance(node.op, (ast.Add, ast.Sub)):
        a, b = lin(node.left, idxname, cur), lin(node.right, idxname, cur)
        if a is None or b is None:
            return None
        return a + b if isinstance(node.op, ast.Add) else a - b
    return None

def find_reads(expr, datanames, idxname, cur, fname):
    reads = []
    for n in ast.walk(expr):
        if isinstance(n, ast.Subscript) and isinstance(n.value, ast.Name) and n.value.id in datanames:
            if isinstance(n.slice, ast.Slice):
                continue       # handled via the enclosing unpack
            off = lin(n.slice, idxname, cur)
            if off is None:
                raise TranslatorError('%s: non-constant index %s' % (fname, ast.unparse(n)))
            reads.append(('FU', 1, off, 'index'))
        if isinstance(n, ast.Call) and isinstance(n.func, ast.Attribute) and n.func.attr == 'unpack':
            if len(n.args) != 2:
                raise TranslatorError('%s: unpack with %d args' % (fname, len(n.args)))
            f = n.args[0]
            bo = None
            if isinstance(f, ast.Constant) and isinstance(f.value, str) and len(f.value) == 2 and f.value[0] in '<>':
                bo, ch = f.value[0], f.value[1]
            elif isinstance(f, ast.BinOp) and isinstance(f.op, ast.Add) and isinstance(f.right, ast.Constant) \
                    and isinstance(f.right.value, str) and len(f.right.value) == 1:
                bo, ch = 'param', f.right.value
            else:
                raise TranslatorError('%s: unsupported unpack format %s' % (fname, ast.unparse(f)))
            if ch not in FMT:
                raise TranslatorError('%s: unsupported format char %r' % (fname, ch))
            kind, width = FMT[ch]
            sl = n.args[1]
            if not (isinstance(sl, ast.Subscript) and isinstance(sl.value, ast.Name) and sl.value.id in datanames
                    and isinstance(sl.slice, ast.Slice) and sl.slice.step is None):
                raise TranslatorError('%s: unpack of something that is not DATA[a:b]: %s' % (fname, ast.unparse(sl)))
            a = lin(sl.slice.lower, idxname, cur) if sl.slice.lower is not None else 0
            b = lin(sl.slice.upper, idxname, cur) if sl.slice.upper is not None else None
            if a is None or b is None or b - a != width:
                raise TranslatorError('%s: slice %s does not match format %r' % (fname, ast.unparse(sl), ch))
            reads.append((kind, width, a, bo))
    return reads

def mentions_read(node, names):
    """node contains DATA[...] for one of the names"""
    return any(isinstance(n, ast.Subscript) and isinstance(n.value, ast.Name) and n.value.id in names for n in ast.walk(node))

def assigns(node, names):
    for n in ast.walk(node):
        tg = []
        if isinstance(n, ast.Assign):
            tg = n.targets
        elif isinstance(n, (ast.AugAssign, ast.AnnAssign)):
            tg = [n.target]
        for t in tg:
            if any(isinstance(x, ast.Name) and x.id in names for x in ast.walk(t)):
                return True
    return False

def mentions(node, names):
    return any(isinstance(n, ast.Name) and n.id in names for n in ast.walk(node))

def analyse(fn, datanames, idxnames=('indx', 'idx', 'index'), start=None, body=None, idxname=None):
    """returns (fields, end) with fields = [(target, kind, width, offset, bo)]"""
    fname = fn.name
    cur = start
    fields = []
    for st in (fn.body if body is None else body):
        if isinstance(st, ast.Expr) and isinstance(st.value, ast.Constant):
            continue
        if isinstance(st, ast.Expr) and isinstance(st.value, ast.Call) and ast.unparse(st.value.func).startswith('logging.'):
            continue
        if isinstance(st, ast.If) and 'DEBUG' in ast.unparse(st.test):
            continue
        if isinstance(st, (ast.Assign, ast.AnnAssign, ast.AugAssign)):
            tgt = st.targets[0] if isinstance(st, ast.Assign) else st.target
            val = st.value
            if isinstance(st, ast.Assign) and len(st.targets) != 1:
                raise TranslatorError('%s: multiple assignment targets' % fname)
            if isinstance(tgt, ast.Name) and tgt.id in idxnames:
                if idxname is None:
                    idxname = tgt.id
                if tgt.id != idxname:
                    raise TranslatorError('%s: two index variables' % fname)
                if isinstance(st, ast.AugAssign):
                    if cur is None:
                        continue       # index not yet anchored (reads of another buffer come first)
                    k = lin(val, idxname, cur)
                    if not isinstance(st.op, ast.Add):
                        raise TranslatorError('%s: unsupported index update %s' % (fname, ast.unparse(st)))
                    if k is None:
                        if fields:
                            break      # data-dependent step: the straight-line part ends here
                        cur = None
                        continue
                    cur += k
                else:
                    k = lin(val, idxname, cur) if (cur is not None or not mentions(val, (idxname,))) else None
                    if k is None:
                        if fields:
                            break      # index becomes data dependent: the straight-line part ends here
                        cur = None
                        continue
                    cur = k
                continue
            if val is not None and mentions(val, datanames):
                if idxname is None and cur is None:
                    # reads with literal offsets only
                    pass
                if cur is None:
                    raise TranslatorError('%s: read of %s before the index is anchored' % (fname, ast.unparse(val)))
                rs = find_reads(val, datanames, idxname, cur, fname)
                if len(rs) != 1 or not isinstance(tgt, ast.Name):
                    # DATA used in another way (e.g. passed on, len(DATA)): end of the straight-line part
                    if mentions(val, datanames) and not rs:
                        if fields:
                            break
                        continue
                    raise TranslatorError('%s: %d reads in one statement: %s' % (fname, len(rs), ast.unparse(st)))
                kind, width, off, bo = rs[0]
                fields.append((tgt.id, kind, width, off, bo))
                continue
            continue      # pure assignment
        if isinstance(st, (ast.If, ast.For, ast.While, ast.With, ast.Try)):
            names = tuple(datanames) + ((idxname,) if idxname else tuple(idxnames))
            if not mentions(st, names):
                continue   # compound statement that touches neither the data nor the index
            if isinstance(st, ast.If) and not mentions_read(st, datanames) and not assigns(st, (idxname,) if idxname else tuple(idxnames)):
                continue   # a guard (e.g. a size check that raises): no read can hide in it, the index is not moved
            break
        if fields:
            break          # anything else after the reads: straight-line part ends
    return fields, cur

def to_layout(fields, fname, base=0):
    """sequential, non-overlapping; gaps -> FSkip"""
    lay = []
    names = []
    pos = base
    seen = set()
    for name, kind, width, off, bo in fields:
        if off < pos:
            raise TranslatorError('%s: read of %s at %d overlaps/precedes position %d' % (fname, name, off, pos))
        if off > pos:
            lay.append('FSkip %d' % (off - pos))
        lay.append('%s %d' % (kind, width))
        n = name
        k = 2
        while n in seen:
            n = '%s_%d' % (name, k)
            k += 1
        seen.add(n)
        names.append(n)
        pos = off + width
    return lay, names, pos

def find_function(tree, cls, name):
    for n in ast.walk(tree):
        if isinstance(n, ast.ClassDef) and (cls is None or n.name == cls):
            for f in n.body:
                if isinstance(f, ast.FunctionDef) and f.name == name:
                    return f
    if cls is None:
        for f in tree.body:
            if isinstance(f, ast.FunctionDef) and f.name == name:
                return f
    raise TranslatorError('function %s.%s not found' % (cls, name))

READERS = [
    # (coq name, file, class, function, data variable names, total width to pad to or None)
    ('d4_main', 'drxtract/vwsc/dir4cparser.py', 'D4VwscChannelParser', 'read_main_channel_info', ('frameData',), 20),
    ('d4_palette', 'drxtract/vwsc/dir4cparser.py', 'D4VwscChannelParser', 'read_palette_channel_info', ('frameData',), 20),
    ('d4_sprite', 'drxtract/vwsc/dir4cparser.py', 'D4VwscChannelParser', 'read_sprite_channel_info', ('frameData',), 20),
    ('d5_main', 'drxtract/vwsc/dir5cparser.py', 'D5VwscChannelParser', 'read_main_channel_info', ('frameData',), 24),
    ('d5_palette', 'drxtract/vwsc/dir5cparser.py', 'D5VwscChannelParser', 'read_palette_channel_info', ('frameData',), 24),
    ('d5_sprite', 'drxtract/vwsc/dir5cparser.py', 'D5VwscChannelParser', 'read_sprite_channel_info', ('frameData',), 24),
]
EXTRA_READERS = [
    ('stxt_run', 'drxtract/stxt/stxt.py', None, 'parse_stxt_data', ('fdata',), 20),
    ('fmap_header', 'drxtract/fmap/fmap.py', None, 'parse_fmap_data', ('header_data',), 28),
    ('fmap_meta', 'drxtract/fmap/fmap.py', None, 'parse_fmap_data', ('header_data',), 8),
    ('cast_image', 'drxtract/cast/image.py', 'ImageParser', 'parse', ('header_data',), None),
    ('cast_image_ext', 'drxtract/cast/image.py', 'ImageParser', 'parse', ('header_data',), None),
    ('cast_field', 'drxtract/cast/textinput.py', 'TextInputParser', 'parse', ('header_data',), None),
    ('cast_button', 'drxtract/cast/button.py', 'ButtonParser', 'parse', ('header_data',), None),
    ('cast_shape', 'drxtract/cast/shape.py', 'ShapeParser', 'parse', ('header_data',), None),
    ('cast_text', 'drxtract/cast/text.py', 'TextParser', 'parse', ('header_data',), None),
    ('cast_transition', 'drxtract/cast/transition.py', 'TransitionParser', 'parse', ('header_data',), None),
    ('lscr_header', 'drxtract/lingosrc/parse/lscr.py', None, 'parse_lrcr_file_header', ('fdata',), 92),
    ('lscr_frb', 'drxtract/lingosrc/parse/lscr.py', None, 'parse_frb', ('fdata',), 42),
]
# readers that are the body of the k-th loop (0-based, among the loops reading the data variable) of the function
LOOP_BODIES = {'stxt_run': 0, 'fmap_meta': 0, 'cast_image_ext': 0, 'lscr_frb': 0}
# byte offset at which a block body starts (the end of the straight-line part before it)
BLOCK_START = {'cast_image_ext': 23}

PINNED = os.path.join(os.path.dirname(os.path.abspath(__file__)), 'pinned', 'layouts.json')
FALLBACKS = os.path.join(GEN, 'fallbacks.json')

def read_one(trees, coqname, path, cls, fn, datanames, total):
    """-> (layout items, field names) of one reader, from the source text; TranslatorError when the text does not
    have the straight-line shape the translator understands"""
    if path not in trees:
        trees[path] = parse(path)
    f = find_function(trees[path], cls, fn)
    if coqname in LOOP_BODIES:
        loops = [st for st in f.body if isinstance(st, (ast.For, ast.While, ast.If)) and mentions_read(st, datanames)]
        k = LOOP_BODIES[coqname]
        if len(loops) <= k:
            raise TranslatorError('%s.%s: loop number %d reading %s not found' % (cls, fn, k, datanames))
        idxn = next((n.id for n in ast.walk(loops[k]) if isinstance(n, ast.Name) and n.id in ('indx', 'idx', 'index')), None)
        fields, end = analyse(f, datanames, start=BLOCK_START.get(coqname, 0), body=loops[k].body, idxname=idxn)
    else:
        fields, end = analyse(f, datanames)
    if not fields:
        raise TranslatorError('%s.%s: no field reads recognised' % (cls, fn))
    lay, names, pos = to_layout(fields, fn, base=BLOCK_START.get(coqname, 0))
    if total is not None:
        if pos > total:
            raise TranslatorError('%s.%s reads %d bytes, record has %d' % (cls, fn, pos, total))
        if pos < total:
            lay.append('FSkip %d' % (total - pos))
    return lay, [n if isinstance(n, str) else n.decode('latin-1') for n in names]

def fields_of(lay, names):
    """{(name, offset, item)} of a layout given as item strings 'FS n' / 'FU n' / 'FSkip n' and the names of its non-skip items"""
    out = set()
    off = 0
    k = 0
    for it in lay:
        kind, width = it.split()
        if kind != 'FSkip':
            out.add((names[k] if k < len(names) else '?', off, it))
            k += 1
        off += int(width)
    return out

def stopped_early(lay, names, pinned):
    """the fresh layout has lost field reads: its fields are a proper subset of the pinned ones (same names, offsets,
    widths and signs for those that are left) - what the translator sees of a reader whose other reads were moved into a
    helper or a table"""
    fresh, old = fields_of(lay, names), fields_of(pinned['layout'], pinned['names'])
    if fresh < old:
        return True
    # ... or fewer named reads than before, all of them known names (the offsets the translator assigns to the reads
    # that are left are then not to be trusted either: it does not see the index move inside the helper)
    return len(names) < len(pinned['names']) and set(names) < set(pinned['names'])

def generate(pin=False):
    """One layout per reader.  A reader whose source text the translator cannot follow any more (a rewrite into a
    table-driven or helper-based form) falls back to the pinned copy of its layout (tie/pinned/layouts.json, written
    from the unchanged tree by `gen_layouts.py --pin`, never at check time): the tie of that reader is then the
    correspondence run alone (model and implementation on the same chunks, field by field), and the fallback is listed
    in coq/Gen/fallbacks.json, which the checks report.  A reader that is not pinned still fails closed."""
    import json
    out = [HEADER % 'the straight-line field readers listed in tie/gen_layouts.py READERS',
           'From DRX Require Import Py.PyBytes Py.Layout.\n']
    pinned = json.load(open(PINNED)) if os.path.exists(PINNED) else {}
    trees = {}
    fallbacks = []
    fresh = {}
    for coqname, path, cls, fn, datanames, total in READERS + EXTRA_READERS:
        try:
            lay, names = read_one(trees, coqname, path, cls, fn, datanames, total)
            fresh[coqname] = {'layout': lay, 'names': names}
            origin = ''
            if not pin and coqname in pinned and stopped_early(lay, names, pinned[coqname]):
                # the translator follows the straight-line prefix of a reader; after a rewrite that moves the later
                # reads into a helper or a table it stops early and would emit a truncated layout
                raise TranslatorError('%s.%s: only %d of %d field reads are still in straight-line form'
                                      % (cls, fn, len(names), len(pinned[coqname]['names'])))
        except (TranslatorError, SyntaxError) as e:
            if pin or coqname not in pinned:
                raise TranslatorError(str(e))
            lay, names = pinned[coqname]['layout'], pinned[coqname]['names']
            fallbacks.append({'reader': coqname, 'source': '%s %s.%s' % (path, cls, fn), 'why': str(e)})
            origin = ' -- PINNED COPY: the source text is not in a shape the translator reads (%s)' % str(e).replace('*)', '* )')
        out.append('(* %s %s.%s%s *)' % (path, cls, fn, origin))
        out.append('Definition %s_layout : layout := [%s].' % (coqname, '; '.join(lay)))
        out.append('Definition %s_names : list (list byte) := [\n  %s].\n' % (
            coqname, ';\n  '.join('%s (* %s *)' % (coq_bytes(n), n) for n in names)))
    emit('Gen_Layouts.v', '\n'.join(out))
    if pin:
        os.makedirs(os.path.dirname(PINNED), exist_ok=True)
        json.dump(fresh, open(PINNED, 'w'), indent=1, sort_keys=True)
    import gen_tables
    gen_tables.NOTES.extend(fallbacks)
    if __name__ == '__main__':
        emit('fallbacks.json', json.dumps(fallbacks, indent=1))

if __name__ == '__main__':
    generate(pin='--pin' in sys.argv)
