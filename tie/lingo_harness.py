"""Shared harness of the decompiler properties C02 / C03 / C04 / C12.

A case is a *source script* in the AST of lingo_spec (the independent specification), compiled with
Director's scheme (lingo_spec.compile_script) into a real Lscr chunk.  The implementation (/repo) and the
Coq model (runner) both decompile the chunk; the property oracles read the implementation's text back with
the independent Lingo parser / the fixed JavaScript correspondences of lingo_spec."""
import json, os, random, subprocess, tempfile
from framework import call_impl
import lingo_spec as S
import lingo_tools as T

ARITH = ['add', 'sub', 'mul', 'div', 'mod']
CMP = ['lt', 'lte', 'gt', 'gte', 'eq', 'ne']
LOGIC = ['and', 'or']
STRING = ['concat', 'concats', 'contains', 'start']
SPRITE = ['intersects', 'within']
ALL_BIN = ARITH + CMP + LOGIC + STRING + SPRITE

IDENTS = ['i', 'j', 'k', 'x', 'y', 'count2', 'total', 'a', 's', 'an', 'tor', 'myVar', 'idx_1', 'Zed', 'val', 'tmp', 'n9',
          'speedX', 'w', 'q']
GLOBALS = ['gScore', 'gLevel', 'gList', 'g']
PROPS = ['pWidth', 'pName', 'p']
EXT_FUNCS = ['put', 'beep', 'alert', 'random', 'abs', 'length', 'string', 'getAt', 'count', 'append', 'go', 'puppetSprite',
             'updateStage', 'findPos', 'getaProp', 'return', 'doIt', 'continue', 'cast', 'new', 'birth', 'sound']
SYMBOLS = ['left', 'foo', 'Bar_2', 'a', 'top', 'x9', 'next', 'loop', 'stop']
KEYWORD_SYMBOLS = ['loop', 'next', 'previous', 'playFile', 'fadeIn', 'fadeOut', 'stop', 'close']
LIST_FUNCS = ['findpos', 'findposnear', 'getaprop', 'getone', 'getpos', 'getpropat', 'getprop']
STRINGS = ['', 'hello', 'Hello World', 'x', 'a b', '10', 'it is', 'UPPER lower']
# strings with the characters the two emitters have to escape (kept apart: not every oracle path tokenizes them)
HARD_STRINGS = ['say "hi"', 'C:\\DATA\\file', 'a\\"b', '"', '\\', 'tab\there', 'x\\"']
HANDLERS = ['mouseUp', 'exitFrame', 'doWork', 'helper', 'calc', 'new', 'startMovie', 'h2']

class Gen:
    """random source programs; every choice comes from the one rng"""
    def __init__(self, rng, kinds=None):
        self.rng = rng
    def ints(self):
        r = self.rng
        return r.choice([0, 1, 2, 5, 10, 127, 128, -1, -5, -128, -129, 255, 256, 1000, 32767, -32768, 32768, 65536, -70000,
                         2 ** 31 - 1, -2 ** 31, r.randrange(-200, 200), r.randrange(-40000, 40000)])
    def leaf(self, cx):
        r = self.rng
        k = r.random()
        if k < 0.25:
            return ('int', self.ints())
        if k < 0.35:
            return ('str', r.choice(STRINGS))
        if k < 0.42:
            return ('sym', r.choice(SYMBOLS))
        if k < 0.65 and cx['locals']:
            return ('loc', r.choice(cx['locals']))
        if k < 0.78 and cx['args']:
            return ('par', r.choice(cx['args']))
        if k < 0.90 and cx['globals']:
            return ('glob', r.choice(cx['globals']))
        if cx['props']:
            return ('prop', r.choice(cx['props']))
        return ('int', self.ints())
    def expr(self, cx, depth):
        r = self.rng
        if depth <= 0 or r.random() < 0.25:
            return self.leaf(cx)
        k = r.random()
        if k < 0.55:
            op = r.choice(ALL_BIN)
            return ('bin', op, self.expr(cx, depth - 1), self.expr(cx, depth - 1))
        if k < 0.63:
            return ('neg', self.non_negative_literal(self.expr(cx, depth - 1)))
        if k < 0.70:
            return ('not', self.expr(cx, depth - 1))
        if k < 0.80:
            f = r.choice(['random', 'abs', 'length', 'string', 'getAt', 'count', 'findPos', 'getaProp', 'myFunc'])
            return ('call', f, self.args(cx, depth - 1, r.choice([0, 1, 1, 2, 3]), f))
        if k < 0.85 and cx['lfuncs']:
            return ('lcall', r.choice(cx['lfuncs']), [self.expr(cx, depth - 1) for _ in range(r.choice([0, 1, 2]))])
        if k < 0.93:
            return ('list', [self.expr(cx, depth - 1) for _ in range(r.choice([0, 1, 2, 3, 5]))])
        return ('plist', [(('sym', r.choice(SYMBOLS)), self.expr(cx, depth - 1)) for _ in range(r.choice([0, 1, 2, 3]))])
    def args(self, cx, depth, n, fname):
        a = [self.expr(cx, depth) for _ in range(n)]
        # Director compiles a list-function call in the object-call form, where a symbol in first position is how a
        # variable is written; the program space has no symbol literal there
        if a and fname.lower() in LIST_FUNCS and a[0][0] == 'sym':
            a[0] = ('loc', cx['locals'][0]) if cx['locals'] else ('int', 1)
        return a
    def non_negative_literal(self, e):
        # '-5' is a literal, not minus applied to 5: the operand of unary minus is never an integer literal here
        if e[0] == 'int':
            return ('loc', 'x') if False else ('call', 'abs', [e])
        return e
    def target(self, cx):
        r = self.rng
        opts = []
        if cx['locals']:
            opts += [('loc', v) for v in cx['locals']]
        if cx['args']:
            opts += [('par', v) for v in cx['args'] if v != 'me']
        if cx['globals']:
            opts += [('glob', v) for v in cx['globals']]
        if cx['props']:
            opts += [('prop', v) for v in cx['props']]
        return r.choice(opts)
    def simple(self, cx, depth):
        r = self.rng
        k = r.random()
        if k < 0.5 and (cx['locals'] or cx['globals'] or cx['props'] or cx['args']):
            return ('set', self.target(cx), self.expr(cx, depth))
        if k < 0.9 or not cx['lfuncs']:
            f = r.choice(EXT_FUNCS[:14])
            return ('call', f, self.args(cx, depth, r.choice([0, 1] if f == 'go' else [0, 1, 1, 2, 3]), f))
        return ('lcall', r.choice(cx['lfuncs']), [self.expr(cx, depth) for _ in range(r.choice([0, 1, 2]))])
    def script(self, nh=None, depth=3, nst=None, kind=None, body_fn=None):
        r = self.rng
        kind = kind or r.choice(['plain', 'plain', 'props'])
        nh = nh or r.choice([1, 1, 2, 3])
        hnames = r.sample(HANDLERS, nh)
        idents = r.sample(IDENTS, len(IDENTS))
        props = r.sample(PROPS, r.choice([1, 2, 3])) if kind == 'props' else []
        sglobals = r.sample(GLOBALS, r.choice([0, 0, 1, 2]))
        handlers = []
        for hn in hnames:
            na = r.choice([0, 1, 2, 3])
            nl = r.choice([0, 1, 2, 4, 6])
            args = [idents.pop() for _ in range(na)]
            locs = [idents.pop() for _ in range(nl)]
            idents = r.sample(IDENTS, len(IDENTS))
            idents = [x for x in idents if x not in args and x not in locs]
            hg = [g for g in GLOBALS if g not in sglobals and r.random() < 0.3]
            cx = {'locals': locs, 'args': args, 'globals': sglobals + hg, 'sglobals': sglobals, 'props': props, 'lfuncs': hnames}
            if body_fn:
                body = body_fn(self, cx)
            else:
                body = [self.simple(cx, r.randrange(0, depth + 1)) for _ in range(nst or r.choice([1, 2, 3, 5, 8]))]
            if r.random() < 0.12:
                body = list(body) + [('exit',)]        # an explicit exit as last statement (the compiler adds its own after it)
            handlers.append({'name': hn, 'args': args, 'locals': locs, 'body': body, 'method': False})
        return finish_script({'props': props, 'globals': sglobals, 'factory': None, 'scr_num': r.choice([0, 1, 7, 300]),
                              'handlers': handlers})

# field types: A atom, N name-table string, E expr, L [expr], P [(expr, expr)], M chunk ranges [(type, a, b|None)], B body,
#              T assignment target (kind, name), R object reference of a method call
EXPR_SCHEMA = {'int': 'A', 'str': 'A', 'sym': 'N', 'loc': 'A', 'par': 'A', 'glob': 'N', 'prop': 'N', 'bin': 'AEE', 'neg': 'E',
               'not': 'E', 'call': 'NL', 'lcall': 'AL', 'list': 'L', 'plist': 'P', 'the': 'N', 'objprop': 'AEA', 'menuprop': 'AEE',
               'menuname': 'E', 'menuitems': 'E', 'numberof': 'A', 'sysprop': 'A', 'special': 'A', 'datetime': 'A', 'keyprop': 'N',
               'lastchunk': 'AE', 'numchunks': 'AE', 'chunk': 'ME', 'field': 'E', 'accessor': 'EN', 'mcall': 'RNL'}
STMT_SCHEMA = {'set': 'TE', 'call': 'NL', 'lcall': 'AL', 'if': 'EB', 'ife': 'EBB', 'while': 'EB', 'with': 'AEEB', 'down': 'AEEB',
               'in': 'AEB', 'exit_repeat': '', 'exit': '', 'setthe': 'NE', 'setobjprop': 'AEAE', 'setmenuprop': 'AEEE', 'setsys': 'AE',
               'setspecial': 'AE', 'setaccessor': 'ENE', 'put': 'AEE', 'delete': 'E', 'hilite': 'E', 'tell': 'EB', 'mcall': 'RNL'}

def walk_node(node, is_stmt, fn_name, fn_expr=None):
    """calls fn_name(name) for every name-table string below the node (and fn_expr on every expression)"""
    sch = (STMT_SCHEMA if is_stmt else EXPR_SCHEMA)[node[0]]
    if not is_stmt and fn_expr:
        fn_expr(node)
    if is_stmt and node[0] == 'in':
        fn_name('count'); fn_name('getAt')
    for t, v in zip(sch, node[1:]):
        if t == 'N':
            fn_name(v)
        elif t == 'E':
            walk_node(v, False, fn_name, fn_expr)
        elif t == 'L':
            for x in v:
                walk_node(x, False, fn_name, fn_expr)
        elif t == 'P':
            for x, y in v:
                walk_node(x, False, fn_name, fn_expr); walk_node(y, False, fn_name, fn_expr)
        elif t == 'M':
            for ty, x, y in v:
                walk_node(x, False, fn_name, fn_expr)
                if y is not None:
                    walk_node(y, False, fn_name, fn_expr)
        elif t == 'B':
            for st in v:
                walk_node(st, True, fn_name, fn_expr)
        elif t == 'T':
            if v[0] in ('glob', 'prop'):
                fn_name(v[1])
        elif t == 'R':
            if v[0] == 'me':
                fn_name('me')

def collect_names(script):
    names = []
    def add(n):
        if n not in names:
            names.append(n)
    for p in script.get('props', []):
        add(p)
    for g in script.get('globals', []):
        add(g)
    if script.get('factory'):
        add(script['factory'])
    for h in script['handlers']:
        add(h['name'])
        for a in h['args']:
            add(a)
        for l in h['locals']:
            add(l)
        for st in h['body']:
            walk_node(st, True, add)
    return names

def node_from_json(node, is_stmt):
    sch = (STMT_SCHEMA if is_stmt else EXPR_SCHEMA)[node[0]]
    out = [node[0]]
    for t, v in zip(sch, node[1:]):
        if t in 'AN':
            out.append(v)
        elif t == 'E':
            out.append(node_from_json(v, False))
        elif t == 'L':
            out.append([node_from_json(x, False) for x in v])
        elif t == 'P':
            out.append([(node_from_json(x, False), node_from_json(y, False)) for x, y in v])
        elif t == 'M':
            out.append([(ty, node_from_json(x, False), None if y is None else node_from_json(y, False)) for ty, x, y in v])
        elif t == 'B':
            out.append([node_from_json(st, True) for st in v])
        elif t in 'TR':
            out.append(tuple(v))
    return tuple(out)

def finish_script(script, rng=None):
    names = collect_names(script)
    # name index 0 is reserved (a parameter with name index 0 is the 'me' of a method)
    script['names'] = ['_zero_'] + names
    return script

# ------------------------------------------------------------------ running
def script_to_json(s):
    return json.loads(json.dumps(s))
def expr_from_json(e):
    return node_from_json(e, False)
def stmt_from_json(st):
    return node_from_json(st, True)
def body_from_json(b):
    return [stmt_from_json(st) for st in b]

def script_from_json(j):
    s = dict(j)
    s['handlers'] = []
    for h in j['handlers']:
        h2 = dict(h)
        h2['body'] = body_from_json(h['body'])
        s['handlers'].append(h2)
    return s

def fix_plist(e):
    """JSON turns the (key, value) pairs of plist into lists: restore tuples of exprs"""
    return e

def compile_case(script, width=6):
    return S.compile_script(script, width), script['names']

def decompile_impl(fdata, names):
    from drxtract.lingosrc.parse.lscr import parse_lrcr_file_data
    from drxtract.lingosrc.codegen.lingo import generate_lingo_code
    from drxtract.lingosrc.codegen.js import generate_js_code
    lingo = generate_lingo_code(parse_lrcr_file_data(fdata, names))
    js = generate_js_code(parse_lrcr_file_data(fdata, names))
    return lingo, js

def run_script_impl(script, width=6):
    try:
        fdata, names = compile_case(script, width)
    except S.SpecError as e:
        return ('skip', str(e))
    r = call_impl(decompile_impl, fdata, names)
    return r + (fdata,) if r[0] == 'ok' else r + (fdata,)

def model_request(script, ir):
    if ir[0] == 'skip':
        return None
    fdata = ir[-1]
    return T.decompile_request(fdata, script['names'])

def compare_texts(ir, mr):
    """implementation vs model, both generators"""
    if ir[0] == 'skip':
        return None
    if ir[0] != 'ok':
        if mr[0] == b'ok':
            return 'implementation raises %s but the model decompiles the chunk' % (ir[2] if len(ir) > 2 else ir[0],)
        return None
    if mr[0] != b'ok':
        return 'model fails (%r) on a chunk the implementation decompiles' % (mr,)
    ml, mj = mr[1][0].decode('utf-8', 'replace'), mr[1][1].decode('utf-8', 'replace')
    il, ij = ir[1]
    if ml != il:
        return 'Lingo text differs from the model: ' + first_diff(il, ml)
    if mj != ij:
        return 'JavaScript text differs from the model: ' + first_diff(ij, mj)
    return None

def first_diff(a, b):
    la, lb = a.split('\n'), b.split('\n')
    for i in range(max(len(la), len(lb))):
        x = la[i] if i < len(la) else '<missing>'
        y = lb[i] if i < len(lb) else '<missing>'
        if x != y:
            return 'line %d: implementation %r / model %r' % (i + 1, x, y)
    return 'no line differs'

# ------------------------------------------------------------------ property oracles
def lingo_oracle(script, lingo):
    """C02/C03: the emitted text, parsed with Lingo's grammar, is the source script"""
    for ln in lingo.split('\n'):
        t = ln.strip()
        if t in ('jz', 'jump') or t.startswith('jz ') or t.startswith('jump '):
            return 'raw jump pseudo-statement %r left in the output' % t
    try:
        parsed = S.parsed_view(S.parse_lingo(lingo))
    except S.SpecError as e:
        return 'emitted Lingo does not parse: %s' % e
    want = S.same_object(S.strip_script(script))
    parsed = S.same_object(parsed)
    if parsed != want:
        return 'emitted Lingo denotes a different script: ' + diff_scripts(want, parsed)
    return None

def diff_scripts(want, got):
    for k in ('props', 'globals', 'factory'):
        if want[k] != got[k]:
            return '%s: source %r, text %r' % (k, want[k], got[k])
    if len(want['handlers']) != len(got['handlers']):
        return 'handler count %d vs %d' % (len(want['handlers']), len(got['handlers']))
    for a, b in zip(want['handlers'], got['handlers']):
        for k in ('name', 'args', 'method'):
            if a[k] != b[k]:
                return 'handler %s: %s source %r, text %r' % (a['name'], k, a[k], b[k])
        if a['body'] != b['body']:
            return 'handler %s: %s' % (a['name'], diff_body(a['body'], b['body']))
    return 'unknown difference'

def diff_body(a, b, path='body'):
    if len(a) != len(b):
        return '%s has %d statements in the source, %d in the text' % (path, len(a), len(b))
    for i, (x, y) in enumerate(zip(a, b)):
        if x != y:
            if x[0] == y[0] and x[0] in ('if', 'while') and x[1] == y[1]:
                return diff_body(x[2], y[2], '%s[%d].%s' % (path, i, x[0]))
            if x[0] == y[0] == 'ife' and x[1] == y[1]:
                return diff_body(x[2], y[2], '%s[%d].then' % (path, i)) if x[2] != y[2] else diff_body(x[3], y[3], '%s[%d].else' % (path, i))
            if x[0] == y[0] and x[0] in ('with', 'down') and x[1:4] == y[1:4]:
                return diff_body(x[4], y[4], '%s[%d].%s' % (path, i, x[0]))
            return '%s[%d]: source %r, text %r' % (path, i, x, y)
    return 'equal'

def js_oracle(script, js):
    """C04: the emitted JavaScript is, token for token, the fixed correspondence applied to the source script"""
    try:
        want = S.js_tokens(S.pp_js(script))
        got = S.js_tokens(js)
    except S.SpecError as e:
        return 'JavaScript does not tokenize: %s' % e
    if want != got:
        for i in range(max(len(want), len(got))):
            a = want[i] if i < len(want) else '<end>'
            b = got[i] if i < len(got) else '<end>'
            if a != b:
                return 'JavaScript differs from the correspondence at token %d: expected %r, emitted %r (context: %s)' % (
                    i, a, b, ' '.join(got[max(0, i - 6):i + 4]))
    return None

_NODE_CHECK = r'''
const vm = require('vm');
const cases = JSON.parse(require('fs').readFileSync(process.argv[2], 'utf8'));
const out = cases.map(src => { try { new vm.Script(src); return null; } catch (e) { return String(e.message); } });
process.stdout.write(JSON.stringify(out));
'''
def node_syntax_check(sources):
    """syntax-only check of many JavaScript programs in one node process -> list of None | message"""
    if not sources:
        return []
    d = tempfile.mkdtemp(prefix='drxjs')
    try:
        with open(os.path.join(d, 'c.json'), 'w') as f:
            json.dump(sources, f)
        with open(os.path.join(d, 'chk.js'), 'w') as f:
            f.write(_NODE_CHECK)
        p = subprocess.run(['node', os.path.join(d, 'chk.js'), os.path.join(d, 'c.json')], stdout=subprocess.PIPE,
                           stderr=subprocess.PIPE, timeout=600)
        return json.loads(p.stdout.decode())
    finally:
        for fn in os.listdir(d):
            os.remove(os.path.join(d, fn))
        os.rmdir(d)

# ------------------------------------------------------------------ shrinking
def shrink_script(script):
    """candidates: fewer handlers, fewer statements, smaller expressions"""
    hs = script['handlers']
    if len(hs) > 1:
        for i in range(len(hs)):
            used = {h['name'] for h in hs}
            s2 = dict(script, handlers=hs[:i] + hs[i + 1:])
            if not calls_local(s2, hs[i]['name']):
                yield finish_script(strip_names(s2))
    for hi, h in enumerate(hs):
        for cand in shrink_body(h['body']):
            h2 = dict(h, body=cand)
            yield finish_script(strip_names(dict(script, handlers=hs[:hi] + [h2] + hs[hi + 1:])))

def strip_names(s):
    s = dict(s)
    s.pop('names', None)
    return s

def calls_local(script, name):
    return name in json.dumps([h['body'] for h in script['handlers']])

def shrink_body(b):
    for i in range(len(b)):
        yield b[:i] + b[i + 1:]
    for i, st in enumerate(b):
        for c in shrink_stmt(st):
            yield b[:i] + [c] + b[i + 1:]

def shrink_stmt(st):
    k = st[0]
    if k not in ('set', 'call', 'lcall', 'if', 'while', 'ife', 'with', 'down', 'in'):
        return
    if k == 'set':
        for e in shrink_expr(st[2]):
            yield ('set', st[1], e)
    elif k in ('call', 'lcall'):
        for i in range(len(st[2])):
            yield (k, st[1], st[2][:i] + st[2][i + 1:])
        for i, a in enumerate(st[2]):
            for e in shrink_expr(a):
                yield (k, st[1], st[2][:i] + [e] + st[2][i + 1:])
    elif k in ('if', 'while'):
        for c in shrink_body(st[2]):
            if c:
                yield (k, st[1], c)
        for e in shrink_expr(st[1]):
            yield (k, e, st[2])
    elif k == 'ife':
        for c in shrink_body(st[2]):
            if c:
                yield (k, st[1], c, st[3])
        for c in shrink_body(st[3]):
            if c:
                yield (k, st[1], st[2], c)
        yield ('if', st[1], st[2])
    elif k in ('with', 'down'):
        for c in shrink_body(st[4]):
            if c:
                yield (k, st[1], st[2], st[3], c)
    elif k == 'in':
        for c in shrink_body(st[3]):
            if c:
                yield (k, st[1], st[2], c)

def shrink_expr(e):
    k = e[0]
    if k not in ('bin', 'neg', 'not', 'call', 'lcall', 'list', 'plist', 'int', 'str'):
        return
    if k == 'bin':
        yield e[2]
        yield e[3]
        for x in shrink_expr(e[2]):
            yield ('bin', e[1], x, e[3])
        for x in shrink_expr(e[3]):
            yield ('bin', e[1], e[2], x)
    elif k in ('neg', 'not'):
        yield e[1]
        for x in shrink_expr(e[1]):
            if not (k == 'neg' and x[0] == 'int'):
                yield (k, x)
    elif k in ('call', 'lcall'):
        for a in e[2]:
            yield a
        for i in range(len(e[2])):
            yield (k, e[1], e[2][:i] + e[2][i + 1:])
    elif k == 'list':
        for a in e[1]:
            yield a
        for i in range(len(e[1])):
            yield ('list', e[1][:i] + e[1][i + 1:])
    elif k == 'plist':
        for i in range(len(e[1])):
            yield ('plist', e[1][:i] + e[1][i + 1:])
    elif k == 'int' and e[1] not in (0, 1):
        yield ('int', 1)
    elif k == 'str' and e[1] != 'x':
        yield ('str', 'x')

# ------------------------------------------------------------------ program families
def pair_scripts(rng):
    """every operator pair at expression depth 2, both nestings, in scripts of 24 statements"""
    ops = ALL_BIN + ['neg', 'not']
    def mk(op, a, b):
        if op == 'neg':
            return ('neg', a if a[0] != 'int' else ('loc', 'x'))
        if op == 'not':
            return ('not', a)
        return ('bin', op, a, b)
    leaves = [('loc', 'x'), ('par', 'p1'), ('int', 3), ('glob', 'gScore'), ('int', 0), ('str', 'ab'), ('int', -7), ('int', 300)]
    sts = []
    k = 0
    for o1 in ops:
        for o2 in ops:
            a, b, c = leaves[k % 8], leaves[(k + 3) % 8], leaves[(k + 5) % 8]
            k += 1
            sts.append(('set', ('loc', 'y'), mk(o1, mk(o2, a, b), c)))
            sts.append(('set', ('loc', 'y'), mk(o1, a, mk(o2, b, c))))
    out = []
    for i in range(0, len(sts), 24):
        h = {'name': 'pairs', 'args': ['p1'], 'locals': ['x', 'y'], 'body': sts[i:i + 24], 'method': False}
        out.append(finish_script({'props': [], 'globals': ['gScore'], 'factory': None, 'scr_num': 0, 'handlers': [h]}))
    return out

COMPOUND = ('if', 'ife', 'while', 'with', 'down')

def skeleton_bodies(n, inloop, maxlen):
    """bodies with at most n compound constructs, 1..maxlen items each; yields (body, used)"""
    def items(k):
        yield ('s',), 0
        if inloop:
            yield ('x',), 0
        if k >= 1:
            for b, u in skeleton_bodies(k - 1, inloop, maxlen):
                yield ('if', b), u + 1
            for kind in ('while', 'with', 'down'):
                for b, u in skeleton_bodies(k - 1, True, maxlen):
                    yield (kind, b), u + 1
            for b1, u1 in skeleton_bodies(k - 1, inloop, maxlen):
                for b2, u2 in skeleton_bodies(k - 1 - u1, inloop, maxlen):
                    yield ('ife', b1, b2), u1 + u2 + 1
    def seqs(k, length):
        if length == 0:
            yield [], 0
            return
        for it, u in items(k):
            for rest, u2 in seqs(k - u, length - 1):
                yield [it] + rest, u + u2
    for L in range(1, maxlen + 1):
        yield from seqs(n, L)

LOOPVARS = ['i', 'j', 'k', 'm', 'n', 'q']
def skeleton_to_body(sk, counter, depth=0):
    """skeleton -> lingo_spec statements; simple statements are numbered 'put n', loop variables distinct per nesting level"""
    out = []
    for it in sk:
        k = it[0]
        if k == 's':
            counter[0] += 1
            out.append(('call', 'put', [('int', counter[0] % 120)]))
        elif k == 'x':
            out.append(('exit_repeat',))
        elif k == 'if':
            counter[1] += 1
            out.append(('if', ('bin', 'lt', ('loc', 'c'), ('int', counter[1] % 100)), skeleton_to_body(it[1], counter, depth)))
        elif k == 'ife':
            counter[1] += 1
            out.append(('ife', ('bin', 'gt', ('loc', 'c'), ('int', counter[1] % 100)), skeleton_to_body(it[1], counter, depth),
                        skeleton_to_body(it[2], counter, depth)))
        elif k == 'while':
            counter[1] += 1
            out.append(('while', ('bin', 'ne', ('loc', 'c'), ('int', counter[1] % 100)), skeleton_to_body(it[1], counter, depth + 1)))
        elif k in ('with', 'down'):
            v = LOOPVARS[depth % len(LOOPVARS)]
            a, b = (1, 9) if k == 'with' else (9, 1)
            out.append((k, v, ('int', a), ('int', b), skeleton_to_body(it[1], counter, depth + 1)))
    return out

def skeleton_str(sk):
    def one(it):
        k = it[0]
        if k == 's':
            return 'S'
        if k == 'x':
            return 'X'
        if k == 'ife':
            return 'ife' + skeleton_str(it[1]) + skeleton_str(it[2])
        return k + skeleton_str(it[1])
    return '[' + ' '.join(one(it) for it in sk) + ']'

def skeleton_script(sk):
    body = skeleton_to_body(sk, [0, 0])
    h = {'name': 'h', 'args': [], 'locals': ['c'] + LOOPVARS, 'body': body, 'method': False}
    return finish_script({'props': [], 'globals': [], 'factory': None, 'scr_num': 0, 'handlers': [h]})

# the syntactic patterns of the open control-flow findings (DESIGN.md C03): P1..P4 over a source body
def cf_patterns(body, inloop=False, direct_loop_child=False):
    """set of pattern names occurring in a lingo_spec statement list"""
    found = set()
    prev_exit_if = False
    for st in body:
        k = st[0]
        if k == 'exit_repeat' and direct_loop_child:
            found.add('P1')
        if k in ('if', 'ife') and prev_exit_if and inloop:
            found.add('P4')
        if k == 'if':
            A = st[2]
            if any(s[0] == 'exit_repeat' for s in A[:-1]):
                found.add('P3')
            found |= cf_patterns(A, inloop, False)
            prev_exit_if = prev_exit_if or (bool(A) and A[-1][0] == 'exit_repeat')
            continue
        if k == 'ife':
            A, B = st[2], st[3]
            if any(s[0] == 'exit_repeat' for s in A[:-1]):
                found.add('P3')
            if contains_exit(B):
                found.add('P2')
            found |= cf_patterns(A, inloop, False) | cf_patterns(B, inloop, False)
            prev_exit_if = prev_exit_if or (bool(A) and A[-1][0] == 'exit_repeat')
            continue
        if k == 'while':
            found |= cf_patterns(st[2], True, True)
        elif k in ('with', 'down'):
            found |= cf_patterns(st[4], True, True)
        elif k == 'in':
            found |= cf_patterns(st[3], True, True)
        # (the flag is sticky: the scan skips everything up to the end of the loop after such an if)
    return found

def contains_exit(body):
    for st in body:
        k = st[0]
        if k == 'exit_repeat':
            return True
        if k == 'if' and contains_exit(st[2]):
            return True
        if k == 'ife' and (contains_exit(st[2]) or contains_exit(st[3])):
            return True
    return False

def script_patterns(script):
    out = set()
    for h in script['handlers']:
        out |= cf_patterns(h['body'])
    return out

# ------------------------------------------------------------------ case plumbing shared by the prop modules
def case_to_json(c):
    return {'tag': c['tag'], 'script': script_to_json(strip_names(c['script'])), 'names': c['script']['names']}
def case_from_json(j):
    s = script_from_json(j['script'])
    s['names'] = j['names']
    return {'tag': j['tag'], 'script': s}
def describe(c):
    s = c['script']
    try:
        src = S.pp_lingo(s)
    except Exception as e:
        src = '<unprintable: %s>' % e
    return {'tag': c['tag'], 'source': src[:1500]}
def run_impl(c):
    return run_script_impl(c['script'])
def model_req(c, ir):
    """the decompile request for the model, followed by the spec-tie requests (tie/spec_tie.py) of the handlers that
    lie inside the fragment of the theorems"""
    r = model_request(c['script'], ir)
    if r is None:
        return None
    reqs = [r]
    if ir[0] == 'ok':
        reqs += [x[3] for x in spec_requests(c['script'], ir)]
    return reqs if len(reqs) > 1 else r

def spec_requests(script, ir):
    import spec_tie as ST
    try:
        codec = {bytes(k): bytes(v) for k, v in T.oracles(ir[-1])[0]}
        return ST.requests(script, codec)
    except Exception:
        return []

def split_ms(ms):
    """-> (result of the decompile request, results of the spec-tie requests)"""
    if ms is None:
        return None, []
    if ms and isinstance(ms[0], (list, tuple)):
        return ms[0], list(ms[1:])
    return ms, []

def spec_verdicts(c, ir, ms):
    """spec tie: [(what, kind, None)]"""
    import spec_tie as ST
    _, sres = split_ms(ms)
    if not sres or ir[0] != 'ok':
        return []
    reqs = spec_requests(c['script'], ir)
    if len(reqs) != len(sres):
        return [('spec tie: %d requests but %d results' % (len(reqs), len(sres)), 'correspondence', None)]
    return [(w, 'correspondence', None) for w in ST.judge(c['script'], reqs, sres, ir[1][0], ir[1][1])]
def shrink_candidates(c):
    for s in shrink_script(c['script']):
        yield {'tag': c['tag'] + ':shrunk', 'script': s}

def text_pair(ms):
    ms, _ = split_ms(ms)
    if ms is None or ms[0] != b'ok':
        return None
    return ms[1][0].decode('utf-8', 'replace'), ms[1][1].decode('utf-8', 'replace')

def expr_depth(e):
    sch = EXPR_SCHEMA[e[0]]
    d = 0
    for t, v in zip(sch, e[1:]):
        if t == 'E':
            d = max(d, expr_depth(v))
        elif t == 'L':
            d = max([d] + [expr_depth(x) for x in v])
        elif t == 'P':
            d = max([d] + [max(expr_depth(x), expr_depth(y)) for x, y in v])
        elif t == 'M':
            d = max([d] + [expr_depth(x) for _, x, _ in v])
    return d + (1 if any(t in 'ELPM' for t in sch) else 0)

def script_depth(script):
    d = [0]
    def fe(e):
        d[0] = max(d[0], expr_depth(e))
    for h in script['handlers']:
        for st in h['body']:
            walk_node(st, True, lambda n: None, fe)
    return d[0]

def script_kinds(script):
    """set of statement / expression kinds occurring in the script"""
    out = set()
    def rec(node, is_stmt):
        out.add(node[0])
        sch = (STMT_SCHEMA if is_stmt else EXPR_SCHEMA)[node[0]]
        for t, v in zip(sch, node[1:]):
            if t == 'E':
                rec(v, False)
            elif t == 'L':
                for x in v:
                    rec(x, False)
            elif t == 'P':
                for x, y in v:
                    rec(x, False); rec(y, False)
            elif t == 'M':
                for _, x, y in v:
                    rec(x, False)
                    if y is not None:
                        rec(y, False)
            elif t == 'B':
                for st in v:
                    rec(st, True)
    for h in script['handlers']:
        for st in h['body']:
            rec(st, True)
    return out

# ------------------------------------------------------------------ the further instruction families
import lingo_spec as _S
CHUNKS = ['char', 'word', 'item', 'line']
BYNAME_PROPS = ['itemDelimiter', 'actorList', 'floatPrecision2', 'myProp', 's', 'an', 'tor', 'a', 'speed', 'frameLabel']

class GenExt(Gen):
    """adds the 'the' properties, chunk expressions, put / delete / hilite, tell blocks and list loops"""
    def idexpr(self, cx):
        r = self.rng
        k = r.random()
        if k < 0.5:
            return ('int', r.choice([1, 2, 5, 12, 48, 120]))
        if k < 0.6:
            # a compound identifier: sprite (i + 1), cast (n * 2 - 1), sound (gS)
            a = ('loc', r.choice(cx['locals'])) if cx['locals'] else ('int', 2)
            e = ('bin', r.choice(['add', 'sub', 'mul']), a, ('int', r.choice([1, 2, 10])))
            return e if r.random() < 0.7 else ('bin', 'add', e, ('int', 1))
        if k < 0.8 and cx['locals']:
            return ('loc', r.choice(cx['locals']))
        if k < 0.9 and cx['args']:
            return ('par', r.choice(cx['args']))
        if cx['globals']:
            return ('glob', r.choice(cx['globals']))
        return ('int', 3)
    def small(self, cx):
        return self.expr(cx, self.rng.choice([0, 0, 1]))
    def mods(self, cx):
        r = self.rng
        n = r.choice([1, 1, 1, 2, 3, 4])
        types = sorted(r.sample(range(4), n))
        out = []
        for t in types:
            a = ('int', r.choice([1, 2, 3, 10])) if r.random() < 0.7 else ('loc', cx['locals'][0]) if cx['locals'] else ('int', 2)
            b = None
            if r.random() < 0.3:
                b = ('int', r.choice([4, 12]))
            out.append((CHUNKS[t], a, b))
        return out
    def ext_expr(self, cx):
        r = self.rng
        k = r.randrange(16)
        if k == 0:
            return ('the', r.choice(BYNAME_PROPS))
        if k == 1:
            kind = r.choice(['sprite', 'cast', 'sound'])
            table = {'sprite': _S.SPRITE_PROPS, 'cast': _S.CAST_PROPS, 'sound': _S.SOUND_PROPS}[kind]
            prop = r.choice([p for p in table if not p.startswith('UNKNOWN')])
            return ('objprop', kind, self.idexpr(cx), prop)
        if k == 2:
            return ('objprop', 'field', self.idexpr(cx), r.choice([p for p in _S.CAST_PROPS if not p.startswith('UNKNOWN')]))
        if k == 3:
            return ('menuprop', r.choice(_S.MENUITEM_PROPS[1:]), self.idexpr(cx), self.idexpr(cx))
        if k == 4:
            return r.choice([('menuname', self.idexpr(cx)), ('menuitems', self.idexpr(cx)), ('numberof', 'menus'),
                             ('numberof', 'castMembers')])
        if k == 5:
            return ('sysprop', r.choice(sorted(_S.SYS_INDEX)))
        if k == 6:
            return r.choice([('special', r.choice(_S.SPECIAL_PROPS)), ('datetime', r.choice(_S.DATE_TIME))])
        if k == 7:
            return ('keyprop', r.choice(_S.KEY_PROPS))
        if k == 8:
            return ('lastchunk', r.choice(CHUNKS), self.strexpr(cx))
        if k == 9:
            return ('numchunks', r.choice(CHUNKS), self.strexpr(cx))
        if k in (10, 11):
            return ('chunk', self.mods(cx), self.strexpr(cx))
        if k == 12:
            return ('field', self.idexpr(cx))
        if k == 13:
            return ('accessor', ('call', 'cast', [self.idexpr(cx)]), r.choice(['center', 'crop', 'depth', 'loaded', 'rect']))
        return self.expr(cx, 2)
    def strexpr(self, cx):
        r = self.rng
        k = r.random()
        if k < 0.4 and cx['locals']:
            return ('loc', r.choice(cx['locals']))
        if k < 0.6:
            return ('field', self.idexpr(cx))
        if k < 0.75 and cx['globals']:
            return ('glob', r.choice(cx['globals']))
        if k < 0.9:
            return ('str', r.choice(STRINGS[1:]))
        return ('call', 'string', [('int', 12)])      # (a chunk of a chunk in increasing order is the same text as one chunk expression)
    def ext_stmt(self, cx):
        r = self.rng
        k = r.randrange(15)
        v = self.small(cx) if r.random() < 0.6 else self.ext_expr(cx)
        if k == 0:
            return ('setthe', r.choice(BYNAME_PROPS), v)
        if k == 1:
            kind = r.choice(['sprite', 'cast', 'sound'])
            table = {'sprite': _S.SPRITE_PROPS, 'cast': _S.CAST_PROPS, 'sound': _S.SOUND_PROPS}[kind]
            return ('setobjprop', kind, self.idexpr(cx), r.choice([p for p in table if not p.startswith('UNKNOWN')]), v)
        if k == 2:
            return ('setmenuprop', r.choice(_S.MENUITEM_PROPS[1:]), self.idexpr(cx), self.idexpr(cx), v)
        if k == 3:
            return r.choice([('setsys', r.choice(sorted(_S.SYS_INDEX)), v), ('setspecial', r.choice(_S.SPECIAL_PROPS), v)])
        if k == 4:
            return ('setaccessor', ('call', 'cast', [self.idexpr(cx)]), r.choice(['center', 'crop']), v)
        if k in (5, 6) and cx['locals']:
            return ('put', r.choice(['into', 'after', 'before']), v, ('loc', r.choice(cx['locals'])))
        if k == 7:
            return ('put', r.choice(['into', 'after', 'before']), v, ('field', self.idexpr(cx)))
        if k in (8, 9):
            base = self.target_base(cx)
            return ('put', r.choice(['into', 'after', 'before']), v, ('chunk', self.mods(cx), base))
        if k == 10:
            return ('delete', ('chunk', self.mods(cx), self.target_base(cx)))
        if k == 11:
            return ('hilite', ('chunk', self.mods(cx), ('field', self.idexpr(cx))))
        if k == 12:
            inner = []
            for _ in range(r.choice([1, 2, 3])):
                if r.random() < 0.7:
                    f = r.choice(['puppetTempo', 'go', 'updateStage', 'beep'])
                    inner.append(('call', f, [] if f in ('updateStage', 'beep') else [('int', r.choice([1, 5]))]))
                else:
                    inner.append(('setsys', r.choice(sorted(_S.SYS_INDEX)), ('int', r.choice([0, 1, 255]))))
            return ('tell', ('call', 'window', [('str', r.choice(['tour', 'w2']))]), inner)
        if k == 13 and cx['locals']:
            return ('call', 'put', [self.ext_expr(cx), self.ext_expr(cx)])
        return ('call', 'put', [self.ext_expr(cx)])
    def target_base(self, cx):
        r = self.rng
        k = r.random()
        if k < 0.45 and cx['locals']:
            return ('loc', r.choice(cx['locals']))
        sg = [g for g in cx['globals'] if g in cx.get('sglobals', [])]
        if k < 0.8 or not sg:
            return ('field', self.idexpr(cx))
        return ('glob', r.choice(sg))         # a chunk target that is a global: declared in the script header
    def factory_script(self):
        """a factory: methods with the implicit me parameter, instance variables declared in mNew, me-calls"""
        r = self.rng
        inst = r.sample(['myLength', 'myMaster', 'pCount', 'pName'], r.choice([1, 2, 3]))
        mnames = ['mNew'] + r.sample(['mReset', 'mPush', 'mGet', 'mShow', 'mName'], r.choice([1, 2, 3]))
        handlers = []
        for mn in mnames:
            idents = r.sample(IDENTS, len(IDENTS))
            args = ['me'] + [idents.pop() for _ in range(r.choice([0, 1, 2]))]
            locs = [idents.pop() for _ in range(r.choice([0, 1, 2]))]
            cx = {'locals': locs, 'args': args[1:], 'globals': [], 'sglobals': [], 'props': inst, 'lfuncs': []}
            body = []
            for _ in range(r.choice([1, 2, 4])):
                k = r.random()
                if k < 0.35:
                    body.append(('set', ('prop', r.choice(inst)), self.expr(cx, 2)))
                elif k < 0.6:
                    body.append(('mcall', ('me',), r.choice(mnames[1:]), [self.expr(cx, 1) for _ in range(r.choice([0, 1, 2]))]))
                elif k < 0.8 and locs:
                    body.append(('set', ('loc', r.choice(locs)), ('mcall', ('me',), r.choice(mnames[1:]),
                                                                    [self.expr(cx, 1) for _ in range(r.choice([0, 1]))])))
                elif k < 0.9:
                    # the name of a method as a symbol LITERAL in the same script (a selector is written without its hash,
                    # a literal keeps it)
                    body.append(('call', 'put', [('sym', r.choice(mnames[1:]))]))
                else:
                    body.append(self.simple(cx, 2))
            if r.random() < 0.5:
                body.append(('call', 'return', [self.expr(cx, 1) if r.random() < 0.7 else ('sym', r.choice(mnames[1:]))]))
            handlers.append({'name': mn, 'args': args, 'locals': locs, 'body': body, 'method': True})
        return finish_script({'props': inst, 'globals': [], 'factory': r.choice(['makeStack', 'Counter']), 'scr_num': 2,
                              'handlers': handlers})
    def ext_script(self):
        def body(g, cx):
            n = g.rng.choice([2, 4, 6, 10])
            return [g.ext_stmt(cx) if g.rng.random() < 0.75 else g.simple(cx, 2) for _ in range(n)]
        return self.script(kind='plain', body_fn=body)
