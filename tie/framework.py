"""Check driver shared by all properties.

For a property P (module tie/props/P.py) one run does, in this order:
  1. regenerate coq/Gen/*.v from /repo's current source (translator, fail-closed)
  2. build the Coq cone of Props/PropP.v (forced re-check of the property file so that
     Print Assumptions is captured), audit it
  3. build the extracted OCaml model runner
  4. correspondence: corpus + generated cases -> implementation (/repo, in-process),
     model (runner), and the direct property oracle
  5. verdict (DESIGN.md sec. 5), evidence/P.json, replay file on violation
"""
import fcntl, hashlib, importlib, json, os, random, re, signal, subprocess, sys, time, traceback

VERIF = os.path.dirname(os.path.dirname(os.path.abspath(__file__)))
COQ = os.path.join(VERIF, 'coq')
RUNNER = os.path.join(VERIF, 'runner')
REPO = os.environ.get('DRX_REPO', '/repo')

FORBIDDEN = re.compile(r'\b(Admitted|admit|Axiom|Axioms|Parameter|Parameters|Conjecture|Conjectures|'
                       r'Hypothesis|Hypotheses|Variable|Variables|Abort|give_up)\b|Unset\s+Guard|'
                       r'bypass_check|type-in-type|impredicative-set|Admit\s+Obligations|'
                       r'Unset\s+Positivity|Unset\s+Universe')

# ---------------------------------------------------------------- sexp wire format
def sexp(v):
    if isinstance(v, bool):
        return '1' if v else '0'
    if isinstance(v, int):
        return str(v)
    if isinstance(v, (bytes, bytearray)):
        return '#' + bytes(v).hex()
    if isinstance(v, str):
        return '#' + v.encode('latin-1').hex()
    if v is None:
        return '()'
    if isinstance(v, (list, tuple)):
        return '(' + ' '.join(sexp(x) for x in v) + ')'
    raise TypeError(type(v))

def parse_sexp(s):
    pos = 0
    n = len(s)
    stack = [[]]
    while pos < n:
        c = s[pos]
        if c == ' ':
            pos += 1
        elif c == '(':
            stack.append([])
            pos += 1
        elif c == ')':
            top = stack.pop()
            stack[-1].append(top)
            pos += 1
        elif c == '#':
            e = pos + 1
            while e < n and s[e] not in ' )':
                e += 1
            stack[-1].append(bytes.fromhex(s[pos + 1:e]))
            pos = e
        else:
            e = pos
            while e < n and s[e] not in ' )':
                e += 1
            stack[-1].append(int(s[pos:e]))
            pos = e
    return stack[0][0]

def run_model(requests):
    """requests: list of (fname, value). Returns list of parsed results.  Requests named spec_* go to the extracted
    specification side (runner/specrun), all others to the extracted model (runner/modelrun)."""
    if not requests:
        return []
    spec = [i for i, (n, _) in enumerate(requests) if n.startswith('spec_')]
    if spec:
        rest = [i for i in range(len(requests)) if not requests[i][0].startswith('spec_')]
        out = [None] * len(requests)
        for idxs, exe in ((rest, 'modelrun'), (spec, 'specrun')):
            for i, r in zip(idxs, run_runner([requests[i] for i in idxs], exe)):
                out[i] = r
        return out
    return run_runner(requests, 'modelrun')

def run_runner(requests, exe):
    if not requests:
        return []
    inp = '\n'.join(name + ' ' + sexp(v) for name, v in requests) + '\n'
    p = subprocess.run(['bash', '-c', 'ulimit -s unlimited 2>/dev/null; exec "$0"', os.path.join(RUNNER, exe)],
                       input=inp.encode(), stdout=subprocess.PIPE, stderr=subprocess.PIPE, timeout=900)
    lines = p.stdout.decode().split('\n')
    if lines and lines[-1] == '':
        lines.pop()
    if len(lines) != len(requests):
        raise RuntimeError('model runner returned %d lines for %d requests; stderr=%s'
                           % (len(lines), len(requests), p.stderr.decode()[-500:]))
    return [parse_sexp(l) for l in lines]

# ---------------------------------------------------------------- implementation side
class Timeout(Exception):
    pass

def _alarm(signum, frame):
    raise Timeout()

ERRKINDS = {'struct.error': 'struct', 'IndexError': 'index', 'KeyError': 'key', 'ValueError': 'value',
            'TypeError': 'type', 'UnicodeDecodeError': 'unicode', 'NotImplementedError': 'notimpl'}

def call_impl(fn, *args, timeout=20.0):
    """Run fn(*args); exceptions become ('err', kind, text); a hang becomes ('timeout',)."""
    old = signal.signal(signal.SIGALRM, _alarm)
    signal.setitimer(signal.ITIMER_REAL, timeout)
    try:
        return ('ok', fn(*args))
    except Timeout:
        return ('timeout',)
    except RecursionError as e:
        return ('err', 'recursion', repr(e)[:200])
    except MemoryError as e:
        return ('err', 'memory', repr(e)[:200])
    except Exception as e:
        name = type(e).__name__
        if type(e).__module__ == 'struct' or name == 'error':
            name = 'struct.error'
        return ('err', ERRKINDS.get(name, 'other'), (name + ': ' + str(e))[:300])
    finally:
        signal.setitimer(signal.ITIMER_REAL, 0)
        signal.signal(signal.SIGALRM, old)

def setup_impl():
    import logging
    if REPO not in sys.path:
        sys.path.insert(0, REPO)
    logging.disable(logging.CRITICAL)

# ---------------------------------------------------------------- Coq build + audit
def sh(cmd, cwd=None, timeout=1800):
    p = subprocess.run(cmd, shell=True, cwd=cwd, stdout=subprocess.PIPE, stderr=subprocess.STDOUT, timeout=timeout)
    out = '\n'.join(l for l in p.stdout.decode(errors='replace').split('\n')
                    if 'conda.cli.condarc' not in l and not l.startswith('WARNING conda'))
    return p.returncode, out

def strip_comments(src):
    out = []
    depth = 0
    i = 0
    while i < len(src):
        if src.startswith('(*', i):
            depth += 1
            i += 2
        elif src.startswith('*)', i) and depth > 0:
            depth -= 1
            i += 2
        else:
            if depth == 0:
                out.append(src[i])
            i += 1
    return ''.join(out)


def cone(vfile):
    """transitive DRX dependencies of a .v file (paths relative to coq/)"""
    seen = []
    todo = [vfile]
    while todo:
        f = todo.pop()
        if f in seen:
            continue
        seen.append(f)
        src = strip_comments(open(os.path.join(COQ, f)).read())
        for sentence in re.split(r'\.\s', src):
            m = re.match(r'\s*From\s+DRX\s+Require\s+(?:Import\s+|Export\s+)?(.*)$', sentence, re.S)
            if not m:
                continue
            for mod in m.group(1).split():
                path = mod.replace('.', '/') + '.v'
                if os.path.exists(os.path.join(COQ, path)):
                    todo.append(path)
    return sorted(seen)

OBL_RE = re.compile(r'^\s*(?:Local\s+|Global\s+)?(Theorem|Lemma|Corollary|Example|Fact|Remark|Proposition)\s+([\w\']+)', re.M)

def count_obligations(files):
    n = 0
    names = []
    for f in files:
        src = strip_comments(open(os.path.join(COQ, f)).read())
        for m in OBL_RE.finditer(src):
            n += 1
            names.append(f + ':' + m.group(2))
    return n, names

def audit(files):
    """forbidden vernacular in the cone (outside comments). Section Variables/Hypotheses are
    allowed only inside a Section ... End block."""
    problems = []
    for f in files:
        src = strip_comments(open(os.path.join(COQ, f)).read())
        depth = 0
        for ln, line in enumerate(src.split('\n'), 1):
            if re.match(r'\s*Section\s+\w+', line):
                depth += 1
            if re.match(r'\s*End\s+\w+', line) and depth > 0:
                depth -= 1
                continue
            for m in FORBIDDEN.finditer(line):
                tok = m.group(0)
                if tok in ('Variable', 'Variables', 'Hypothesis', 'Hypotheses') and depth > 0:
                    continue
                problems.append('%s:%d: %s' % (f, ln, tok))
    return problems

def parse_assumptions(log):
    """returns list of axiom blocks printed by Print Assumptions in the log"""
    res = []
    lines = log.split('\n')
    i = 0
    while i < len(lines):
        l = lines[i]
        if l.startswith('Closed under the global context'):
            res.append([])
        elif l.startswith('Axioms:'):
            blk = []
            i += 1
            while i < len(lines) and (lines[i].startswith(' ') or re.match(r'^[\w.\']+\s*:', lines[i])):
                if re.match(r'^[\w.\']+\s*:', lines[i]):
                    blk.append(lines[i].split(':')[0].strip())
                i += 1
            res.append(blk)
            continue
        i += 1
    return res

def build_lock():
    f = open(os.path.join(COQ, '.build.lock'), 'w')
    fcntl.flock(f, fcntl.LOCK_EX)
    return f

def regenerate_tables():
    gen = os.path.join(VERIF, 'tie', 'gen_tables.py')
    if not os.path.exists(gen):
        return True, 'no translator'
    rc, out = sh('%s %s' % (sys.executable, gen), cwd=VERIF, timeout=600)
    return rc == 0, out[-3000:]

def ensure_makefile():
    if not os.path.exists(os.path.join(COQ, 'Makefile')) or \
       os.path.getmtime(os.path.join(COQ, 'Makefile')) < os.path.getmtime(os.path.join(COQ, '_CoqProject')):
        sh('coq_makefile -f _CoqProject -o Makefile', cwd=COQ)

def build_coq(prop_file, clean=False):
    """returns (ok, log, checker_cmd)"""
    ensure_makefile()
    vo = prop_file[:-2] + '.vo'
    if clean:
        for f in cone(prop_file):
            for ext in ('.vo', '.vos', '.vok', '.glob'):
                p = os.path.join(COQ, f[:-2] + ext)
                if os.path.exists(p):
                    os.remove(p)
    p = os.path.join(COQ, vo)
    if os.path.exists(p):
        os.remove(p)          # force the property file itself to be re-checked every run
    cmd = 'timeout 3000 make -j16 %s' % vo
    rc, out = sh(cmd, cwd=COQ, timeout=3100)
    return rc == 0, out, 'cd coq && coq_makefile -f _CoqProject -o Makefile && ' + cmd

NEEDS_SPEC = [False]

def build_runner():
    rc, out = sh('timeout 1200 make -j16 Extract/Extract.vo', cwd=COQ, timeout=1300)
    if rc != 0:
        return False, out
    gen = os.path.join(RUNNER, 'gen', 'model.ml')
    exe = os.path.join(RUNNER, 'modelrun')
    if (not os.path.exists(exe)) or os.path.getmtime(exe) < os.path.getmtime(gen) \
            or os.path.getmtime(exe) < os.path.getmtime(os.path.join(RUNNER, 'modelrun.ml')):
        rc, out2 = sh('./build.sh', cwd=RUNNER, timeout=600)
        if rc != 0:
            return False, out2
    if NEEDS_SPEC[0]:
        # the executable specification side (Spec/SpecIO.v): a runner of its own, it depends on the proof files
        rc, out = sh('timeout 2400 make -j16 Extract/ExtractSpec.vo', cwd=COQ, timeout=2500)
        if rc != 0:
            return False, out
        gen = os.path.join(RUNNER, 'gen', 'spec.ml')
        exe = os.path.join(RUNNER, 'specrun')
        if (not os.path.exists(exe)) or os.path.getmtime(exe) < os.path.getmtime(gen) \
                or os.path.getmtime(exe) < os.path.getmtime(os.path.join(RUNNER, 'modelrun.ml')):
            rc, out2 = sh('./build_spec.sh', cwd=RUNNER, timeout=600)
            if rc != 0:
                return False, out2
    return True, ''

# ---------------------------------------------------------------- enc tie (Coq-side encoders evaluated by coqc)
def cz(n):
    return '(%d)' % n
def cbytes(b):
    return '(unhex "%s"%%string)' % bytes(b).hex()
def clist(items):
    return '[' + '; '.join(items) + ']'
def cbool(b):
    return 'true' if b else 'false'

ENC_TIE = {'terms': [], 'limit': 0, 'compared': 0, 'files': 0}

def enc_tie_collect(mod, cases):
    if not hasattr(mod, 'enc_tie_term'):
        return
    for c in cases:
        if len(ENC_TIE['terms']) >= ENC_TIE['limit']:
            return
        try:
            t = mod.enc_tie_term(c)
        except Exception as e:
            t = None
        if t is not None:
            ENC_TIE['terms'].append((c, t[0], bytes(t[1])))

def enc_tie_run(mod, prop_id, out):
    """the encoders the round-trip theorems are stated with (Coq definitions) are evaluated by coqc (vm_compute) on the
    structured cases of this run and compared with the bytes the harness's own encoder produced - the bytes the
    implementation and the model were run on"""
    terms = ENC_TIE['terms']
    if not terms:
        return
    tdir = os.path.join(VERIF, 'logs', 'enctie')
    sh('timeout 600 make Py/Hex.vo', cwd=COQ, timeout=700)
    os.makedirs(tdir, exist_ok=True)
    per = 120
    for k in range(0, len(terms), per):
        chunk = terms[k:k + per]
        name = 'EncTie_%s_%d' % (prop_id, k // per)
        src = ('From Coq Require Import ZArith List String Bool.\nFrom Coq.Strings Require Import Byte.\n'
               'From DRX Require Import Py.PyBytes Py.Hex %s.\nImport ListNotations.\nOpen Scope Z_scope.\n'
               % ' '.join(mod.ENC_TIE_IMPORTS))
        src += 'Definition results : list bool := [\n' + ';\n'.join(
            '  bytes_eqb (%s) %s' % (t, cbytes(b)) for _, t, b in chunk) + '].\nEval vm_compute in results.\n'
        path = os.path.join(tdir, name + '.v')
        open(path, 'w').write(src)
        rc, log = sh('timeout 600 coqc -Q %s DRX %s' % (COQ, path), cwd=tdir, timeout=700)
        ENC_TIE['files'] += 1
        m = re.search(r'=\s*\[(.*?)\]\s*:\s*list bool', log, re.S)
        if rc != 0 or not m:
            out.failures.append((None, 'enc tie: coqc could not evaluate the Coq-side encoders (%s): %s' % (name, log[-800:]), 'correspondence'))
            continue
        vals = re.findall(r'true|false', m.group(1))
        if len(vals) != len(chunk):
            out.failures.append((None, 'enc tie: %d results for %d terms in %s' % (len(vals), len(chunk), name), 'correspondence'))
            continue
        for (c, t, b), v in zip(chunk, vals):
            ENC_TIE['compared'] += 1
            if v != 'true':
                out.failures.append((c, 'enc tie: the Coq-side encoder of the theorems does not produce the bytes of the harness encoder for this case: %s' % t[:600], 'correspondence'))
                break

# ---------------------------------------------------------------- known findings
def load_known(prop_id):
    p = os.path.join(VERIF, 'known_findings.json')
    if not os.path.exists(p):
        return []
    data = json.load(open(p))
    return [e for e in data.get('findings', []) if e['property'] == prop_id]

# ---------------------------------------------------------------- main
def canon(x):
    return json.dumps(x, sort_keys=True, default=lambda o: o.hex() if isinstance(o, (bytes, bytearray)) else repr(o))

def jsonable(x):
    return json.loads(canon(x))

class Outcome:
    def __init__(self):
        self.failures = []      # (case, what, kind)   kind in {'property','correspondence'}
        self.known_hits = {}    # finding id -> (count, example)

def evaluate(mod, cases, out, stats):
    """run implementation, model and oracle on the cases"""
    reqs = []
    idx = []
    impl_results = []
    for k, case in enumerate(cases):
        ir = mod.run_impl(case)
        impl_results.append(ir)
        mr = mod.model_request(case, ir) if hasattr(mod, 'model_request') else None
        if mr is not None:
            if isinstance(mr, tuple):
                mr = [mr]
            for r in mr:
                reqs.append(r)
                idx.append(k)
    try:
        mres = run_model(reqs)
    except Exception as e:
        out.failures.append((None, 'model runner failed: %r' % (e,), 'correspondence'))
        mres = [None] * len(reqs)
    per_case = {}
    for k, r in zip(idx, mres):
        per_case.setdefault(k, []).append(r)
    for k, case in enumerate(cases):
        stats['evaluations'] += 1
        ir = impl_results[k]
        if mod.nontrivial(case, ir):
            stats['nontrivial'].add(hashlib.sha1(canon(case).encode()).hexdigest())
        cls = mod.classify(case, ir) if hasattr(mod, 'classify') else 'case'
        stats['dist'][cls] = stats['dist'].get(cls, 0) + 1
        if hasattr(mod, 'judge'):
            # the module decides with the model result in hand: [(what, kind, finding id | None)]
            ms = per_case.get(k)
            ms = None if (ms is None or None in ms) else (ms if len(ms) > 1 else ms[0])
            try:
                verdicts = list(mod.judge(case, ir, ms))
            except Exception as e:
                # fail closed: an output the judge cannot interpret is not an output shown to satisfy the property
                verdicts = [('the implementation output could not be interpreted: %s: %s' % (type(e).__name__, e), 'property', None)]
            for what, kind, fid in verdicts:
                if fid:
                    c, ex = out.known_hits.get(fid, (0, None))
                    out.known_hits[fid] = (c + 1, ex or (case, what))
                else:
                    out.failures.append((case, what, kind))
            continue
        # 1. the property itself, evaluated directly on the implementation's output
        try:
            fail = mod.oracle(case, ir)
        except Exception as e:
            fail = 'the implementation output could not be interpreted: %s: %s' % (type(e).__name__, e)
        if fail:
            fid = mod.known(case, fail) if hasattr(mod, 'known') else None
            if fid:
                c, ex = out.known_hits.get(fid, (0, None))
                out.known_hits[fid] = (c + 1, ex or (case, fail))
            else:
                out.failures.append((case, fail, 'property'))
            continue
        # 2. correspondence with the model
        ms = per_case.get(k)
        if ms is not None and None not in ms:
            try:
                d = mod.compare(case, ir, ms if len(ms) > 1 else ms[0])
            except Exception as e:
                d = 'implementation and model outputs could not be compared: %s: %s' % (type(e).__name__, e)
            if d:
                fid = mod.known(case, d) if hasattr(mod, 'known') else None
                if fid:
                    c, ex = out.known_hits.get(fid, (0, None))
                    out.known_hits[fid] = (c + 1, ex or (case, d))
                else:
                    out.failures.append((case, d, 'correspondence'))

def shrink(mod, case, kind):
    """greedy shrinking while the same kind of failure persists"""
    if not hasattr(mod, 'shrink_candidates'):
        return case
    budget = 300
    improved = True
    while improved and budget > 0:
        improved = False
        for cand in mod.shrink_candidates(case):
            budget -= 1
            if budget <= 0:
                break
            o = Outcome()
            st = {'evaluations': 0, 'nontrivial': set(), 'dist': {}}
            try:
                evaluate(mod, [cand], o, st)
            except Exception:
                continue
            if o.failures and o.failures[0][2] == kind:
                case = cand
                improved = True
                break
    return case

def write_replay(prop_id, payload):
    os.makedirs(os.path.join(VERIF, 'replays'), exist_ok=True)
    h = hashlib.sha1(canon(payload).encode()).hexdigest()[:12]
    path = os.path.join('replays', '%s-%s.json' % (prop_id, h))
    with open(os.path.join(VERIF, path), 'w') as f:
        json.dump(jsonable(payload), f, indent=1)
    return path

def write_evidence(prop_id, ev):
    os.makedirs(os.path.join(VERIF, 'evidence'), exist_ok=True)
    tmp = os.path.join(VERIF, 'evidence', prop_id + '.json.tmp')
    with open(tmp, 'w') as f:
        json.dump(jsonable(ev), f, indent=1)
    os.replace(tmp, os.path.join(VERIF, 'evidence', prop_id + '.json'))

def main(argv):
    import argparse
    ap = argparse.ArgumentParser()
    ap.add_argument('prop')
    ap.add_argument('--tier', default=os.environ.get('VERIF_TIER', 'quick'))
    ap.add_argument('--replay')
    ap.add_argument('--no-build', action='store_true')
    a = ap.parse_args(argv)
    prop_id = a.prop
    tier = a.tier if a.tier in ('quick', 'thorough') else 'quick'
    seed = int(os.environ.get('VERIF_SEED', '20260930'))
    t0 = time.time()
    sys.path.insert(0, os.path.join(VERIF, 'tie'))
    setup_impl()
    mod = importlib.import_module('props.' + prop_id)
    NEEDS_SPEC[0] = bool(getattr(mod, 'NEEDS_SPEC', False))
    ENC_TIE['limit'] = 0
    prop_file = 'Props/Prop%s.v' % prop_id

    if a.replay:
        return replay(mod, prop_id, a.replay)

    lock = build_lock()
    try:
        tie_ok, tie_log = regenerate_tables()
        proof_ok, log, checker_cmd = (False, 'skipped: translator failed\n' + tie_log, '') if not tie_ok \
            else build_coq(prop_file, clean=(tier == 'thorough' and not a.no_build))
        files = cone(prop_file)
        problems = audit(files)
        n_obl, obl_names = count_obligations(files)
        assumptions = parse_assumptions(log) if proof_ok else []
        allowed = set(getattr(mod, 'ALLOWED_AXIOMS', []))
        axioms = sorted({x for blk in assumptions for x in blk})
        bad_axioms = [x for x in axioms if x not in allowed]
        n_printed = len(assumptions)
        if proof_ok and n_printed == 0:
            problems.append('no Print Assumptions output captured for ' + prop_file)
        runner_ok, runner_log = build_runner()
        coqchk_out = None
        if tier == 'thorough' and proof_ok and os.environ.get('VERIF_COQCHK', '1') == '1':
            rc, coqchk_out = sh('timeout 1500 coqchk -silent -o -Q . DRX DRX.Props.Prop%s' % prop_id, cwd=COQ, timeout=1600)
            if rc != 0:
                problems.append('coqchk failed: ' + coqchk_out[-500:])
    finally:
        lock.close()

    proof_fail = None
    if not tie_ok:
        proof_fail = {'what': 'translator (tie/gen_tables.py) failed closed on the current source', 'log': tie_log[-2000:]}
    elif not proof_ok:
        m = re.search(r'File "([^"]+)", line (\d+), characters [^\n]*\n((?:.*\n){0,12})', log)
        proof_fail = {'what': 'Coq build of %s failed' % prop_file,
                      'file': m.group(1) if m else None, 'line': int(m.group(2)) if m else None,
                      'log': log[-2500:]}
    elif problems or bad_axioms:
        proof_fail = {'what': 'audit failed', 'problems': problems, 'unexpected_axioms': bad_axioms}
    elif not runner_ok:
        proof_fail = {'what': 'model runner (extraction) failed to build', 'log': runner_log[-2000:]}

    rng = random.Random(seed)
    out = Outcome()
    stats = {'evaluations': 0, 'nontrivial': set(), 'dist': {}}
    samples = []
    search_tier = tier if proof_fail is None else 'thorough'
    ENC_TIE['limit'] = 120 if tier == 'quick' else 720
    if runner_ok or proof_fail is not None:
        # corpus first
        corpus = []
        cdir = os.path.join(VERIF, 'tie', 'corpus', prop_id)
        if os.path.isdir(cdir):
            for fn in sorted(os.listdir(cdir)):
                if fn.endswith('.json'):
                    corpus.append(mod.case_from_json(json.load(open(os.path.join(cdir, fn)))['case']))
        batch = []
        def flush():
            if batch:
                enc_tie_collect(mod, batch)
                if runner_ok:
                    evaluate(mod, batch, out, stats)
                else:
                    evaluate_impl_only(mod, batch, out, stats)
                batch.clear()
        deadline = t0 + float(os.environ.get('VERIF_BUDGET_S', mod.BUDGET_S[search_tier]))
        for case in list(corpus) + [None]:
            if case is not None:
                batch.append(case)
        flush()
        for case in mod.gen_cases(rng, search_tier):
            if len(samples) < 4:
                samples.append(mod.describe(case))
            batch.append(case)
            if len(batch) >= getattr(mod, 'BATCH', 200):
                flush()
                if time.time() > deadline or len(out.failures) >= 5:
                    break
        flush()
        if proof_ok:
            enc_tie_run(mod, prop_id, out)

    lines_note = []
    known = load_known(prop_id)
    known_ids = {e['id']: e for e in known if e.get('status') == 'open'}
    lines = []
    for fid, (cnt, ex) in sorted(out.known_hits.items()):
        if fid in known_ids:
            lines.append('KNOWN-FINDING: property=%s %s [%s; %d case(s) this run]' % (prop_id, known_ids[fid]['what'], fid, cnt))
        else:
            out.failures.append((ex[0], ex[1] + ' [finding id %s not listed as open]' % fid, 'property'))

    violation = None
    if out.failures:
        # prefer a direct property failure
        out.failures.sort(key=lambda f: 0 if f[2] == 'property' else 1)
        case, what, kind = out.failures[0]
        case0, what0 = case, what
        if case is not None:
            try:
                case = shrink(mod, case, kind)
                o2 = Outcome(); evaluate(mod, [case], o2, {'evaluations': 0, 'nontrivial': set(), 'dist': {}})
                if o2.failures:
                    what = o2.failures[0][1]
            except Exception:
                pass
        payload = {'property': prop_id, 'kind': kind, 'what': what,
                   'case': mod.case_to_json(case) if case is not None else None,
                   'seed': seed, 'tier': tier, 'proof_status': proof_fail or 'ok'}
        if case0 is not None and what0 != what:
            # shrinking keeps the kind of failure, not its message: keep the first failing input as found
            payload['unshrunk'] = {'what': what0, 'case': mod.case_to_json(case0)}
        path = write_replay(prop_id, payload)
        if kind == 'property':
            violation = 'VIOLATION property=%s replay=%s' % (prop_id, path)
        else:
            payload['note'] = ('correspondence broken: implementation and model disagree on this input; the direct '
                               'property oracle did not fail on any explored input')
            path = write_replay(prop_id, payload)
            violation = 'VIOLATION property=%s replay=%s no-failing-input-found' % (prop_id, path)
    elif proof_fail is not None:
        payload = {'property': prop_id, 'kind': 'proof', 'theorem_file': prop_file, 'detail': proof_fail,
                   'searched': {'evaluations': stats['evaluations'], 'tier': search_tier}, 'seed': seed}
        path = write_replay(prop_id, payload)
        violation = 'VIOLATION property=%s replay=%s no-failing-input-found' % (prop_id, path)

    discharged = n_obl if (proof_fail is None) else 0
    tb = list(getattr(mod, 'TRUSTED_BASE', []))
    try:
        fb = json.load(open(os.path.join(COQ, 'Gen', 'fallbacks.json')))
    except Exception:
        fb = []
    for x in fb:
        if x.get('how'):
            msg = ('table %s (%s): not written as a literal any more (%s); %s' % (x['reader'], x['source'], x['why'], x['how']))
        else:
            msg = ('layout %s (%s): the source text is not in a shape the translator reads (%s); the pinned copy '
                   'tie/pinned/layouts.json is used and this reader is tied by the correspondence run only' % (x['reader'], x['source'], x['why']))
        tb.append('translator fallback: ' + msg)
        lines_note.append('NOTE: ' + msg)
    tb.append('Print Assumptions (%d theorems in %s): %s' % (n_printed, prop_file,
              'all closed under the global context' if not axioms else 'axioms: ' + ', '.join(axioms)))
    if coqchk_out is not None:
        tb.append('coqchk -o: ' + ' '.join(coqchk_out.split())[-600:])
    ev = {
        'property_id': prop_id, 'tier': tier, 'seed': seed, 'level': 'proof',
        'coverage': {
            'obligations': n_obl, 'discharged': discharged,
            'checker_cmd': checker_cmd + (' ; coqchk -silent -o -Q . DRX DRX.Props.Prop%s' % prop_id if coqchk_out is not None else ''),
            'trusted_base': tb,
            'theorems': [n for n in obl_names if n.startswith(prop_file)],
            'cone_files': files,
            'evaluations': stats['evaluations'],
            'distinct_nontrivial': len(stats['nontrivial']),
            'rule': getattr(mod, 'RULE', ''),
            'samples': samples,
            'input_distribution': stats['dist'],
            'exhaustive': False,
            'known_findings_reproduced': {k: v[0] for k, v in out.known_hits.items()},
            'explanation': getattr(mod, 'EXPLANATION', ''),
        },
        'assumptions': list(getattr(mod, 'ASSUMPTIONS', [])),
        'wall_s': round(time.time() - t0, 2),
        'violations': 1 if violation else 0,
    }
    if hasattr(mod, 'extra_evidence'):
        ev['coverage'].update(mod.extra_evidence(tier))
    if hasattr(mod, 'enc_tie_term'):
        ev['coverage']['enc_tie'] = {'cases_compared': ENC_TIE['compared'], 'case_files': ENC_TIE['files'],
                                     'what': 'the Coq encoders the round-trip theorems are stated with, evaluated by coqc (vm_compute) on the structured cases of this run, compared with the bytes of the harness encoder'}
    write_evidence(prop_id, ev)
    for l in lines_note + lines:
        print(l)
    if violation:
        print(violation)
        return 1
    print('OK property=%s tier=%s obligations=%d evaluations=%d nontrivial=%d wall=%.1fs'
          % (prop_id, tier, n_obl, stats['evaluations'], len(stats['nontrivial']), time.time() - t0))
    return 0

def evaluate_impl_only(mod, cases, out, stats):
    for case in cases:
        stats['evaluations'] += 1
        ir = mod.run_impl(case)
        if hasattr(mod, 'judge'):
            for what, kind, fid in mod.judge(case, ir, None):
                if fid:
                    c, ex = out.known_hits.get(fid, (0, None))
                    out.known_hits[fid] = (c + 1, ex or (case, what))
                else:
                    out.failures.append((case, what, kind))
            continue
        try:
            fail = mod.oracle(case, ir)
        except Exception as e:
            fail = 'the implementation output could not be interpreted: %s: %s' % (type(e).__name__, e)
        if fail:
            fid = mod.known(case, fail) if hasattr(mod, 'known') else None
            if fid:
                c, ex = out.known_hits.get(fid, (0, None))
                out.known_hits[fid] = (c + 1, ex or (case, fail))
            else:
                out.failures.append((case, fail, 'property'))

def replay(mod, prop_id, path):
    data = json.load(open(path if os.path.isabs(path) else os.path.join(VERIF, path)))
    if data.get('case') is None:
        print('replay file records a broken proof/tie, not an input: %s' % json.dumps(data.get('detail', data.get('what')))[:1500])
        return 1
    case = mod.case_from_json(data['case'])
    out = Outcome()
    st = {'evaluations': 0, 'nontrivial': set(), 'dist': {}}
    ok, _ = build_runner()
    (evaluate if ok else evaluate_impl_only)(mod, [case], out, st)
    print('case:', json.dumps(mod.describe(case))[:2000])
    print('implementation:', canon(mod.run_impl(case))[:2000])
    if out.failures:
        print('FAILS (%s): %s' % (out.failures[0][2], out.failures[0][1]))
        print('VIOLATION property=%s replay=%s' % (prop_id, path))
        return 1
    if out.known_hits:
        print('matches known finding(s): %s' % ', '.join(out.known_hits))
        return 0
    print('no failure on this input')
    return 0
