"""Helpers shared by the decompiler properties (C02 C03 C04 C12): the constant-pool oracle the Coq model
takes as a parameter (codec and float printer, see Model/Lscr.v), request building, fixture loading."""
import os, re, struct, sys

def crb_raw(fdata):
    """Independent walk over the constant record block: [(type, raw bytes)] for string (1) and float (9) constants."""
    out = []
    try:
        con_offset = struct.unpack('>h', fdata[90:92])[0]
        crb_offset = struct.unpack('>h', fdata[82:84])[0]
        n = struct.unpack('>h', fdata[78:80])[0]
        wide = False
        idx = crb_offset
        for _ in range(max(n, 0)):
            if wide:
                t = struct.unpack('>i', fdata[idx:idx + 4])[0]; idx += 4
            else:
                t = struct.unpack('>h', fdata[idx:idx + 2])[0]; idx += 2
                if t == 0:
                    t = struct.unpack('>h', fdata[idx:idx + 2])[0]; idx += 2
                    wide = True
            off = struct.unpack('>i', fdata[idx:idx + 4])[0]; idx += 4
            if t in (1, 9):
                p = con_offset + off
                ln = struct.unpack('>i', fdata[p:p + 4])[0]
                raw = fdata[p + 4:p + 4 + (ln - 1 if t == 1 else ln)]
                out.append((t, raw))
    except struct.error:
        pass
    return out

def oracles(fdata):
    from drxtract.lingosrc.util import escape_string, unpack_float80, get_encoding
    codec, floats = {}, {}
    for t, raw in crb_raw(fdata):
        try:
            if t == 1:
                codec[raw] = escape_string(raw.decode(get_encoding())).encode('utf-8')
            else:
                floats[raw] = str(unpack_float80(raw)).encode('utf-8')
        except Exception:
            pass
    return [[k, v] for k, v in codec.items()], [[k, v] for k, v in floats.items()]

def decompile_request(fdata, names, regs=()):
    codec, floats = oracles(fdata)
    return ('decompile', [bytes(fdata), [n.encode('utf-8') for n in names], codec, floats, [list(r) for r in regs]])

def fixtures(repo):
    """[(label, lnam path, lscr path, lingo path, js path)] from the two decompiler test modules"""
    base = os.path.join(repo, 'tests', 'files', 'lingo')
    src = open(os.path.join(repo, 'tests', 'test_lscr2lingo.py')).read()
    trip = re.findall(r"\['([\w.]+Lnam)',\s*'([\w.]+Lscr)',\s*\\?\s*'([\w.]+)'\]", src)
    out = []
    for lnam, lscr, lingo in trip:
        js = lingo[:-6] + '.js'
        out.append((lscr[:-5], os.path.join(base, lnam), os.path.join(base, lscr), os.path.join(base, lingo),
                    os.path.join(base, js) if os.path.exists(os.path.join(base, js)) else None))
    return out
