"""Translator part: operator / constant tables of the decompiler -> coq/Gen/Gen_OpTables.v
   (string values as lists of character codes, after Python's own literal evaluation by ast)."""
import ast
from gen_tables import parse, emit, TranslatorError, HEADER, module_assign, const_str, module_value

REL = 'drxtract/lingosrc/ast/constant_val.py'

def coq_text(s):
    return '[' + '; '.join(str(ord(c)) for c in s) + ']'

def str_str_dict(tree, name):
    try:
        node = module_assign(tree, name)
        if not isinstance(node, ast.Dict):
            raise TranslatorError('%s is not a dict literal' % name)
        return [(const_str(k), const_str(v)) for k, v in zip(node.keys, node.values)]
    except TranslatorError as e:
        val = module_value(REL, name, e)
        if not (isinstance(val, dict) and all(isinstance(k, str) and isinstance(v, str) for k, v in val.items())):
            raise TranslatorError('%s is not a dict from str to str' % name)
        return list(val.items())

def str_list(tree, name):
    try:
        node = module_assign(tree, name)
        if not isinstance(node, (ast.List, ast.Tuple)):
            raise TranslatorError('%s is not a list literal' % name)
        return [const_str(e) for e in node.elts]
    except TranslatorError as e:
        val = module_value(REL, name, e)
        if not (isinstance(val, (list, tuple)) and all(isinstance(x, str) for x in val)):
            raise TranslatorError('%s is not a list of str' % name)
        return list(val)

def generate():
    out = [HEADER % 'drxtract/lingosrc/ast/constant_val.py']
    cv = parse('drxtract/lingosrc/ast/constant_val.py')
    for name in ('PREDEFINED_CONSTANTS', 'REPLACEMENT_CONSTANTS'):
        items = str_str_dict(cv, name)
        out.append('(* %s *)\nDefinition %s : list (list Z * list Z) := [\n  %s].\n' % (
            ', '.join('%r: %r' % kv for kv in items).replace('"', '<dq>').replace('*)', '* )'), name, ';\n  '.join('(%s, %s)' % (coq_text(k), coq_text(v)) for k, v in items)))
    ks = str_list(cv, 'KNOWN_SYMBOLS')
    out.append('Definition KNOWN_SYMBOLS : list (list Z) := [%s].\n' % '; '.join(coq_text(k) for k in ks))
    emit('Gen_OpTables.v', '\n'.join(out))
