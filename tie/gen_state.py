"""Translator part: which attributes of the shared decoder / parser objects are assigned after construction
-> coq/Gen/Gen_State.v.  Every `X.attr = ...` (also augmented / annotated) outside __init__ in the listed files."""
import ast, glob, os
from gen_tables import parse, emit, coq_bytes, TranslatorError, HEADER, REPO

FILES = (['drxtract/bitd/bitd2bmp.py'] + sorted(glob.glob(os.path.join(REPO, 'drxtract/bitd/decoder*.py'))) +
         sorted(glob.glob(os.path.join(REPO, 'drxtract/snd/command/*.py'))) + ['drxtract/snd/snd2sampled.py'] +
         sorted(glob.glob(os.path.join(REPO, 'drxtract/cast/*.py'))) +
         ['drxtract/vwsc/cparser.py', 'drxtract/vwsc/dir4cparser.py', 'drxtract/vwsc/dir5cparser.py', 'drxtract/vwsc/vwsc.py',
          'drxtract/clut/clut.py'])

def generate():
    found = []
    for path in FILES:
        rel = os.path.relpath(path, REPO) if os.path.isabs(path) else path
        tree = parse(rel)
        def visit(node, where):
            for st in ast.iter_child_nodes(node):
                if isinstance(st, ast.ClassDef):
                    visit(st, where + [st.name])
                elif isinstance(st, (ast.FunctionDef, ast.AsyncFunctionDef)):
                    if st.name == '__init__':
                        continue
                    for n in ast.walk(st):
                        tgts = []
                        if isinstance(n, ast.Assign):
                            tgts = n.targets
                        elif isinstance(n, (ast.AugAssign, ast.AnnAssign)):
                            tgts = [n.target]
                        for t in tgts:
                            for e in ([t] if not isinstance(t, ast.Tuple) else t.elts):
                                if isinstance(e, ast.Attribute):
                                    found.append(('%s:%s' % (os.path.basename(rel), '.'.join(where + [st.name])), ast.unparse(e)))
                        if isinstance(n, ast.Global):
                            found.append(('%s:%s' % (os.path.basename(rel), '.'.join(where + [st.name])), 'global ' + ','.join(n.names)))
        visit(tree, [])
    found = sorted(set(found))
    out = [HEADER % 'the shared decoder / parser classes (see tie/gen_state.py FILES)']
    out.append('(* attribute assignments outside __init__ (and global statements): where, target *)')
    out.append('Definition mutable_attrs : list (list byte * list byte) := [\n  %s].\n' % ';\n  '.join(
        '(%s, %s) (* %s : %s *)' % (coq_bytes(a), coq_bytes(b), a, b) for a, b in found))
    emit('Gen_State.v', '\n'.join(out))
