"""C15 - cast-member records (cast/cast.py and the per-type header parsers)."""
import base64, struct
from framework import call_impl

BUDGET_S = {'quick': 60, 'thorough': 900}
BATCH = 300
RULE = ('member records built from field values: every type (bitmap with short and extended header, field, palette, sound, '
        'button, shape, script, rich text, transition, unknown type) x both record layouts (Director 4 / Director 5), '
        'every header field over its full signed/unsigned range (boundary values + random), info blocks with 0..6 extra '
        'entries incl. empty ones, names over all byte values and lengths 0..255, extra numbers in the numbers area; every '
        'declared-size mismatch of +-1 (and random others) must be rejected; plus a malformed stream compared '
        'model-vs-implementation. Non-trivial = a typed member with a name containing an unsafe byte, or a size-mismatch '
        'case; distinct by SHA1.')
EXPLANATION = 'Round-trip theorems on the Gallina model (coq/Model/Cast.v) for both record layouts and all member types.'
TRUSTED_BASE = ['Coq 8.16.1 kernel; no axioms',
                'hand-written model coq/Model/Cast.v; per-type header layouts regenerated from cast/*.py on every run (coq/Gen/Gen_Layouts.v); name tables from common/constants.py',
                'base64 (identity up to encoding) and the codec are Python runtime; names are compared after the file-name sanitising step',
                'extraction + runner; harness tie/props/C15.py']
ASSUMPTIONS = ['sound members carry an info block (the loop flag is read from it)',
               'the codec maps ASCII bytes to themselves and bytes >= 0x80 to characters outside [A-Za-z0-9-_. ] (true for mac_roman and latin-1)']
LEVEL_TEXT = ('Proof: Coq theorems that a member record encoded in the Director 4 or Director 5 layout decodes to the field '
              'view of its header values for every type (unbounded in extra info entries, full field ranges), that both '
              'layouts of one member decode identically, that the reported name only contains safe characters for every '
              'input byte, and that any mismatch between declared and actual sizes is rejected. Tie: layouts regenerated '
              'from the source; differential run + direct oracle with independently computed expected fields.')
LEVEL_NOTE = 'Trusted: Coq kernel, hand-written model + encoders, layout/table translator, extraction, harness, Python base64/codecs. No axioms. Enc tie: enc_d4 / enc_d5 of the theorems are evaluated by coqc on the run\'s members and compared with the harness encoder.'
TECHNIQUE = 'Coq round-trip proofs (layout lemma, induction over info entries) + model/implementation correspondence'

SAFE_NAME = set(b'ABCDEFGHIJKLMNOPQRSTUVWXYZabcdefghijklmnopqrstuvwxyz0123456789-_. ')
SHAPES = {1: 'rect', 2: 'roundRect', 3: 'oval', 4: 'line'}
PAL_REF = {-1: 'systemMac', -102: 'systemWin', -2: 'rainbow', -3: 'grayscale', -4: 'pastels', -5: 'vivid',
           -6: 'ntsc', -7: 'metallic', -8: 'web216', -101: 'systemWinDir4'}
PURGE = ['Normal', 'Never', 'Last', 'Next']

def i16(rng):
    return rng.choice([0, 1, -1, 2, 3, 100, 640, 32767, -32768, rng.randrange(-2 ** 15, 2 ** 15)])
def u8(rng):
    return rng.choice([0, 1, 2, 3, 4, 5, 6, 7, 0x7f, 0x80, 0xff, rng.randrange(256)])
def i32(rng):
    return rng.choice([0, 1, -1, 16, 2 ** 31 - 1, -2 ** 31, rng.randrange(-2 ** 31, 2 ** 31)])

def gen_header(rng, typ):
    """returns (header bytes, expected dict)"""
    if typ == 'bitmap':
        flags, bppv, u11 = u8(rng), rng.choice([0x80, 0x81, 0x82, 0x84, 0x85, 0x8a, 0, 0x80, 0x80, 7, 0xff]), u8(rng)
        v = [i16(rng) for _ in range(10)]   # h_padding w_padding height width top left bottom right locV locH
        h = bytes([flags, bppv, u11]) + struct.pack('>10h', *v)
        depth = {0x80: 8, 0x81: 4, 0x82: 8, 0x84: 16, 0x85: 16, 0x8a: 24, 0: 1}.get(bppv, 8)
        exp = {'type': 'bitmap', 'h_padding': v[0], 'w_padding': v[1], 'height': v[2], 'width': v[3], 'top': v[4], 'left': v[5],
               'bottom': v[6], 'right': v[7], 'locV': v[8], 'locH': v[9]}
        palette, ptxt = 'systemMac', 'systemMac'
        if rng.random() < 0.6:
            bd, pid = rng.choice([0, 1, 4, 8, 16, 32, i16(rng)]), rng.choice([0, -1, -2, -8, -100, -101, 1, 7, i16(rng)])
            h += struct.pack('>hh', bd, pid) + bytes(rng.randrange(256) for _ in range(rng.choice([0, 0, 3])))
            if bd > depth:
                depth = bd
            palette = str(pid)
            k = pid - 1 if pid <= 0 else pid
            ptxt = PAL_REF.get(k, str(k))
        else:
            h += bytes(rng.randrange(256) for _ in range(rng.choice([0, 0, 1])))
        exp['depth'] = depth
        if depth == 8:
            exp['palette'] = palette
            exp['palette_txt'] = ptxt
        return h, exp
    if typ == 'field':
        b = [u8(rng) for _ in range(5)]      # unknown0 border margin boxDropShadow boxType
        al = rng.choice([0, 1, -1, 2, i16(rng)])
        col = [u8(rng) for _ in range(6)]
        v = [i16(rng) for _ in range(6)]     # scrollTop top left bottom right pageHeight
        ds, opt, sh = u8(rng), u8(rng), i16(rng)
        h = bytes(b) + struct.pack('>h', al) + bytes(col) + struct.pack('>6h', *v) + bytes([ds, opt]) + struct.pack('>h', sh)
        exp = {'type': 'field', 'wordWrap': not (opt & 4), 'boxType': {0: 'adjust', 1: 'scroll', 2: 'fixed', 3: 'limit'}.get(b[4], str(b[4])),
               'editable': bool(opt & 1), 'autoTab': bool(opt & 2), 'alignment': {0: 'left', 1: 'center', -1: 'right'}.get(al, al),
               'border': b[1], 'margin': b[2] // 2, 'boxDropShadow': b[3] // 2, 'dropShadow': ds,
               'backgroundColor': '#%02X%02X%02X' % (col[0], col[2], col[4]), 'height': v[3] - v[1], 'width': v[4] - v[2],
               'pageHeight': v[5], 'scrollHeight': sh, 'scrollTop': v[0]}
        return h + bytes(rng.randrange(256) for _ in range(rng.choice([0, 0, 2]))), exp
    if typ == 'button':
        u0, u1, u2 = u8(rng), i16(rng), i16(rng)
        al = rng.choice([0, 1, -1, 5, i16(rng)])
        col = [u8(rng) for _ in range(6)]
        v = [i16(rng) for _ in range(8)]
        bt = rng.choice([1, 2, 3, 0, 4, i16(rng)])
        h = bytes([u0]) + struct.pack('>hhh', u1, u2, al) + bytes(col) + struct.pack('>8h', *v) + struct.pack('>h', bt)
        exp = {'type': 'button', 'alignment': {0: 'left', 1: 'center', -1: 'right'}.get(al, al),
               'backgroundColor': '#%02X%02X%02X' % (col[0], col[2], col[4]),
               'buttonType': {1: 'pushButton', 2: 'checkBox', 3: 'radioButton'}.get(bt, bt)}
        return h, exp
    if typ == 'shape':
        u0 = u8(rng)
        st = rng.choice([1, 2, 3, 4, 0, 5, i16(rng)])
        v = [i16(rng) for _ in range(4)]
        b = [u8(rng) for _ in range(6)]    # unknown02 pattern fg bg filled line_width
        dirv = rng.choice([5, 6, 5, 6, 0, 1, 7, 255, u8(rng)])
        h = bytes([u0]) + struct.pack('>5h', st, *v) + bytes(b) + bytes([dirv])
        exp = {'type': 'shape', 'shapeType': SHAPES.get(st, str(st)), 'top': v[0], 'left': v[1], 'bottom': v[2], 'right': v[3],
               'pattern': b[1], 'foreColor': b[2], 'backColor': b[3], 'filled': b[4], 'lineSize': b[5] - 1,
               'direction': {5: 'lt_br', 6: 'bl_tr'}.get(dirv, str(dirv))}
        return h, exp
    if typ == 'richText':
        v = [i16(rng) for _ in range(8)]   # h_padding w_padding height width top left bottom right
        aa, bt, u2, th = u8(rng), u8(rng), i16(rng), i16(rng)
        h = struct.pack('>8h', *v) + bytes([aa, bt]) + struct.pack('>hh', u2, th)
        exp = {'type': 'richText', 'boxType': {0: 'adjust', 1: 'scroll', 2: 'fixed', 3: 'limit'}.get(bt, str(bt)), 'antiAlias': aa != 0,
               'antiAliasThreshold': max(th, 0), 'width': v[3], 'height': v[2], 'top': v[4], 'left': v[5], 'bottom': v[6], 'right': v[7],
               'h_padding': v[0], 'w_padding': v[1]}
        return h, exp
    if typ == 'transition':
        sm, tr, soa, du = i16(rng), rng.choice([1, 2, 23, 52, 0, 53, u8(rng)]), rng.choice([0, 1, 2, 2, u8(rng)]), i16(rng)
        h = struct.pack('>hBBh', sm, tr, soa, du)
        exp = {'type': 'transition', 'transition': {'type': TRANS_REF.get(tr, str(tr)), 'smoothness': sm, 'duration': du, 'in_changing_area': soa == 2}}
        return h, exp
    if typ in ('palette', 'script', 'sound'):
        return bytes(rng.randrange(256) for _ in range(rng.choice([0, 0, 4]))), {'type': typ}
    return bytes(rng.randrange(256) for _ in range(rng.choice([0, 3]))), {}

import json, os
_REF = json.load(open(os.path.join(os.path.dirname(__file__), '..', 'ref_tables.json')))['tables']
TRANS_REF = {int(k): v for k, v in _REF['DIR_TRANSITION_NAMES'].items()}
TYPES = {'bitmap': 1, 'field': 3, 'palette': 4, 'sound': 6, 'button': 7, 'shape': 8, 'script': 11, 'richText': 12, 'transition': 14}

def gen_info(rng, force=False):
    """info block bytes + expected content dict (None = no info block)"""
    if not force and rng.random() < 0.15:
        return b'', {}
    nextra_nums = rng.choice([0, 0, 1, 3])
    sk, b1, b2, si = rng.choice([0, 1, 2 ** 32 - 1, rng.randrange(2 ** 32)]), i32(rng), rng.choice([0, 0x10, 4, 8, 12, i32(rng)]), i32(rng)
    d = struct.pack('>iIiii', 20 + 4 * nextra_nums, sk, b1, b2, si) + b''.join(struct.pack('>i', i32(rng)) for _ in range(nextra_nums))
    content = {'basic': {'script_key': sk, 'basic_data1': b1, 'basic_data2': b2, 'purge_priority': PURGE[(b2 >> 2) & 3], 'script_index': si}}
    n = rng.choice([0, 1, 2, 3, 6])
    entries = []
    for i in range(n):
        if i == 1:
            ln = rng.choice([0, 1, 5, 31, 255])
            if ln == 0 and rng.random() < 0.5:
                entries.append(b'')
            else:
                nm = bytes(rng.choice(b'Apple Game-01_x.y') for _ in range(ln)) if rng.random() < 0.5 else bytes(rng.randrange(256) for _ in range(ln))
                entries.append(bytes([ln]) + nm + bytes(rng.randrange(256) for _ in range(rng.choice([0, 0, 2]))))
        else:
            entries.append(bytes(rng.randrange(256) for _ in range(rng.choice([0, 0, 1, 7, 40]))))
    d += struct.pack('>h', n)
    if n > 0:
        off = rng.choice([0, 0, 100])
        offs = [off]
        for e in entries:
            offs.append(offs[-1] + len(e))
        d += b''.join(struct.pack('>i', o) for o in offs) + b''.join(entries)
        content['extra'] = entries
        if n > 1 and entries[1] != b'':
            raw = entries[1][1:entries[1][0] + 1]
            content['name'] = bytes(b if b in SAFE_NAME else 0x5f for b in raw).decode('ascii')
        else:
            content['name'] = ''
    return d, content

def enc_member(layout, typ_code, header, info):
    if layout == 4:
        return struct.pack('>hi', len(header) + 1, len(info)) + bytes([typ_code & 0xff]) + header + info
    return struct.pack('>iii', typ_code, len(info), len(header)) + info + header

def gen_cases(rng, tier):
    n = 60 if tier == 'quick' else 2500
    names = list(TYPES) + ['unknown']
    for k in range(n):
        for typ in names:
            code = TYPES.get(typ, rng.choice([0, 2, 5, 9, 10, 13, 15, 99, 255]))
            header, exp = gen_header(rng, typ)
            info, content = gen_info(rng, force=(typ == 'sound'))
            if typ == 'sound':
                exp = {'type': 'sound', 'loop': content['basic']['basic_data2'] != 0x10}
            yield {'kind': 'member', 'typ': typ, 'code': code, 'header': header, 'info': info, 'exp': exp, 'content': content}
        # size mismatches
        header, exp = gen_header(rng, rng.choice(names[:-1]))
        info, content = gen_info(rng)
        for layout in (4, 5):
            good = enc_member(layout, 1, header, info)
            delta = rng.choice([1, -1, 1, -1, 2, -7, 1000])
            which = rng.randrange(3)
            if which == 0:
                bad = good + b'\0' * delta if delta > 0 else good[:delta]
            elif layout == 4:
                hs, asz = struct.unpack('>hi', good[:6])
                bad = struct.pack('>hi', hs + (delta if which == 1 else 0), asz + (delta if which == 2 else 0)) + good[6:]
            else:
                t, asz, hs = struct.unpack('>iii', good[:12])
                bad = struct.pack('>iii', t, asz + (delta if which == 2 else 0), hs + (delta if which == 1 else 0)) + good[12:]
            try:
                yield {'kind': 'mismatch', 'data': bad, 'layout': layout}
            except struct.error:
                pass
        if k % 2 == 0:
            good = enc_member(rng.choice([4, 5]), rng.choice(list(TYPES.values())), header, info)
            r = rng.random()
            if r < 0.5 and good:
                bad = good[:rng.randrange(len(good))]
            else:
                i = rng.randrange(len(good))
                bad = good[:i] + bytes([rng.choice([0, 0xff, 0x80, 1])]) + good[i + 1:]
            yield {'kind': 'raw', 'data': bad}

def _tojson(o):
    if isinstance(o, (bytes, bytearray)):
        return {'$b': bytes(o).hex()}
    if isinstance(o, dict):
        return {k: _tojson(v) for k, v in o.items()}
    if isinstance(o, (list, tuple)):
        return [_tojson(v) for v in o]
    return o
def _fromjson(o):
    if isinstance(o, dict):
        if set(o) == {'$b'}:
            return bytes.fromhex(o['$b'])
        return {k: _fromjson(v) for k, v in o.items()}
    if isinstance(o, list):
        return [_fromjson(v) for v in o]
    return o
case_to_json = _tojson
case_from_json = _fromjson
def describe(c):
    return _tojson(c)
def classify(c, ir):
    if c['kind'] == 'member':
        return 'member/' + c['typ']
    return c['kind']
def nontrivial(c, ir):
    if c['kind'] == 'mismatch':
        return True
    return c['kind'] == 'member' and c['typ'] != 'unknown' and bool(c['content'].get('extra')) and len(c['content']['extra']) > 1 \
        and any(b not in SAFE_NAME for b in c['content']['extra'][1][1:])

def canon(v):
    if isinstance(v, bool):
        return [b'b', int(v)]
    if isinstance(v, str):
        try:
            return v.encode('latin-1')
        except UnicodeEncodeError:
            return [b'u', v.encode('utf-8')]       # a string no expected value can contain
    if isinstance(v, dict):
        return [b'd', sorted([[k.encode(), canon(x)] for k, x in v.items()])]
    if isinstance(v, list):
        return [b'l', [canon(x) for x in v]]
    return v

def canon_top(d):
    return sorted([[k.encode(), canon(x)] for k, x in d.items()])

def impl(data):
    from drxtract.cast.cast import parse_cast_file_data
    r = parse_cast_file_data(data)
    c = r.get('content')
    if isinstance(c, dict) and 'extra' in c:
        c = dict(c); c['extra'] = [base64.b64decode(x) for x in c['extra']]
        r = dict(r); r['content'] = c
    return r

def datas(c):
    if c['kind'] == 'member':
        return [enc_member(4, c['code'], c['header'], c['info']), enc_member(5, c['code'], c['header'], c['info'])]
    return [c['data']]

def run_impl(c):
    return [call_impl(impl, d) for d in datas(c)]

def model_request(c, ir):
    return [('parse_cast', d) for d in datas(c)]

def canon_model(v):
    # model dict: list of [key, val]; val: int | bytes | ['b',n] | ['d', [...]] | ['l', [...]]
    def cv(x):
        if isinstance(x, list) and len(x) == 2 and x[0] == b'b':
            return [b'b', x[1]]
        if isinstance(x, list) and len(x) == 2 and x[0] == b'd':
            return [b'd', sorted([[e[0], cv(e[1])] for e in x[1]])]
        if isinstance(x, list) and len(x) == 2 and x[0] == b'l':
            return [b'l', [cv(e) for e in x[1]]]
        return x
    return sorted([[e[0], cv(e[1])] for e in v])

def compare(c, ir, mv):
    mvs = mv if isinstance(mv, list) and len(datas(c)) > 1 else [mv]
    for k, (r, m) in enumerate(zip(ir, mvs)):
        if m[0] == b'ok':
            if r[0] != 'ok':
                return 'layout %d: implementation %r, model ok' % (k, r[1:])
            a, b = canon_top(r[1]), canon_model(m[1])
            if a != b:
                return 'layout %d: implementation %r vs model %r' % (k, str(a)[:400], str(b)[:400])
        elif m[0] == b'err':
            if r[0] != 'err':
                return 'layout %d: model rejects, implementation returned a value' % k
        else:
            return 'model: %r' % (m,)
    return None

def oracle(c, ir):
    if c['kind'] == 'raw':
        return None
    if c['kind'] == 'mismatch':
        if ir[0][0] == 'ok':
            return 'record whose declared sizes do not add up to its length was accepted'
        return None
    res = []
    for k, r in enumerate(ir):
        if r[0] != 'ok':
            return 'layout D%d: member record rejected: %r' % (4 + k, r[1:])
        res.append(r[1])
    exp = dict(c['exp'])
    exp['content'] = c['content']
    for k, r in enumerate(res):
        if canon_top(r) != canon_top(exp):
            keys = [kk for kk in set(r) | set(exp) if canon(r.get(kk)) != canon(exp.get(kk))]
            return 'layout D%d: decoded fields differ from the encoded values in %r: got %r expected %r' % (
                4 + k, keys, {kk: r.get(kk) for kk in keys}, {kk: exp.get(kk) for kk in keys})
        nm = r['content'].get('name', '') if isinstance(r.get('content'), dict) else ''
        if any(ord(ch) > 127 or ord(ch) not in SAFE_NAME for ch in nm):
            return 'member name %r contains a character that is unsafe in a file name' % nm
    if canon_top(res[0]) != canon_top(res[1]):
        return 'Director 4 and Director 5 layouts decode differently'
    return None

def known(c, fail):
    return None

# ---- enc tie: the two record layouts of the theorems (Proofs/CastFacts.v enc_d4 / enc_d5) on the same members
ENC_TIE_IMPORTS = ['Proofs.CastFacts']
def enc_tie_term(c):
    from framework import cz, cbytes
    if c['kind'] != 'member' or not (0 <= c['code'] < 256):
        return None
    h, i = cbytes(c['header']), cbytes(c['info'])
    return ('(enc_d4 %s %s %s ++ enc_d5 %s %s %s)%%list' % (cz(c['code']), h, i, cz(c['code']), h, i),
            enc_member(4, c['code'], c['header'], c['info']) + enc_member(5, c['code'], c['header'], c['info']))
