"""C06 - bitmap decoding reproduces every source pixel for a standard BMP reader (bitd/*)."""
import struct
from framework import call_impl

BUDGET_S = {'quick': 120, 'thorough': 1800}
BATCH = 150
RULE = ('images of depth 1, 8, 16, 32: width 1..40 x height 1..4 x offsets 0..17 (grid in the thorough tier, a seeded sample '
        'in the quick tier) for 1- and 8-bit, each row PackBits-encoded with a random valid segmentation (literals 1..128, '
        'runs 2..129, runs never crossing a scan line), pad bytes/bits zero or arbitrary; every segmentation of rows of '
        '<= 4 stored bytes over a 3-value alphabet; raw storage; larger random images; 16/32-bit planar rows with runs '
        'confined to a plane; every image is encoded twice with different segmentations. Non-trivial = compressed, >= 2 rows '
        'and a non-zero offset or an odd width; distinct by SHA1.')
EXPLANATION = ('Theorems on the Gallina model of the 8-bit decoder (any segmentation via an inductive PackBits relation; raw rows); '
               'the other depths are modelled and tied by the correspondence check; the property itself is evaluated on the real '
               'BMP bytes with an independent BMP reader.')
TRUSTED_BASE = ['Coq 8.16.1 kernel; no axioms', 'hand-written model coq/Model/Bitd.v (all four depths, raw + compressed, headers)',
                'the BMP reading convention used by the oracle (offset field @10, width @18, height @22, bpp @28, 4-byte aligned stride, bottom-up)',
                'extraction + runner; harness tie/props/C06.py']
ASSUMPTIONS = ['scan-line PackBits: no run or literal crosses a row boundary', 'background pixel value is 0']
LEVEL_TEXT = ('Proof: Coq theorems for all four decoders. 8 and 1 bit: every valid scan-line PackBits encoding (all '
              'segmentations, token lists of literals and runs, induction over rows and tokens) and raw storage of an image of any '
              'size paint exactly the source pixels at (w_padding, h_padding) and background elsewhere (no geometry condition since '
              'the repairs b668653 / 6c73b66). 32 bit: any segmentation of the linear stream; 16 bit: tokens confined to a colour '
              'plane (the encodings of the quantifier); both for images without registration offsets. Each lifted to the '
              'property\'s wording: a standard BMP reader (offset, width, height, bpp fields, aligned stride, bottom-up) applied '
              'to the whole file sees the source pixel at every canvas position (C06_bmp8_*_reader, C06_bmp1_*_reader, '
              'C06_bmp16_reader, C06_bmp24_reader). The model is compared with the implementation on every run and the '
              'property is checked directly with an independent BMP reader; 16/32-bit registration offsets and raw storage '
              'are open known findings.')
LEVEL_NOTE = ('Trusted: Coq kernel, hand-written model, extraction, harness (incl. its BMP reader). No axioms. Outside the '
              'theorems: 16/32-bit images with registration offsets or stored raw (open findings of /repo).')
TECHNIQUE = 'Coq proof by induction over a PackBits encoding relation with a paint-state invariant + model/implementation correspondence'

# ---------- encoders
def packbits_row(rng, row, style=None):
    """random valid PackBits encoding of one stored row"""
    out = bytearray()
    i = 0
    n = len(row)
    while i < n:
        j = i
        while j < n and row[j] == row[i] and j - i < 129:
            j += 1
        runlen = j - i
        r = rng.random()
        if style == 'max':
            # greedy: the longest run (129 copies = control byte 0x80) or the longest literal (128 bytes = 0x7f)
            if runlen >= 3:
                out += bytes([257 - runlen, row[i]]); i += runlen
            else:
                k = min(128, n - i)
                out += bytes([k - 1]) + bytes(row[i:i + k]); i += k
            continue
        if runlen >= 2 and r < 0.6:
            k = rng.randrange(2, runlen + 1)
            out += bytes([257 - k, row[i]])
            i += k
        else:
            k = rng.randrange(1, min(128, n - i) + 1)
            if rng.random() < 0.5:
                k = min(k, rng.choice([1, 2, 3]))
            out += bytes([k - 1]) + bytes(row[i:i + k])
            i += k
    return bytes(out)

def all_segmentations(row):
    """every PackBits encoding of a short row"""
    n = len(row)
    res = []
    def go(i, acc):
        if i == n:
            res.append(bytes(acc)); return
        for k in range(1, n - i + 1):
            go(i + k, acc + bytes([k - 1]) + bytes(row[i:i + k]))
            if k >= 2 and all(b == row[i] for b in row[i:i + k]):
                go(i + k, acc + bytes([257 - k, row[i]]))
    go(0, b'')
    return res

def stored_rows(c):
    """list of stored rows (bytes) incl. padding, per depth"""
    depth, w = c['depth'], c['w']
    rows = []
    for r, px in enumerate(c['pixels']):
        if depth == 8:
            row = bytes(px) + (bytes([c['pad'][r]]) if w % 2 else b'')
        elif depth == 1:
            nbytes = (w + 7) // 8
            nbytes += nbytes % 2
            bits = list(px) + [(c['pad'][r] >> (k % 8)) & 1 for k in range(nbytes * 8 - w)]
            row = bytes(sum(bits[8 * i + j] << (7 - j) for j in range(8)) for i in range(nbytes))
        elif depth == 16:
            row = bytes(p >> 8 for p in px) + bytes(p & 0xff for p in px)
        else:   # 32: planes A R G B
            row = bytes(p[0] for p in px) + bytes(p[1] for p in px) + bytes(p[2] for p in px) + bytes(p[3] for p in px)
        rows.append(row)
    return rows

def encode(c):
    rows = stored_rows(c)
    if c['enc'] == 'raw':
        return b''.join(rows)
    return b''.join(c['segs'])

def mk(rng, depth, w, h, pw, ph, enc='rle', padzero=None, alphabet=None):
    if depth in (1,):
        px = [[rng.randrange(2) for _ in range(w)] for _ in range(h)]
    elif depth == 8:
        al = alphabet or [0, 1, 2, 7, 255, rng.randrange(256)]
        px = [[rng.choice(al) if rng.random() < 0.7 else rng.randrange(256) for _ in range(w)] for _ in range(h)]
    elif depth == 16:
        px = [[rng.choice([0, 0x7fff, 0x1234, rng.randrange(65536)]) for _ in range(w)] for _ in range(h)]
    else:
        px = [[[rng.randrange(256), rng.choice([0, 255, 7]), rng.choice([0, 255, 9]), rng.randrange(256)] for _ in range(w)] for _ in range(h)]
    if padzero is None:
        padzero = rng.random() < 0.5
    c = {'kind': 'img', 'depth': depth, 'w': w, 'h': h, 'pw': pw, 'ph': ph, 'pixels': px, 'enc': enc,
         'pad': [0 if padzero else rng.randrange(1, 256) for _ in range(h)]}
    if enc == 'rle':
        rows = stored_rows(c)
        if depth in (16, 32):
            planes = 2 if depth == 16 else 4
            segs = []
            for row in rows:
                seg = b''
                for k in range(planes):
                    seg += packbits_row(rng, row[k * w:(k + 1) * w])
                segs.append(seg)
            c['segs'] = segs
        else:
            c['segs'] = [packbits_row(rng, row) for row in rows]
    return c

def reencode(rng, c):
    d = dict(c)
    if c['enc'] == 'rle':
        w = c['w']
        rows = stored_rows(c)
        if c['depth'] in (16, 32):
            planes = 2 if c['depth'] == 16 else 4
            d['segs'] = [b''.join(packbits_row(rng, row[k * w:(k + 1) * w]) for k in range(planes)) for row in rows]
        else:
            d['segs'] = [packbits_row(rng, row) for row in rows]
    return d

def gen_cases(rng, tier):
    thorough = tier == 'thorough'
    # grid for 1- and 8-bit
    widths = range(1, 41) if thorough else [1, 2, 3, 4, 5, 7, 8, 9, 15, 16, 17, 24, 31, 32, 33, 40]
    for depth in (8, 1):
        for w in widths:
            for h in ([1, 2, 3] if thorough else [rng.choice([1, 2, 3])]):
                offs = [(a, b) for a in range(0, 18) for b in (0, 1, 5)] if thorough else [(0, 0), (rng.randrange(1, 18), rng.randrange(0, 18))]
                if thorough:
                    offs = rng.sample(offs, 8) + [(0, 0)]
                for pw, ph in offs:
                    c = mk(rng, depth, w, h, pw, ph)
                    yield c
                    yield reencode(rng, c)
                    # raw storage of the same image at every grid point (raw == compressed is part of the property)
                    r = dict(c); r['enc'] = 'raw'; r.pop('segs', None)
                    yield r
    # every segmentation of short rows over a 3-value alphabet (8 bit) / of 2- and 4-byte rows (1 bit)
    for w in ([1, 2, 3, 4] if thorough else [2, 3]):
        for pw in (0, 1):
            base = mk(rng, 8, w, 2, pw, 0, padzero=True, alphabet=[0, 1, 2])
            base['pixels'] = [[rng.choice([0, 1, 2]) for _ in range(w)] for _ in range(2)]
            rows = stored_rows(base)
            segs0 = all_segmentations(rows[0])
            segs1 = all_segmentations(rows[1])
            for s0 in segs0:
                for s1 in (segs1 if thorough else segs1[:3]):
                    d = dict(base); d['segs'] = [s0, s1]; yield d
    for w in ([3, 9, 16, 17] if thorough else [9]):
        base = mk(rng, 1, w, 1, 0, 0, padzero=True)
        rows = stored_rows(base)
        for s0 in all_segmentations(rows[0]):
            d = dict(base); d['segs'] = [s0]; yield d
    # control-byte boundaries (seed C06_i): rows wide enough for a run of exactly 129 (control byte 0x80) and a
    # literal of exactly 128 (0x7f), greedy encoding and a random re-encoding of the same image
    for depth, w in ((8, 140), (16, 135), (32, 131), (1, 1100)):
        for variant in range(2 if not thorough else 6):
            c = mk(rng, depth, w, 2, 0, 0, enc='raw', padzero=True)
            unit = 8 if depth == 1 else 1
            cut = 129 * unit + (0 if variant % 2 == 0 else rng.randrange(0, w - 129 * unit))
            def px(x, y):
                a = (x >= cut) != (y == 1 and variant >= 2)
                if variant % 2 == 1 and x < 128 * unit and y == 0:
                    a = (x // unit) % 2 == 0          # alternating bytes: one literal of exactly 128
                if depth == 1:
                    return 1 if a else 0
                if depth == 8:
                    return 7 if a else 200
                if depth == 16:
                    return 0x1234 if a else 0x7fff
                return [9, 255, 0, 77] if a else [1, 2, 3, 4]
            c['pixels'] = [[px(x, y) for x in range(w)] for y in range(2)]
            c['enc'] = 'rle'
            rows = stored_rows(c)
            planes = {16: 2, 32: 4}.get(depth, 1)
            if planes > 1:
                c['segs'] = [b''.join(packbits_row(rng, row[k * w:(k + 1) * w], 'max') for k in range(planes)) for row in rows]
            else:
                c['segs'] = [packbits_row(rng, row, 'max') for row in rows]
            yield c
            yield reencode(rng, c)
    n = 120 if not thorough else 3000
    for k in range(n):
        depth = rng.choice([1, 8, 8, 16, 32])
        w = rng.choice([1, 2, 3, 4, 5, 8, 13, 16, 31, 40, 64, rng.randrange(1, 70)])
        h = rng.choice([1, 2, 3, 7, 20])
        pw, ph = rng.choice([(0, 0), (0, 0), (rng.randrange(0, 18), rng.randrange(0, 18))])
        if depth in (16, 32) and rng.random() < 0.7:
            pw, ph = 0, 0
        enc = 'raw' if rng.random() < 0.15 else 'rle'
        c = mk(rng, depth, w, h, pw, ph, enc=enc)
        yield c
        if enc == 'rle':
            yield reencode(rng, c)
        if k % 4 == 0:
            d = encode(c)
            r = rng.random()
            if r < 0.5 and d:
                d = d[:rng.randrange(len(d))]
            elif d:
                i = rng.randrange(len(d)); d = d[:i] + bytes([rng.choice([0, 0xff, 0x80, 0x7f])]) + d[i + 1:]
            yield {'kind': 'raw', 'depth': depth, 'w': w + pw, 'h': h + ph, 'pw': pw, 'ph': ph, 'data': d}

def _tojson(o):
    if isinstance(o, (bytes, bytearray)):
        return {'$b': bytes(o).hex()}
    if isinstance(o, dict):
        return {k: _tojson(v) for k, v in o.items()}
    if isinstance(o, (list, tuple)):
        return [_tojson(v) for v in o]
    return o
def _fromjson(o):
    if isinstance(o, dict):
        if set(o) == {'$b'}:
            return bytes.fromhex(o['$b'])
        return {k: _fromjson(v) for k, v in o.items()}
    if isinstance(o, list):
        return [_fromjson(v) for v in o]
    return o
case_to_json = _tojson
case_from_json = _fromjson
def describe(c):
    j = _tojson(c)
    if 'pixels' in j and (len(j['pixels']) > 2 or len(j['pixels'][0]) > 16):
        j['pixels'] = [r[:16] for r in j['pixels'][:2]] + ['...']
    if 'segs' in j and len(j['segs']) > 2:
        j['segs'] = j['segs'][:2] + ['...']
    return j
def classify(c, ir):
    if c['kind'] == 'raw':
        return 'malformed/%d' % c['depth']
    return '%dbit/%s/%s' % (c['depth'], c['enc'], 'offset' if (c['pw'] or c['ph']) else 'no-offset')
def nontrivial(c, ir):
    return in_domain(c) and c['enc'] == 'rle' and c['h'] >= 2 and (c['pw'] or c['ph'] or c['w'] % 2)

def args_of(c):
    if c['kind'] == 'raw':
        return c['w'], c['h'], c['depth'], c['pw'], c['ph'], c['data']
    return c['w'] + c['pw'], c['h'] + c['ph'], c['depth'], c['pw'], c['ph'], encode(c)

def impl(c):
    from drxtract.bitd.bitd2bmp import bitd2bmp, DECODERS
    import io
    for dec in DECODERS.values():       # history independence is C13's subject: start every decode from a fresh buffer
        dec.bytesIo = io.BytesIO()
    bw, bh, depth, pw, ph, data = args_of(c)
    cast = {'height': bh, 'width': bw, 'depth': depth, 'w_padding': pw, 'h_padding': ph, 'palette_txt': 'systemMac'}
    return bytes(bitd2bmp(cast, b'', data))

def run_impl(c):
    return call_impl(impl, c)

def model_request(c, ir):
    bw, bh, depth, pw, ph, data = args_of(c)
    return ('bitd2bmp', [bw, bh, depth, pw, ph, b'systemMac', b'', data])

def compare(c, ir, mv):
    if mv[0] == b'ok':
        if ir[0] != 'ok':
            return 'implementation %r, model ok' % (ir[1:],)
        if ir[1] != mv[1]:
            a, b = ir[1], mv[1]
            k = next((i for i in range(min(len(a), len(b))) if a[i] != b[i]), min(len(a), len(b)))
            return 'BMP bytes differ from the model at offset %d (lengths %d/%d)' % (k, len(a), len(b))
        return None
    if mv[0] == b'err':
        return None if ir[0] == 'err' else 'model rejects, implementation returned a BMP'
    return 'model: %r' % (mv,)

# ---------- an independent BMP reader
def read_bmp(b):
    if b[:2] != b'BM':
        raise ValueError('no BM signature')
    off = struct.unpack('<i', b[10:14])[0]
    w, h = struct.unpack('<ii', b[18:26])
    bpp = struct.unpack('<h', b[28:30])[0]
    stride = ((w * bpp + 31) // 32) * 4
    rows = []
    for y in range(h):            # top-down
        base = off + (h - 1 - y) * stride
        row = []
        for x in range(w):
            if bpp == 8:
                row.append(b[base + x])
            elif bpp == 16:
                row.append(b[base + 2 * x] | (b[base + 2 * x + 1] << 8))
            elif bpp == 24:
                row.append((b[base + 3 * x + 2], b[base + 3 * x + 1], b[base + 3 * x]))     # (R, G, B)
            else:
                raise ValueError('bpp %d' % bpp)
        rows.append(row)
    return w, h, bpp, rows

def expected_canvas(c):
    bw, bh = c['w'] + c['pw'], c['h'] + c['ph']
    bg = 0 if c['depth'] != 32 else (0, 0, 0)
    canvas = [[bg] * bw for _ in range(bh)]
    for r, px in enumerate(c['pixels']):
        for x, p in enumerate(px):
            if c['depth'] == 16:
                v = p
            elif c['depth'] == 32:
                # planes A R G B; the decoder writes planes 3,2,1 into BMP bytes 0,1,2 (= B,G,R): (R,G,B) = (p[1],p[2],p[3])
                v = (p[1], p[2], p[3])
            else:
                v = p
            canvas[c['ph'] + r][c['pw'] + x] = v
    return canvas

def diff_pixels(c, bmp):
    try:
        w, h, bpp, rows = read_bmp(bmp)
    except Exception as e:
        return 'unreadable BMP: %s' % e, None
    exp = expected_canvas(c)
    if (w, h) != (c['w'] + c['pw'], c['h'] + c['ph']):
        return 'BMP is %dx%d, canvas is %dx%d' % (w, h, c['w'] + c['pw'], c['h'] + c['ph']), None
    wrong = [(x, y) for y in range(h) for x in range(w) if rows[y][x] != exp[y][x]]
    if wrong:
        x, y = wrong[0]
        return '%d pixel(s) wrong, first at (x=%d,y=%d): BMP has %r, source has %r' % (len(wrong), x, y, rows[y][x], exp[y][x]), wrong
    return None, []

def raw_size(c):
    bw, bh, depth, pw, ph, data = args_of(c)
    w = bw - pw
    if depth == 8:
        ws = w + w % 2
    elif depth == 1:
        ws = (w + 7) // 8
        ws += ws % 2
    else:
        ws = w * 2
    return ws * (bh - ph)

def in_domain(c):
    """the format tells raw from compressed by size: a compressed stream must not have the raw size"""
    return c['kind'] == 'img' and (c['enc'] == 'raw' or len(encode(c)) != raw_size(c))

def oracle(c, ir):
    if c['kind'] == 'raw' or not in_domain(c):
        return None
    if ir[0] != 'ok':
        return '%d-bit %s image rejected: %r' % (c['depth'], c['enc'], ir[1:])
    msg, wrong = diff_pixels(c, ir[1])
    return msg

# ---------- known findings
def stride4(w):
    return w + (4 - w % 4) % 4

def known(c, fail):
    if c['kind'] != 'img':
        return None
    d = c['depth']
    bw = c['w'] + c['pw']
    if d in (16, 32):
        if c['enc'] == 'raw':
            return 'C06-16-32-raw-not-implemented'
        ir = run_impl(c)
        if ir[0] == 'err' and 'NotImplementedError' in str(ir) and c['enc'] == 'raw':
            return 'C06-16-32-raw-not-implemented'
        if ir[0] == 'err' and 'NotImplementedError' in str(ir):
            bw_, bh_, depth_, pw_, ph_, data = args_of(c)
            if len(data) == (bw_ - pw_) * 2 * (bh_ - ph_):
                return 'C06-16-32-raw-not-implemented'
        if c['pw'] or c['ph']:
            return 'C06-16-32-offsets-ignored'
        return None
    return None

def shrink_candidates(c):
    if c['kind'] != 'img' or c['enc'] != 'rle':
        return
    if c['h'] > 1:
        for r in range(c['h']):
            d = dict(c); d['h'] = c['h'] - 1
            d['pixels'] = c['pixels'][:r] + c['pixels'][r + 1:]; d['pad'] = c['pad'][:r] + c['pad'][r + 1:]
            d['segs'] = c['segs'][:r] + c['segs'][r + 1:]
            yield d
    for k in ('pw', 'ph'):
        if c[k] > 0:
            d = dict(c); d[k] = 0; yield d
            d = dict(c); d[k] = c[k] - 1; yield d
