"""C02 - the decompiled Lingo denotes the compiled statements and expressions."""
import lingo_harness as H
import lingo_spec as S

NEEDS_SPEC = True       # the spec tie runs the extracted specification side (runner/specrun)
BUDGET_S = {'quick': 150, 'thorough': 1500}
BATCH = 150
RULE = ('source scripts in the AST of the independent specification tie/lingo_spec.py, compiled with Director\'s scheme into '
        'real Lscr chunks: every operator pair (19 binary + minus + not) at expression depth 2 in both nestings; random '
        'straight-line handlers (1-3 per script, 0-3 parameters, 0-6 locals, script and handler globals, declared '
        'properties) with expression trees to depth 3 (quick) / 6 (thorough) over integers in every operand form (zero, '
        '1-byte, 2-byte, pool), strings, symbols, all variable kinds, local and external calls in both positions, linear '
        'and property lists incl. counts >= 256; the further instruction families (by-name, sprite / cast / sound / field / menu / '
        'system / special / date-time / key properties read and written, chunk expressions with 1-4 ranges, put into / after / '
        'before on locals, fields and chunks of locals, fields and globals, delete, hilite, tell blocks); name tables in random '
        'order with short names. The emitted Lingo is read '
        'back by the independent precedence parser and compared with the source tree. Non-trivial = a script with an '
        'expression of depth >= 2; distinct by SHA1 of the source.')
EXPLANATION = ('Coq: compile/decompile inversion for the expression and statement core (unbounded), emitted text = canonical '
               'printer, printer/parser round trip on tokens; see coq/Props/PropC02.v.')
TRUSTED_BASE = ['spec tie: Spec/SpecIO.v (decoders, fill, boolean side conditions) extracted to runner/specrun (ExtrOcamlBasic, ExtrOcamlString); tie/spec_tie.py (conversion of the source AST, extraction of handler bodies from the emitted text)',
                'Coq 8.16.1 kernel; vm_compute for table lookups; no axioms',
                'hand-written model coq/Model/Lingo*.v, Lscr.v; dispatch and name tables regenerated from the imported package (tie/gen_lingo.py), Lscr record layouts from the source text (tie/gen_layouts.py)',
                'the specification: coq/Spec/SpecLingo.v (source AST, Director scheme, canonical printer, parser) and its Python twin tie/lingo_spec.py used as oracle',
                'codec (mac_roman decode + unicode_escape) and float printer enter the model as lookup tables computed by the running interpreter',
                'extraction (ExtrOcamlBasic, ExtrOcamlString), runner/modelrun.ml, harness tie/lingo_harness.py']
ASSUMPTIONS = ["Director's code-generation scheme is the one written in SpecLingo.v / lingo_spec.py (read off the 70 fixtures and the public bytecode description)",
               'a list-function call (findPos, getaProp, ...) has no symbol literal as first argument (the object-call form writes a variable that way)',
               'the bare name of a handler of the same script is a call (fixture result.lingo); -5 is a literal, not minus applied to 5']
LEVEL_TEXT = ('Proof: Coq theorems over a hand-written model of the decompiler (stack machine dispatching through tables regenerated '
              'from the source, both generators): for every expression tree and straight-line statement list of the modelled '
              'families, running the compiled bytes yields exactly the reified tree (induction over the tree, any depth/width), '
              'its text is the canonical print of the source and parses back to it; for every exit-free nest of if / if-else / repeat while '
              '(any depth) the emitted text is the canonical layout of the source program (C02_structured_text_is_canonical, on the C03 theorem). Tie: the model agrees with /repo on the text '
              'of every fixture and every generated program; the implementation\'s text is parsed back independently.')
LEVEL_NOTE = 'Sound / sprite / cast / field / menu / menuItem properties, the last / number of chunks, special / date-time / system properties, properties by name (the <name>, the <name> of <e>) are inside the proved core (inversion and Lingo text). Key / mouse / date properties, field <x>, and the assignments to special / system / by-name properties are inside too. put into / after / before a field or a local variable, and exit written out, are inside too. Families outside it (chunk ranges, put on chunks, delete / hilite, tell, factories) are covered by the correspondence and the parser oracle only. Spec tie: the specification side of the theorems (Director\'s scheme compile_*, the canonical texts) is extracted and, on every generated handler inside the fragment, compared with the harness compiler (bytes) and with the text the implementation emits.'
TECHNIQUE = 'Coq proof by induction over the expression tree and the program structure (compile / symbolic-execute inversion, printer/parser round trip, structured layout) + model/implementation correspondence'

def gen_cases(rng, tier):
    for s in H.pair_scripts(rng):
        yield {'tag': 'pairs', 'script': s}
    g = H.Gen(rng)
    n = 2500 if tier == 'quick' else 12000
    for i in range(n):
        depth = rng.choice([1, 2, 3]) if tier == 'quick' else rng.choice([2, 3, 4, 6])
        yield {'tag': 'random', 'script': g.script(depth=depth)}
    gx = H.GenExt(rng)
    for i in range(700 if tier == 'quick' else 8000):
        yield {'tag': 'ext', 'script': gx.ext_script()}
    for i in range(150 if tier == 'quick' else 2000):
        yield {'tag': 'factory', 'script': gx.factory_script()}
    for s in big_lists(rng):
        yield {'tag': 'biglist', 'script': s}
    for s in keyword_symbols(rng):
        yield {'tag': 'keyword-symbol', 'script': s}
    for s in compound_ids(rng):
        yield {'tag': 'compound-id', 'script': s}

def big_lists(rng):
    out = []
    for n in (255, 256, 300):
        body = [('set', ('loc', 'x'), ('list', [('int', i % 7) for i in range(n)])),
                ('call', 'put', [('int', i % 5) for i in range(n)]),
                ('set', ('loc', 'x'), ('call', 'max', [('int', i % 3) for i in range(n)]))]
        h = {'name': 'big', 'args': [], 'locals': ['x'], 'body': body, 'method': False}
        out.append(H.finish_script({'props': [], 'globals': [], 'factory': None, 'scr_num': 0, 'handlers': [h]}))
    return out

def compound_ids(rng):
    out = []
    idx = ('bin', 'add', ('loc', 'i'), ('int', 1))
    for st in [('call', 'put', [('objprop', 'sprite', idx, 'locH')]), ('setobjprop', 'cast', idx, 'name', ('str', 'x')),
               ('call', 'put', [('menuprop', 'name', idx, ('int', 1))]), ('call', 'put', [('objprop', 'sound', ('neg', ('loc', 'i')), 'volume')])]:
        h = {'name': 'cid', 'args': [], 'locals': ['i'], 'body': [st], 'method': False}
        out.append(H.finish_script({'props': [], 'globals': [], 'factory': None, 'scr_num': 0, 'handlers': [h]}))
    return out

def has_compound_id(script):
    hit = [False]
    def fe(e):
        if e[0] == 'objprop' and e[1] != 'field' and e[2][0] not in ('int', 'str', 'loc', 'par', 'glob', 'prop'):
            hit[0] = True
        if e[0] == 'menuprop' and (e[2][0] not in ('int', 'str', 'loc', 'par', 'glob', 'prop') or e[3][0] not in ('int', 'str', 'loc', 'par', 'glob', 'prop')):
            hit[0] = True
        if e[0] in ('menuname', 'menuitems') and e[1][0] not in ('int', 'str', 'loc', 'par', 'glob', 'prop'):
            hit[0] = True
    for h in script['handlers']:
        for st in h['body']:
            H.walk_node(st, True, lambda n: None, fe)
            if st[0] == 'setobjprop' and st[2][0] not in ('int', 'str', 'loc', 'par', 'glob', 'prop'):
                hit[0] = True
            if st[0] == 'setmenuprop' and (st[2][0] not in ('int', 'str', 'loc', 'par', 'glob', 'prop') or st[3][0] not in ('int', 'str', 'loc', 'par', 'glob', 'prop')):
                hit[0] = True
    return hit[0]

def keyword_symbols(rng):
    out = []
    for kw in H.KEYWORD_SYMBOLS[:3]:
        body = [('set', ('loc', 'x'), ('plist', [(('sym', kw), ('int', 1))])), ('call', 'put', [('sym', kw)])]
        h = {'name': 'kw', 'args': [], 'locals': ['x'], 'body': body, 'method': False}
        out.append(H.finish_script({'props': [], 'globals': [], 'factory': None, 'scr_num': 0, 'handlers': [h]}))
    return out

case_to_json, case_from_json, describe = H.case_to_json, H.case_from_json, H.describe
run_impl, shrink_candidates = H.run_impl, H.shrink_candidates
model_request = H.model_req

def classify(c, ir):
    return c['tag'].split(':')[0]
def nontrivial(c, ir):
    return H.script_depth(c['script']) >= 2

def has_keyword_symbol(script):
    import json
    txt = json.dumps(H.script_to_json(H.strip_names(script)))
    return any('["sym", "%s"]' % k in txt for k in H.KEYWORD_SYMBOLS)

def judge(c, ir, ms):
    out = []
    if ir[0] == 'skip':
        return out
    if ir[0] != 'ok':
        return [('the decompiler raises on a compiled script: %s' % (ir[2] if len(ir) > 2 else ir[0]), 'property', None)]
    lingo = ir[1][0]
    f = H.lingo_oracle(c['script'], lingo)
    mt = H.text_pair(ms)
    if f:
        out.append((f, 'property', None))
        return out
    if ms is not None:
        if mt is None:
            out.append(('model fails (%r) on a chunk the implementation decompiles' % (H.split_ms(ms)[0],), 'correspondence', None))
        elif mt[0] != lingo:
            out.append(('Lingo text differs from the model: ' + H.first_diff(lingo, mt[0]), 'correspondence', None))
        out += H.spec_verdicts(c, ir, ms)
    return out

def extra_evidence(tier):
    """what the spec tie (tie/spec_tie.py) compared in this run"""
    import spec_tie as ST
    return {'spec_tie': dict(ST.STATS, what='handlers inside the fragment of the theorems: code = bytes of SpecFor.code2 (Coq, extracted) '
                             'compared with the harness compiler; lingo / js = canonical texts pp_q / pp_js_q of the theorems compared with the '
                             'text the implementation emits (only when the boolean side conditions of the theorems hold)')}
