"""C11 - constants are rendered as literals that evaluate to the original value."""
import codecs, json, os, struct, subprocess
from fractions import Fraction
from framework import call_impl
import lscr_asm as A

BUDGET_S = {'quick': 120, 'thorough': 1500}
BATCH = 400
RULE = ('string constants: every string of length <= 3 (quick: <= 2) over the alphabet of special bytes {quote, backslash, '
        'CR, TAB, BS(0x08), ETX(0x03), LF, NUL, "r", "t", "x", "0", "8", "3", "a", space, 0x8e, 0xff}, random strings up to 40 '
        'bytes over all byte values; inline 1-byte integers (all 256), 2-byte integers (all 65536 in the thorough tier), '
        'boundary and random 32-bit pool integers; 80-bit floats over sign x exponent class x mantissa class. Every string is '
        'compiled into a real Lscr chunk, decompiled with the real decompiler, and the emitted Lingo literal is evaluated by an '
        'independent evaluator and the JavaScript literal by node. Non-trivial = a string with >= 2 special characters or a '
        'negative / extreme number; distinct by SHA1.')
EXPLANATION = ('Unbounded Coq theorems: the Lingo literal and the JavaScript literal of every string evaluate to the string; inline '
               'integers sign-extend exactly; the 80-bit float parts are sign, 64-bit mantissa and exponent.')
TRUSTED_BASE = ['Coq 8.16.1 kernel; no axioms',
                'hand-written model coq/Model/Const.v; PREDEFINED_CONSTANTS / REPLACEMENT_CONSTANTS regenerated from constant_val.py on every run',
                'the specification evaluators eval_lingo_lit / eval_js_lit in coq/Model/Const.v (what a literal means)',
                'Python codecs (mac_roman decode, unicode_escape) and repr(float) are runtime; node evaluates the JavaScript literals',
                'extraction + runner; harness tie/props/C11.py']
ASSUMPTIONS = ['inside a quoted Lingo piece the tool uses Python unicode_escape sequences (backslash-x, -u, -n, doubled backslash) for characters Lingo has no name for',
               'float values are compared as exact rationals: mantissa of at most 53 significant bits and exponent in the binary64 range']
LEVEL_TEXT = ('Proof: Coq theorems for every string of code points (any length) that the emitted Lingo expression - quoted '
              'pieces joined by & with QUOTE, RETURN, TAB, ENTER, BACKSPACE, EMPTY - and the emitted JavaScript string-object '
              'literal evaluate to exactly that string; that 1- and 2-byte inline integers are sign-extended exactly (arithmetic, '
              'all values); that the 80-bit float decomposition is sign/mantissa/exponent. Tie: tables regenerated from the source; '
              'real Lscr chunks are decompiled and their literals evaluated independently (node for JavaScript).')
LEVEL_NOTE = 'Trusted: Coq kernel, hand-written model + literal evaluators, table translator, extraction, harness, Python codecs/repr, node. No axioms.'
TECHNIQUE = 'Coq proof by induction over the string (scan invariant, printer/evaluator round trip) + differential run on real compiled chunks'

SPECIAL = [0x22, 0x5c, 0x0d, 0x09, 0x08, 0x03, 0x0a, 0x00, ord('r'), ord('t'), ord('x'), ord('0'), ord('8'), ord('3'), ord('a'), 0x20, 0x8e, 0xff]

def gen_cases(rng, tier):
    thorough = tier == 'thorough'
    maxlen = 3 if thorough else 2
    def rec(prefix, n):
        if n == 0:
            yield bytes(prefix); return
        for b in SPECIAL:
            yield from rec(prefix + [b], n - 1)
    batch = []
    for n in range(0, maxlen + 1):
        for s in rec([], n):
            batch.append(s)
            if len(batch) == 12:
                yield {'kind': 'strings', 'strs': batch}; batch = []
    if thorough is False:
        # a sample of length-3 strings
        for _ in range(600):
            batch.append(bytes(rng.choice(SPECIAL) for _ in range(3)))
            if len(batch) == 12:
                yield {'kind': 'strings', 'strs': batch}; batch = []
    for _ in range(300 if not thorough else 6000):
        ln = rng.choice([1, 4, 5, 9, 17, 40])
        r = rng.random()
        if r < 0.5:
            s = bytes(rng.choice(SPECIAL) for _ in range(ln))
        elif r < 0.8:
            s = bytes(rng.randrange(256) for _ in range(ln))
        else:
            s = bytes(rng.choice(b'Hello world "quoted" \\back\r\t') for _ in range(ln))
        batch.append(s)
        if len(batch) == 12:
            yield {'kind': 'strings', 'strs': batch}; batch = []
    if batch:
        yield {'kind': 'strings', 'strs': batch}
    yield {'kind': 'int1', 'vals': list(range(256))}
    vals2 = list(range(65536)) if thorough else sorted(set([0, 1, 127, 128, 255, 256, 32767, 32768, 65535] + [rng.randrange(65536) for _ in range(500)]))
    for i in range(0, len(vals2), 2000):
        yield {'kind': 'int2', 'vals': vals2[i:i + 2000]}
    yield {'kind': 'int4', 'vals': [0, 1, -1, 2 ** 31 - 1, -2 ** 31, 65536, -65536] + [rng.randrange(-2 ** 31, 2 ** 31) for _ in range(60)]}
    floats = []
    for sign in (0, 1):
        for e in [16383, 16384, 16382, 16383 + 10, 16383 - 20, 16383 + 1023, 16383 - 1022, 16383 + 52, 1, 0, 0x7ffe, 0x7fff, rng.randrange(16383 - 1000, 16383 + 1000)]:
            for q in [1 << 63, (1 << 63) | (1 << 62), ((1 << 53) - 1) << 11, (1 << 63) | (rng.randrange(1 << 52) << 11), 0, (1 << 64) - 1, (1 << 63) | 1]:
                floats.append([sign, e, q])
    yield {'kind': 'float', 'vals': floats}

def case_to_json(c):
    j = dict(c)
    if 'strs' in j:
        j['strs'] = [s.hex() for s in j['strs']]
    return j
def case_from_json(j):
    c = dict(j)
    if 'strs' in c:
        c['strs'] = [bytes.fromhex(s) for s in c['strs']]
    return c
def describe(c):
    j = case_to_json(c)
    if 'vals' in j and len(j['vals']) > 12:
        j['vals'] = j['vals'][:12] + ['... %d' % len(c['vals'])]
    return j
def classify(c, ir):
    return c['kind']
def nontrivial(c, ir):
    if c['kind'] == 'strings':
        return any(sum(1 for b in s if b in (0x22, 0x5c, 0x0d, 0x09, 0x08, 0x03)) >= 2 for s in c['strs'])
    return True

NAMES = ['h', 'put', 'x']

def decompile_consts(consts, code):
    from drxtract.lingosrc.parse.lscr import parse_lrcr_file_data
    from drxtract.lingosrc.codegen.lingo import generate_lingo_code
    from drxtract.lingosrc.codegen.js import generate_js_code
    d = A.lscr([(0, code, [], [2])], NAMES, consts=consts)
    s = parse_lrcr_file_data(d, NAMES)
    lingo = generate_lingo_code(s)
    js = generate_js_code(s)
    L = [l[len('    set x = '):] for l in lingo.split('\n') if l.startswith('    set x = ')]
    J = [l[len('    x = '):-1] for l in js.split('\n') if l.startswith('    x = ') and l.endswith(';')]
    return L, J

def float_chunk(sign, e, q):
    return struct.pack('>HQ', (sign << 15) | e, q)

def lscr_with_float(fl):
    # constant type 9: 4-byte length 10 + 10 bytes
    import struct as S
    d = A.lscr([(0, A.lit(0) + A.setloc(0) + A.EXIT, [], [2])], NAMES, consts=[b'ABCDEFGHI'])   # 4+10 bytes slot: len field + 9 chars + NUL
    # patch: constant record type 1 -> 9, and the data 'len' to 10 followed by the float bytes
    crb_off = S.unpack('>h', d[82:84])[0]
    con_off = S.unpack('>h', d[90:92])[0]
    d = bytearray(d)
    d[crb_off:crb_off + 2] = S.pack('>h', 9)
    d[con_off:con_off + 4] = S.pack('>i', 10)
    d[con_off + 4:con_off + 14] = fl
    return bytes(d)

def impl(c):
    k = c['kind']
    if k == 'strings':
        code = b''.join(A.lit(i) + A.setloc(0) for i in range(len(c['strs']))) + A.EXIT
        L, J = decompile_consts(list(c['strs']), code)
        return {'lingo': L, 'js': J}
    if k == 'int1':
        code = b''.join(A.i8(v) + A.setloc(0) for v in c['vals']) + A.EXIT
        L, J = decompile_consts([], code)
        return {'lingo': L, 'js': J}
    if k == 'int2':
        code = b''.join(bytes([0x81, v >> 8, v & 0xff]) + A.setloc(0) for v in c['vals']) + A.EXIT
        L, J = decompile_consts([], code)
        return {'lingo': L, 'js': J}
    if k == 'int4':
        out = {'lingo': [], 'js': []}
        for i in range(0, len(c['vals']), 20):
            vs = c['vals'][i:i + 20]
            code = b''.join(A.lit(j) + A.setloc(0) for j in range(len(vs))) + A.EXIT
            L, J = decompile_consts(vs, code)
            out['lingo'] += L; out['js'] += J
        return out
    if k == 'float':
        from drxtract.lingosrc.parse.lscr import parse_lrcr_file_data
        from drxtract.lingosrc.codegen.lingo import generate_lingo_code
        from drxtract.lingosrc.codegen.js import generate_js_code
        out = {'lingo': [], 'js': []}
        for sign, e, q in c['vals']:
            try:
                s = parse_lrcr_file_data(lscr_with_float(float_chunk(sign, e, q)), NAMES)
                lingo = generate_lingo_code(s); js = generate_js_code(s)
                out['lingo'].append([l[len('    set x = '):] for l in lingo.split('\n') if l.startswith('    set x = ')][0])
                out['js'].append([l[len('    x = '):-1] for l in js.split('\n') if l.startswith('    x = ')][0])
            except Exception as ex:
                out['lingo'].append('!' + type(ex).__name__); out['js'].append('!' + type(ex).__name__)
        return out

def run_impl(c):
    return call_impl(impl, c, timeout=60)

def cps(s):
    return [ord(ch) for ch in s.decode('mac_roman')]

def model_request(c, ir):
    k = c['kind']
    if k == 'strings':
        return [('const_string', cps(s)) for s in c['strs']]
    if k == 'int1':
        return [('const_int', [1, v]) for v in c['vals']]
    if k == 'int2':
        return [('const_int', [2, v >> 8, v & 0xff]) for v in c['vals'][:300]]
    if k == 'float':
        return [('float80', float_chunk(*v)) for v in c['vals']]
    return None

def txt(l):
    return ''.join(chr(x) for x in l)

def compare(c, ir, mv):
    if ir[0] != 'ok':
        return None
    k = c['kind']
    r = ir[1]
    nreq = len(model_request(c, ir) or [])
    mvs = [mv] if nreq == 1 else mv
    if k == 'strings':
        for i, (s, m) in enumerate(zip(c['strs'], mvs)):
            n, l, j, el, ej = m
            if i < len(r['lingo']) and r['lingo'][i] != txt(l):
                return 'string %r: Lingo literal %r, model %r' % (s, r['lingo'][i], txt(l))
            if i < len(r['js']) and r['js'][i] != txt(j):
                return 'string %r: JavaScript literal %r, model %r' % (s, r['js'][i], txt(j))
            if el != [cps(s)] or ej != [cps(s)]:
                return 'string %r: the model literal does not evaluate to the string in the model (eval lingo %r, eval js %r)' % (s, el, ej)
    elif k in ('int1', 'int2'):
        vals = c['vals'] if k == 'int1' else c['vals'][:300]
        for v, m, l in zip(vals, mvs, r['lingo']):
            if str(m) != l:
                return 'inline integer %d: implementation %r, model %r' % (v, l, m)
    elif k == 'float':
        for v, m, l in zip(c['vals'], mvs, r['lingo']):
            if l.startswith('!') or m == []:
                continue
            (sg, q, e2) = m[0]
            exact = Fraction(q) * (Fraction(2) ** e2) * (-1 if sg else 1)
            if exact_ok(v) and Fraction(float(l)) != exact:
                return 'float %r: implementation %s, model %s' % (v, l, exact)
    return None

# ---------------- independent evaluators
CONSTS = {'EMPTY': '', 'BACKSPACE': '\x08', 'ENTER': '\x03', 'QUOTE': '"', 'RETURN': '\r', 'TAB': '\t'}
def eval_lingo(t):
    out = ''
    i = 0
    while True:
        if i < len(t) and t[i] == '"':
            j = t.index('"', i + 1)
            out += codecs.decode(t[i + 1:j], 'unicode_escape')
            i = j + 1
        else:
            j = i
            while j < len(t) and t[j].isupper():
                j += 1
            out += CONSTS[t[i:j]]
            i = j
        if i == len(t):
            return out
        if t[i:i + 3] != ' & ':
            raise ValueError('junk at %d in %r' % (i, t))
        i += 3

def eval_js_batch(lits):
    src = 'class LingoString { constructor(s) { this.s = s; } }\nconst out = [];\n'
    for l in lits:
        src += 'try { out.push(Array.from((%s).s).map(c => c.codePointAt(0))); } catch (e) { out.push(null); }\n' % l
    src += 'console.log(JSON.stringify(out));\n'
    p = subprocess.run(['node', '-e', src], stdout=subprocess.PIPE, stderr=subprocess.PIPE, timeout=120)
    if p.returncode != 0:
        return None
    return json.loads(p.stdout.decode())

def exact_ok(v):
    sign, e, q = v
    if e == 0x7fff or q == 0:
        return False
    if e - 16383 > 1023 or e - 16383 < -1022:
        return False
    low = q & -q
    return (q // low).bit_length() <= 53 and (q >> 63) == 1

def oracle(c, ir):
    if ir[0] != 'ok':
        return 'decompiler failed: %r' % (ir[1:],)
    r = ir[1]
    k = c['kind']
    if k == 'strings':
        if len(r['lingo']) != len(c['strs']) or len(r['js']) != len(c['strs']):
            return 'expected %d statements, got %d/%d' % (len(c['strs']), len(r['lingo']), len(r['js']))
        js = eval_js_batch(r['js'])
        for i, s in enumerate(c['strs']):
            want = s.decode('mac_roman')
            try:
                got = eval_lingo(r['lingo'][i])
            except Exception as e:
                got = 'ERROR %s' % e
            if got != want:
                return 'string %r: Lingo literal %r evaluates to %r' % (s, r['lingo'][i], got)
            if js is None or js[i] is None or ''.join(chr(x) for x in js[i]) != want:
                return 'string %r: JavaScript literal %r evaluates to %r' % (s, r['js'][i], js and js[i])
        return None
    if k in ('int1', 'int2', 'int4'):
        for i, v in enumerate(c['vals']):
            want = v
            if k == 'int1' and v > 127:
                want = v - 256
            if k == 'int2' and v > 32767:
                want = v - 65536
            if r['lingo'][i] != str(want) or r['js'][i] != str(want):
                return '%s value %d rendered as %r / %r' % (k, v, r['lingo'][i], r['js'][i])
        return None
    if k == 'float':
        for v, l, j in zip(c['vals'], r['lingo'], r['js']):
            if not exact_ok(v):
                continue
            sign, e, q = v
            exact = Fraction(q) * (Fraction(2) ** (e - 16383 - 63)) * (-1 if sign else 1)
            if l.startswith('!'):
                return 'float sign=%d e=%d q=%#x: %s' % (sign, e, q, l[1:])
            if Fraction(float(l)) != exact or Fraction(float(j)) != exact:
                return 'float sign=%d e=%d q=%#x rendered as %s' % (sign, e, q, l)
        return None

def shrink_candidates(c):
    if c['kind'] == 'strings' and len(c['strs']) > 1:
        for s in c['strs']:
            yield {'kind': 'strings', 'strs': [s]}
    if c['kind'] == 'strings' and len(c['strs']) == 1 and len(c['strs'][0]) > 1:
        s = c['strs'][0]
        for i in range(len(s)):
            yield {'kind': 'strings', 'strs': [s[:i] + s[i + 1:]]}
    if c['kind'] == 'float' and len(c['vals']) > 1:
        for v in c['vals']:
            yield {'kind': 'float', 'vals': [v]}
