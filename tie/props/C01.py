"""C01 - container extraction (riff.py, riff_chunk.py, imap.py, mmap.py)."""
import struct
from framework import call_impl

BUDGET_S = {'quick': 90, 'thorough': 900}
BATCH = 100
RULE = ('movies built from a random chunk list (0-40 chunks; FourCC bytes over all 256 values with a bias to letters; '
        'payload lengths biased to 0/1/odd/even; arbitrary pad bytes), an imap chunk first, an mmap chunk at a random '
        'position listing every chunk plus free/junk/size<=0 entries, both byte orders, executable prefixes with 0-5 '
        'decoy XFIR strings; a per-position sweep of all 256 byte values in each FourCC position for both orders; a '
        'malformed stream (truncations, mutated length fields). Non-trivial = movie with >= 3 chunks, at least one odd '
        'payload AND (a non-empty prefix OR little-endian); distinct by SHA1 of the case.')
EXPLANATION = ('Unbounded theorems on the Gallina model (coq/Model/Riff.v): parse_riff inverts the movie encoder for every '
               'chunk list/prefix/byte order, get_by_offset returns chunk i at offset_of i and nothing at other offsets, '
               'mmap/imap round trips, FourCC sanitising total over all 2^32 FourCCs, first-genuine-header locator.')
TRUSTED_BASE = ['Coq 8.16.1 kernel; no axioms',
                'hand-written model coq/Model/Riff.v of riff.py, riff_chunk.py, mmap.py, imap.py (struct.unpack, slicing, bytes.find modelled in coq/Py/PyBytes.v)',
                'specification encoder enc_movie / enc_mmap in coq/Model/Riff.v (the reading of "well-formed movie")',
                'extraction + runner/modelrun.ml; harness tie/props/C01.py']
ASSUMPTIONS = ['payload lengths < 2^31 (the 4-byte signed length field)', 'offset >= 0']
LEVEL_TEXT = ('Proof: Coq theorems, unbounded in chunk count, payload lengths, prefix and for both byte orders, that the '
              'chunk walk returns exactly (sanitised FourCC, payload) of every chunk of an encoded movie, that lookup by '
              'offset returns chunk i exactly at its recorded offset, that memory-map and input-map records decode to the '
              'encoded fields, that FourCC sanitising yields four safe characters for all 2^32 byte combinations, and that '
              'the locator returns the first genuine header. Tie to the source: differential run of model and '
              'implementation on seeded movies + direct oracle.')
LEVEL_NOTE = ('Trusted: Coq kernel, hand-written model and spec encoder, extraction, harness. No axioms. '
              'Model fidelity is checked on every run by the correspondence check, including malformed inputs.')
TECHNIQUE = 'Coq proof by induction over the chunk list with an index invariant + model/implementation correspondence'

SAFE = set(range(32, 123))

def sanitize(cc):
    return bytes(b if b in SAFE else 0x5f for b in cc)

def P(bo):
    return '<' if bo else '>'

def orient(bo, b):
    return b[::-1] if bo else b

def enc_chunk(bo, c):
    cc, payload, pb = c
    return orient(bo, cc) + struct.pack(P(bo) + 'i', len(payload)) + payload + (bytes([pb]) if len(payload) % 2 else b'')

def enc_movie(bo, flen, cs):
    return orient(bo, b'RIFX') + struct.pack(P(bo) + 'i', flen) + orient(bo, b'MV93') + b''.join(enc_chunk(bo, c) for c in cs)

def offsets(cs):
    o = [12]
    for cc, p, pb in cs:
        o.append(o[-1] + 8 + len(p) + len(p) % 2)
    return o

def rand_cc(rng):
    r = rng.random()
    if r < 0.5:
        return bytes(rng.choice(b'ABCDKLSTXabcdefmps ') for _ in range(4))
    if r < 0.6:
        return rng.choice([b'free', b'junk', b'CASt', b'KEY*', b'XFIR', b'RIFX', b'39VM'])
    return bytes(rng.choice([rng.randrange(256), rng.randrange(0x7b, 0x100), rng.randrange(0, 0x21), 0x2f, 0x2e, 0x5c, 0]) for _ in range(4))

def rand_payload(rng):
    n = rng.choice([0, 0, 1, 1, 2, 3, 4, 5, 7, 8, 16, 33, rng.randrange(0, 300)])
    return bytes(rng.randrange(256) for _ in range(n))

def build_movie(rng, nchunks, bo, prefix):
    body = [(rand_cc(rng), rand_payload(rng), rng.randrange(256)) for _ in range(nchunks)]
    mpos = rng.randrange(0, len(body) + 1)
    # extra entries: free/junk/size<=0
    extras = []
    for _ in range(rng.choice([0, 0, 1, 3])):
        extras.append((rng.choice([b'free', b'junk', rand_cc(rng)]), rng.choice([0, -1, -2 ** 31, 0]), rng.choice([0, 12, 7, -4]),
                       rng.randrange(-2 ** 15, 2 ** 15), rng.randrange(-2 ** 15, 2 ** 15), rng.randrange(-2 ** 31, 2 ** 31)))
    nres = 1 + 1 + 1 + len(body) + len(extras)      # RIFX, imap, mmap, chunks, extras
    mmap_len = 24 + 20 * nres + rng.choice([0, 0, 20, 40])   # unused slots after the used ones
    cs = [(b'imap', b'\0' * 24, 0)] + body[:mpos] + [(b'mmap', b'\0' * mmap_len, 0)] + body[mpos:]
    offs = offsets(cs)
    base = len(prefix)
    mmap_index = 1 + mpos
    entries = [(b'RIFX', offs[-1] - 8, base + 0, 0, 0, 0)]
    order = list(range(len(cs)))
    for i in order:
        cc, p, pb = cs[i]
        size = len(p)
        entries.append((cc, size, base + offs[i], rng.randrange(-2 ** 15, 2 ** 15), rng.randrange(-2 ** 15, 2 ** 15), rng.randrange(-2 ** 31, 2 ** 31)))
    # interleave extras at random positions (not before the first three)
    for e in extras:
        entries.insert(rng.randrange(3, len(entries) + 1), e)
    hdr = (24, 20, rng.randrange(len(entries), len(entries) + 5), len(entries), rng.randrange(-1, 50), rng.randrange(-1, 50), rng.randrange(-1, 50))
    mm = struct.pack(P(bo) + 'hhiiiii', *hdr)
    for cc, size, off, fl, un, nx in entries:
        mm += orient(bo, cc) + struct.pack(P(bo) + 'iihhi', size, off, fl, un, nx)
    mm += b'\xaa' * (mmap_len - len(mm))
    imap = struct.pack(P(bo) + 'iiihhii', 1, base + offs[mmap_index], 0x4c1, 0, 0, 0, rng.randrange(0, 100))
    cs[0] = (b'imap', imap, 0)
    cs[mmap_index] = (b'mmap', mm, 0)
    return cs, hdr, entries

def rand_prefix(rng):
    r = rng.random()
    if r < 0.35:
        return b''
    parts = []
    for _ in range(rng.randrange(0, 6)):
        parts.append(bytes(rng.choice(b'MZ\x00\x90PE.text') for _ in range(rng.randrange(0, 20))))
        k = rng.random()
        if k < 0.6:
            parts.append(b'XFIR' + bytes(rng.randrange(256) for _ in range(rng.choice([0, 1, 4, 8, 9]))))   # decoy
        elif k < 0.8:
            parts.append(b'XFXFIRIR')          # overlapping fragments
        else:
            parts.append(b'XFIR' + b'\0\0\0\0' + b'39V')       # near miss
    parts.append(bytes(rng.choice(b'\x00\x01ab') for _ in range(rng.randrange(0, 9))))
    p = b''.join(parts)
    # a decoy must not be genuine: make sure no 'XFIR....39VM' occurs
    while True:
        i = p.find(b'XFIR')
        bad = False
        while i >= 0:
            if p[i + 8:i + 12] == b'39VM':
                bad = True
                break
            i = p.find(b'XFIR', i + 1)
        if not bad:
            return p
        p = p.replace(b'39VM', b'39VN')

def gen_cases(rng, tier):
    # FourCC sweep: every byte value in each position, both byte orders
    base = b'CASt'
    for pos in range(4):
        for bo in (0, 1):
            vals = range(256) if tier == 'thorough' or pos == 0 else [0, 31, 32, 47, 95, 122, 123, 127, 128, 200, 255]
            for v in vals:
                cc = bytearray(base); cc[pos] = v
                yield {'kind': 'fourcc', 'cc': bytes(cc), 'bo': bo}
    n = 250 if tier == 'quick' else 20000
    for k in range(n):
        bo = rng.randrange(2)
        # a little-endian projector prefix is the realistic case; big-endian + prefix also exercised
        prefix = rand_prefix(rng)
        nch = rng.choice([0, 1, 2, 3, 5, 8, 13, 40]) if k % 10 else rng.choice([100, 200])
        cs, hdr, entries = build_movie(rng, nch, bo, prefix)
        flen = offsets(cs)[-1] - 8 if rng.random() < 0.8 else rng.randrange(-5, 1000)
        case = {'kind': 'movie', 'cs': cs, 'bo': bo, 'prefix': prefix, 'flen': flen, 'hdr': hdr, 'entries': entries}
        yield case
        if k % 4 == 0:
            # malformed stream: truncate or corrupt the encoded movie
            data = prefix + enc_movie(bo, flen, cs)
            r = rng.random()
            if r < 0.4 and len(data) > 0:
                data = data[:rng.randrange(len(data))]
            elif r < 0.8 and len(data) > 16:
                i = rng.randrange(len(prefix), len(data))
                data = data[:i] + bytes([rng.choice([0, 0xff, 0x80, data[i] ^ 1])]) + data[i + 1:]
            else:
                data = bytes(rng.randrange(256) for _ in range(rng.randrange(0, 40)))
            yield {'kind': 'raw', 'data': data, 'bo': bo, 'offset': len(prefix) if rng.random() < 0.8 else rng.randrange(0, 20)}

def case_to_json(c):
    if c['kind'] == 'fourcc':
        return {'kind': 'fourcc', 'cc': c['cc'].hex(), 'bo': c['bo']}
    if c['kind'] == 'raw':
        return {'kind': 'raw', 'data': c['data'].hex(), 'bo': c['bo'], 'offset': c['offset']}
    return {'kind': 'movie', 'cs': [[a.hex(), b.hex(), p] for a, b, p in c['cs']], 'bo': c['bo'], 'prefix': c['prefix'].hex(),
            'flen': c['flen'], 'hdr': list(c['hdr']), 'entries': [[e[0].hex()] + list(e[1:]) for e in c['entries']]}

def case_from_json(j):
    if j['kind'] == 'fourcc':
        return {'kind': 'fourcc', 'cc': bytes.fromhex(j['cc']), 'bo': j['bo']}
    if j['kind'] == 'raw':
        return {'kind': 'raw', 'data': bytes.fromhex(j['data']), 'bo': j['bo'], 'offset': j['offset']}
    return {'kind': 'movie', 'cs': [(bytes.fromhex(a), bytes.fromhex(b), p) for a, b, p in j['cs']], 'bo': j['bo'],
            'prefix': bytes.fromhex(j['prefix']), 'flen': j['flen'], 'hdr': tuple(j['hdr']),
            'entries': [tuple([bytes.fromhex(e[0])] + e[1:]) for e in j['entries']]}

def describe(c):
    j = case_to_json(c)
    if c['kind'] == 'movie':
        j['cs'] = [[a, '%d bytes' % (len(b) // 2), p] for a, b, p in j['cs'][:6]]
        j['entries'] = j['entries'][:6]
        j['prefix'] = j['prefix'][:80]
    return j

def classify(c, ir):
    if c['kind'] != 'movie':
        return c['kind']
    return 'movie/%s/%s/chunks=%s' % ('LE' if c['bo'] else 'BE', 'exe' if c['prefix'] else 'plain',
                                      len(c['cs']) if len(c['cs']) < 5 else '5+')

def nontrivial(c, ir):
    return (c['kind'] == 'movie' and len(c['cs']) >= 3 and any(len(p) % 2 for _, p, _ in c['cs'])
            and (bool(c['prefix']) or c['bo'] == 1))

def movie_bytes(c):
    return c['prefix'] + enc_movie(c['bo'], c['flen'], c['cs'])

# ---- implementation
def impl_movie(data, bo, is_exe, base=0):
    from drxtract.riff.riff import parse_riff, find_riff_in_exe
    from drxtract.riff.imap import parse_imap
    from drxtract.riff.mmap import parse_mmap
    off = find_riff_in_exe(data)
    # the locator searches for the little-endian header only (Windows projectors); a big-endian movie
    # behind a prefix is parsed at its known offset, as parse_riff's offset parameter allows
    use = (off if bo == 1 else base) if is_exe else 0
    riff = parse_riff(data, use, P(bo))
    chunks = [[c.identifier.encode('latin-1'), bytes(c.data)] for c in riff.chunks]
    im = parse_imap(riff.chunks[0].data, P(bo))
    imv = [im.count, im.offset, im.file_version, im.reserved, im.unknown, im.reserved2]
    mchunk = riff.get_by_offset(im.offset - use)
    mm = parse_mmap(mchunk.data, P(bo))
    hdr = [mm.propertiesSize, mm.resourceSize, mm.maxResourceCount, mm.usedResourceCount, mm.firstJunkResourceID,
           mm.oldMemoryMapResourceID, mm.firstFreeResourceID]
    res = [[r.chunkID.encode('latin-1'), r.size, r.offset, r.flags, r.unused, r.nextResourceID] for r in mm.resources]
    look = []
    for r in mm.resources:
        try:
            ch = riff.get_by_offset(r.offset - use)
            look.append([ch.identifier.encode('latin-1'), bytes(ch.data)])
        except IndexError:
            look.append(None)
    return {'offset': off, 'chunks': chunks, 'imap': imv, 'hdr': hdr, 'res': res, 'look': look}

def impl_raw(data, bo, offset):
    from drxtract.riff.riff import parse_riff
    riff = parse_riff(data, offset, P(bo))
    return [[c.identifier.encode('latin-1'), bytes(c.data)] for c in riff.chunks]

def run_impl(c):
    if c['kind'] == 'fourcc':
        from drxtract.riff.riff_chunk import parse_chunk_id
        return call_impl(lambda: parse_chunk_id(b'zz' + c['cc'] + b'q', 2, P(c['bo'])).encode('latin-1'))
    if c['kind'] == 'raw':
        return call_impl(impl_raw, c['data'], c['bo'], c['offset'])
    return call_impl(impl_movie, movie_bytes(c), c['bo'], bool(c['prefix']), len(c['prefix']))

# ---- model
def model_request(c, ir):
    if c['kind'] == 'fourcc':
        return ('parse_chunk_id', [b'zz' + c['cc'] + b'q', 2, c['bo']])
    if c['kind'] == 'raw':
        return ('parse_riff', [c['data'], c['offset'], c['bo']])
    data = movie_bytes(c)
    base = len(c['prefix'])
    offs = offsets(c['cs'])
    mmap_payload = next(p for cc, p, _ in c['cs'] if cc == b'mmap' and len(p) >= 24 and p[:2] in (b'\x00\x18', b'\x18\x00'))
    return [('find_riff', data),
            ('riff_lookup', [data, base, c['bo'], [e[2] - base for e in c['entries']]]),
            ('parse_mmap', [mmap_payload, c['bo']]),
            ('parse_imap', [c['cs'][0][1], c['bo']]),
            ('enc_movie', [[[cc, p, pb] for cc, p, pb in c['cs']], c['bo'], c['flen']])]

def m_res(v):
    if v[0] == b'ok':
        return ('ok', v[1])
    return ('err',) if v[0] == b'err' else (v[0].decode(),)

def compare(c, ir, mv):
    if c['kind'] in ('fourcc', 'raw'):
        m = m_res(mv)
        if m[0] not in ('ok', 'err'):
            return 'model: %r' % (m,)
        if ir[0] != m[0]:
            return 'implementation %r vs model %r' % (ir[:2], m[:1])
        if ir[0] == 'ok':
            got = ir[1] if c['kind'] == 'fourcc' else [list(x) for x in ir[1]]
            if got != m[1]:
                return 'implementation %r vs model %r' % (got, m[1])
        return None
    find, look, mm, im, enc = [m_res(x) if x and isinstance(x[0], bytes) and x[0] in (b'ok', b'err', b'outoffuel') else x for x in mv]
    if enc[0] != movie_bytes(c)[len(c['prefix']):]:
        return 'specification encoder (Coq enc_movie) differs from the harness encoder'
    if enc[1] != offsets(c['cs']):
        return 'Coq offset_of differs from harness offsets'
    if ir[0] != 'ok':
        return None     # oracle already reported
    r = ir[1]
    if find != ('ok', r['offset']):
        return 'find_riff_in_exe: implementation %r vs model %r' % (r['offset'], find)
    if look[0] != 'ok':
        return 'model parse_riff failed: %r' % (look,)
    mlook = [None if x[0] != b'ok' else x[1] for x in look[1]]
    if mlook != r['look']:
        return 'get_by_offset results differ: implementation %r vs model %r' % (r['look'][:4], mlook[:4])
    if mm != ('ok', [r['hdr'], r['res']]):
        return 'parse_mmap differs: implementation %r vs model %r' % ((r['hdr'], r['res'][:3]), mm)
    if im != ('ok', r['imap']):
        return 'parse_imap differs: %r vs %r' % (r['imap'], im)
    return None

# ---- the property itself on the implementation's output
def oracle(c, ir):
    if c['kind'] == 'raw':
        return None
    if c['kind'] == 'fourcc':
        if ir[0] != 'ok':
            return 'FourCC %r (byte order %s): %r' % (c['cc'], P(c['bo']), ir[1:])
        exp = sanitize(orient(c['bo'], c['cc']))
        if ir[1] != exp:
            return 'FourCC %r reported as %r, expected %r' % (c['cc'], ir[1], exp)
        return None
    if ir[0] != 'ok':
        return 'well-formed movie rejected: %r' % (ir[1:],)
    r = ir[1]
    base = len(c['prefix'])
    if r['offset'] != base and c['bo'] == 1:
        return 'locator returned %d, first genuine header is at %d' % (r['offset'], base)
    exp_chunks = [[sanitize(cc), p] for cc, p, _ in c['cs']]
    if r['chunks'] != exp_chunks:
        k = next((i for i in range(min(len(exp_chunks), len(r['chunks']))) if r['chunks'][i] != exp_chunks[i]), None)
        return 'chunk walk: %d chunks (expected %d), first difference at %r' % (len(r['chunks']), len(exp_chunks), k)
    for ch in r['chunks']:
        if len(ch[0]) != 4 or any(b not in SAFE for b in ch[0]):
            return 'unsafe FourCC reported: %r' % (ch[0],)
    exp_res = [[sanitize(e[0])] + list(e[1:]) for e in c['entries']]
    if r['res'] != exp_res or tuple(r['hdr']) != tuple(c['hdr']):
        return 'memory map decoded wrongly'
    offs = offsets(c['cs'])
    for e, lk in zip(c['entries'], r['look']):
        rel = e[2] - base
        if rel in offs[:-1]:
            i = offs.index(rel)
            # consecutive zero-length... offsets are strictly increasing, so index is unique
            if lk != exp_chunks[i]:
                return 'resource at offset %d: returned %r, designated chunk is %r' % (e[2], lk and lk[0], exp_chunks[i][0])
        elif lk is not None:
            return 'offset %d is no chunk start but lookup returned %r' % (e[2], lk[0])
    return None

def shrink_candidates(c):
    if c['kind'] != 'movie':
        return
    # only shrink the prefix (chunk removal would invalidate the embedded mmap)
    p = c['prefix']
    for i in range(0, len(p), max(1, len(p) // 8)):
        d = dict(c); d['prefix'] = p[:i] + p[i + max(1, len(p) // 8):]
        base_delta = len(p) - len(d['prefix'])
        # re-base mmap offsets
        d2 = rebase(d, -base_delta)
        if d2 is not None:
            yield d2

def rebase(c, delta):
    try:
        bo = c['bo']
        cs = list(c['cs'])
        entries = [(e[0], e[1], e[2] + delta if e[2] >= len(c['prefix']) - delta else e[2]) + tuple(e[3:]) for e in c['entries']]
        mi = next(i for i, (cc, p, _) in enumerate(cs) if cc == b'mmap')
        mm = struct.pack(P(bo) + 'hhiiiii', *c['hdr'])
        for cc, size, off, fl, un, nx in entries:
            mm += orient(bo, cc) + struct.pack(P(bo) + 'iihhi', size, off, fl, un, nx)
        mm += b'\xaa' * (len(cs[mi][1]) - len(mm))
        cs[mi] = (b'mmap', mm, 0)
        im = list(struct.unpack(P(bo) + 'iiihhii', cs[0][1]))
        im[1] += delta
        cs[0] = (b'imap', struct.pack(P(bo) + 'iiihhii', *im), 0)
        d = dict(c); d['cs'] = cs; d['entries'] = entries
        return d
    except Exception:
        return None
