"""C18 - the container extractor writes exactly the designated resources inside <out>/bin."""
import os, shutil, struct, sys, tempfile
from framework import call_impl
from props import C01

BUDGET_S = {'quick': 90, 'thorough': 900}
BATCH = 60
RULE = ('movies of the C01 generator whose FourCC bytes are drawn from path-like material ("../", "/", NUL, "C:", '
        '"\\\\", ".", " ") as well as letters, with duplicate types and up to 300 resources; Mac, PC and projector '
        '(.EXE name + prefix with decoys) inputs; the bin folder starts absent, or holding an earlier revision of the movie '
        '(same names and sizes, other bytes), or leftovers of other sizes plus an unrelated file; every movie is extracted twice into the same scratch folder with the '
        'real main() under an audit hook recording every file opened for writing and every mkdir. Non-trivial = at least '
        '3 files written and at least one FourCC containing a byte outside [A-Za-z0-9]; distinct by SHA1.')
EXPLANATION = ('Theorems on the write-list model (coq/Model/Xtract.v): names safe, the write list is exactly the '
               'designated resources, re-applying the writes leaves the folder unchanged, a written name holds written content '
               'whatever the folder held before and other names are untouched. The OS part (what open() does '
               'with a name) is observed on the real run, not proved.')
TRUSTED_BASE = ['Coq 8.16.1 kernel; no axioms',
                'hand-written model coq/Model/Xtract.v + Riff.v; os.path.join/open/re.sub modelled (character class as a map)',
                'extraction + runner; harness tie/props/C18.py (audit hook, scratch folder comparison)']
ASSUMPTIONS = ['a file name made of [A-Za-z0-9._-] that starts with a digit designates a direct child of bin/ (true on POSIX and Windows)',
               'the process has a fresh module state per run (the CLI is one process per extraction)']
LEVEL_TEXT = ('Proof on the write-list model, partial w.r.t. the OS: Coq theorems that every file name consists of '
              '[A-Za-z0-9._-] and starts with a digit (hence is no path), that the write list is exactly one (name, payload) '
              'per non-ignored resource with size > 0 in memory-map order, that writing the list twice equals writing '
              'it once, and that a written name holds written content independently of the earlier folder content; the real main() is run in a scratch folder under an audit hook and compared with the model.')
LEVEL_NOTE = ('Trusted: Coq kernel, hand-written model, extraction, harness. What the model cannot exhibit: symlinks, '
              'case-folding file systems, OS path rules - covered only by observation of the real run.')
TECHNIQUE = 'Coq proof over the write-list model (induction over memory-map entries) + audited real runs compared with the model'

PATHY = [b'../.', b'/etc', b'..\\.', b'\x00abc', b'C:\\x', b'.   ', b'....', b'a/b/', b'~/.s', b'%s%d', b'\xff\xfe..', b'con ']

def pathy_cc(rng):
    r = rng.random()
    if r < 0.4:
        return rng.choice(PATHY)[:4].ljust(4, b'.')
    if r < 0.7:
        return rng.choice([b'CASt', b'BITD', b'CASt', b'free', b'junk', b'mmap', b'imap', b'RIFX'])
    return bytes(rng.choice(b'./\\\x00:ab~ \xff') for _ in range(4))

def gen_cases(rng, tier):
    n = 150 if tier == 'quick' else 3000
    old = C01.rand_cc
    C01.rand_cc = pathy_cc
    try:
        for k in range(n):
            mode = rng.choice(['mac', 'pc', 'exe'])
            bo = 0 if mode == 'mac' else 1
            prefix = b''
            if mode == 'exe':
                prefix = C01.rand_prefix(rng) or b'MZ\x90\x00'
            nch = rng.choice([0, 1, 2, 5, 13, 40]) if k % 8 else rng.choice([150, 300])
            cs, hdr, entries = C01.build_movie(rng, nch, bo, prefix)
            flen = C01.offsets(cs)[-1] - 8
            yield {'kind': 'movie', 'cs': cs, 'bo': bo, 'prefix': prefix, 'flen': flen, 'hdr': hdr, 'entries': entries,
                   'mode': mode, 'pre': rng.choice(['none', 'none', 'stale', 'mixed'])}
    finally:
        C01.rand_cc = old

def case_to_json(c):
    j = C01.case_to_json(c); j['mode'] = c['mode']; return j
def case_from_json(j):
    c = C01.case_from_json(j); c['mode'] = j['mode']; c['pre'] = j.get('pre', 'none'); return c
def describe(c):
    j = C01.describe(c); j['mode'] = c['mode']; j['pre'] = c.get('pre', 'none'); return j
def classify(c, ir):
    return '%s/pre=%s/chunks=%s' % (c['mode'], c.get('pre', 'none'), len(c['cs']) if len(c['cs']) < 6 else '6+')

IGNORED = (b'RIFX', b'imap', b'mmap', b'free', b'junk')
FN_OK = set(b'ABCDEFGHIJKLMNOPQRSTUVWXYZabcdefghijklmnopqrstuvwxyz0123456789-_.')

def expected_files(c):
    base = len(c['prefix'])
    offs = C01.offsets(c['cs'])
    out = {}
    for idx, e in enumerate(c['entries']):
        cc = C01.sanitize(e[0])
        if cc in IGNORED or e[1] <= 0:
            continue
        i = offs.index(e[2] - base)
        name = ('%d.' % idx).encode() + bytes(b if b in FN_OK else 0x5f for b in cc)
        out[name] = c['cs'][i][1]
    return out

def pre_files(c):
    """what the bin folder holds before the first run: nothing; 'stale' = an earlier revision of the same movie
    (same names, same sizes, other bytes); 'mixed' = leftovers of other sizes, some names absent, plus a file the
    movie does not name.  Derived from the case alone, so a replay rebuilds it."""
    mode = c.get('pre', 'none')
    if mode == 'none':
        return None
    exp = expected_files(c)
    out = {}
    for k, (name, data) in enumerate(sorted(exp.items())):
        if mode == 'stale':
            out[name] = bytes(b ^ 0x5a for b in data)
        elif k % 3 == 0:
            out[name] = bytes(b ^ 0x5a for b in data)
        elif k % 3 == 1:
            out[name] = data[:len(data) // 2] + b'old'
    if mode == 'mixed':
        out[b'notes.txt'] = b'not a resource of this movie'
    return out

def final_files(c):
    """the folder after a run = the earlier content overwritten by the movie's resources"""
    out = dict(pre_files(c) or {})
    out.update(expected_files(c))
    return out

def nontrivial(c, ir):
    exp = expected_files(c)
    return len(exp) >= 3 and any(not (bytes([b]).isalnum()) for e in c['entries'] for b in e[0])

# ---- real run under an audit hook
_events = []
_recording = [False]
def _hook(event, args):
    if not _recording[0]:
        return
    if event == 'open':
        path, mode, flags = args
        if isinstance(mode, str) and any(ch in mode for ch in 'wax+'):
            _events.append(('open', os.fsdecode(path) if isinstance(path, (bytes, str)) else repr(path)))
        elif mode is None and isinstance(flags, int) and flags & (os.O_WRONLY | os.O_RDWR | os.O_CREAT):
            _events.append(('open', os.fsdecode(path)))
    elif event in ('os.mkdir', 'os.remove', 'os.rename', 'os.rmdir', 'os.symlink', 'os.link', 'os.truncate', 'os.chmod', 'shutil.rmtree'):
        _events.append((event, os.fsdecode(args[0]) if isinstance(args[0], (bytes, str)) else repr(args[0])))
_installed = [False]

def read_tree(root):
    out = {}
    for dp, dn, fn in os.walk(root):
        for f in fn:
            p = os.path.join(dp, f)
            out[os.path.relpath(p, root)] = open(p, 'rb').read()
    return out

def real_run(c):
    import drxtract.riffxtract as rx
    if not _installed[0]:
        sys.addaudithook(_hook)
        _installed[0] = True
    top = tempfile.mkdtemp(prefix='c18_', dir='/tmp')
    try:
        outdir = os.path.join(top, 'out')
        os.mkdir(outdir)
        # a sentinel sibling that must stay untouched
        with open(os.path.join(top, 'sentinel'), 'wb') as f:
            f.write(b'keep')
        pre = pre_files(c)
        if pre is not None:
            os.mkdir(os.path.join(outdir, 'bin'))
            for name, data in pre.items():
                with open(os.path.join(outdir, 'bin', name.decode()), 'wb') as f:
                    f.write(data)
        src = os.path.join(top, 'movie.EXE' if c['mode'] == 'exe' else 'movie.dxr')
        with open(src, 'wb') as f:
            f.write(C01.movie_bytes(c))
        runs = []
        for rep in range(2):
            rx.byte_order = '>'; rx.byte_order_type = 'mac'      # fresh-process module state
            argv = sys.argv
            sys.argv = ['riffxtract', 'mac' if c['mode'] == 'mac' else 'pc', src, outdir]
            del _events[:]
            _recording[0] = True
            status = 'done'
            try:
                rx.main()
            except SystemExit as e:
                status = 'exit'
            except Exception as e:
                status = 'error:' + type(e).__name__
            finally:
                _recording[0] = False
                sys.argv = argv
            ev = list(_events)
            tree = read_tree(top)
            runs.append({'status': status, 'events': ev, 'tree': tree})
        return {'runs': runs, 'top': top, 'src': os.path.relpath(src, top)}
    finally:
        shutil.rmtree(top, ignore_errors=True)

def run_impl(c):
    return call_impl(real_run, c, timeout=60)

def model_request(c, ir):
    return ('extract', [C01.movie_bytes(c), c['bo'], 1 if c['mode'] == 'exe' else 0])

def compare(c, ir, mv):
    if ir[0] != 'ok':
        return None
    ws, st = mv
    fs = dict(pre_files(c) or {})
    for name, content in ws:
        fs[name] = content
    r = ir[1]['runs'][0]
    got = {k[len('out/bin/'):].encode(): v for k, v in r['tree'].items() if k.startswith('out/bin/')}
    if got != fs:
        return 'folder content differs from the model write list: impl files %r, model files %r' % (sorted(got)[:6], sorted(fs)[:6])
    if (r['status'] == 'done') != (st == 1):
        return 'status differs: implementation %s, model %s' % (r['status'], 'done' if st == 1 else 'aborted')
    return None

def oracle(c, ir):
    if ir[0] != 'ok':
        return 'extractor run failed: %r' % (ir[1:],)
    res = ir[1]
    top = res['top']
    exp = final_files(c)
    bin_prefix = os.path.join(top, 'out', 'bin') + os.sep
    for k, r in enumerate(res['runs']):
        if r['status'] != 'done':
            return 'run %d ended with %s on a well-formed movie' % (k + 1, r['status'])
        for ev, path in r['events']:
            ap = os.path.realpath(path)
            if ev == 'os.mkdir' and ap == os.path.realpath(os.path.join(top, 'out', 'bin')):
                continue
            if not ap.startswith(os.path.realpath(bin_prefix) + os.sep) or os.path.dirname(ap) != os.path.realpath(bin_prefix.rstrip(os.sep)):
                return 'run %d: %s on %r outside the bin folder' % (k + 1, ev, path)
        tree = r['tree']
        outside = {p: v for p, v in tree.items() if not p.startswith('out/bin/')}
        if set(outside) != {'sentinel', res['src']} or outside['sentinel'] != b'keep' or outside[res['src']] != C01.movie_bytes(c):
            return 'run %d: files outside bin/ created or modified: %r' % (k + 1, sorted(outside))
        got = {p[len('out/bin/'):].encode(): v for p, v in tree.items() if p.startswith('out/bin/')}
        if got != exp:
            missing = sorted(set(exp) - set(got))[:3]
            extra = sorted(set(got) - set(exp))[:3]
            wrong = sorted(n for n in set(got) & set(exp) if got[n] != exp[n])[:3]
            return 'run %d: folder content wrong: missing %r extra %r wrong-content %r' % (k + 1, missing, extra, wrong)
    if res['runs'][0]['tree'] != res['runs'][1]['tree']:
        return 'second run changed the folder content'
    return None
