"""C16 - styled text chunks (stxt.py) and font maps (fmap.py)."""
import os, struct
from framework import call_impl

BUDGET_S = {'quick': 60, 'thorough': 900}
BATCH = 300
RULE = ('styled-text chunks: text over every byte value (lengths 0..600), 0..40 style runs with field values over their '
        'full ranges (colours 0..255, sizes and starts signed 16 bit, all 8 flag combinations plus garbage high bits), '
        'text placed at an arbitrary stored offset; font maps with 0..30 fonts, unused capacity slots, names over all '
        'bytes stored at shuffled displacements; run font ids hitting and missing the map; encodings mac_roman / latin-1; '
        'a duplicate-id stream and a malformed stream compared model-vs-implementation only. Non-trivial = >= 2 runs with '
        'a known and an unknown font, or a font map with >= 2 fonts and an unused slot; distinct by SHA1.')
EXPLANATION = 'Round-trip theorems on the Gallina model (coq/Model/Text.v), unbounded in text length, number of runs and fonts.'
TRUSTED_BASE = ['Coq 8.16.1 kernel; no axioms',
                'hand-written model coq/Model/Text.v; style-run, font-map header and slot layouts regenerated from stxt.py/fmap.py on every run (coq/Gen/Gen_Layouts.v)',
                'Python codecs (mac_roman, latin-1) trusted: the model returns stored bytes, the harness compares with bytes.decode(encoding)',
                'extraction + runner; harness tie/props/C16.py']
ASSUMPTIONS = ['font ids in a font map are distinct (with duplicates the last entry wins; that stream is compared with the model only)']
LEVEL_TEXT = ('Proof: Coq round-trip theorems, unbounded in text length and in the number of style runs and fonts, that the '
              'decoded text is the stored byte range, that run i reports the stored start, size, flags and colour and the '
              'family of the font-map entry with its id (explicit unknown marker otherwise), and that a font map decodes to '
              'its (id, name) pairs in order with unused slots skipped. Tie: layouts regenerated from the source; '
              'differential run + direct oracle.')
LEVEL_NOTE = 'Trusted: Coq kernel, hand-written model + encoders, layout translator, extraction, harness, Python codecs. No axioms. Enc tie: enc_stxt / enc_fmap of the theorems are evaluated by coqc on the run\'s cases and compared with the harness encoder.'
TECHNIQUE = 'Coq round-trip proofs (layout lemma + induction over runs/fonts) + model/implementation correspondence'

def i16(rng):
    return rng.choice([0, 1, 12, 24, -1, 32767, -32768, rng.randrange(-2 ** 15, 2 ** 15)])
def i32(rng):
    return rng.choice([0, 1, -1, 2 ** 31 - 1, -2 ** 31, rng.randrange(-2 ** 31, 2 ** 31)])
def rbytes(rng, n):
    if rng.random() < 0.5:
        return bytes(rng.choice(b'Lorem ipsum dolor\r') for _ in range(n))
    return bytes(rng.randrange(256) for _ in range(n))

def gen_cases(rng, tier):
    n = 150 if tier == 'quick' else 5000
    for k in range(n):
        nf = rng.choice([0, 1, 2, 3, 8, 30])
        ids = rng.sample(range(-50, 400), nf)
        fonts = [[ids[i], rbytes(rng, rng.choice([0, 1, 5, 9, 40]))] for i in range(nf)]
        dup = (k % 10 == 9) and nf >= 2
        if dup:
            fonts[-1][0] = fonts[0][0]
        nr = rng.choice([0, 1, 2, 3, 10, 40])
        runs = []
        for _ in range(nr):
            fid = rng.choice(ids) if ids and rng.random() < 0.6 else rng.randrange(-60, 420)
            runs.append({'u': [i16(rng), i16(rng), i16(rng)], 'start': i16(rng), 'font': fid,
                         'fmt': rng.choice([0, 1, 2, 3, 4, 5, 6, 7, 0xF8, 0xFF, rng.randrange(256)]),
                         'u7': rng.randrange(256), 'size': i16(rng),
                         'rgb': [rng.randrange(256) for _ in range(3)], 'lo': [rng.randrange(256) for _ in range(3)]})
        yield {'kind': 'stxt', 'text': rbytes(rng, rng.choice([0, 1, 2, 11, 100, 600])), 'gap': rbytes(rng, rng.choice([0, 0, 4])),
               'fds': i32(rng), 'runs': runs, 'fonts': fonts, 'dup': dup, 'tail': rbytes(rng, rng.choice([0, 0, 3])),
               'enc': rng.choice(['mac_roman', 'mac_roman', 'latin-1'])}
        cap = nf + rng.choice([0, 0, 1, 5])
        order = list(range(nf)); rng.shuffle(order)
        yield {'kind': 'fmap', 'fonts': fonts if not dup else [[ids[i], fonts[i][1]] for i in range(nf)], 'cap': cap,
               'unk': [i16(rng) for _ in range(10)], 'slotunk': [i16(rng) for _ in range(cap)],
               'spare': [[i32(rng), i16(rng)] for _ in range(cap - nf)], 'order': order, 'pad': rng.choice([0, 0, 2]),
               'enc': rng.choice(['mac_roman', 'mac_roman', 'latin-1'])}
        if k % 3 == 0:
            c = {'kind': 'stxt', 'text': b'abc', 'gap': b'', 'fds': 0, 'runs': runs[:2], 'fonts': [], 'dup': False, 'tail': b'', 'enc': 'mac_roman'}
            d = enc(c) if rng.random() < 0.5 else enc({'kind': 'fmap', 'fonts': fonts[:3], 'cap': min(3, nf), 'unk': [0] * 10, 'slotunk': [0] * min(3, nf),
                                                       'spare': [], 'order': list(range(min(3, nf))), 'pad': 0, 'enc': 'mac_roman'})
            which = 'stxt' if d[:4] == b'\0\0\0\x0c' else 'fmap'
            r = rng.random()
            if r < 0.5 and d:
                d = d[:rng.randrange(len(d))]
            elif d:
                i = rng.randrange(len(d))
                d = d[:i] + bytes([rng.choice([0, 0xff, 0x80, 1])]) + d[i + 1:]
            yield {'kind': 'raw', 'parser': which, 'data': d}

def enc(c):
    if c['kind'] == 'raw':
        return c['data']
    if c['kind'] == 'stxt':
        idxb = 12 + len(c['gap'])
        d = struct.pack('>iii', idxb, len(c['text']), c['fds']) + c['gap'] + c['text'] + struct.pack('>h', len(c['runs']))
        for r in c['runs']:
            d += struct.pack('>hhhhhBBh', r['u'][0], r['start'], r['u'][1], r['u'][2], r['font'], r['fmt'], r['u7'], r['size'])
            d += bytes([r['rgb'][0], r['lo'][0], r['rgb'][1], r['lo'][1], r['rgb'][2], r['lo'][2]])
        return d + c['tail']
    fonts = c['fonts']
    nf, cap = len(fonts), c['cap']
    # basic data: names in shuffled order
    basic = b'\0' * c['pad']
    disp = [0] * nf
    for i in c['order']:
        disp[i] = len(basic)
        basic += struct.pack('>i', len(fonts[i][1])) + fonts[i][1]
    u = c['unk']
    header = struct.pack('>hhhhiihhhhhh', u[0], u[1], u[2], u[3], nf, cap, u[4], 8, u[6], u[7], u[8], u[9])
    for i in range(cap):
        if i < nf:
            header += struct.pack('>ihh', disp[i], c['slotunk'][i], fonts[i][0] if -32768 <= fonts[i][0] < 32768 else 0)
        else:
            sp = c['spare'][i - nf]
            header += struct.pack('>ihh', sp[0], c['slotunk'][i], sp[1])
    return struct.pack('>ii', len(header), len(basic)) + header + basic

def _tojson(o):
    if isinstance(o, (bytes, bytearray)):
        return {'$b': bytes(o).hex()}
    if isinstance(o, dict):
        return {k: _tojson(v) for k, v in o.items()}
    if isinstance(o, (list, tuple)):
        return [_tojson(v) for v in o]
    return o
def _fromjson(o):
    if isinstance(o, dict):
        if set(o) == {'$b'}:
            return bytes.fromhex(o['$b'])
        return {k: _fromjson(v) for k, v in o.items()}
    if isinstance(o, list):
        return [_fromjson(v) for v in o]
    return o
case_to_json = _tojson
case_from_json = _fromjson
def describe(c):
    j = _tojson(c)
    for k in ('runs', 'fonts'):
        if k in j and len(j[k]) > 3:
            j[k] = j[k][:3] + ['... %d' % len(j[k])]
    return j
def classify(c, ir):
    if c['kind'] == 'raw':
        return 'raw/' + c['parser']
    if c['kind'] == 'stxt':
        return 'stxt/runs=%s%s' % (len(c['runs']) if len(c['runs']) < 4 else '4+', '/dup-ids' if c['dup'] else '')
    return 'fmap/fonts=%s/spare=%d' % (len(c['fonts']) if len(c['fonts']) < 4 else '4+', c['cap'] - len(c['fonts']))
def nontrivial(c, ir):
    if c['kind'] == 'stxt':
        ids = {f[0] for f in c['fonts']}
        return len(c['runs']) >= 2 and any(r['font'] in ids for r in c['runs']) and any(r['font'] not in ids for r in c['runs'])
    if c['kind'] == 'fmap':
        return len(c['fonts']) >= 2 and c['cap'] > len(c['fonts'])
    return False

def with_enc(encname, fn):
    old = os.environ.get('DRX_ENCODING')
    os.environ['DRX_ENCODING'] = encname
    try:
        return fn()
    finally:
        if old is None:
            os.environ.pop('DRX_ENCODING', None)
        else:
            os.environ['DRX_ENCODING'] = old

def fontmap_py(c, encname):
    from drxtract.fmap import FontInfo
    return [FontInfo(name.decode('latin-1'), fid) for fid, name in c['fonts']]

def impl(c):
    from drxtract.stxt.stxt import parse_stxt_data
    from drxtract.fmap.fmap import parse_fmap_data
    encname = c.get('enc', 'mac_roman')
    if c['kind'] == 'stxt' or (c['kind'] == 'raw' and c['parser'] == 'stxt'):
        fm = fontmap_py(c, encname) if c['kind'] == 'stxt' else []
        r = with_enc(encname, lambda: parse_stxt_data(enc(c), fm))
        return [r['text'], [[bytes.fromhex(f['color'][1:]), f['start'], int(f['bold']), int(f['italic']), int(f['underline']),
                             f['font_size'], f['font_family']] for f in r['txt_format']]]
    r = with_enc(encname, lambda: parse_fmap_data(enc(c)))
    return [[f['name'], f['id']] for f in r]

def run_impl(c):
    return call_impl(impl, c)

def model_request(c, ir):
    if c['kind'] == 'stxt' or (c['kind'] == 'raw' and c['parser'] == 'stxt'):
        fm = [[name, fid] for fid, name in c['fonts']] if c['kind'] == 'stxt' else []
        return ('parse_stxt', [enc(c), fm])
    return ('parse_fmap', enc(c))

def compare(c, ir, mv):
    encname = c.get('enc', 'mac_roman')
    if mv[0] == b'ok':
        m = mv[1]
        try:
            if c['kind'] == 'stxt' or (c['kind'] == 'raw' and c['parser'] == 'stxt'):
                m = [m[0].decode(encname), [[r[0], r[1], r[2], r[3], r[4], r[5],
                                            (r[6][1].decode('latin-1') if r[6][0] == b'known' else 'unknown_%d' % r[6][1])] for r in m[1]]]
            else:
                m = [[x[0].decode(encname), x[1]] for x in m]
        except UnicodeDecodeError:
            return None if ir[0] == 'err' else 'codec rejects the bytes but the implementation returned a value'
        if ir[0] != 'ok':
            return 'implementation %r, model ok' % (ir[1:],)
        if ir[1] != m:
            return 'implementation %r vs model %r' % (str(ir[1])[:300], str(m)[:300])
        return None
    if mv[0] == b'err':
        return None if ir[0] == 'err' else 'model rejects, implementation returned %r' % (str(ir[1:])[:200],)
    return 'model: %r' % (mv,)

def oracle(c, ir):
    if c['kind'] == 'raw' or c.get('dup'):
        return None
    encname = c['enc']
    if ir[0] != 'ok':
        return '%s chunk rejected: %r' % (c['kind'], ir[1:])
    if c['kind'] == 'fmap':
        exp = [[name.decode(encname), fid] for fid, name in c['fonts']]
        if ir[1] != exp:
            return 'font map decoded to %r, stored %r' % (str(ir[1])[:300], str(exp)[:300])
        return None
    names = {fid: name.decode('latin-1') for fid, name in c['fonts']}
    exp = [c['text'].decode(encname),
           [[bytes(r['rgb']), r['start'], r['fmt'] & 1, (r['fmt'] >> 1) & 1, (r['fmt'] >> 2) & 1, r['size'],
             names.get(r['font'], 'unknown_%d' % r['font'])] for r in c['runs']]]
    if ir[1][0] != exp[0]:
        return 'text differs from the stored bytes read as %s' % encname
    if ir[1][1] != exp[1]:
        k = next(i for i in range(max(len(exp[1]), len(ir[1][1]))) if i >= len(exp[1]) or i >= len(ir[1][1]) or exp[1][i] != ir[1][1][i])
        return 'style run %d: decoded %r, stored %r' % (k, ir[1][1][k] if k < len(ir[1][1]) else None, exp[1][k] if k < len(exp[1]) else None)
    return None

def shrink_candidates(c):
    for k in ('runs', 'fonts'):
        if c['kind'] == 'stxt' and k in c:
            for i in range(len(c[k])):
                d = dict(c); d[k] = c[k][:i] + c[k][i + 1:]; yield d

# ---- enc tie: the Coq encoders of the round-trip theorems (Proofs/TextFacts.v) on the same structured cases
ENC_TIE_IMPORTS = ['Proofs.TextFacts']
def enc_tie_term(c):
    from framework import cz, cbytes, clist
    if c['kind'] == 'stxt':
        runs = clist([clist([cz(v) for v in (r['u'][0], r['start'], r['u'][1], r['u'][2], r['font'], r['fmt'], r['u7'], r['size'],
                                              r['rgb'][0], r['lo'][0], r['rgb'][1], r['lo'][1], r['rgb'][2], r['lo'][2])]) for r in c['runs']])
        return 'enc_stxt %s %s %s %s %s' % (cbytes(c['gap']), cbytes(c['text']), cz(c['fds']), runs, cbytes(c['tail'])), enc(c)
    if c['kind'] == 'fmap':
        fonts = c['fonts']
        nf, cap = len(fonts), c['cap']
        basic = b'\0' * c['pad']
        disp = [0] * nf
        for i in c['order']:
            disp[i] = len(basic)
            basic += struct.pack('>i', len(fonts[i][1])) + fonts[i][1]
        u = c['unk']
        hv = clist([cz(v) for v in (u[0], u[1], u[2], u[3], nf, cap, u[4], 8, u[6], u[7], u[8], u[9])])
        slots = []
        for i in range(cap):
            if i < nf:
                vals = (disp[i], c['slotunk'][i], fonts[i][0] if -32768 <= fonts[i][0] < 32768 else 0)
            else:
                sp = c['spare'][i - nf]
                vals = (sp[0], c['slotunk'][i], sp[1])
            slots.append('Build_slot %s []' % clist([cz(v) for v in vals]))
        return 'enc_fmap %s %s %s %s' % (hv, clist(slots[:nf]), clist(slots[nf:]), cbytes(basic)), enc(c)
    return None
