"""C13 - a decode result never depends on earlier calls, including failed ones."""
import struct
from framework import call_impl
from props import C06, C07, C08, C14, C15

BUDGET_S = {'quick': 120, 'thorough': 1500}
BATCH = 100
RULE = ('call histories of length 1..3 in ONE process without any reset: bitmap decodes of every depth (1, 4, 8, 16, 24, 32) '
        'drawn from valid images and from inputs that make the decoder raise at each possible point (truncation at every '
        'offset of a small compressed image, unsupported depth, palette of wrong length, size fields out of range), '
        'followed by a valid decode of the same and of other depths; sound, palette, score and cast-member decodes '
        'interleaved with failing ones. Non-trivial = a history whose last call follows a failed call of the same kind; '
        'distinct by SHA1.')
EXPLANATION = ('Theorem on the stateful model (every decoder object owns a buffer that a decode appends to): the result of the '
               'last call of any history equals the result of that call alone. The other decoder kinds keep no state between '
               'calls (checked by the translator: no attribute is assigned outside __init__ except Decoder.bytesIo).')
TRUSTED_BASE = ['Coq 8.16.1 kernel; no axioms', 'hand-written stateful model in coq/Model/Bitd.v (bitd_step, bitd_history)',
                'translator tie/gen_state.py: list of instance attributes assigned outside __init__ in the shared decoder/parser objects',
                'extraction + runner; harness tie/props/C13.py']
ASSUMPTIONS = ['module-level tables (DECODERS, SOUND_COMMANDS, PARSERS, CHANNEL_PARSERS) are not rebound at run time']
LEVEL_TEXT = ('Proof: Coq theorem over all call histories (any length, valid and failing calls) of the stateful bitmap-decoder '
              'model that the last result equals the result of the same call on fresh decoders; the other shared objects are '
              'shown stateless by a regenerated list of mutable attributes that is proved equal to the expected one. Tie: '
              'histories of length <= 3 are run in one process and compared with the model and with single calls.')
LEVEL_NOTE = 'Trusted: Coq kernel, hand-written model, state translator, extraction, harness. No axioms.'
TECHNIQUE = 'Coq proof by induction over the call history on an explicit buffer state + model/implementation correspondence on histories'

def small_image(rng, depth):
    return C06.mk(rng, depth, rng.choice([3, 4, 8, 9]), rng.choice([1, 2, 3]), rng.choice([0, 0, 1]), rng.choice([0, 0, 2]))

PALETTE_NAMES = ['systemMac', 'systemMac', 'systemWin', 'grayscale', 'none', '-66', 'default']
def bitd_call(c, palette=b'', name='systemMac', rng=None):
    bw, bh, depth, pw, ph, data = C06.args_of(c)
    if rng is not None:
        name = rng.choice(PALETTE_NAMES)       # named tables exist per depth; unknown names fall back to the default table
    return {'k': 'bitd', 'args': [bw, bh, depth, pw, ph, name, palette, data]}

def failing_bitd(rng):
    depth = rng.choice([1, 8, 8, 16, 32, 24, 4])
    base = small_image(rng, depth if depth not in (24, 4) else 32)
    call = bitd_call(base, rng=rng)
    call['args'][2] = depth
    r = rng.random()
    data = call['args'][7]
    if r < 0.45 and len(data) > 1:
        call['args'][7] = data[:rng.randrange(1, len(data))]          # truncation at some offset
    elif r < 0.6:
        call['args'][2] = rng.choice([2, 3, 5, 12, 0, -1])            # unsupported depth
    elif r < 0.8:
        call['args'][6] = bytes(rng.randrange(256) for _ in range(rng.choice([1, 100, 1023])))   # short palette
        call['args'][2] = 8
    elif r < 0.9:
        call['args'][0] = rng.choice([2 ** 31, 70000]); call['args'][1] = rng.choice([2 ** 31, 70000])   # size overflow
    else:
        call['args'][4] = rng.choice([-1, -3])                         # negative h_padding
    return call

def other_call(rng, fail):
    kind = rng.choice(['snd', 'clut', 'vwsc', 'cast'])
    if kind == 'snd':
        c = C07.mk(rng)
        d = C07.enc(c)
        if fail:
            d = d[:rng.randrange(2, max(3, len(d) - len(c['samples']) - 1))]
        return {'k': 'snd', 'data': d}
    if kind == 'clut':
        n = rng.choice([1, 5, 100]) if fail else 256 * 6
        return {'k': 'clut', 'data': bytes(rng.randrange(256) for _ in range(n))}
    if kind == 'vwsc':
        fs, cc = rng.choice([20, 24]), rng.choice([3, 5])
        frames = C08.rand_frames(rng, fs, cc, 3)
        prev = bytes(fs * cc); recs = []
        for f in frames:
            recs.append(C08.segment(rng, prev, f)); prev = f
        d = C08.enc_score({'fs': fs, 'cc': cc, 'wrapped': False, 'unk': [0, 0], 'tail': b'', 'nmarkers': 0, 'wmarker': 0, 'records': recs})
        if fail:
            d = d[:rng.randrange(21, len(d))]
            d = struct.pack('>i', len(d)) + d[4:]
        return {'k': 'vwsc', 'data': d}
    header, exp = C15.gen_header(rng, rng.choice(['bitmap', 'field', 'shape', 'button']))
    info, content = C15.gen_info(rng)
    d = C15.enc_member(rng.choice([4, 5]), 1, header, info)
    if fail:
        d = d[:rng.randrange(1, len(d))]
    return {'k': 'cast', 'data': d}

def gen_cases(rng, tier):
    # the same (named or unknown) palette asked for at two depths in one process; a 4-bit decode always fails part-way
    for d1, d2 in [(4, 8), (8, 4), (1, 8), (8, 1)]:
        for n1 in ['systemMac', 'systemWin', 'none', '-66']:
            for n2 in ['systemMac', 'systemWin', 'none', '-66']:
                c1 = bitd_call(small_image(rng, d1 if d1 != 4 else 8), name=n1); c1['args'][2] = d1
                c2 = bitd_call(small_image(rng, d2 if d2 != 4 else 8), name=n2); c2['args'][2] = d2
                yield {'hist': [c1, c2]}
    # every decoder kind, not only bitmaps: a call after a call of the SAME kind with a different shape, the first one
    # complete, failing in its header, or failing part-way (state written by the first call must not reach the second)
    def snd(kind):
        if kind == 'std':
            return C07.mk(rng, ext=False)
        bits, ch = {'e8': (8, 1), 'e8s': (8, 2), 'e16': (16, 1), 'e16s': (16, 2)}[kind]
        c = C07.mk(rng, ext=True, bits=bits, channels=ch)
        while len(c['samples']) < 4:
            c = C07.mk(rng, ext=True, bits=bits, channels=ch)
        return c
    for k1 in ('std', 'e8', 'e8s', 'e16', 'e16s'):
        for k2 in ('std', 'e8', 'e16s'):
            for cut in ('whole', 'header', 'samples'):
                c1 = snd(k1)
                d1 = C07.enc(c1)
                if cut == 'header':
                    d1 = d1[:max(2, len(d1) - len(c1['samples']) - len(c1['tail']) - 3)]
                elif cut == 'samples':
                    if len(c1['samples']) < 2:
                        continue
                    d1 = d1[:len(d1) - len(c1['tail']) - len(c1['samples']) // 2 - 1]
                yield {'hist': [{'k': 'snd', 'data': d1}, {'k': 'snd', 'data': C07.enc(snd(k2))}]}
    for kind_fail in (False, True):
        for _ in range(6 if tier == 'quick' else 60):
            for kd in ('clut', 'vwsc', 'cast'):
                a = b = None
                while a is None or a['k'] != kd:
                    a = other_call(rng, kind_fail)
                while b is None or b['k'] != kd:
                    b = other_call(rng, False)
                yield {'hist': [a, b]}
    n = 150 if tier == 'quick' else 4000
    for k in range(n):
        hist = []
        ln = rng.choice([2, 2, 3, 3])
        if k % 3 == 0:
            # the pattern of interest: a failed decode, then valid decodes of the same depth
            f = failing_bitd(rng)
            hist.append(f)
            d = f['args'][2] if f['args'][2] in (1, 8, 16, 32) else 8
            for _ in range(ln - 1):
                hist.append(bitd_call(small_image(rng, rng.choice([d, d, 1, 8, 16, 32])), rng=rng))
        else:
            for _ in range(ln):
                r = rng.random()
                if r < 0.3:
                    hist.append(failing_bitd(rng))
                elif r < 0.65:
                    hist.append(bitd_call(small_image(rng, rng.choice([1, 8, 16, 32])), rng=rng))
                else:
                    hist.append(other_call(rng, rng.random() < 0.4))
        yield {'hist': hist}

def _tojson(o):
    if isinstance(o, (bytes, bytearray)):
        return {'$b': bytes(o).hex()}
    if isinstance(o, dict):
        return {k: _tojson(v) for k, v in o.items()}
    if isinstance(o, (list, tuple)):
        return [_tojson(v) for v in o]
    return o
def _fromjson(o):
    if isinstance(o, dict):
        if set(o) == {'$b'}:
            return bytes.fromhex(o['$b'])
        return {k: _fromjson(v) for k, v in o.items()}
    if isinstance(o, list):
        return [_fromjson(v) for v in o]
    return o
case_to_json = _tojson
case_from_json = _fromjson
def describe(c):
    def d1(call):
        if call['k'] == 'bitd':
            a = call['args']
            return {'k': 'bitd', 'w': a[0], 'h': a[1], 'depth': a[2], 'pw': a[3], 'ph': a[4], 'palette_len': len(a[6]), 'data_len': len(a[7])}
        return {'k': call['k'], 'data_len': len(call['data'])}
    return [d1(x) for x in c['hist']]
def classify(c, ir):
    return '+'.join(x['k'] for x in c['hist'])

def one_call(call):
    k = call['k']
    if k == 'bitd':
        from drxtract.bitd.bitd2bmp import bitd2bmp
        bw, bh, depth, pw, ph, name, pal, data = call['args']
        cast = {'height': bh, 'width': bw, 'depth': depth, 'w_padding': pw, 'h_padding': ph, 'palette_txt': name}
        return bytes(bitd2bmp(cast, pal, data))
    if k == 'snd':
        return C07.impl(call['data'])
    if k == 'clut':
        from drxtract.clut.clut import clut2palette
        return bytes(clut2palette(call['data']))
    if k == 'vwsc':
        return C08.impl(call['data'])
    if k == 'cast':
        return C15.canon_top(C15.impl(call['data']))

def reset_all():
    import io
    from drxtract.bitd.bitd2bmp import DECODERS
    for dec in DECODERS.values():
        dec.bytesIo = io.BytesIO()

def simplify(r):
    return ('ok', r[1]) if r[0] == 'ok' else (r[0],)

def run_impl(c):
    reset_all()
    in_history = [simplify(call_impl(one_call, call)) for call in c['hist']]
    alone = []
    for call in c['hist']:
        reset_all()
        alone.append(simplify(call_impl(one_call, call)))
    reset_all()
    return ('ok', {'hist': in_history, 'alone': alone})

def nontrivial(c, ir):
    if ir[0] != 'ok':
        return False
    h = ir[1]['hist']
    ks = [x['k'] for x in c['hist']]
    return any(h[i][0] != 'ok' and ks[i] == ks[-1] for i in range(len(h) - 1))

def model_request(c, ir):
    calls = [x['args'][:5] + [x['args'][5].encode(), x['args'][6], x['args'][7]] for x in c['hist'] if x['k'] == 'bitd']
    return ('bitd_history', calls)

def compare(c, ir, mv):
    impl_b = [r for r, x in zip(ir[1]['hist'], c['hist']) if x['k'] == 'bitd']
    if len(mv) != len(impl_b):
        return 'model returned %d results for %d bitmap calls' % (len(mv), len(impl_b))
    for k, (a, m) in enumerate(zip(impl_b, mv)):
        if m[0] == b'ok':
            if a != ('ok', m[1]):
                return 'bitmap call %d of the history: implementation %s (%s bytes) vs model ok (%d bytes)' % (
                    k, a[0], len(a[1]) if a[0] == 'ok' else '-', len(m[1]))
        elif a[0] == 'ok':
            return 'bitmap call %d of the history: model rejects, implementation returned %d bytes' % (k, len(a[1]))
    return None

def oracle(c, ir):
    h, alone = ir[1]['hist'], ir[1]['alone']
    for k, (a, b) in enumerate(zip(h, alone)):
        if a != b:
            return 'call %d (%s) gives %s%s after the earlier calls but %s%s alone' % (
                k, c['hist'][k]['k'], a[0], ' %d bytes' % len(a[1]) if a[0] == 'ok' and isinstance(a[1], bytes) else '',
                b[0], ' %d bytes' % len(b[1]) if b[0] == 'ok' and isinstance(b[1], bytes) else '')
    return None

_PRISTINE = r"""
import sys, json
sys.path.insert(0, %r)
from props import C13
c = C13.case_from_json(json.loads(sys.stdin.read()))
r = C13.simplify(C13.call_impl(C13.one_call, c))
print(json.dumps(C13.case_to_json(list(r))))
"""
def pristine_call(call):
    """the result of one call in a fresh interpreter (no earlier call, no module state of this process)"""
    import subprocess, json as _json
    from framework import REPO
    tie = os.path.dirname(os.path.dirname(os.path.abspath(__file__)))
    try:
        p = subprocess.run([sys.executable, '-c', _PRISTINE % tie], input=_json.dumps(case_to_json(call)).encode(),
                           stdout=subprocess.PIPE, stderr=subprocess.DEVNULL, timeout=120, env=dict(os.environ, PYTHONPATH=REPO))
        return tuple(case_from_json(_json.loads(p.stdout.decode())))
    except Exception:
        return None

def judge(c, ir, mv):
    """the property itself first (history vs single calls of this process); when the model - which has no history - disagrees
    with a call of the history, that call is repeated in a pristine interpreter: module state the harness does not know of
    pollutes the single calls of this process as well"""
    out = []
    f = oracle(c, ir)
    if f:
        return [(f, 'property', None)]
    if mv is None:
        return out
    d = compare(c, ir, mv)
    if d:
        for k, call in enumerate(c['hist']):
            pr = pristine_call(call)
            if pr is not None and pr != ir[1]['hist'][k]:
                return [('call %d (%s) gives %s after the earlier calls of the history but %s in a fresh interpreter' % (
                    k, call['k'], describe_result(ir[1]['hist'][k]), describe_result(pr)), 'property', None)]
        out.append((d, 'correspondence', None))
    return out

def describe_result(r):
    return '%s%s' % (r[0], ' %d bytes' % len(r[1]) if r[0] == 'ok' and isinstance(r[1], (bytes, bytearray)) else '')

def shrink_candidates(c):
    h = c['hist']
    for i in range(len(h) - 1):
        yield {'hist': h[:i] + h[i + 1:]}
