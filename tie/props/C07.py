"""C07 - Mac 'snd ' decoding (snd/format.py, snd2sampled.py, command/bufferCmd.py, snd2wav.py)."""
import io, struct, wave
from framework import call_impl

BUDGET_S = {'quick': 90, 'thorough': 1200}
BATCH = 400
RULE = ('resources built from a spec: format {1,2} x 0-3 data-type records x 0-3 leading null commands x command '
        '{0x8051,0x8050} x header {standard, extended} x width {8,16} x channels 1..4 x 16.16 rate (boundary values, '
        'every rate 0..65535 in the thorough tier, a stride in the quick tier) x random samples incl. length 0; plus '
        'a malformed stream (truncations, corrupted fields) compared model-vs-implementation. Non-trivial = extended '
        'or 16-bit or rate >= 32768 or leading nulls; distinct by SHA1.')
EXPLANATION = ('Unbounded theorem on the Gallina model: for every spec, snd_to_sampled (enc spec) returns the header format '
               'and exactly the sample area (16-bit byte-swapped). WAV clause: real wave module round trip in the harness.')
TRUSTED_BASE = ['Coq 8.16.1 kernel; no axioms', 'hand-written model coq/Model/Snd.v and spec encoder',
                'Python wave module (WAV clause is checked by a real write/read round trip, not proved)',
                'extraction + runner; harness tie/props/C07.py']
ASSUMPTIONS = ['standard headers carry 8-bit mono data (the decoder keeps the defaults)', 'sample area present in full']
LEVEL_TEXT = ('Proof: Coq theorem, unbounded in sample count, number of data-type records and leading null commands, for '
              'every 16-bit unsigned rate (arithmetic lemma, not enumeration), both commands, both header kinds, both widths '
              'and any channel count, that decoding an encoded sampled-sound resource yields the header format and exactly '
              'the sample bytes (byte-swapped for 16 bit). The WAV clause is checked by a real wave write/read round trip on '
              'every generated case (the wave module is third-party runtime, partial).')
LEVEL_NOTE = 'Trusted: Coq kernel, hand-written model + encoder, extraction, harness, Python wave module. No axioms. Enc tie: the Coq encoder enc_snd of the theorem is evaluated by coqc on the run\'s structured cases and compared with the harness encoder.'
TECHNIQUE = 'Coq round-trip proof (layout lemma + induction over sample pairs) + model/implementation correspondence + real WAV round trip'

def enc(c):
    if c['kind'] == 'raw':
        return c['data']
    hdr = struct.pack('>h', c['fmt'])
    if c['fmt'] == 1:
        hdr += struct.pack('>h', len(c['dtypes']))
        for t, o in c['dtypes']:
            hdr += struct.pack('>hi', t, o)
    else:
        hdr += struct.pack('>h', c['refcount'])
    ncmd = len(c['nulls']) + 1
    cmds_len = 2 + 8 * ncmd
    off = len(hdr) + cmds_len + len(c['gap'])
    body = struct.pack('>h', ncmd)
    for p1, p2 in c['nulls']:
        body += struct.pack('>Hhi', 0, p1, p2)
    body += struct.pack('>Hhi', c['cmd'], c['p1'], off)
    samples = c['samples']
    if c['ext']:
        width = c['bits'] // 8
        nframes = len(samples) // (width * c['channels'])
        sh = struct.pack('>iiHhiiBB', 0, c['channels'], c['rate'], c['frac'], c['loop'][0], c['loop'][1], 0xFF, 60)
        sh += struct.pack('>i', nframes) + c['aiff'] + struct.pack('>iiihhiii', 0, 0, 0, c['bits'], 0, 0, 0, 0)
    else:
        sh = struct.pack('>iiHhiiBB', 0, len(samples), c['rate'], c['frac'], c['loop'][0], c['loop'][1], 0, 60)
    return hdr + body + c['gap'] + sh + samples + c['tail']

def mk(rng, rate=None, **kw):
    ext = kw.get('ext', rng.random() < 0.6)
    bits = kw.get('bits', rng.choice([8, 16])) if ext else 8
    ch = kw.get('channels', rng.choice([1, 1, 2, 3, 4])) if ext else 1
    nfr = rng.choice([0, 0, 1, 2, 3, 7, 50, rng.randrange(0, 400)])
    n = nfr * ch * (bits // 8)
    c = {'kind': 'snd', 'fmt': kw.get('fmt', rng.choice([1, 2])),
         'dtypes': [[rng.choice([1, 3, 5]), rng.choice([0, 0x80, 0xC0, 0xA0, -1])] for _ in range(rng.choice([0, 1, 1, 2, 3]))],
         'refcount': rng.choice([0, 1, -1]),
         'nulls': [[rng.randrange(-5, 5), rng.randrange(-9, 9)] for _ in range(rng.choice([0, 0, 1, 3]))],
         'cmd': kw.get('cmd', rng.choice([0x8051, 0x8050])), 'p1': rng.randrange(-3, 3),
         'gap': bytes(rng.randrange(256) for _ in range(rng.choice([0, 0, 5]))),
         'ext': ext, 'bits': bits, 'channels': ch,
         'rate': rate if rate is not None else rng.choice([0, 1, 5563, 11127, 22254, 32767, 32768, 44100, 48000, 65535, rng.randrange(65536)]),
         'frac': rng.randrange(-2 ** 15, 2 ** 15), 'loop': [rng.randrange(0, 100), rng.randrange(0, 100)],
         'aiff': bytes(rng.randrange(256) for _ in range(10)),
         'samples': bytes(rng.randrange(256) for _ in range(n)),
         'tail': bytes(rng.randrange(256) for _ in range(rng.choice([0, 0, 3])))}
    return c

def gen_cases(rng, tier):
    # the full factor grid
    for fmt in (1, 2):
        for cmd in (0x8051, 0x8050):
            for ext in (False, True):
                for bits in ((8, 16) if ext else (8,)):
                    for ch in ((1, 2, 3, 4) if ext else (1,)):
                        yield mk(rng, fmt=fmt, cmd=cmd, ext=ext, bits=bits, channels=ch)
    # rates: exhaustive in the thorough tier
    step = 1 if tier == 'thorough' else 257
    for r in range(0, 65536, step):
        yield mk(rng, rate=r, ext=bool(r & 1))
    n = 300 if tier == 'quick' else 8000
    for k in range(n):
        c = mk(rng)
        yield c
        if k % 4 == 0:
            d = enc(c)
            r = rng.random()
            if r < 0.45 and d:
                d = d[:rng.randrange(len(d))]
            elif d:
                i = rng.randrange(min(len(d), 90))
                d = d[:i] + bytes([rng.choice([0, 0xff, 0x80, 1, d[i] ^ 0x40])]) + d[i + 1:]
            if len(d) < 70000:
                yield {'kind': 'raw', 'data': d}

def case_to_json(c):
    j = dict(c)
    for k in ('gap', 'aiff', 'samples', 'tail', 'data'):
        if k in j:
            j[k] = j[k].hex()
    return j
def case_from_json(j):
    c = dict(j)
    for k in ('gap', 'aiff', 'samples', 'tail', 'data'):
        if k in c:
            c[k] = bytes.fromhex(c[k])
    return c
def describe(c):
    j = case_to_json(c)
    for k in ('samples', 'data'):
        if k in j and len(j[k]) > 64:
            j[k] = j[k][:64] + '... (%d bytes)' % (len(j[k]) // 2)
    return j
def classify(c, ir):
    if c['kind'] == 'raw':
        return 'raw'
    return 'fmt%d/%s/%dbit/ch%d/%s' % (c['fmt'], 'ext' if c['ext'] else 'std', c['bits'], c['channels'],
                                        'rate>=32768' if c['rate'] >= 32768 else 'rate<32768')
def nontrivial(c, ir):
    return c['kind'] == 'snd' and (c['ext'] or c['rate'] >= 32768 or bool(c['nulls']))

def impl(d):
    from drxtract.snd.snd2sampled import snd_to_sampled
    s = snd_to_sampled(d)
    return [s.num_channels, s.bits_per_sample, s.sample_rate, bytes(s.samples)]

def run_impl(c):
    return call_impl(impl, enc(c))

def model_request(c, ir):
    return ('snd_to_sampled', enc(c))

def compare(c, ir, mv):
    if mv[0] == b'ok':
        if ir[0] != 'ok':
            return 'implementation %r, model ok %r' % (ir[1:], mv[1][:3])
        if ir[1] != mv[1]:
            return 'implementation %r vs model %r' % (ir[1][:3] + [len(ir[1][3])], mv[1][:3] + [len(mv[1][3])])
        return None
    if mv[0] == b'err':
        return None if ir[0] == 'err' else 'model rejects, implementation returned %r' % (str(ir[1:])[:200],)
    return 'model: %r' % (mv,)

def swap16(b):
    return bytes(b[i ^ 1] for i in range(len(b)))

def wav_roundtrip(nch, bits, rate, samples):
    buf = io.BytesIO()
    w = wave.open(buf, 'w')
    try:
        w.setnchannels(nch)
        w.setsampwidth(int(bits / 8))
        w.setframerate(rate)
        w.writeframesraw(samples)
        w.writeframes(b'')
        w.close()
    except Exception:
        w._file = None      # keep Wave_write.__del__ quiet after a refused parameter
        raise
    buf.seek(0)
    r = wave.open(buf, 'r')
    out = (r.getnchannels(), r.getsampwidth() * 8, r.getframerate(), r.readframes(r.getnframes()))
    r.close()
    return out

def oracle(c, ir):
    if c['kind'] == 'raw':
        return None
    if ir[0] != 'ok':
        return 'well-formed sampled-sound resource rejected: %r' % (ir[1:],)
    nch, bits, rate, samples = ir[1]
    exp_s = swap16(c['samples']) if c['bits'] == 16 else c['samples']
    if (nch, bits, rate) != (c['channels'], c['bits'], c['rate']):
        return 'format: decoded channels/bits/rate %r, header says %r' % ((nch, bits, rate), (c['channels'], c['bits'], c['rate']))
    if samples != exp_s:
        return 'samples differ from the sample area (%d vs %d bytes)' % (len(samples), len(exp_s))
    try:
        back = wav_roundtrip(nch, bits, rate, samples)
    except Exception as e:
        return 'WAV write/read failed: %s: %s' % (type(e).__name__, e)
    if back != (nch, bits, rate, samples):
        return 'WAV round trip changed the sound: %r' % (back[:3],)
    return None

def known(c, fail):
    if c['kind'] == 'snd' and c['rate'] == 0 and fail.startswith('WAV write/read failed'):
        return 'C07-wav-rate-zero'
    return None

def shrink_candidates(c):
    if c['kind'] != 'snd':
        return
    if c['nulls']:
        d = dict(c); d['nulls'] = c['nulls'][1:]; yield d
    if c['dtypes']:
        d = dict(c); d['dtypes'] = c['dtypes'][1:]; yield d
    w = (c['bits'] // 8) * c['channels']
    if len(c['samples']) > w:
        d = dict(c); d['samples'] = c['samples'][:(len(c['samples']) // w // 2) * w]; yield d
    for k in ('gap', 'tail'):
        if c[k]:
            d = dict(c); d[k] = b''; yield d

# ---- enc tie: the Coq encoder of the theorem (Proofs/SndFacts.v enc_snd) on the same structured resources
ENC_TIE_IMPORTS = ['Model.Snd', 'Proofs.SndFacts']
def enc_tie_term(c):
    from framework import cz, cbytes, clist, cbool
    if c.get('kind') != 'snd' or c['cmd'] not in (0x8051, 0x8050):
        return None
    samples = c['samples']
    ext = c['ext']
    bits = c['bits'] if ext else 8
    ch = c['channels'] if ext else 1
    if ext:
        nframes = len(samples) // ((bits // 8) * ch)
    else:
        nframes = 0
    s16 = bits == 16
    snd = ('Build_snd_spec %s %s %s %s %s %s %s %s %s %s %s %s'
           % (cbool(ext), cz(ch), cz(bits), cz(c['rate']), cz(c['frac']), cz(c['loop'][0]), cz(c['loop'][1]), cz(nframes),
              cbytes(c['aiff'] if ext else b''), clist([cz(0)] * 7),
              cbytes(b'' if s16 else samples), '(to_pairs %s)' % cbytes(samples if s16 else b'')))
    t = ('enc_snd (Build_res_spec %s %s %s %s %s %s %s (%s) %s)'
         % (cbool(c['fmt'] == 1), clist(['(%s, %s)' % (cz(a), cz(b)) for a, b in c['dtypes']]), cz(c['refcount']),
            clist(['(%s, %s)' % (cz(a), cz(b)) for a, b in c['nulls']]), cbool(c['cmd'] == 0x8051), cz(c['p1']),
            cbytes(c['gap']), snd, cbytes(c['tail'])))
    return t, enc(c)
