"""C17 - index chunks (key, cas, lctx, lnam, vwlb, vwcf)."""
import os, struct
from framework import call_impl

BUDGET_S = {'quick': 90, 'thorough': 900}
BATCH = 300
RULE = ('tables built from entry lists: key tables (0-200 entries, ids over the signed 32-bit range with a bias to '
        'small positive owners so that grouping happens, FourCC bytes over all values, both byte orders, unused slots '
        'after the used ones), cast tables with 0-3 trailing bytes, script-context tables with the entry table at an '
        'arbitrary stored offset, name tables with names of length 0..255 over all byte values, marker lists with '
        'labels over all byte values, movie settings over every version-word class; plus a malformed stream '
        '(truncations and corrupted counts) compared model-vs-implementation only. Non-trivial = at least 2 entries '
        'and (for key) two links under one owner; distinct by SHA1.')
EXPLANATION = 'Round-trip theorems (unbounded entry counts, full field ranges) on the Gallina models of the six parsers.'
TRUSTED_BASE = ['Coq 8.16.1 kernel; no axioms',
                'hand-written models coq/Model/Index.v; palette-name table regenerated from common/constants.py on every run (coq/Gen/Gen_Common.v)',
                'Python codecs (mac_roman, latin-1) are trusted: the model returns stored bytes, the harness compares with bytes.decode(encoding)',
                'extraction + runner; harness tie/props/C17.py with its pinned reference palette-name table']
ASSUMPTIONS = ['names/labels are compared after decoding with the configured codec, which must accept the bytes']
LEVEL_TEXT = ('Proof: Coq round-trip theorems, unbounded in the number of entries and over the full field ranges, for the '
              'key table (both byte orders; grouping by owner in first-seen order), cast table, script-context table, '
              'name table, marker list and movie settings; the key-table theorem is stated for all but the last used '
              'entry, because the implementation drops it (open known finding, refutation witness proved). '
              'Tie: model/implementation differential run + direct oracle on the implementation.')
LEVEL_NOTE = ('Trusted: Coq kernel, hand-written models + spec encoders, translator for the palette-name table, extraction, '
              'harness, Python codecs. No axioms. Enc tie: enc_key / enc_cas / enc_lctx / enc_lnam / enc_vwlb of the theorems are evaluated by coqc on the run\'s tables and compared with the harness encoders.')
TECHNIQUE = 'Coq round-trip proofs by induction over the entry list + layout lemma; model/implementation correspondence'

PAL_REF = {-1: 'systemMac', -102: 'systemWin', -2: 'rainbow', -3: 'grayscale', -4: 'pastels', -5: 'vivid',
           -6: 'ntsc', -7: 'metallic', -8: 'web216', -101: 'systemWinDir4'}
SAFE = set(range(32, 123))
def sanitize(cc):
    return bytes(b if b in SAFE else 0x5f for b in cc)
def P(bo):
    return '<' if bo else '>'
def orient(bo, b):
    return b[::-1] if bo else b
def i32(rng):
    return rng.choice([0, 1, 2, 3, 5, 1024, -1, -5, 2 ** 31 - 1, -2 ** 31, rng.randrange(-2 ** 31, 2 ** 31)])
def cc4(rng):
    if rng.random() < 0.7:
        return rng.choice([b'CASt', b'BITD', b'STXT', b'snd ', b'CLUT', b'VWtk', b'Lscr'])
    return bytes(rng.randrange(256) for _ in range(4))

def gen_cases(rng, tier):
    n = 120 if tier == 'quick' else 6000
    for k in range(n):
        # key
        ne = rng.choice([0, 1, 2, 3, 5, 10, 40, 200]) if k % 7 else rng.randrange(0, 200)
        owners = [rng.randrange(1, 6) for _ in range(4)] + [1024, 2 ** 31 - 1]
        ents = []
        for _ in range(ne):
            r = rng.random()
            owner = rng.choice(owners) if r < 0.8 else i32(rng)
            nfile = rng.randrange(1, 300) if r < 0.85 else i32(rng)
            ents.append([nfile, owner, cc4(rng)])
        yield {'kind': 'key', 'bo': rng.randrange(2), 'hdr': [i32(rng), i32(rng)], 'entries': ents,
               'unused': rng.choice([0, 0, 1, 5])}
        yield {'kind': 'cas', 'vals': [i32(rng) for _ in range(rng.choice([0, 1, 2, 7, 50, 200]))],
               'tail': bytes(rng.randrange(256) for _ in range(rng.randrange(0, 4)))}
        ns = rng.choice([0, 1, 2, 9, 60, 200])
        yield {'kind': 'lctx', 'hdr': [i32(rng), i32(rng)], 'ns2': rng.choice([ns, i32(rng)]),
               'gap': rng.choice([0, 0, 2, 78]),
               'entries': [[rng.choice([0, 1, 5, 2 ** 32 - 1, rng.randrange(2 ** 32)]), i32(rng), i32(rng)] for _ in range(ns)]}
        nn = rng.choice([0, 1, 2, 5, 30, 200])
        names = []
        for _ in range(nn):
            ln = rng.choice([0, 1, 3, 8, 8, 20, 255])
            if rng.random() < 0.6:
                names.append(bytes(rng.choice(b'abcxyzNameOf_09') for _ in range(ln)))
            else:
                names.append(bytes(rng.randrange(256) for _ in range(ln)))
        fs = i32(rng)
        yield {'kind': 'lnam', 'hdr': [i32(rng), i32(rng), fs, fs, rng.randrange(-2 ** 15, 2 ** 15)], 'names': names,
               'enc': rng.choice(['mac_roman', 'mac_roman', 'latin-1']), 'tail': b'\0' * rng.choice([0, 3])}
        nm = rng.choice([0, 1, 2, 3, 10, 100])
        labels = []
        for _ in range(nm):
            ln = rng.choice([0, 1, 4, 12, 60])
            if rng.random() < 0.5:
                labels.append(bytes(rng.choice(b'intro loop END 12') for _ in range(ln)))
            else:
                labels.append(bytes(rng.randrange(256) for _ in range(ln)))
        yield {'kind': 'vwlb', 'markers': [[rng.choice([1, 2, 30, 32767, -32768, rng.randrange(-2 ** 15, 2 ** 15)]), l] for l in labels],
               'enc': rng.choice(['mac_roman', 'mac_roman', 'latin-1'])}
        # multi-byte encodings: the stored offsets are byte offsets, a label is its own bytes decoded
        menc = rng.choice(['shift_jis', 'utf-8', 'euc_kr'])
        alphabet = {'shift_jis': '\u958b\u59cb\u7d42\u4e86Play ab', 'utf-8': 'Men\u00fa\u2026 \u958b\u59cbok', 'euc_kr': '\uc2dc\uc791 \ub05d go'}[menc]
        mlabels = [''.join(rng.choice(alphabet) for _ in range(rng.choice([0, 1, 2, 4, 7]))).encode(menc) for _ in range(rng.choice([1, 2, 3, 6]))]
        yield {'kind': 'vwlb', 'markers': [[rng.choice([1, 2, 30, 100]), l] for l in mlabels], 'enc': menc}
        yield {'kind': 'lnam', 'hdr': [0, 0, 7, 7, 0], 'names': [l[:255] for l in mlabels], 'enc': menc, 'tail': b''}
        ver = rng.choice([0x0400, 0x04bf, 0x04c0, 0x04c5, 0x04c6, 0x04ff, 0x0500, 0x073a, 0x073b, 0x0742, 0x0743,
                          0x163c, 0x163d, 0x0300, -1, -32768, rng.randrange(-2 ** 15, 2 ** 15)])
        def i16():
            return rng.choice([0, 1, -1, 480, 640, 32767, -32768, rng.randrange(-2 ** 15, 2 ** 15)])
        yield {'kind': 'vwcf', 'version': ver, 'rect': [i16(), i16(), i16(), i16()], 'cast': [i16(), i16()], 'rate': i16(),
               'color': rng.randrange(256), 'pal4': rng.choice([0, -1, -2, -8, -100, -101, 1, 5, i16()]),
               'pal5': rng.choice([0, -1, -7, -101, 3, i16()]), 'len': rng.choice([80, 84, 100]),
               'fill': bytes(rng.randrange(256) for _ in range(100))}
        if k % 4 == 0:
            # marker tables whose name offsets are not in order (rejected since 3c0b99b) or reach outside the pool
            n = rng.randrange(1, 6)
            pool = bytes(rng.randrange(65, 91) for _ in range(rng.randrange(0, 12)))
            offs = [rng.choice([0, 1, len(pool), rng.randrange(0, len(pool) + 3), -1, -rng.randrange(1, 40)]) for _ in range(n + 1)]
            if rng.random() < 0.4:
                offs.sort()
            d = struct.pack('>h', n)
            for o in offs:
                d += struct.pack('>hh', rng.randrange(1, 50), o)
            yield {'kind': 'raw', 'parser': 'vwlb', 'data': d + pool, 'bo': 0}
        if k % 3 == 0:
            # malformed stream
            base = encode(rng.choice([c for c in [
                {'kind': 'key', 'bo': 0, 'hdr': [0, 0], 'entries': ents[:5], 'unused': 0},
                {'kind': 'lnam', 'hdr': [0, 0, 7, 7, 0], 'names': names[:4], 'enc': 'mac_roman', 'tail': b''},
                {'kind': 'vwlb', 'markers': [[1, b'ab'], [2, b'cde']], 'enc': 'mac_roman'},
                {'kind': 'lctx', 'hdr': [0, 0], 'ns2': 1, 'gap': 0, 'entries': [[1, 2, 3]]}]]))
            kind, data = base
            r = rng.random()
            if r < 0.5 and data:
                data = data[:rng.randrange(len(data))]
            elif data:
                i = rng.randrange(len(data))
                data = data[:i] + bytes([rng.choice([0, 0xff, 0x80, 1])]) + data[i + 1:]
            yield {'kind': 'raw', 'parser': kind, 'data': data, 'bo': rng.randrange(2)}

def encode(c):
    k = c['kind']
    if k == 'key':
        bo = c['bo']
        d = struct.pack(P(bo) + 'iii', c['hdr'][0], c['hdr'][1], len(c['entries']))
        for nfile, owner, cc in c['entries']:
            d += struct.pack(P(bo) + 'ii', nfile, owner) + orient(bo, cc)
        d += b'\0' * (12 * c['unused'])
        return 'key', d
    if k == 'cas':
        return 'cas', b''.join(struct.pack('>i', v) for v in c['vals']) + c['tail']
    if k == 'lctx':
        off = 18 + c['gap']
        d = struct.pack('>iiiih', c['hdr'][0], c['hdr'][1], len(c['entries']), c['ns2'], off) + b'\xee' * c['gap']
        for key, scr, unk in c['entries']:
            d += struct.pack('>Iii', key, scr, unk)
        return 'lctx', d
    if k == 'lnam':
        h = c['hdr']
        d = struct.pack('>iiiihh', h[0], h[1], h[2], h[3], h[4], len(c['names']))
        for nm in c['names']:
            d += bytes([len(nm)]) + nm
        return 'lnam', d + c['tail']
    if k == 'vwlb':
        n = len(c['markers'])
        pool = b''
        d = struct.pack('>h', n)
        for fr, lab in c['markers']:
            d += struct.pack('>hh', fr, len(pool))
            pool += lab
        d += struct.pack('>hh', 0, len(pool))
        return 'vwlb', d + pool
    if k == 'vwcf':
        ln = c['len']
        d = bytearray(c['fill'][:ln])
        d[0:2] = struct.pack('>h', ln)
        d[2:4] = struct.pack('>h', c['version'])
        d[4:12] = struct.pack('>hhhh', *c['rect'])
        d[12:16] = struct.pack('>hh', *c['cast'])
        d[16:18] = struct.pack('>h', c['rate'])
        d[27] = c['color']
        d[0x46:0x48] = struct.pack('>h', c['pal4'])
        d[0x4e:0x50] = struct.pack('>h', c['pal5'])
        return 'vwcf', bytes(d)
    if k == 'raw':
        return c['parser'], c['data']

def _hexify(o):
    if isinstance(o, (bytes, bytearray)):
        return {'$b': bytes(o).hex()}
    if isinstance(o, dict):
        return {k: _hexify(v) for k, v in o.items()}
    if isinstance(o, (list, tuple)):
        return [_hexify(v) for v in o]
    return o
def _unhex(o):
    if isinstance(o, dict):
        if set(o) == {'$b'}:
            return bytes.fromhex(o['$b'])
        return {k: _unhex(v) for k, v in o.items()}
    if isinstance(o, list):
        return [_unhex(v) for v in o]
    return o
def case_to_json(c):
    return _hexify(c)
def case_from_json(j):
    return _unhex(j)
def describe(c):
    j = _hexify(c)
    for k in ('entries', 'names', 'markers', 'vals'):
        if k in j and len(j[k]) > 5:
            j[k] = j[k][:5] + ['... %d in total' % len(j[k])]
    if 'fill' in j:
        j['fill'] = '...'
    return j
def classify(c, ir):
    return c['kind'] + ('/' + c['parser'] if c['kind'] == 'raw' else '')
def nontrivial(c, ir):
    k = c['kind']
    if k == 'key':
        owners = [o for nf, o, cc in c['entries'] if o > 0 and nf > 0]
        return len(owners) >= 2 and len(set(owners)) < len(owners)
    if k in ('cas',):
        return len(c['vals']) >= 2
    if k == 'lctx':
        return len(c['entries']) >= 2
    if k == 'lnam':
        return len(c['names']) >= 2
    if k == 'vwlb':
        return len(c['markers']) >= 2
    if k == 'vwcf':
        return True
    return False

# ---- implementation
def impl_parse(kind, data, bo, enc):
    old = os.environ.get('DRX_ENCODING')
    if enc:
        os.environ['DRX_ENCODING'] = enc
    try:
        if kind == 'key':
            from drxtract.key.key import parse_key_file_data
            r = parse_key_file_data(P(bo), data)
            return [[owner, [[ref['chunkID'].encode('latin-1'), ref['index']] for ref in refs]] for owner, refs in r.items()]
        if kind == 'cas':
            from drxtract.cas.cas import parse_cas_file_data
            return list(parse_cas_file_data(data))
        if kind == 'lctx':
            from drxtract.lctx.lctx import parse_lctx_file_data
            return [[e['key'], e['index']] for e in parse_lctx_file_data(data)]
        if kind == 'lnam':
            from drxtract.lingosrc.parse.lnam import parse_lnam_file_data
            return list(parse_lnam_file_data(data))
        if kind == 'vwlb':
            from drxtract.vwlb.vwlb import parse_vwlb_data
            return [[m['name'], m['frame']] for m in parse_vwlb_data(data)]
        if kind == 'vwcf':
            from drxtract.vwcf.vwcf import parse_vwcf_file_data
            r = parse_vwcf_file_data(data)
            return [r['version'].encode(), r['stageTop'], r['stageLeft'], r['stageBottom'], r['stageRight'],
                    r['castArrayStart'], r['castArrayEnd'], r['currentFrameRate'], r['stageColor'], r['palette'].encode()]
    finally:
        if old is None:
            os.environ.pop('DRX_ENCODING', None)
        else:
            os.environ['DRX_ENCODING'] = old

def run_impl(c):
    kind, data = encode(c)
    return call_impl(impl_parse, kind, data, c.get('bo', 0), c.get('enc'))

# ---- model
def model_request(c, ir):
    kind, data = encode(c)
    if kind == 'key':
        return ('parse_key', [data, c.get('bo', 0)])
    return ('parse_' + kind, data)

def compare(c, ir, mv):
    kind, data = encode(c)
    enc = c.get('enc') or 'mac_roman'
    if mv[0] == b'ok':
        m = mv[1]
        if kind == 'lnam':
            try:
                m = [x.decode(enc) for x in m]
            except UnicodeDecodeError:
                m = None
        elif kind == 'vwlb':
            try:
                m = [[x[0].decode(enc), x[1]] for x in m]
            except UnicodeDecodeError:
                m = None
        if m is None:
            return None if ir[0] == 'err' else 'codec rejects the bytes but the implementation returned a value'
        if ir[0] != 'ok':
            return 'implementation %r, model ok' % (ir[1:],)
        if ir[1] != m:
            return 'implementation %r vs model %r' % (str(ir[1])[:300], str(m)[:300])
        return None
    if mv[0] == b'err':
        return None if ir[0] == 'err' else 'model rejects, implementation returned %r' % (str(ir[1:])[:200],)
    return 'model: %r' % (mv,)

# ---- the property
def group(entries):
    out = []
    pos = {}
    for nfile, owner, cc in entries:
        if owner > 0 and nfile > 0:
            if owner not in pos:
                pos[owner] = len(out)
                out.append([owner, []])
            out[pos[owner]][1].append([sanitize(cc), nfile])
    return out

def version_class(v):
    major, minor = (v >> 8) & 0xff, v & 0xff
    if major == 4:
        return 'dir4' if minor < 0xC0 else 'dir5' if minor < 0xC6 else 'dir6'
    if major == 5:
        return 'dir7'
    if major == 7:
        return 'dir8' if minor <= 0x3A else 'dirMX' if minor <= 0x42 else 'unknown'
    if major == 0x16 and minor == 0x3C:
        return 'published'
    return 'unknown'

def pal_name(v):
    if v <= 0:
        v -= 1
    return PAL_REF.get(v, str(v))

def expected(c):
    k = c['kind']
    if k == 'key':
        return group(c['entries'])
    if k == 'cas':
        return c['vals']
    if k == 'lctx':
        return [[key, scr] for key, scr, unk in c['entries']]
    if k == 'lnam':
        return [n.decode(c['enc']) for n in c['names']]
    if k == 'vwlb':
        return [[lab.decode(c['enc']), fr] for fr, lab in c['markers']]
    if k == 'vwcf':
        vc = version_class(c['version'])
        pal = pal_name(c['pal4']) if vc == 'dir4' else pal_name(c['pal5']) if vc == 'dir5' else 'unknonw'
        return [vc.encode()] + c['rect'] + c['cast'] + [c['rate'], c['color'], pal.encode()]

def oracle(c, ir):
    if c['kind'] == 'raw':
        return None
    exp = expected(c)
    if ir[0] != 'ok':
        return '%s table rejected: %r' % (c['kind'], ir[1:])
    if ir[1] != exp:
        return '%s: decoded %r, encoded %r' % (c['kind'], str(ir[1])[:400], str(exp)[:400])
    return None

def known(c, fail):
    if c['kind'] == 'key' and c['entries']:
        ir = run_impl(c)
        if ir[0] == 'ok' and ir[1] == group(c['entries'][:-1]) and ir[1] != group(c['entries']):
            return 'C17-key-last-entry'
    return None

def shrink_candidates(c):
    for k in ('entries', 'names', 'markers', 'vals'):
        if k in c:
            l = c[k]
            for i in range(len(l)):
                d = dict(c); d[k] = l[:i] + l[i + 1:]
                yield d

# ---- enc tie: the Coq encoders of the round-trip theorems (Proofs/IndexFacts.v) on the same structured cases
ENC_TIE_IMPORTS = ['Proofs.IndexFacts']
def enc_tie_term(c):
    from framework import cz, cbytes, clist
    k = c['kind']
    if k == 'key':
        bo = 'Little' if c['bo'] else 'Big'
        es = clist(['Build_key_entry %s %s %s' % (cz(n), cz(o), cbytes(cc)) for n, o, cc in c['entries']])
        t = '(enc_key %s %s %s %s %s ++ %s)%%list' % (bo, cz(c['hdr'][0]), cz(c['hdr'][1]), cz(len(c['entries'])), es, cbytes(b'\0' * (12 * c['unused'])))
    elif k == 'cas':
        t = '(enc_cas %s ++ %s)%%list' % (clist([cz(v) for v in c['vals']]), cbytes(c['tail']))
    elif k == 'lctx':
        es = clist(['(%s, %s, %s)' % (cz(a), cz(b), cz(u)) for a, b, u in c['entries']])
        t = 'enc_lctx %s %s %s %s %s' % (cz(c['hdr'][0]), cz(c['hdr'][1]), cz(c['ns2']), cbytes(b'\xee' * c['gap']), es)
    elif k == 'lnam':
        h = c['hdr']
        if h[2] != h[3]:
            return None
        t = '(enc_lnam %s %s %s %s %s ++ %s)%%list' % (cz(h[0]), cz(h[1]), cz(h[2]), cz(h[4]), clist([cbytes(n) for n in c['names']]), cbytes(c['tail']))
    elif k == 'vwlb':
        t = 'enc_vwlb %s 0' % clist(['(%s, %s)' % (cbytes(l), cz(fr)) for fr, l in c['markers']])
    else:
        return None
    return t, encode(c)[1]
