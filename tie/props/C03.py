"""C03 - control-flow reconstruction restores the source nesting exactly."""
import lingo_harness as H
import lingo_spec as S
from props import C02 as P2

NEEDS_SPEC = True       # the spec tie runs the extracted specification side (runner/specrun)
BUDGET_S = {'quick': 300, 'thorough': 3400}
BATCH = 300
RULE = ('source handlers built from properly nested if / if-else / repeat while / repeat with (up, down, in list) / exit repeat, '
        'compiled with Director\'s scheme: exhaustively every skeleton with <= 2 compound constructs and bodies of 1-2 items plus every skeleton with <= 4 '
        'constructs and one-item bodies (quick); <= 5 constructs / one-item bodies and <= 3 constructs / 1-2 items (thorough); exit '
        'repeat at every legal position; random deeper / wider shapes (nesting to 6, bodies to 6 '
        'items, loop bodies up to the one-byte back-jump limit); while loops in near-counting form; list loops; constructs '
        'first, last or sole in a body; 1-3 handlers per script. The emitted Lingo is parsed back and compared with the '
        'source tree, and must contain no jz / jump line. Non-trivial = at least two compound constructs; distinct by SHA1.')
EXPLANATION = ('Coq: for every skeleton of the exhaustive enumeration up to the stated size (exit repeat at every legal position) the model '
               'decompiles exactly the source nesting, by computation inside the kernel; and an '
               'UNBOUNDED theorem for exit-free nests of if / if-else / repeat while / repeat with (up, down) over straight-line statements (any depth, any body length, any '
               'expression as condition): compiled code -> stack machine -> condition_detect / loop_detect yields exactly the '
               'source nesting (induction over the program and over the nesting depth); see coq/Props/PropC03.v.')
TRUSTED_BASE = P2.TRUSTED_BASE
ASSUMPTIONS = P2.ASSUMPTIONS + ['a while loop that is literally in counting-loop form (preceded by an assignment to its variable, condition <= or >=, last statement adds 1 or -1) is the same bytecode as repeat with and is printed as such (compilation is not injective there)']
LEVEL_TEXT = ('Proof: (1) unbounded, by induction: for every nest of if / if-else / repeat while / repeat with (up, down) over assignments and statement calls, '
              'with exit repeat at any place of a loop body (directly, in a then or else part, followed by further statements; out of plain and counting loops) - any depth, any '
              'number of statements, any expression as condition, only bounds the jump offsets of the format - the stack machine followed by '
              'condition_detect, break conversion and loop_detect rebuilds exactly the source nesting (C03_exit_free_nests_rebuilt_unbounded - the name is historical, it covers exits -, '
              'C03_counting_loops_rebuilt_unbounded, C03_passes_rebuild_any_nest). '
              '(2) bounded and exhaustive for the full construct set including list loops: a Coq theorem, by computation in the kernel '
              'over the faithful model of JumpOpcode / condition_detect / break_detect / loop_detect, that EVERY skeleton with at most 2 compound constructs (bodies of one or two items) '
              'and every skeleton with at most 4 constructs (one-item bodies) decompiles to exactly the source nesting; the bound is in the theorem statement. '
              'The correspondence check ties the model to /repo on the same enumeration (and one size further in the thorough tier) plus random deep shapes.')
LEVEL_NOTE = 'Until the repair ca070ba of /repo the full statement was refuted (four exit-repeat patterns, findings P1-P4, now fixed). Unbounded: if / if-else / repeat while / repeat with counting loops / exit repeat; repeat with ... in <list> is covered by the bounded theorem, the correspondence and the parser oracle. Spec tie: SpecFor.code2 / pp_q (the program and the text the theorems name) are extracted and compared with the harness compiler and the emitted text on every generated handler inside the fragment.'
TECHNIQUE = 'Coq proof by induction (if / if-else / repeat while / repeat with nests with exit repeat, unbounded) and by kernel computation (vm_compute) over an exhaustive bounded enumeration (full construct set, exact iff-characterisation) + model/implementation correspondence'

def gen_cases(rng, tier):
    seen = set()
    # (max compound constructs, max items per body)
    for n, maxlen in ([(2, 2), (4, 1)] if tier == 'quick' else [(2, 2), (5, 1), (3, 2)]):
        for sk, u in H.skeleton_bodies(n, False, maxlen):
            key = H.skeleton_str(sk)
            if key in seen:
                continue
            seen.add(key)
            yield {'tag': 'skeleton:' + key, 'script': H.skeleton_script(sk)}
    for i in range(1000 if tier == 'quick' else 20000):
        yield {'tag': 'deep', 'script': deep_script(rng)}
    for s in near_counting(rng):
        yield {'tag': 'near-counting', 'script': s}
    # the domain of the unbounded theorem: exit-free nests of if / if-else / repeat while / repeat with (up, down) over straight-line statements
    for i in range(150 if tier == 'quick' else 3000):
        yield {'tag': 'ifnest', 'script': ifnest_script(rng)}

def ifnest_body(g, cx, depth, budget, inloop=False):
    rng = g.rng
    out = []
    ed = [1] if inloop else [1, 2, 3]          # inside a loop the code has to stay under the one-byte back jump
    for _ in range(rng.choice([1, 1, 2] if inloop else [1, 1, 2, 3, 5])):
        if budget[0] <= 0:
            break
        budget[0] -= 1
        k = rng.random()
        if depth > 0 and k < 0.25:
            out.append(('if', g.expr(cx, rng.choice(ed)), ifnest_body(g, cx, depth - 1, budget, inloop)))
        elif depth > 0 and k < 0.45:
            out.append(('ife', g.expr(cx, rng.choice(ed)), ifnest_body(g, cx, depth - 1, budget, inloop), ifnest_body(g, cx, depth - 1, budget, inloop)))
        elif depth > 0 and k < 0.6:
            b2 = [min(budget[0], 5)]
            out.append(('while', ('bin', rng.choice(['lt', 'gt', 'ne', 'eq']), ('loc', cx['locals'][0]) if cx['locals'] else ('glob', 'gX'), g.expr(cx, 1)),
                        ifnest_body(g, cx, min(depth - 1, 2), b2, True)))
        elif depth > 0 and k < 0.7 and len(cx['locals']) > 1:
            b2 = [min(budget[0], 4)]
            v = cx['locals'][1 + (len(out) + depth) % (len(cx['locals']) - 1)]
            out.append((rng.choice(['with', 'down']), v, g.expr(cx, 1), g.expr(cx, 1), ifnest_body(g, cx, min(depth - 1, 2), b2, True)))
        else:
            out.append(g.simple(cx, 1 if inloop else rng.choice([1, 2])))
    return out or [g.simple(cx, 1)]

def ifnest_script(rng):
    g = H.Gen(rng)
    def body_fn(g_, cx):
        return ifnest_body(g, cx, rng.choice([3, 6, 9, 12]), [rng.choice([10, 40, 120])])
    return g.script(nh=rng.choice([1, 2]), kind=rng.choice(['plain', 'props']), body_fn=body_fn)

def deep_body(rng, depth, inloop, budget, lvl):
    """random body; budget[0] counts statements so that loop bodies stay under the one-byte back-jump limit"""
    out = []
    n = rng.choice([1, 1, 2, 3, 4, 6])
    for _ in range(n):
        if budget[0] <= 0:
            break
        budget[0] -= 1
        k = rng.random()
        if depth <= 0 or k < 0.35:
            if inloop and rng.random() < 0.15:
                out.append(('x',))
            else:
                out.append(('s',))
        elif k < 0.5:
            out.append(('if', deep_body(rng, depth - 1, inloop, budget, lvl)))
        elif k < 0.62:
            out.append(('ife', deep_body(rng, depth - 1, inloop, budget, lvl), deep_body(rng, depth - 1, inloop, budget, lvl)))
        else:
            kind = rng.choice(['while', 'with', 'down'])
            b2 = [min(budget[0], 9)]
            out.append((kind, deep_body(rng, depth - 1, True, b2, lvl + 1)))
            budget[0] -= (9 - b2[0]) if False else 0
    return out or [('s',)]

def deep_script(rng):
    hs = []
    for hn in rng.sample(['h', 'mouseUp', 'doIt'], rng.choice([1, 1, 2, 3])):
        sk = deep_body(rng, rng.choice([2, 3, 4, 6]), False, [rng.choice([6, 12, 30])], 0)
        body = H.skeleton_to_body(sk, [0, 0])
        hs.append({'name': hn, 'args': [], 'locals': ['c'] + H.LOOPVARS, 'body': body, 'method': False})
    return H.finish_script({'props': [], 'globals': [], 'factory': None, 'scr_num': 0, 'handlers': hs})

def near_counting(rng):
    out = []
    for cmp_ in ('lt', 'lte', 'gt', 'gte', 'ne', 'eq'):
        for step in (1, -1, 2, 0, -2):
            for init in (True, False):
                for order in ('ki', 'ik'):
                    inc = ('bin', 'add', ('int', step), ('loc', 'i')) if order == 'ki' else ('bin', 'add', ('loc', 'i'), ('int', step))
                    body = ([('set', ('loc', 'i'), ('int', 1))] if init else [('call', 'put', [('int', 0)])]) + [
                        ('while', ('bin', cmp_, ('loc', 'i'), ('int', 10)), [('call', 'put', [('loc', 'i')]), ('set', ('loc', 'i'), inc)])]
                    if init and order == 'ki' and ((cmp_ == 'lte' and step == 1) or (cmp_ == 'gte' and step == -1)):
                        continue          # literally a counting loop: same bytecode as repeat with
                    h = {'name': 'h', 'args': [], 'locals': ['i'], 'body': body, 'method': False}
                    out.append(H.finish_script({'props': [], 'globals': [], 'factory': None, 'scr_num': 0, 'handlers': [h]}))
    # list loops
    for inner in ([('call', 'put', [('loc', 'v')])], [('if', ('bin', 'gt', ('loc', 'v'), ('int', 3)), [('call', 'put', [('loc', 'v')])])],
                  [('call', 'put', [('loc', 'v')]), ('with', 'i', ('int', 1), ('int', 3), [('call', 'put', [('loc', 'i')])])]):
        for lst in (('list', [('int', 2), ('int', 4)]), ('loc', 'l'), ('glob', 'gList')):
            body = [('in', 'v', lst, inner), ('call', 'put', [('int', 1)])]
            h = {'name': 'h', 'args': [], 'locals': ['v', 'i', 'l'], 'body': body, 'method': False}
            out.append(H.finish_script({'props': [], 'globals': ['gList'], 'factory': None, 'scr_num': 0, 'handlers': [h]}))
    return out

case_to_json, case_from_json, describe = H.case_to_json, H.case_from_json, H.describe
run_impl, shrink_candidates = H.run_impl, H.shrink_candidates
model_request = H.model_req

def classify(c, ir):
    return c['tag'].split(':')[0]
def nontrivial(c, ir):
    import json
    txt = json.dumps(H.script_to_json(H.strip_names(c['script'])))
    return sum(txt.count('["%s"' % k) for k in ('if', 'ife', 'while', 'with', 'down', 'in')) >= 2

def judge(c, ir, ms):
    out = []
    if ir[0] == 'skip':
        return out
    if ir[0] != 'ok':
        return [('the decompiler raises on a compiled handler: %s' % (ir[2] if len(ir) > 2 else ir[0]), 'property', None)]
    lingo = ir[1][0]
    f = H.lingo_oracle(c['script'], lingo)
    mt = H.text_pair(ms)
    if f:
        out.append((f, 'property', None))
        return out
    if ms is not None:
        if mt is None:
            out.append(('model fails (%r) on a chunk the implementation decompiles' % (H.split_ms(ms)[0],), 'correspondence', None))
        elif mt[0] != lingo:
            out.append(('Lingo text differs from the model: ' + H.first_diff(lingo, mt[0]), 'correspondence', None))
        out += H.spec_verdicts(c, ir, ms)
    return out

def extra_evidence(tier):
    """what the spec tie (tie/spec_tie.py) compared in this run"""
    import spec_tie as ST
    return {'spec_tie': dict(ST.STATS, what='handlers inside the fragment of the theorems: code = bytes of SpecFor.code2 (Coq, extracted) '
                             'compared with the harness compiler; lingo / js = canonical texts pp_q / pp_js_q of the theorems compared with the '
                             'text the implementation emits (only when the boolean side conditions of the theorems hold)')}
