"""C08 - score delta decoding (vwsc.py parse_vwsc_file_data / parse_vwsc_data, *cparser.py)."""
import struct
from framework import call_impl

BUDGET_S = {'quick': 90, 'thorough': 1200}
BATCH = 120
RULE = ('frame sequences over 3..50 channels, both layouts (20/24 bytes), wrapped and unwrapped; every frame is encoded '
        'as a delta against the previous state with a random segmentation (minimal ranges, merged ranges with redundant '
        'bytes, overlapping ranges, full rewrites, split ranges) or as a "same as previous" record (also in first position); '
        'exhaustive single-range deltas (every offset x length) on 3-channel scores; plus a malformed stream compared '
        'model-vs-implementation. Non-trivial = at least 3 frames, a multi-range record and a "same" record; distinct by SHA1.')
EXPLANATION = ('Unbounded theorem on the Gallina model: decoding an encoded record list yields, for frame k, the channel fields '
               'of the state obtained by applying the deltas of records 1..k; hence any two encodings with equal states decode equally.')
TRUSTED_BASE = ['Coq 8.16.1 kernel; no axioms',
                'hand-written model coq/Model/Vwsc.v; the fixed-offset channel readers are regenerated from dir4cparser.py/dir5cparser.py on every run (coq/Gen/Gen_Layouts.v)',
                'extraction + runner; harness tie/props/C08.py']
ASSUMPTIONS = ['delta offsets below 32768 (the format stores them in a signed 16-bit field; scores have at most 50x24 bytes per frame)']
LEVEL_TEXT = ('Proof: Coq theorem, unbounded in the number of frames, channels and delta ranges per record, that the decoded '
              'frame k is the field view of the state after applying records 1..k (a "same" record repeats the previous '
              'frame), for both channel layouts, wrapped or not; corollary: two encodings with the same state sequence '
              'decode identically. Tie: channel layouts regenerated from the source; differential run + direct oracle.')
LEVEL_NOTE = 'Trusted: Coq kernel, hand-written model + record encoder, translator for channel layouts, extraction, harness. No axioms. Enc tie: the Coq encoders enc_inner / enc_rec of the theorems are evaluated by coqc on the run\'s record lists and compared with the harness encoder.'
TECHNIQUE = 'Coq proof by induction over records with the invariant "buffer = state k" + model/implementation correspondence'

def enc_record(rec):
    if rec == 'same':
        return struct.pack('>h', 2)
    body = b''
    for off, data in rec:
        body += struct.pack('>hh', len(data), off) + data
    return struct.pack('>h', 2 + len(body)) + body

def enc_score(c):
    body = b''.join(enc_record(r) for r in c['records'])
    inner_len = 20 + len(body)
    inner = struct.pack('>iiihhhh', inner_len, 0x14, len(c['records']), c['unk'][0], c['fs'], c['cc'], c['unk'][1]) + body
    if not c['wrapped']:
        return inner + c['tail']
    nm = c['nmarkers']
    outer_len = 24 + 4 * nm + len(inner) + len(c['tail'])
    return struct.pack('>iiiiii', outer_len, c['wmarker'], 7, nm, nm, 3) + b'\x11' * (4 * nm) + inner + c['tail']

def apply(state, rec):
    if rec == 'same':
        return state
    s = bytearray(state)
    for off, data in rec:
        s[off:off + len(data)] = data
    return bytes(s)

def states(c):
    st = bytes(c['fs'] * c['cc'])
    out = []
    for r in c['records']:
        st = apply(st, r)
        out.append(st)
    return out

def segment(rng, prev, new):
    """a random delta encoding of new against prev"""
    n = len(new)
    diff = [i for i in range(n) if prev[i] != new[i]]
    style = rng.random()
    if not diff:
        if style < 0.6:
            return 'same'
        o = rng.randrange(n); l = rng.randrange(1, min(8, n - o) + 1)
        return [(o, new[o:o + l])]
    if style < 0.15:
        return [(0, new)]                       # full rewrite
    # minimal runs
    runs = []
    s = diff[0]; e = diff[0]
    for i in diff[1:]:
        if i == e + 1:
            e = i
        else:
            runs.append((s, e + 1)); s = e = i
    runs.append((s, e + 1))
    if style < 0.4:
        merged = []
        for a, b in runs:                       # merge neighbours closer than 6 bytes (redundant bytes inside)
            if merged and a - merged[-1][1] < 6:
                merged[-1] = (merged[-1][0], b)
            else:
                merged.append((a, b))
        runs = merged
    elif style < 0.6:
        split = []
        for a, b in runs:                       # split long runs
            while b - a > 3 and rng.random() < 0.6:
                m = rng.randrange(a + 1, b)
                split.append((a, m)); a = m
            split.append((a, b))
        runs = split
    elif style < 0.8:
        runs = [(max(0, a - rng.randrange(0, 4)), min(n, b + rng.randrange(0, 4))) for a, b in runs]   # widened, may overlap
    rec = [(a, new[a:b]) for a, b in runs]
    if style >= 0.8 and rng.random() < 0.5:
        # an overwritten stale patch first, then the right bytes
        a, b = runs[0]
        rec.insert(0, (a, bytes((x + 1) % 256 for x in new[a:b])))
    elif style >= 0.8 and runs and runs[0][1] - runs[0][0] >= 2:
        # ranges sharing their start offset but not their length: the whole run with a wrong head, then the head corrected
        a, b = runs[0]
        h = rng.randrange(1, b - a)
        wrong = bytes((x + 7) % 256 for x in new[a:a + h]) + new[a + h:b]
        rec[0:1] = [(a, wrong), (a, new[a:a + h])]
    return rec

def rand_frames(rng, fs, cc, nframes):
    st = bytearray(fs * cc)
    frames = []
    for k in range(nframes):
        r = rng.random()
        if r < 0.2:
            pass
        else:
            for _ in range(rng.choice([1, 1, 2, 4])):
                ch = rng.randrange(cc)
                base = ch * fs
                q = rng.random()
                if q < 0.5:
                    o = rng.randrange(fs); st[base + o] = rng.randrange(256)
                elif q < 0.8:
                    for o in range(fs):
                        st[base + o] = rng.choice([0, 1, 2, rng.randrange(256)])
                else:
                    st[base:base + fs] = bytes(fs)
        frames.append(bytes(st))
    return frames

def gen_cases(rng, tier):
    # exhaustive single-range deltas on 3-channel scores
    for fs in (20, 24):
        n = fs * 3
        lens = range(1, n + 1) if tier == 'thorough' else [1, 2, 3, fs, fs + 1, n]
        for l in lens:
            offs = range(0, n - l + 1) if tier == 'thorough' else [0, 1, fs - 1, fs, 2 * fs, n - l]
            for o in offs:
                if 0 <= o <= n - l:
                    yield {'kind': 'score', 'fs': fs, 'cc': 3, 'wrapped': False, 'unk': [0, 0], 'tail': b'', 'nmarkers': 0, 'wmarker': 0,
                           'records': [[(o, bytes(((o + i) % 255) + 1 for i in range(l)))], 'same']}
    n = 150 if tier == 'quick' else 5000
    for k in range(n):
        fs = rng.choice([20, 24])
        cc = rng.choice([3, 3, 4, 8, 20, 50])
        frames = rand_frames(rng, fs, cc, rng.choice([1, 2, 3, 6, 12, 30]))
        for rep in range(2):       # two different encodings of the same frame sequence
            prev = bytes(fs * cc)
            recs = []
            for f in frames:
                recs.append(segment(rng, prev, f)); prev = f
            yield {'kind': 'score', 'fs': fs, 'cc': cc, 'wrapped': rng.random() < 0.4, 'unk': [rng.randrange(-5, 5), rng.randrange(-5, 5)],
                   'tail': b'\0' * rng.choice([0, 0, 4]), 'nmarkers': rng.choice([0, 1, 5]), 'wmarker': rng.choice([0, 1, 0x15, -1]),
                   'records': recs}
        if k % 3 == 0:
            d = enc_score({'kind': 'score', 'fs': fs, 'cc': cc, 'wrapped': False, 'unk': [0, 0], 'tail': b'', 'nmarkers': 0, 'wmarker': 0,
                           'records': recs[:4]})
            r = rng.random()
            if r < 0.4:
                d = d[:rng.randrange(len(d))]
                d = struct.pack('>i', len(d)) + d[4:] if len(d) >= 4 and rng.random() < 0.7 else d
            else:
                i = rng.randrange(8, len(d))
                d = d[:i] + bytes([rng.choice([0, 0xff, 0x80, 1, 2])]) + d[i + 1:]
            yield {'kind': 'raw', 'data': d}

def _tojson(o):
    if isinstance(o, (bytes, bytearray)):
        return {'$b': bytes(o).hex()}
    if isinstance(o, dict):
        return {k: _tojson(v) for k, v in o.items()}
    if isinstance(o, (list, tuple)):
        return [_tojson(v) for v in o]
    return o
def _fromjson(o):
    if isinstance(o, dict):
        if set(o) == {'$b'}:
            return bytes.fromhex(o['$b'])
        return {k: _fromjson(v) for k, v in o.items()}
    if isinstance(o, list):
        return [_fromjson(v) for v in o]
    return o
def case_to_json(c):
    return _tojson(c)
def case_from_json(j):
    c = _fromjson(j)
    if c['kind'] == 'score':
        c['records'] = [r if r == 'same' else [tuple(p) for p in r] for r in c['records']]
    return c
def describe(c):
    j = _tojson(c)
    if 'records' in j and len(j['records']) > 4:
        j['records'] = j['records'][:4] + ['... %d records' % len(j['records'])]
    return j
def classify(c, ir):
    if c['kind'] == 'raw':
        return 'raw'
    return 'fs%d/cc%s/%s/frames=%s' % (c['fs'], c['cc'] if c['cc'] < 5 else '5+', 'wrapped' if c['wrapped'] else 'plain',
                                      len(c['records']) if len(c['records']) < 4 else '4+')
def nontrivial(c, ir):
    return (c['kind'] == 'score' and len(c['records']) >= 3 and 'same' in c['records']
            and any(r != 'same' and len(r) >= 2 for r in c['records']))

def canon_dict(d):
    out = []
    for k, v in d.items():
        if isinstance(v, bool):
            v = [b'b', int(v)]
        elif isinstance(v, str):
            v = v.encode('latin-1')
        out.append([k.encode(), v])
    return out
def canon_entry(e):
    if e == []:
        return []
    return [canon_dict(e['main']), canon_dict(e['palette']), [canon_dict(s) for s in e['score']]]

def impl(d):
    from drxtract.vwsc.vwsc import parse_vwsc_file_data
    return [canon_entry(e) for e in parse_vwsc_file_data(d)]

def data_of(c):
    return c['data'] if c['kind'] == 'raw' else enc_score(c)

def run_impl(c):
    return call_impl(impl, data_of(c))

def model_request(c, ir):
    return ('parse_vwsc_file', data_of(c))

def compare(c, ir, mv):
    if mv[0] == b'ok':
        if ir[0] != 'ok':
            return 'implementation %r, model ok' % (ir[1:],)
        if ir[1] != mv[1]:
            k = next((i for i in range(min(len(ir[1]), len(mv[1]))) if ir[1][i] != mv[1][i]), None)
            return 'implementation and model differ (lengths %d/%d, first differing frame %r): %r vs %r' % (
                len(ir[1]), len(mv[1]), k, str(ir[1][k])[:300] if k is not None else '', str(mv[1][k])[:300] if k is not None else '')
        return None
    if mv[0] == b'err':
        return None if ir[0] == 'err' else 'model rejects, implementation returned a value'
    if mv[0] == b'outoffuel':
        return None if ir[0] == 'timeout' else 'model ran out of fuel, implementation %r' % (ir[0],)
    return 'model: %r' % (mv,)

# ---- the fields of a channel state, read independently of the implementation's channel parsers ----
# (offsets from the Director 4 / Director 5 score formats; only the transition names come from drxtract.common)
def _h(b, o):
    return struct.unpack('>h', bytes(b[o:o + 2]))[0]
def _op_name(code):
    op = (code >> 4) & 0xF
    if op & 8:
        return 'color_cycling_auto_reverse' if op & 1 else 'color_cycling_loop'
    if op & 4:
        return 'fade_to_black' if op & 2 else 'fade_to_white'
    return str(op)
def _transition_name(v):
    from drxtract.common import DIR_TRANSITION_NAMES
    return DIR_TRANSITION_NAMES[v] if v in DIR_TRANSITION_NAMES else str(v)
def ref_main(fs, b):
    if fs == 20:
        fps, s1, s2, script = b[4], _h(b, 6), _h(b, 8), _h(b, 16)
        if not (fps or s1 or s2 or script):
            return {}
        return {'fps': fps, 'transition_id': _transition_name(b[5]), 'sound1_cast': s1, 'sound2_cast': s2, 'script': script,
                'transition_chunk_size': b[3], 'transition_duration': b[2] & 0x7F}
    script, s1, s2, tc, fps = _h(b, 2), _h(b, 6), _h(b, 10), _h(b, 14), _h(b, 20)
    if not (fps or s1 or s2 or script):
        return {}
    return {'fps': fps, 'transition_cast_id': tc, 'sound1_cast': s1, 'sound2_cast': s2, 'script': script}
def ref_palette(fs, b):
    if fs == 20:
        pid, op, fps, cycles = _h(b, 0), b[4], b[5], _h(b, 8)
    else:
        pid, fps, op, cycles = _h(b, 2), b[4], b[5], _h(b, 10)
    if pid == 0:
        return {}
    return {'fps': fps, 'operation': _op_name(op), 'palette_id': pid, 'cycles': cycles}
def ref_sprite(fs, b):
    if fs == 20:
        cast = _h(b, 6)
        if cast <= 0:
            return {}
        flag2 = _h(b, 18) & 0xFFFF
        return {'spriteType': _h(b, 0), 'castId': cast, 'foregroundColor': b[2], 'backgroundColor': b[3], 'ink_type': b[5] % 64,
                'flags': b[4], 'y': _h(b, 8), 'x': _h(b, 10), 'height': _h(b, 12), 'width': _h(b, 14), 'trails': 0,
                'moveable': bool((flag2 >> 15) & 1), 'editable': bool((flag2 >> 14) & 1)}
    cast = _h(b, 4)
    if cast <= 0:
        return {}
    flag2 = _h(b, 20) & 0xFFFF
    return {'spriteType': _h(b, 2), 'castId': cast, 'foregroundColor': b[10], 'backgroundColor': b[11], 'ink_type': b[1] % 64,
            'y': _h(b, 12), 'x': _h(b, 14), 'height': _h(b, 16), 'width': _h(b, 18), 'trails': 0,
            'moveable': bool((flag2 >> 15) & 1), 'editable': bool((flag2 >> 14) & 1)}
def _sorted_entry(e):
    return [sorted(e[0]), sorted(e[1]), [sorted(x) for x in e[2]]]
def fields_of(fs, state, column):
    chans = [bytes(state[i:i + fs]) for i in range(0, len(state), fs)]
    return _sorted_entry([canon_dict(ref_main(fs, chans[0])), canon_dict(ref_palette(fs, chans[1])),
                          [canon_dict(ref_sprite(fs, ch)) for ch in chans[2:]]])

def oracle(c, ir):
    if c['kind'] == 'raw':
        return None
    if ir[0] != 'ok':
        return 'valid score rejected: %r' % (ir[1:],)
    sts = states(c)
    if len(ir[1]) != len(sts):
        return '%d frames decoded, %d records stored' % (len(ir[1]), len(sts))
    for k, st in enumerate(sts):
        exp = fields_of(c['fs'], st, k + 1)
        if ir[1][k] == [] or _sorted_entry(ir[1][k]) != exp:
            return 'frame %d differs from the fields of the state after records 1..%d' % (k + 1, k + 1)
    return None

def shrink_candidates(c):
    if c['kind'] != 'score':
        return
    r = c['records']
    for i in range(len(r) - 1, -1, -1):
        d = dict(c); d['records'] = r[:i] + r[i + 1:]; yield d
    for i in range(len(r)):
        if r[i] != 'same' and len(r[i]) > 1:
            for j in range(len(r[i])):
                d = dict(c); d['records'] = r[:i] + [r[i][:j] + r[i][j + 1:]] + r[i + 1:]; yield d

# ---- enc tie: the Coq encoder of the theorems (Proofs/VwscFacts.v enc_inner / enc_rec) on the same record lists
ENC_TIE_IMPORTS = ['Proofs.VwscFacts']
def enc_tie_term(c):
    from framework import cz, cbytes, clist
    if c.get('kind') != 'score':
        return None
    recs = clist(['RSame' if r == 'same' else 'RDelta %s' % clist(['(%s, %s)' % (cz(o), cbytes(d)) for o, d in r]) for r in c['records']])
    t = 'enc_inner %s %s %s %s %s %s' % (cz(c['fs']), cz(c['cc']), cz(len(c['records'])), cz(c['unk'][0]), cz(c['unk'][1]), recs)
    return t, enc_score(dict(c, wrapped=False, tail=b''))
