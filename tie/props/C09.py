"""C09 - score timeline spans (vwsc.py vwsc_to_score)."""
import math
from framework import call_impl

BUDGET_S = {'quick': 60, 'thorough': 600}
BATCH = 250
RULE = ('frame tables drawn from one PRNG: 0-40 frames x 0-6 channels; each channel is a random walk over '
        '{empty, same sprite, sprite with ONE attribute changed, unrelated sprite}; main/palette rows from '
        'small value pools so that equal neighbours are common; tables whose channels show the SAME sprites (shared pool of '
        '1-3 attribute tuples, staggered entries) so that identical sprites are stacked in several channels; plus a ragged-table stream. Non-trivial = at '
        'least one channel has a span of length >= 2 AND a gap or an attribute change; distinct by SHA1 of the case.')
EXPLANATION = ('Unbounded theorems (any number of frames/channels/any values) on the Gallina model of vwsc_to_score; '
               'the model is tied to the source by running both on the same tables, and the property is re-evaluated '
               'directly on the implementation output (reconstruction of the table from the spans).')
TRUSTED_BASE = ['Coq 8.16.1 kernel (vm_compute only in the Example); no axioms',
                'hand-written model coq/Model/RL.v, coq/Model/Score.v of vwsc.py:vwsc_to_score',
                'extraction (ExtrOcamlBasic, ExtrOcamlString) + runner/modelrun.ml',
                'harness tie/props/C09.py (generator, canonicalisation, oracle)',
                'math.ceil(a - w/2) modelled as a - floor(w/2): exact for |values| < 2^52']
ASSUMPTIONS = ['input is a decoded frame table as produced by the channel parsers: every main dict has all seven keys or none',
               'integers below 2^52 in magnitude (float division in the rectangle computation)']

ATTR_KEYS = ['castId', 'backgroundColor', 'foregroundColor', 'width', 'height', 'ink_type', 'spriteType',
             'x', 'y', 'editable', 'moveable', 'trails']
OUT_KEYS = ['castId', 'backColor', 'foreColor', 'width', 'height', 'ink', 'type', 'locH', 'locV',
            'editable', 'moveable', 'trails']

# ---- cases: {'frames': [ [main|None, pal|None, [attrs|None ...]] ... ]}
def rand_attrs(rng):
    return [rng.choice([1, 2, 3, 300]), rng.randrange(0, 3), rng.randrange(0, 3),
            rng.choice([0, 1, 7, 8, 9, -3, 640]), rng.choice([0, 1, 7, 8, 9, -5, 480]),
            rng.randrange(0, 3), rng.randrange(0, 3), rng.choice([-7, 0, 5, 100, 32767]),
            rng.choice([-8, 0, 6, 50, -32768]), rng.randrange(0, 2), rng.randrange(0, 2), rng.randrange(0, 2)]

def mutate_attr(rng, a):
    b = list(a)
    k = rng.randrange(12)
    if k in (9, 10, 11):
        b[k] = 1 - b[k]
    else:
        b[k] = b[k] + rng.choice([-1, 1])
        if k == 0 and b[k] <= 0:
            b[k] = 1
    return b

def gen_table(rng, nframes, nch):
    cols = []
    for j in range(nch):
        col = []
        cur = None
        for i in range(nframes):
            r = rng.random()
            if cur is None:
                cur = rand_attrs(rng) if r < 0.5 else None
            elif r < 0.55:
                pass
            elif r < 0.75:
                cur = mutate_attr(rng, cur)
            elif r < 0.9:
                cur = None
            else:
                cur = rand_attrs(rng)
            col.append(cur)
        cols.append(col)
    frames = []
    for i in range(nframes):
        if rng.random() < 0.6:
            main = [rng.choice([0, 0, 15, 30]), rng.choice(['', '0', 'wipe_right', '7']).encode(),
                    rng.choice([0, 0, 4, 4, 5, -1]), rng.choice([0, 9, 9, -2]), rng.choice([0, 0, 12, -4]),
                    rng.randrange(0, 3), rng.randrange(0, 4)]
        else:
            main = None
        pal = rng.choice([None, None, 3, -2, 0])
        frames.append([main, pal, [cols[j][i] for j in range(nch)]])
    return frames

def gen_table_stacked(rng, nframes, nch):
    """channels that show the SAME sprites (a pool of 1-3 attribute tuples shared by all channels), entering and
    leaving at different frames: a span of one channel must never be affected by an identical sprite in another one"""
    pool = [rand_attrs(rng) for _ in range(rng.choice([1, 1, 2, 3]))]
    cols = []
    for j in range(nch):
        col = []
        cur = None
        for i in range(nframes):
            r = rng.random()
            if cur is None:
                cur = rng.choice(pool) if r < 0.45 else None
            elif r < 0.7:
                pass
            elif r < 0.85:
                cur = None
            else:
                cur = rng.choice(pool)
            col.append(cur)
        cols.append(col)
    return [[None, None, [cols[j][i] for j in range(nch)]] for i in range(nframes)]

def gen_cases(rng, tier):
    n = 400 if tier == 'quick' else 20000
    for k in range(n // 2):
        yield {'frames': gen_table_stacked(rng, rng.choice([2, 3, 4, 6, 10, 20]), rng.choice([2, 3, 4, 6]))}
    # small exhaustive-ish shapes first
    for nframes in range(0, 5):
        for nch in range(0, 3):
            yield {'frames': gen_table(rng, nframes, nch)}
    for k in range(n):
        nframes = rng.choice([1, 2, 3, 5, 8, 13, 21, 40])
        nch = rng.choice([0, 1, 1, 2, 3, 6])
        frames = gen_table(rng, nframes, nch)
        if k % 25 == 7 and nframes >= 2 and nch >= 1:
            # ragged: one frame loses or gains a channel
            f = rng.randrange(nframes)
            if rng.random() < 0.5:
                frames[f][2] = frames[f][2][:-1]
            else:
                frames[f][2] = frames[f][2] + [rand_attrs(rng)]
        yield {'frames': frames}

def case_to_json(case):
    return {'frames': [[None if m is None else [m[0], m[1].hex()] + m[2:], p, s] for m, p, s in case['frames']]}

def case_from_json(j):
    return {'frames': [[None if m is None else [m[0], bytes.fromhex(m[1])] + m[2:], p, s] for m, p, s in j['frames']]}

def describe(case):
    fr = case['frames']
    return {'frames': len(fr), 'channels': len(fr[0][2]) if fr else 0,
            'first_frames': case_to_json({'frames': fr[:3]})['frames']}

def rectangular(case):
    fr = case['frames']
    if not fr:
        return True
    n = len(fr[0][2])
    return all(len(f[2]) >= n for f in fr)

def classify(case, ir):
    if not rectangular(case):
        return 'ragged'
    return 'frames=%s' % (len(case['frames']) if len(case['frames']) < 5 else '5+')

def nontrivial(case, ir):
    if ir[0] != 'ok':
        return False
    sprites = ir[1][8]
    for ch in sprites:
        if any(s[2] > s[1] for s in ch) and len(ch) >= 2:
            return True
    return False

# ---- implementation
def to_py(case):
    els = []
    for m, p, s in case['frames']:
        main = {}
        if m is not None:
            main = {'fps': m[0], 'transition_id': m[1].decode('latin-1'), 'sound1_cast': m[2], 'sound2_cast': m[3],
                    'script': m[4], 'transition_chunk_size': m[5], 'transition_duration': m[6]}
        pal = {} if p is None else {'palette_id': p, 'fps': 0, 'operation': '0', 'cycles': 0}
        score = []
        for a in s:
            if a is None:
                score.append({})
            else:
                d = dict(zip(ATTR_KEYS, a))
                d['editable'] = bool(d['editable'])
                d['moveable'] = bool(d['moveable'])
                d['flags'] = 0
                score.append(d)
        els.append({'main': main, 'palette': pal, 'score': score})
    return els

def canon_out(d):
    def spr(s):
        return [[int(s[k]) for k in OUT_KEYS], s['startFrame'], s['endFrame'], s['locZ'],
                s['left'], s['top'], s['right'], s['bottom']]
    return [d['lastChannel'], d['lastFrame'],
            [[t['frame'], t['transition_id'].encode('latin-1'), t['transition_chunk_size'], t['transition_duration']]
             for t in d['transition']],
            [[p['frame'], p['palette_id']] for p in d['palette']],
            [[s['startFrame'], s['endFrame'], s['castId']] for s in d['sound1']],
            [[s['startFrame'], s['endFrame'], s['castId']] for s in d['sound2']],
            [[t['frame'], t['fps']] for t in d['tempo']],
            [[t['frame'], t['castId']] for t in d['script']],
            [[spr(s) for s in ch] for ch in d['sprite']]]

def run_impl(case):
    from drxtract.vwsc.vwsc import vwsc_to_score
    r = call_impl(lambda: canon_out(vwsc_to_score(to_py(case))))
    return r

# ---- model
def model_request(case, ir):
    fr = [[[] if m is None else [m], [] if p is None else [p], [[] if a is None else [a] for a in s]]
          for m, p, s in case['frames']]
    return ('vwsc_to_score', fr)

def from_model(v):
    if v[0] == b'ok':
        return ('ok', v[1])
    if v[0] == b'err':
        return ('err', v[1].decode())
    return (v[0].decode(),)

def compare(case, ir, mv):
    m = from_model(mv)
    if ir[0] != m[0]:
        return 'implementation %s vs model %s' % (ir[:2] if ir[0] != 'ok' else 'ok', m[:2] if m[0] != 'ok' else 'ok')
    if ir[0] == 'ok' and ir[1] != m[1]:
        for k, name in enumerate(['lastChannel', 'lastFrame', 'transition', 'palette', 'sound1', 'sound2', 'tempo', 'script', 'sprite']):
            if ir[1][k] != m[1][k]:
                return 'field %s differs: implementation %r vs model %r' % (name, ir[1][k], m[1][k])
    return None

# ---- the property, evaluated directly on the implementation's output
def runs_of(col):
    """reference run-length view: maximal runs of equal non-None cells -> (start,end,value), 1-based"""
    res = []
    for i, c in enumerate(col):
        if c is None:
            continue
        if res and res[-1][1] == i and res[-1][2] == c:
            res[-1][1] = i + 1
        else:
            res.append([i + 1, i + 1, c])
    return res

def oracle(case, ir):
    if not rectangular(case):
        return None if ir[0] == 'err' else None   # outside the property's domain
    if ir[0] != 'ok':
        return 'implementation failed on a rectangular table: %r' % (ir,)
    o = ir[1]
    fr = case['frames']
    nch = len(fr[0][2]) if fr else 0
    if o[0] != nch or o[1] != len(fr) or len(o[8]) != nch:
        return 'lastChannel/lastFrame/sprite list size wrong'
    for j in range(nch):
        col = [f[2][j] for f in fr]
        spans = o[8][j]
        # reconstruct the column from the spans: lossless, unique cover, nothing on empty cells
        rec = [None] * len(fr)
        prev_end = 0
        prev_attrs = None
        for s in spans:
            attrs, st, en, locz, left, top, right, bottom = s
            if not (1 <= st <= en <= len(fr)):
                return 'channel %d: span outside table %r' % (j, s)
            if st <= prev_end:
                return 'channel %d: spans not ordered/disjoint' % j
            if st == prev_end + 1 and prev_attrs == attrs:
                return 'channel %d: spans not maximal at frame %d' % (j, st)
            prev_end, prev_attrs = en, attrs
            for k in range(st - 1, en):
                rec[k] = attrs
            if locz != j + 1:
                return 'channel %d: locZ %r' % (j, locz)
            w, h, lh, lv = attrs[3], attrs[4], attrs[7], attrs[8]
            if not (2 * lh - w <= 2 * left < 2 * lh - w + 2 and 2 * lv - h <= 2 * top < 2 * lv - h + 2
                    and right == left + w and bottom == top + h):
                return 'channel %d: rectangle inconsistent %r' % (j, s)
        if rec != col:
            k = next(i for i in range(len(fr)) if rec[i] != col[i])
            return 'channel %d frame %d: table cell %r but spans give %r' % (j, k + 1, col[k], rec[k])
    def ev(pick):
        return [[i + 1, pick(f)] for i, f in enumerate(fr) if pick(f) is not None]
    exp_tempo = ev(lambda f: f[0][0] if f[0] is not None and f[0][0] > 0 else None)
    exp_script = ev(lambda f: f[0][4] if f[0] is not None and f[0][4] > 0 else None)
    exp_pal = ev(lambda f: f[1])
    if o[6] != exp_tempo:
        return 'tempo events %r expected %r' % (o[6], exp_tempo)
    if o[7] != exp_script:
        return 'script events %r expected %r' % (o[7], exp_script)
    if o[3] != exp_pal:
        return 'palette events %r expected %r' % (o[3], exp_pal)
    for idx, k in ((4, 2), (5, 3)):
        col = [f[0][k] if f[0] is not None and f[0][k] > 0 else None for f in fr]
        if o[idx] != runs_of(col):
            return 'sound%d spans %r expected %r' % (idx - 3, o[idx], runs_of(col))
    return None

def shrink_candidates(case):
    fr = case['frames']
    for i in range(len(fr)):
        yield {'frames': fr[:i] + fr[i + 1:]}
    nch = len(fr[0][2]) if fr else 0
    for j in range(nch):
        yield {'frames': [[m, p, s[:j] + s[j + 1:]] for m, p, s in fr]}
    for i in range(len(fr)):
        if fr[i][0] is not None:
            yield {'frames': fr[:i] + [[None, fr[i][1], fr[i][2]]] + fr[i + 1:]}
        if fr[i][1] is not None:
            yield {'frames': fr[:i] + [[fr[i][0], None, fr[i][2]]] + fr[i + 1:]}

LEVEL_TEXT = ('Proof: unbounded Coq theorems (any number of frames and channels, any attribute values) that the '
              'run-length export is channel-independent, covers every occupied cell exactly once with the cell\'s '
              'attributes, covers no other cell, is ordered, disjoint and maximal, that rectangles satisfy the ceil '
              'equations, and that tempo/script/palette/transition events and merged sound spans sit at exactly the '
              'frames carrying them. The theorems are about a hand-written Gallina model of vwsc_to_score; the tie '
              'to the source is a differential check on seeded frame tables plus a direct oracle on the implementation.')
LEVEL_NOTE = ('Trusted: Coq kernel; the hand-written model (coq/Model/RL.v, Score.v) and its correspondence harness; '
              'extraction to OCaml; no axioms (every theorem closed under the global context). Inputs are frame tables '
              'whose main dicts have all seven keys or none; ints below 2^52.')
TECHNIQUE = 'Coq proof by loop invariant over frames (Inv: well-formed, sound, complete, maximal) + model/implementation correspondence'
