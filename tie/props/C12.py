"""C12 - decompiler output does not depend on what was generated or parsed before."""
import itertools, json, os, subprocess, sys, tempfile
import lingo_harness as H
import lingo_spec as S
import lingo_tools as T
from framework import call_impl, REPO
from props import C02 as P2

BUDGET_S = {'quick': 240, 'thorough': 2400}
BATCH = 60
RULE = ('histories: every sequence of generate-Lingo / generate-JS operations of length <= 3 (quick) / <= 4 (thorough) after one '
        'parse, for every fixture script (70), the 17 scripts embedded in the AppleGame movie, and generated scripts that cover '
        'every node class (operator core, the further instruction families, control flow, property scripts); every text is '
        'compared with the text of a fresh parse. Ordered pairs: a script decompiled after another one in the same process '
        '(all ordered pairs of a rotating sample, every fixture as predecessor) gives the texts it gives alone. Thorough: the two '
        'command-line tools are run on files in a scratch directory and compared with the library path. Non-trivial = a history '
        'of length >= 2 or a pair; distinct by SHA1.')
EXPLANATION = ('Coq: the tree updates made by the generators (use_parenthesis, use_hash, gv_as_sym, sorted globals) are explicit; '
               'theorems say no generator output changes under them (any sequence) and that the operand registers of the shared '
               'opcode objects never influence a parse; see coq/Props/PropC12.v.')
TRUSTED_BASE = P2.TRUSTED_BASE + ['the list of tree updates performed by the Python generators (coq/Model/LingoMut.v) is read off the source by hand; the history harness compares the real call sequences with it']
ASSUMPTIONS = ['aliasing between tree nodes (CopySymbol pushes the same object twice; local variable nodes are shared) is not modelled: the generators\' remaining updates are idempotent and depend only on the node itself']
LEVEL_TEXT = ('Proof: Coq theorems on the model with the generators\' tree updates made explicit: for every tree and every sequence of '
              'Lingo / JavaScript generations the texts equal those of a fresh tree (induction over the sequence from four '
              'commutation lemmas gen_x (mut_y t) = gen_x t, each by induction over the tree); and for every chunk the parse '
              'result is independent of the initial contents of the opcode operand registers (every operand read is preceded '
              'by a write in the same instruction: checked per table entry by computation, the table being regenerated from the '
              'source). Tie: real histories and script pairs are run against /repo and compared with fresh parses and the model.')
LEVEL_NOTE = 'The movie path (Lingo then JavaScript from one tree) and the two tools (one generation each) are the histories PLJ, PL, PJ.'
TECHNIQUE = 'Coq proof by induction over the call history (commutation of generators with their own tree updates; register independence per opcode table entry) + real call histories compared with fresh parses'

_FIX = []
def sources():
    """[(label, fdata, names)] fixtures + AppleGame scripts"""
    if _FIX:
        return _FIX
    from drxtract.lingosrc.parse import parse_lnam_file
    from drxtract.lingosrc.parse.lnam import parse_lnam_file_data
    for label, lnam, lscr, _, _ in T.fixtures(REPO):
        _FIX.append(('fixture:' + label, open(lscr, 'rb').read(), parse_lnam_file(lnam)))
    try:
        from drxtract.riff import parse_riff
        d = open(os.path.join(REPO, 'tests/files/riff/AppleGame/AppleGame.dir'), 'rb').read()
        r = parse_riff(d, 0, '>')
        names = None
        for c in r.chunks:
            if c.identifier == 'Lnam':
                names = parse_lnam_file_data(c.data)
        k = 0
        for c in r.chunks:
            if c.identifier == 'Lscr' and names is not None:
                _FIX.append(('applegame:%d' % k, c.data, names))
                k += 1
    except Exception as e:
        _FIX.append(('applegame-unavailable:' + repr(e)[:80], None, None))
    return _FIX

def gen_cases(rng, tier):
    maxlen = 3 if tier == 'quick' else 4
    seqs = [''.join(p) for n in range(1, maxlen + 1) for p in itertools.product('LJ', repeat=n)]
    srcs = [s for s in sources() if s[1] is not None]
    for label, fdata, names in srcs:
        yield {'kind': 'history', 'label': label, 'fdata': fdata, 'names': names, 'seqs': seqs}
    g = H.GenExt(rng)
    gens = []
    for i in range(120 if tier == 'quick' else 1500):
        k = i % 4
        if i % 8 == 5:
            s = g.factory_script()
        elif k == 0:
            s = g.ext_script()
        elif k == 1:
            s = g.script(depth=2, kind='props')
        elif k == 2:
            s = H.skeleton_script(rng.choice(SKEL))
        else:
            s = g.script(depth=3)
        try:
            fdata, names = H.compile_case(s)
        except S.SpecError:
            continue
        gens.append(('generated:%d' % i, fdata, names))
        yield {'kind': 'history', 'label': 'generated:%d' % i, 'fdata': fdata, 'names': names, 'seqs': seqs}
    # ordered pairs: every source after a rotating predecessor, and all ordered pairs of a sample
    allsrc = srcs + gens
    for i, (label, fdata, names) in enumerate(allsrc):
        pl, pf, pn = allsrc[(i * 7 + 3) % len(allsrc)]
        yield {'kind': 'pair', 'label': pl + ' -> ' + label, 'first': (pf, pn), 'fdata': fdata, 'names': names}
    sample = rng.sample(allsrc, min(len(allsrc), 12 if tier == 'quick' else 40))
    for a in sample:
        for b in sample:
            if a is not b:
                yield {'kind': 'pair', 'label': a[0] + ' -> ' + b[0], 'first': (a[1], a[2]), 'fdata': b[1], 'names': b[2]}
    # scripts that share NAMES in different roles: a name used as method selector / handler / variable in the first script
    # is used as a symbol literal, a variable, a property in the second one
    for i in range(40 if tier == 'quick' else 400):
        a = g.factory_script()
        b = role_swapped(a, rng)
        try:
            fa, na = H.compile_case(a)
            fb, nb = H.compile_case(b)
        except S.SpecError:
            continue
        yield {'kind': 'pair', 'label': 'factory:%d -> role-swapped' % i, 'first': (fa, na), 'fdata': fb, 'names': nb}
        yield {'kind': 'interleave', 'label': 'role-swapped around factory:%d' % i, 'first': (fa, na), 'fdata': fb, 'names': nb}
        yield {'kind': 'pair', 'label': 'role-swapped -> factory:%d' % i, 'first': (fb, nb), 'fdata': fa, 'names': na}
    if tier == 'thorough':
        for label, fdata, names in srcs[:40]:
            yield {'kind': 'cli', 'label': label, 'fdata': fdata, 'names': names}

def role_swapped(a, rng):
    """a plain script that uses the names of script a (methods, instance variables, locals, symbols) as symbol literals and
    variables"""
    pool = []
    H.walk_node(('tell', ('int', 0), [st for h in a['handlers'] for st in h['body']]), True, lambda n: pool.append(n) if n not in pool else None)
    pool += [h['name'] for h in a['handlers']] + a.get('props', [])
    pool = [n for n in dict.fromkeys(pool) if n.isidentifier() and n not in ('me', 'return', 'put')] or ['x1']
    body = []
    for n in pool[:12]:
        body.append(('call', 'put', [('sym', n)]))
    body.append(('set', ('loc', 'v'), ('list', [('sym', n) for n in pool[:6]])))
    body.append(('call', 'return', [('sym', pool[0])]))
    h = {'name': 'probe', 'args': [], 'locals': ['v'], 'body': body, 'method': False}
    return H.finish_script({'props': [], 'globals': [], 'factory': None, 'scr_num': 0, 'handlers': [h]})

SKEL = [sk for sk, u in H.skeleton_bodies(2, False, 2)][::37]

def case_to_json(c):
    j = {k: v for k, v in c.items() if k not in ('fdata', 'first')}
    j['fdata'] = c['fdata'].hex()
    if 'first' in c:
        j['first'] = [c['first'][0].hex(), c['first'][1]]
    return j
def case_from_json(j):
    c = dict(j)
    c['fdata'] = bytes.fromhex(j['fdata'])
    if 'first' in j:
        c['first'] = (bytes.fromhex(j['first'][0]), j['first'][1])
    return c
def describe(c):
    return {'kind': c['kind'], 'label': c['label'], 'bytes': len(c['fdata']), 'seqs': len(c.get('seqs', []))}
def classify(c, ir):
    return c['kind'] + ':' + c['label'].split(':')[0]
def nontrivial(c, ir):
    return True

def _gens():
    from drxtract.lingosrc.parse.lscr import parse_lrcr_file_data
    from drxtract.lingosrc.codegen.lingo import generate_lingo_code
    from drxtract.lingosrc.codegen.js import generate_js_code
    return parse_lrcr_file_data, {'L': generate_lingo_code, 'J': generate_js_code}

def _fresh(fdata, names):
    parse, G = _gens()
    return {'L': G['L'](parse(fdata, names)), 'J': G['J'](parse(fdata, names))}

def _history(c):
    parse, G = _gens()
    fresh = _fresh(c['fdata'], c['names'])
    bad = []
    for seq in c['seqs']:
        tree = parse(c['fdata'], c['names'])
        for i, op in enumerate(seq):
            try:
                out = G[op](tree)
            except Exception as e:
                bad.append((seq, i, 'raises %s: %s' % (type(e).__name__, e)))
                break
            if out != fresh[op]:
                bad.append((seq, i, H.first_diff(fresh[op], out)))
                break
    return fresh, bad

def _pair(c):
    parse, G = _gens()
    fresh = _fresh(c['fdata'], c['names'])
    try:
        t = parse(c['first'][0], c['first'][1])
        G['L'](t); G['J'](t)
    except Exception:
        pass
    after = _fresh(c['fdata'], c['names'])
    return fresh, [('after another script', k, H.first_diff(fresh[k], after[k])) for k in 'LJ' if fresh[k] != after[k]]

def _cli(c):
    fresh = _fresh(c['fdata'], c['names'])
    d = tempfile.mkdtemp(prefix='drxcli')
    bad = []
    try:
        # the Lnam chunk is rebuilt from the names (layout: 20-byte header, pascal strings)
        from drxtract.lingosrc.parse.lnam import parse_lnam_file_data
        lnam = build_lnam(c['names'])
        if parse_lnam_file_data(lnam) != list(c['names']):
            return fresh, []
        open(os.path.join(d, 's.Lscr'), 'wb').write(c['fdata'])
        open(os.path.join(d, 's.Lnam'), 'wb').write(lnam)
        env = dict(os.environ, PYTHONPATH=REPO)
        for mod, ext, k in (('drxtract.lscr2lingo', 'lingo', 'L'), ('drxtract.lscr2js', 'js', 'J')):
            p = subprocess.run([sys.executable, '-m', mod, d, 's.Lscr', os.path.join(d, 's.Lnam')], env=env,
                               stdout=subprocess.DEVNULL, stderr=subprocess.DEVNULL, timeout=120)
            path = os.path.join(d, 's.' + ext)
            got = open(path, 'rb').read().decode('utf-8') if os.path.exists(path) else '<no output file; exit %d>' % p.returncode
            if got != fresh[k]:
                bad.append(('tool ' + mod, k, H.first_diff(fresh[k], got)))
    finally:
        for fn in os.listdir(d):
            os.remove(os.path.join(d, fn))
        os.rmdir(d)
    return fresh, bad

def build_lnam(names):
    import struct
    body = b''
    for n in names:
        b = n.encode('mac_roman', 'replace')[:255]
        body += bytes([len(b)]) + b
    total = 20 + len(body)
    return struct.pack('>iiiihh', 0, 0, total, total, 20, len(names)) + body

def _interleave(c):
    """parse the script, decompile another one completely, then generate from the tree parsed before"""
    parse, G = _gens()
    fresh = _fresh(c['fdata'], c['names'])
    tree = parse(c['fdata'], c['names'])
    try:
        t = parse(c['first'][0], c['first'][1])
        G['L'](t); G['J'](t)
    except Exception:
        pass
    bad = []
    for k in 'LJ':
        out = G[k](tree)
        if out != fresh[k]:
            bad.append(('generated after another script was decompiled', k, H.first_diff(fresh[k], out)))
    return fresh, bad

def run_impl(c):
    fn = {'history': _history, 'pair': _pair, 'cli': _cli, 'interleave': _interleave}[c['kind']]
    return call_impl(fn, c, timeout=120)

def model_request(c, ir):
    if ir[0] != 'ok':
        return None
    codec, floats = T.oracles(c['fdata'])
    names = [n.encode('utf-8') for n in c['names']]
    if c['kind'] in ('pair', 'interleave'):
        c1, f1 = T.oracles(c['first'][0])
        return ('decompile_pair', [[bytes(c['first'][0]), [n.encode('utf-8') for n in c['first'][1]], c1, f1],
                                   [bytes(c['fdata']), names, codec, floats]])
    seqs = c.get('seqs', ['L', 'J'])
    return ('decompile_history', [bytes(c['fdata']), names, codec, floats, [s.encode() for s in seqs]])

def judge(c, ir, ms):
    out = []
    if ir[0] != 'ok':
        # a script the decompiler cannot process at all says nothing about histories
        return out
    fresh, bad = ir[1]
    for seq, i, what in bad[:1]:
        out.append(('history %s, operation %s: the text differs from the text of a fresh parse: %s' % (seq, i, what), 'property', None))
    if out or ms is None:
        return out
    if ms[0] != b'ok':
        out.append(('model fails (%r) on a chunk the implementation decompiles' % (ms[:2],), 'correspondence', None))
        return out
    # the model's texts: for every history every generation, in order
    for entry in ms[1]:
        k = entry[0].decode()
        txt = entry[1].decode('utf-8', 'replace')
        if txt != fresh[k]:
            # is it the process history?  decompile the same chunk once in a pristine interpreter
            pr = pristine(c['fdata'], c['names'])
            if pr is not None and pr.get(k) is not None and pr[k] != fresh[k]:
                out.append(('the %s text of this script in this process differs from its text in a fresh process (it depends on the '
                            'scripts decompiled earlier): %s' % ('Lingo' if k == 'L' else 'JavaScript', H.first_diff(pr[k], fresh[k])),
                            'property', None))
            else:
                out.append(('model text (%s) differs from the implementation: %s' % (k, H.first_diff(fresh[k], txt)), 'correspondence', None))
            break
    return out

_PRISTINE = r'''
import sys, json, logging
logging.disable(logging.CRITICAL)
from drxtract.lingosrc.parse.lscr import parse_lrcr_file_data
from drxtract.lingosrc.codegen.lingo import generate_lingo_code
from drxtract.lingosrc.codegen.js import generate_js_code
j = json.load(sys.stdin)
d = bytes.fromhex(j['fdata'])
out = {}
for k, g in (('L', generate_lingo_code), ('J', generate_js_code)):
    try:
        out[k] = g(parse_lrcr_file_data(d, j['names']))
    except Exception as e:
        out[k] = None
json.dump(out, sys.stdout)
'''
def pristine(fdata, names):
    try:
        p = subprocess.run([sys.executable, '-c', _PRISTINE], input=json.dumps({'fdata': fdata.hex(), 'names': list(names)}).encode(),
                           stdout=subprocess.PIPE, stderr=subprocess.DEVNULL, timeout=120, env=dict(os.environ, PYTHONPATH=REPO))
        return json.loads(p.stdout.decode())
    except Exception:
        return None
