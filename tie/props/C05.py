"""C05 - whole-movie assembly (dir/dir.py parse_dir_file_data)."""
import struct
from framework import call_impl
from props import C01, C06, C07, C08, C09, C14, C15, C16, C17

BUDGET_S = {'quick': 150, 'thorough': 1800}
BATCH = 40
RULE = ('synthesised movies: 0-8 cast slots (empty slots, bitmap 1/8/16/32 bit, field with styled text, sound, palette, '
        'button, shape, script members) in any order, resource ids assigned by shuffling the memory map, key entries in '
        'shuffled order, members with 0-3 linked resources, bitmaps referencing a custom palette stored before or after '
        'them or a system palette, optional Lctx/Lnam/scripts (with continuation scripts)/VWLB/VWSC/Fmap chunks, both '
        'byte orders, with and without an executable prefix. The decompiler is replaced by a tagging function in both '
        'the implementation run and the model. Non-trivial = >= 3 members, >= 1 member with 2 links; distinct by SHA1.')
EXPLANATION = ('Theorems on the Gallina composition model (coq/Model/Dir.v): the assembly is a function of the decoded container, '
               'memory map and key table; a slot depends only on its own key links; Mac and PC encodings assemble identically.')
TRUSTED_BASE = ['Coq 8.16.1 kernel; no axioms',
                'hand-written composition model coq/Model/Dir.v over the chunk models of C01/C06/C07/C08/C09/C14/C15/C16/C17',
                'the Lingo decompiler is a parameter of the model (instantiated by the same tagging function on both sides)',
                'extraction + runner; harness tie/props/C05.py (movie synthesiser, canonicalisation)']
ASSUMPTIONS = ['the decompiler is abstract here (C02-C04/C12 are about it)']
LEVEL_TEXT = ('Proof: Coq theorems on the composition model that the byte-order dependent part (container, memory map, key '
              'table) is the only place the byte order enters, so the Mac and PC encodings of one movie assemble identically; '
              'that a cast slot is assembled from exactly the links the key table lists under it (frame lemma: other owners '
              'links do not influence it); script routing by script number with continuations appended in order. Tie: the real '
              'parse_dir_file_data is run on synthesised movies and compared with the model and with the composition of the '
              'individual real decoders.')
LEVEL_NOTE = 'Trusted: Coq kernel, hand-written composition model, extraction, harness. Decompiler abstract. No axioms.'
TECHNIQUE = 'Coq proofs over the composition model (frame lemma, byte-order factoring) + model/implementation correspondence on synthesised movies'

def P(bo):
    return '<' if bo else '>'
def orient(bo, b):
    return b[::-1] if bo else b

# ---------- member synthesis
def mk_member(rng, kind, palette_ref=None):
    """returns (cast_code, header, info, links [(fourcc, payload)])"""
    links = []
    if kind == 'bitmap':
        depth = rng.choice([8, 8, 8, 1, 16, 32])
        img = C06.mk(rng, depth, rng.choice([2, 3, 4, 8, 9]), rng.choice([1, 2, 3]), rng.choice([0, 0, 1]), rng.choice([0, 0, 1]),
                     padzero=True)
        while depth == 1 and C06.known(img, 'x'):
            img = C06.mk(rng, depth, rng.choice([16, 32]), rng.choice([1, 2]), 0, 0, padzero=True)
        bw, bh, d_, pw, ph, data = C06.args_of(img)
        bppv = {8: 0x80, 1: 0, 16: 0x84, 32: 0x80}[depth]
        pid = palette_ref if (palette_ref is not None and depth == 8) else rng.choice([0, -1, -2, -100])
        header = bytes([0, bppv, 0]) + struct.pack('>10h', ph, pw, bh, bw, 0, 0, bh, bw, 0, 0)
        if depth in (8, 32) or rng.random() < 0.5:
            header += struct.pack('>hh', depth, pid)
        links.append((b'BITD', data))
        if rng.random() < 0.3:
            links.append((b'THUM', bytes(rng.randrange(256) for _ in range(5))))
        code = 1
    elif kind == 'field':
        header, _ = C15.gen_header(rng, 'field')
        c = next(x for x in C16.gen_cases(rng, 'quick') if x['kind'] == 'stxt' and not x['dup'])
        c['enc'] = 'mac_roman'
        links.append((b'STXT', C16.enc(c)))
        code = 3
    elif kind == 'sound':
        header = b''
        links.append((b'snd ', C07.enc(C07.mk(rng, rate=rng.choice([11127, 22254, 44100])))))
        code = 6
    elif kind == 'palette':
        header = b''
        links.append((b'CLUT', bytes(rng.randrange(256) for _ in range(256 * 6))))
        code = 4
    elif kind in ('button', 'shape'):
        header, _ = C15.gen_header(rng, kind)
        code = {'button': 7, 'shape': 8}[kind]
        if kind == 'button' and rng.random() < 0.5:
            c = next(x for x in C16.gen_cases(rng, 'quick') if x['kind'] == 'stxt' and not x['dup'])
            links.append((b'STXT', C16.enc(c)))
    else:
        header = b''
        code = 11
    info, _ = C15.gen_info(rng, force=True)
    return code, header, info, links

def build(rng):
    nslots = rng.choice([0, 1, 2, 3, 5, 8])
    kinds = [rng.choice(['empty', 'bitmap', 'bitmap', 'field', 'sound', 'palette', 'button', 'shape', 'script']) for _ in range(nslots)]
    pal_slots = [i for i, k in enumerate(kinds) if k == 'palette']
    fwd = False
    members = []
    for i, k in enumerate(kinds):
        if k == 'empty':
            members.append(None); continue
        pref = None
        if k == 'bitmap' and pal_slots and rng.random() < 0.5:
            s = rng.choice(pal_slots)
            pref = s + 1
            if s > i:
                fwd = True
        members.append(mk_member(rng, k, pref))
    layout = rng.choice([4, 5])
    # resources: index -> (fourcc, payload); 0..2 reserved for RIFX/imap/mmap
    res = [None, None, None]
    def add(fourcc, payload):
        res.append((fourcc, payload)); return len(res) - 1
    pending = []
    for m in members:
        if m is None:
            pending.append(None); continue
        code, header, info, links = m
        pending.append((C15.enc_member(layout, code, header, info), links))
    # add in shuffled order
    order = [('cast', i) for i, p in enumerate(pending) if p is not None]
    for i, p in enumerate(pending):
        if p is not None:
            order += [('link', i, j) for j in range(len(p[1]))]
    rng.shuffle(order)
    cast_idx = {}
    link_idx = {}
    for o in order:
        if o[0] == 'cast':
            cast_idx[o[1]] = add(b'CASt', pending[o[1]][0])
        else:
            link_idx[(o[1], o[2])] = add(*pending[o[1]][1][o[2]])
    cas = [cast_idx.get(i, 0) for i in range(nslots)]
    key_entries = []
    for (i, j), ridx in link_idx.items():
        key_entries.append([ridx, cast_idx[i], pending[i][1][j][0]])
    rng.shuffle(key_entries)
    # keep per-owner link order = key order (that is what the assembly follows)
    last_real = rng.random() < 0.1 and bool(key_entries)
    if not last_real:
        key_entries.append([rng.randrange(1, 20), 1024, b'VWtk'])      # the usual movie-level entry sits last
    bo = rng.randrange(2)
    key = struct.pack(P(bo) + 'iii', 12, 12, len(key_entries))
    for nfile, owner, cc in key_entries:
        key += struct.pack(P(bo) + 'ii', nfile, owner) + orient(bo, cc)
    add(b'KEY*', key)
    vw = next(x for x in C17.gen_cases(rng, 'quick') if x['kind'] == 'vwcf')
    add(b'VWCF', C17.encode(vw)[1])
    add(b'CAS*', b''.join(struct.pack('>i', v) for v in cas))
    scripts = []
    if rng.random() < 0.6:
        ns = rng.choice([1, 2, 4])
        refs = []
        used = []
        for s in range(ns):
            cont = rng.choice(used) if used and rng.random() < 0.4 else -1
            num = rng.randrange(1, 30)
            while num in used:
                num += 1
            if cont < 0:
                used.append(num)
            payload = struct.pack('>hh', num, cont) + bytes(rng.choice(b'abc xyz') for _ in range(rng.randrange(0, 8)))
            refs.append([rng.randrange(0, 100), payload, 0])
            scripts.append((num, cont))
        # resource ids in any order relative to the script context (Director recycles free memory-map entries)
        perm = list(range(len(refs)))
        rng.shuffle(perm)
        ids = {}
        for i in perm:
            ids[i] = add(b'Lscr', refs[i][1])
        for i in range(len(refs)):
            refs[i][1] = ids[i]
        if rng.random() < 0.3:
            refs.insert(rng.randrange(len(refs) + 1), [0, -1, 0])
        lc = {'kind': 'lctx', 'hdr': [0, 0], 'ns2': len(refs), 'gap': rng.choice([0, 4]), 'entries': refs}
        add(b'Lctx', C17.encode(lc)[1])
        if rng.random() < 0.7:
            ln = {'kind': 'lnam', 'hdr': [0, 0, 9, 9, 0], 'names': [b'alpha', b'be\x8eta'][:rng.randrange(0, 3)], 'enc': 'mac_roman', 'tail': b''}
            add(b'Lnam', C17.encode(ln)[1])
    if rng.random() < 0.6:
        add(b'VWLB', C17.encode({'kind': 'vwlb', 'markers': [[1, b'start'], [9, b'lo\x8ep']][:rng.randrange(0, 3)], 'enc': 'mac_roman'})[1])
    if rng.random() < 0.6:
        fs, cc = rng.choice([20, 24]), rng.choice([3, 4])
        frames = C08.rand_frames(rng, fs, cc, rng.choice([1, 3, 6]))
        prev = bytes(fs * cc); recs = []
        for f in frames:
            recs.append(C08.segment(rng, prev, f)); prev = f
        add(b'VWSC', C08.enc_score({'fs': fs, 'cc': cc, 'wrapped': rng.random() < 0.5, 'unk': [0, 0], 'tail': b'', 'nmarkers': 1, 'wmarker': 0, 'records': recs}))
    if rng.random() < 0.7:
        fm = next(x for x in C16.gen_cases(rng, 'quick') if x['kind'] == 'fmap')
        add(b'Fmap', C16.enc(fm))
    # shuffle the chunk order in the file (resource indices stay)
    prefix = b'' if rng.random() < 0.6 else (C01.rand_prefix(rng) or b'MZ')
    nres = len(res)
    mmap_len = 24 + 20 * nres
    file_order = list(range(3, nres)); rng.shuffle(file_order)
    mpos = rng.randrange(0, len(file_order) + 1)
    cs = [(b'imap', b'\0' * 24, 0)] + [(res[i][0], res[i][1], 0) for i in file_order[:mpos]] + [(b'mmap', b'\0' * mmap_len, 0)] + \
         [(res[i][0], res[i][1], 0) for i in file_order[mpos:]]
    offs = C01.offsets(cs)
    base = len(prefix)
    pos_in_cs = {}
    for k, i in enumerate(file_order[:mpos]):
        pos_in_cs[i] = 1 + k
    for k, i in enumerate(file_order[mpos:]):
        pos_in_cs[i] = 2 + mpos + k
    entries = [(b'RIFX', offs[-1] - 8, base, 0, 0, 0), (b'imap', 24, base + 12, 0, 0, 0), (b'mmap', mmap_len, base + offs[1 + mpos], 0, 0, 0)]
    for i in range(3, nres):
        entries.append((res[i][0], len(res[i][1]), base + offs[pos_in_cs[i]], 0, 0, 0))
    mm = struct.pack(P(bo) + 'hhiiiii', 24, 20, nres, nres, -1, -1, -1)
    for cc, size, off, fl, un, nx in entries:
        mm += orient(bo, cc) + struct.pack(P(bo) + 'iihhi', size, off, fl, un, nx)
    cs[1 + mpos] = (b'mmap', mm, 0)
    cs[0] = (b'imap', struct.pack(P(bo) + 'iiihhii', 1, base + offs[1 + mpos], 0x4c1, 0, 0, 0, 0), 0)
    data = prefix + C01.enc_movie(bo, offs[-1] - 8, cs)
    return {'data': data, 'bo': bo, 'offset': base, 'fwd': fwd, 'last_real': last_real, 'nmembers': sum(1 for m in members if m),
            'multi': any(m and len(m[3]) >= 2 for m in members), 'res': res, 'cas': cas, 'key_entries': key_entries}

def gen_cases(rng, tier):
    n = 400 if tier == "quick" else 2500
    for k in range(n):
        yield build(rng)

def case_to_json(c):
    return {'data': c['data'].hex(), 'bo': c['bo'], 'offset': c['offset'], 'fwd': c['fwd'], 'last_real': c['last_real'],
            'nmembers': c['nmembers'], 'multi': c['multi'], 'cas': c['cas'],
            'key_entries': [[a, b, cc.hex()] for a, b, cc in c['key_entries']],
            'res': [None if r is None else [r[0].hex(), r[1].hex()] for r in c['res']]}
def case_from_json(j):
    c = dict(j)
    c['data'] = bytes.fromhex(j['data'])
    c['key_entries'] = [[a, b, bytes.fromhex(cc)] for a, b, cc in j['key_entries']]
    c['res'] = [None if r is None else (bytes.fromhex(r[0]), bytes.fromhex(r[1])) for r in j['res']]
    return c
def describe(c):
    return {'bytes': len(c['data']), 'bo': c['bo'], 'offset': c['offset'], 'cas': c['cas'],
            'resources': [None if r is None else r[0].decode('latin-1') for r in c['res']],
            'key_entries': [[a, b, cc.decode('latin-1')] for a, b, cc in c['key_entries']]}
def classify(c, ir):
    return '%s/members=%s%s%s' % ('LE' if c['bo'] else 'BE', c['nmembers'] if c['nmembers'] < 4 else '4+',
                                  '/fwd-palette' if c['fwd'] else '', '/last-key-real' if c['last_real'] else '')
def nontrivial(c, ir):
    return c['nmembers'] >= 3 and c['multi']

# ---------- tagging decompiler (same function as coq/Model/DirIO.v decompile_tag)
class _TagScript:
    def __init__(self, data, names):
        self.scr_num, self.cont_scr_num = struct.unpack('>hh', data[:4])
        self.text = data[4:].decode('mac_roman')
        self.names = ''.join(names)
def _patch():
    import drxtract.dir.dir as D
    D.parse_lrcr_file_data = lambda data, names: _TagScript(data, names)
    D.generate_lingo_code = lambda s: 'L' + s.text + s.names
    D.generate_js_code = lambda s: 'J' + s.text

def canon_member(m):
    if m == {}:
        return []
    extra = {}
    cast = {}
    for k, v in m.items():
        if k in ('text', 'txt_format', 'sampled_sound', 'bitmap') or (k == 'palette' and isinstance(v, (bytes, bytearray))):
            extra[k] = v
        else:
            cast[k] = v
    c = cast.get('content')
    if isinstance(c, dict) and 'extra' in c:
        import base64
        c = dict(c); c['extra'] = [base64.b64decode(x) for x in c['extra']]
        cast['content'] = c
    text = []
    if 'text' in extra:
        text = [[extra['text'].encode('mac_roman'),
                 [[bytes.fromhex(f['color'][1:]), f['start'], int(f['bold']), int(f['italic']), int(f['underline']), f['font_size'],
                   f['font_family'].encode('mac_roman')] for f in extra['txt_format']]]]
    snd = []
    if 'sampled_sound' in extra:
        s = extra['sampled_sound']
        snd = [[s.num_channels, s.bits_per_sample, s.sample_rate, bytes(s.samples)]]
    return [[C15.canon_top(cast), text, snd, [bytes(extra['palette'])] if 'palette' in extra else [],
             [bytes(extra['bitmap'])] if 'bitmap' in extra else []]]

def impl(c):
    _patch()
    from drxtract.dir.dir import parse_dir_file_data
    from drxtract.bitd.bitd2bmp import DECODERS
    import io
    for dec in DECODERS.values():
        dec.bytesIo = io.BytesIO()
    r = parse_dir_file_data(P(c['bo']), c['offset'], c['data'])
    info = r.info
    return {'info': [info['version'].encode(), info['stageTop'], info['stageLeft'], info['stageBottom'], info['stageRight'],
                     info['castArrayStart'], info['castArrayEnd'], info['currentFrameRate'], info['stageColor'], info['palette'].encode()],
            'cast': [canon_member(m) for m in r.cast],
            'scripts': [[n, r.lingoScr[n].encode('mac_roman'), r.jsScr[n].encode('mac_roman')] for n in r.lingoScr],
            'markers': [[m['name'].encode('mac_roman'), m['frame']] for m in r.markers],
            'score': [C09.canon_out(r.score)] if r.score else [],
            'fontmap': [[f['name'].encode('mac_roman'), f['id']] for f in r.fontmap]}

def run_impl(c):
    return call_impl(impl, c, timeout=60)

def model_request(c, ir):
    return ('parse_dir', [c['data'], c['offset'], c['bo']])

def canon_model_member(m):
    if m == []:
        return []
    cast, text, snd, pal, bmp = m[0]
    text2 = []
    for t in text:
        text2.append([t[0], [[r[0], r[1], r[2], r[3], r[4], r[5],
                              (r[6][1] if r[6][0] == b'known' else b'unknown_%d' % r[6][1])] for r in t[1]]])
    return [[C15.canon_model(cast), text2, snd, pal, bmp]]

def compare(c, ir, mv):
    if mv[0] == b'ok':
        if ir[0] != 'ok':
            return 'implementation %r, model ok' % (ir[1:],)
        info, cast, scripts, markers, score, fontmap = mv[1]
        r = ir[1]
        if r['info'] != info:
            return 'movie settings differ: %r vs %r' % (r['info'], info)
        mc = [canon_model_member(m) for m in cast]
        ic = [[[x[0], [[t[0], [[q[0], q[1], q[2], q[3], q[4], q[5], q[6]] for q in t[1]]] for t in x[1]], x[2], x[3], x[4]]] if m else [] for m in r['cast'] for x in ([m[0]] if m else [None])]
        if ic != mc:
            k = next((i for i in range(min(len(ic), len(mc))) if ic[i] != mc[i]), None)
            return 'cast differs (lengths %d/%d, first differing slot %r): %r vs %r' % (len(ic), len(mc), k, str(ic[k])[:300] if k is not None else '', str(mc[k])[:300] if k is not None else '')
        if r['scripts'] != scripts:
            return 'scripts differ: %r vs %r' % (r['scripts'], scripts)
        if r['markers'] != markers:
            return 'markers differ'
        if r['score'] != score:
            return 'score differs'
        if r['fontmap'] != fontmap:
            return 'font map differs'
        return None
    if mv[0] == b'err':
        return None if ir[0] == 'err' else 'model rejects, implementation returned a movie'
    return 'model: %r' % (mv,)

# ---------- the property: composition of the individual real decoders over the designated chunks
def expected(c):
    _patch()
    from drxtract.cast.cast import parse_cast_file_data
    from drxtract.stxt.stxt import parse_stxt_data
    from drxtract.fmap.fmap import parse_fmap_data
    from drxtract.snd.snd2sampled import snd_to_sampled
    from drxtract.clut.clut import clut2palette
    from drxtract.bitd.bitd2bmp import bitd2bmp
    res = c['res']
    fontmap = []
    for r in res[3:]:
        if r[0] == b'Fmap':
            fontmap = parse_fmap_data(r[1]); break
    links = {}
    for nfile, owner, cc in c['key_entries']:
        if owner > 0 and nfile > 0:
            links.setdefault(owner, []).append((nfile, cc))
    # palettes first (a bitmap may reference a palette stored anywhere in the cast)
    pal_of_slot = {}
    for slot, ci in enumerate(c['cas']):
        if ci:
            for nfile, cc in links.get(ci, []):
                if cc == b'CLUT':
                    pal_of_slot[slot] = bytes(clut2palette(res[nfile][1]))
    cast = []
    for slot, ci in enumerate(c['cas']):
        if ci == 0:
            cast.append({}); continue
        m = parse_cast_file_data(res[ci][1])
        for nfile, cc in links.get(ci, []):
            data = res[nfile][1]
            if cc == b'STXT':
                t = parse_stxt_data(data, fontmap); m['text'] = t['text']; m['txt_format'] = t['txt_format']
            elif cc == b'snd ':
                m['sampled_sound'] = snd_to_sampled(data)
            elif cc == b'CLUT':
                m['palette'] = clut2palette(data)
            elif cc == b'BITD':
                clut = b''
                pal = str(m.get('palette', ''))
                if pal.lstrip('-').isdigit() and int(pal) > 0:
                    clut = pal_of_slot[int(pal) - 1]
                m['bitmap'] = bitd2bmp(m, clut, data)
        cast.append(m)
    return [canon_member(m) for m in cast]

def oracle(c, ir):
    try:
        exp = expected(c)
    except Exception as e:
        return None        # the individual decoders reject a member themselves (e.g. a raw 16/32-bit bitmap, C06): outside the property
    if ir[0] != 'ok':
        return 'movie rejected although every member decodes on its own: %r' % (ir[1:],)
    if ir[1]['cast'] != exp:
        k = next((i for i in range(min(len(exp), len(ir[1]['cast']))) if exp[i] != ir[1]['cast'][i]), None)
        return 'cast slot %r is not the composition of the individual decoders over its own resources' % k
    return None

def known(c, fail):
    if c['last_real']:
        return 'C05-key-last-entry'
    return None
