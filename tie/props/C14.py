"""C14 - the BMP colour table is exactly the palette the member selects."""
import struct
from framework import call_impl

BUDGET_S = {'quick': 60, 'thorough': 900}
BATCH = 300
RULE = ('(a) 256-entry CLUT chunks with arbitrary 16-bit components (random, all-equal, ramps, short/long chunks) decoded '
        'by clut2palette and clut2rgb and used as the custom palette of a 1x1 8-bit bitmap through the real bitd2bmp; '
        '(b) every named palette x depth {1,4,8} and unknown names through writeColorPalette and through bitd2bmp; '
        '(c) the palette number -> name mapping over signed 16-bit values (all of them in the thorough tier). '
        'Non-trivial = custom palette with >= 3 distinct colours, or a named/unknown palette lookup; distinct by SHA1.')
EXPLANATION = ('Theorems on the Gallina model (coq/Model/Clut.v): entry i of the BMP table is (hi b, hi g, hi r, 0) of CLUT entry i; '
               'the JSON colour list has the same components entry for entry; named tables come from the generated table file, '
               'which is proved equal to a pinned reference copy; unknown names fall back to default; number->name mapping for all values.')
TRUSTED_BASE = ['Coq 8.16.1 kernel; no axioms', 'hand-written model coq/Model/Clut.v',
                'translator tie/gen_palettes.py (palette tables regenerated from the source on every run) and the pinned copy coq/Spec/SpecPalettes.v',
                'extraction + runner; harness tie/props/C14.py']
ASSUMPTIONS = ['4-bit images are not decodable at all (Decoder4b raises NotImplementedError), so 4-bit named tables are checked only through writeColorPalette with the names bitd2bmp can pass']
LEVEL_TEXT = ('Proof: Coq theorems for every 256-entry CLUT (arbitrary components) that BMP table entry i is '
              '(high byte of blue, green, red, 0) and that the JSON colour list agrees entry for entry; that a named palette '
              'yields its generated table (proved equal to a pinned reference copy, so an edited table entry breaks the proof), '
              'that unknown names fall back to default, and that the palette-number to name mapping is the specified one for '
              'every integer. Tie: tables regenerated from the source each run; model/implementation differential; oracle on '
              'real bitd2bmp output.')
LEVEL_NOTE = 'Trusted: Coq kernel, hand-written model, table translator + pinned reference copy, extraction, harness. No axioms.'
TECHNIQUE = 'Coq proof (induction over CLUT entries; table equality by computation against a pinned copy) + model/implementation correspondence'

PAL_REF = {-1: 'systemMac', -102: 'systemWin', -2: 'rainbow', -3: 'grayscale', -4: 'pastels', -5: 'vivid',
           -6: 'ntsc', -7: 'metallic', -8: 'web216', -101: 'systemWinDir4'}
NAMES8 = ['grayscale', 'metallic', 'ntsc', 'pastels', 'rainbow', 'systemMac', 'systemWinDir4', 'systemWin', 'vivid', 'web216', 'default']

def gen_cases(rng, tier):
    for name in NAMES8 + ['nosuch', '', '42', 'SYSTEMMAC', 'none']:
        yield {'kind': 'named', 'depth': 8, 'name': name}
    for name in ['black and white']:      # the only name bitd2bmp passes for 1-bit images
        yield {'kind': 'named', 'depth': 1, 'name': name}
    for name in ['systemWin', 'default', 'none', 'zzz']:
        yield {'kind': 'named', 'depth': 4, 'name': name}
    vals = range(-32768, 32768) if tier == 'thorough' else list(range(-110, 12)) + [-32768, 32767, 255, 1000, -1000]
    for v in vals:
        yield {'kind': 'palname', 'v': v}
    n = 120 if tier == 'quick' else 4000
    for k in range(n):
        r = rng.random()
        if r < 0.5:
            clut = bytes(rng.randrange(256) for _ in range(256 * 6))
        elif r < 0.65:
            c = bytes(rng.randrange(256) for _ in range(6)); clut = c * 256
        elif r < 0.8:
            clut = b''.join(struct.pack('>HHH', (i * 257) & 0xffff, (65535 - i * 257) & 0xffff, (i * 511) & 0xffff) for i in range(256))
        else:
            n6 = rng.choice([0, 1, 5, 6, 7, 255 * 6 + 5, 256 * 6 - 2, 256 * 6 + 6, 300 * 6])
            clut = bytes(rng.randrange(256) for _ in range(n6))
        yield {'kind': 'clut', 'clut': clut}

def case_to_json(c):
    j = dict(c)
    if 'clut' in j:
        j['clut'] = j['clut'].hex()
    return j
def case_from_json(j):
    c = dict(j)
    if 'clut' in c:
        c['clut'] = bytes.fromhex(c['clut'])
    return c
def describe(c):
    j = case_to_json(c)
    if 'clut' in j:
        j['clut'] = j['clut'][:48] + '... (%d bytes)' % len(c['clut'])
    return j
def classify(c, ir):
    if c['kind'] == 'clut':
        return 'clut/%s' % ('256 entries' if len(c['clut']) == 1536 else 'other length')
    return c['kind']
def nontrivial(c, ir):
    if c['kind'] == 'clut':
        return len(c['clut']) >= 1536 and len({c['clut'][i:i + 6] for i in range(0, 1536, 6)}) >= 3
    return c['kind'] == 'named'

def bmp_table(depth, name, custom):
    """colour table of the BMP written by the real bitd2bmp for a minimal image"""
    from drxtract.bitd.bitd2bmp import bitd2bmp
    cast = {'height': 1, 'width': 8 if depth == 1 else 4, 'depth': depth, 'w_padding': 0, 'h_padding': 0, 'palette_txt': name}
    data = b'\0\0' if depth == 1 else b'\0\0\0\0'
    bmp = bitd2bmp(cast, custom, data)
    off = struct.unpack('<i', bmp[10:14])[0]
    return bytes(bmp[54:off])

def impl(c):
    if c['kind'] == 'clut':
        from drxtract.clut.clut import clut2palette, clut2rgb
        out = {}
        r = call_impl(lambda: bytes(clut2palette(c['clut'])))
        out['palette'] = r[1] if r[0] == 'ok' else None
        r2 = call_impl(lambda: [bytes.fromhex(x[1:]) for x in clut2rgb(c['clut'])])
        out['rgb'] = r2[1] if r2[0] == 'ok' else None
        out['bmp'] = None
        if out['palette'] is not None:
            r3 = call_impl(bmp_table, 8, 'systemMac', out['palette'])
            out['bmp'] = r3[1] if r3[0] == 'ok' else ('err', r3[1:])
        return out
    if c['kind'] == 'named':
        from drxtract.bitd.bitd2bmp import DECODERS
        dec = DECODERS[c['depth']]
        dec.writeColorPalette(c['name'], b'')
        direct = dec.getBmpImage()
        out = {'direct': bytes(direct), 'bmp': None}
        if c['depth'] in (1, 8):
            # bitd2bmp itself chooses the name for depth 1
            r3 = call_impl(bmp_table, c['depth'], c['name'], b'')
            out['bmp'] = r3[1] if r3[0] == 'ok' else ('err', r3[1:])
        return out
    if c['kind'] == 'palname':
        from drxtract.common import get_palette_name
        return get_palette_name(c['v']).encode()

def run_impl(c):
    return call_impl(impl, c)

def model_request(c, ir):
    if c['kind'] == 'clut':
        return [('clut2palette', c['clut']), ('clut2rgb', c['clut'])]
    if c['kind'] == 'named':
        nc = {1: 2, 4: 16, 8: 256}[c['depth']]
        return ('write_color_palette', [c['depth'], nc, c['name'].encode(), b''])
    return ('get_palette_name', c['v'])

def compare(c, ir, mv):
    if ir[0] != 'ok':
        return 'implementation failed: %r' % (ir[1:],)
    r = ir[1]
    if c['kind'] == 'clut':
        mp, mr = mv
        ip = r['palette']
        if (mp[0] == b'ok') != (ip is not None) or (ip is not None and mp[1] != ip):
            return 'clut2palette: implementation %r vs model %r' % (None if ip is None else ip[:8], mp[:1])
        ir_ = r['rgb']
        if (mr[0] == b'ok') != (ir_ is not None) or (ir_ is not None and mr[1] != ir_):
            return 'clut2rgb: implementation vs model differ'
        return None
    if c['kind'] == 'named':
        if mv[0] != b'ok' or mv[1] != r['direct']:
            return 'writeColorPalette: implementation %r... vs model %r' % (r['direct'][:8], mv[:1])
        return None
    if mv != r:
        return 'get_palette_name(%d): implementation %r vs model %r' % (c['v'], r, mv)
    return None

def ref_tables():
    """reference tables: pinned copy parsed from coq/Spec/SpecPalettes.v (never regenerated)"""
    import os, re
    global _REF
    try:
        return _REF
    except NameError:
        pass
    src = open(os.path.join(os.path.dirname(__file__), '..', '..', 'coq', 'Spec', 'SpecPalettes.v')).read()
    tabs = {}
    for m in re.finditer(r'Definition (\w+) : list byte := \[(.*?)\]\.', src, re.S):
        tabs[m.group(1)] = bytes(int(x, 16) for x in re.findall(r'x([0-9a-f]{2})', m.group(2)))
    _REF = tabs
    return tabs

NAME2TAB = {(8, 'grayscale'): 'GRAYSCALE_256COLORS_PALETTE', (8, 'metallic'): 'METALLIC_256COLORS_PALETTE', (8, 'ntsc'): 'NTSC_256COLORS_PALETTE',
            (8, 'pastels'): 'PASTELS_256COLORS_PALETTE', (8, 'rainbow'): 'RAINBOW_256COLORS_PALETTE', (8, 'systemMac'): 'SYSTEM_MAC_256COLORS_PALETTE',
            (8, 'systemWinDir4'): 'SYSTEM_WINDOWS_DIR4_256COLORS_PALETTE', (8, 'systemWin'): 'SYSTEM_WINDOWS_256COLORS_PALETTE',
            (8, 'vivid'): 'VIVID_256COLORS_PALETTE', (8, 'web216'): 'WEB_256COLORS_PALETTE', (8, 'default'): 'SYSTEM_WINDOWS_256COLORS_PALETTE',
            (1, 'black and white'): 'BW_PALETTE', (4, 'systemWin'): 'SYSTEM_WINDOWS_16COLORS_PALETTE', (4, 'default'): 'SYSTEM_WINDOWS_16COLORS_PALETTE',
            (4, 'systemMac'): 'SYSTEM_MAC_16COLORS_PALETTE'}
DEFAULT = {8: 'SYSTEM_WINDOWS_256COLORS_PALETTE', 4: 'SYSTEM_WINDOWS_16COLORS_PALETTE'}

def oracle(c, ir):
    if ir[0] != 'ok':
        return 'implementation failed: %r' % (ir[1:],)
    r = ir[1]
    if c['kind'] == 'clut':
        cl = c['clut']
        if len(cl) >= 256 * 6 - 1:
            exp = b''.join(bytes([cl[6 * i + 4], cl[6 * i + 2], cl[6 * i], 0]) for i in range(256))
            if r['palette'] != exp:
                return 'BMP table derived from the CLUT is not (hi b, hi g, hi r, 0) per entry'
            if r['bmp'] != exp:
                return 'colour table inside the BMP written by bitd2bmp differs from the custom palette: %r' % (str(r['bmp'])[:80],)
        if len(cl) % 6 in (0, 5) and len(cl) > 0:
            n = (len(cl) + 1) // 6
            exp_rgb = [bytes([cl[6 * i], cl[6 * i + 2], cl[6 * i + 4]]) for i in range(n)]
            if r['rgb'] != exp_rgb:
                return 'JSON colour list differs from the high bytes of the CLUT components'
            if r['palette'] is not None:
                for i in range(min(n, 256)):
                    p = r['palette'][4 * i:4 * i + 4]
                    if (p[2], p[1], p[0]) != tuple(r['rgb'][i]):
                        return 'JSON colour %d and BMP table entry %d disagree' % (i, i)
        return None
    if c['kind'] == 'named':
        tabs = ref_tables()
        key = (c['depth'], c['name'])
        if c['depth'] == 1:
            exp = tabs['BW_PALETTE'] if c['name'] == 'black and white' else None
        else:
            exp = tabs[NAME2TAB[key]] if key in NAME2TAB else tabs[DEFAULT[c['depth']]]
        if exp is not None and r['direct'] != exp:
            return 'palette %r at depth %d: table differs from the reference table' % (c['name'], c['depth'])
        if c['depth'] == 8 and r['bmp'] != exp:
            return 'BMP written by bitd2bmp with palette %r does not carry the reference table' % (c['name'],)
        if c['depth'] == 1 and r['bmp'] != tabs['BW_PALETTE']:
            return '1-bit BMP does not carry the black-and-white table'
        return None
    v = c['v']
    k = v - 1 if v <= 0 else v
    exp = PAL_REF.get(k, str(k)).encode()
    if r != exp:
        return 'palette number %d named %r, expected %r' % (v, r, exp)
    return None
