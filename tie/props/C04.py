"""C04 - the emitted JavaScript is valid and denotes the same program as the Lingo."""
import json
import lingo_harness as H
import lingo_spec as S
from props import C02 as P2

NEEDS_SPEC = True       # the spec tie runs the extracted specification side (runner/specrun)
BUDGET_S = {'quick': 200, 'thorough': 1800}
BATCH = 150
RULE = ('the program space of C02 and C03 (operator pairs, random straight-line handlers, the further instruction families, '
        'control-flow skeletons with <= 2 (quick) / 3 (thorough) compound constructs) for the three script kinds (plain '
        'handlers, scripts with declared properties -> class Object__n, factories -> class Factory__N). Every emitted program '
        'is (1) compiled by node (vm.Script: syntax only), (2) tokenised and compared token for token with the fixed '
        'correspondence tie/lingo_spec.py:pp_js applied to the source script, (3) compared with the Coq model\'s JavaScript. '
        'Non-trivial = expression depth >= 2 or a compound construct; distinct by SHA1 of the source.')
EXPLANATION = ('Coq: for the expression core the emitted JavaScript is the printer of the JavaScript syntax tree to_js(e), and '
               'read_js(to_js e) = name_e e (the JavaScript denotes the same expression); see coq/Props/PropC04.v.')
TRUSTED_BASE = P2.TRUSTED_BASE + ['node 20 (vm.Script) as the judge of syntactic validity; the JavaScript printer of the specification is trusted to print JavaScript']
ASSUMPTIONS = P2.ASSUMPTIONS + ['the translator\'s fixed renamings (go -> _movie.go / goNext, new -> _movie.newScript / newMember, cast -> member, continue -> resume, handler new -> birth) are part of the correspondence']
LEVEL_TEXT = ('Proof (partial): Coq theorems that for every expression tree of the core families the JavaScript emitted for the '
              'reified tree is the print of a JavaScript syntax tree to_js e (so it is well formed by construction of the '
              'printer) and that the tree can be read back (read_js (to_js e) = the source expression with its names): it denotes the same operators, '
              'operand order, variable kinds and literals as the program and as the emitted Lingo; statement lines (assignments, calls) and, '
              'for every exit-free nest of if / if-else / repeat while of any depth, the emitted JavaScript is the canonical layout of the source '
              'program (C04_statement_js, C04_structured_js_is_canonical, on top of the C03 theorem that the nest is rebuilt from the bytes). Syntactic validity against '
              'the real JavaScript grammar is decided by node on every generated program, not by a theorem.')
LEVEL_NOTE = 'Validity rests on node + the trusted printer; inside the theorems: the expression core incl. sound / sprite / cast / field / menu / menuItem properties and chunk counts, assignments and calls, if / if-else / repeat while / counting loops / exit repeat. Script-kind wrappers (function headers, class wrappers, factories), list loops and the further expression families (system properties, chunk ranges, put/delete, tell) are covered by the token-for-token oracle and the model correspondence only. Spec tie: pp_js_q (the JavaScript the theorems name) is extracted and compared with the emitted JavaScript on every generated handler inside the fragment.'
TECHNIQUE = 'Coq proof by induction over the expression tree and over the program structure (emitter = printer of a JS syntax tree; translation invertible; structured layout) + node syntax check + model/implementation correspondence'

def hardstr_scripts():
    """string constants with the characters the JavaScript emitter has to escape: put <const> for each"""
    body = [('call', 'put', [('str', t)]) for t in H.HARD_STRINGS]
    h = {'name': 'hs', 'args': [], 'locals': [], 'body': body, 'method': False}
    return [H.finish_script({'props': [], 'globals': [], 'factory': None, 'scr_num': 0, 'handlers': [h]})]

_NODE_PUTS = r'''
const src = require('fs').readFileSync(process.argv[2], 'utf8');
function LingoString(s) { this.s = s; }
const got = [];
function put(x) { got.push(x instanceof LingoString ? x.s : null); }
eval(src + "\nhs();");
process.stdout.write(JSON.stringify(got));
'''
def js_put_values(js):
    """run the emitted handler hs under node with a recording put(): the values of its string-object arguments"""
    import subprocess, tempfile, os, json as _json
    d = tempfile.mkdtemp(prefix='drxjs')
    try:
        with open(os.path.join(d, 'src.js'), 'w', encoding='latin-1') as f:
            f.write(js)
        with open(os.path.join(d, 'run.js'), 'w') as f:
            f.write(_NODE_PUTS.replace("'utf8'", "'latin1'"))
        p = subprocess.run(['node', os.path.join(d, 'run.js'), os.path.join(d, 'src.js')], stdout=subprocess.PIPE, stderr=subprocess.PIPE, timeout=60)
        if p.returncode != 0:
            return None, p.stderr.decode('utf-8', 'replace')[-300:]
        return _json.loads(p.stdout.decode()), None
    finally:
        for fn in os.listdir(d):
            os.remove(os.path.join(d, fn))
        os.rmdir(d)

def gen_cases(rng, tier):
    for s in hardstr_scripts():
        yield {'tag': 'hardstr', 'script': s}
    for s in H.pair_scripts(rng):
        yield {'tag': 'pairs', 'script': s}
    g = H.GenExt(rng)
    n = 1200 if tier == 'quick' else 10000
    for i in range(n):
        k = i % 4
        if i % 8 == 5:
            yield {'tag': 'factory', 'script': g.factory_script()}
        elif k == 0:
            yield {'tag': 'ext', 'script': g.ext_script()}
        elif k == 1:
            yield {'tag': 'random-props', 'script': g.script(depth=rng.choice([1, 2, 3]), kind='props')}
        else:
            yield {'tag': 'random', 'script': g.script(depth=rng.choice([1, 2, 3, 4]), kind='plain')}
    seen = set()
    for sk, u in H.skeleton_bodies(2 if tier == 'quick' else 3, False, 2):
        key = H.skeleton_str(sk)
        if key in seen:
            continue
        seen.add(key)
        yield {'tag': 'skeleton', 'script': H.skeleton_script(sk)}

case_to_json, case_from_json, describe = H.case_to_json, H.case_from_json, H.describe
shrink_candidates = H.shrink_candidates
model_request = H.model_req

_pending = []
_checked = {}
def run_impl(c):
    ir = H.run_impl(c)
    if ir[0] == 'ok':
        _pending.append(ir[1][1])
    return ir

def syntax_error(js):
    if js not in _checked:
        todo = [t for t in dict.fromkeys(_pending + [js]) if t not in _checked]
        for t, r in zip(todo, H.node_syntax_check(todo)):
            _checked[t] = r
        del _pending[:]
    return _checked[js]

def classify(c, ir):
    return c['tag'].split(':')[0]
def nontrivial(c, ir):
    return H.script_depth(c['script']) >= 2 or bool(H.script_kinds(c['script']) & {'if', 'ife', 'while', 'with', 'down', 'in', 'tell'})

def judge(c, ir, ms):
    out = []
    if ir[0] == 'skip':
        return out
    if ir[0] != 'ok':
        return [('the decompiler raises on a compiled script: %s' % (ir[2] if len(ir) > 2 else ir[0]), 'property', None)]
    lingo, js = ir[1]
    if c['tag'].startswith('hardstr'):
        # string-object literals: the emitted handler is RUN under node and must hand put() the source strings
        vals, err = js_put_values(js)
        want = [st[2][0][1] for st in c['script']['handlers'][0]['body']]
        if err is not None:
            return [('emitted JavaScript does not run: %s' % err, 'property', None)]
        if vals != want:
            return [('string-object literals denote %r, the script has %r' % (vals, want), 'property', None)]
        mt = H.text_pair(ms)
        if ms is not None and (mt is None or mt[1] != js):
            out.append(('JavaScript text differs from the model on string constants', 'correspondence', None))
        return out
    if H.lingo_oracle(c['script'], lingo):
        return out            # the Lingo side is wrong already (C02 / C03 report it); nothing to compare the JavaScript with
    mt = H.text_pair(ms)
    same_as_model = mt is not None and mt[1] == js
    err = syntax_error(js)
    f = ('emitted JavaScript is not valid: %s' % err) if err else H.js_oracle(c['script'], js)
    if f:
        out.append((f, 'property', None))
        return out
    if ms is not None:
        if mt is None:
            out.append(('model fails (%r) on a chunk the implementation decompiles' % (H.split_ms(ms)[0],), 'correspondence', None))
        elif not same_as_model:
            out.append(('JavaScript text differs from the model: ' + H.first_diff(js, mt[1]), 'correspondence', None))
        out += [v for v in H.spec_verdicts(c, ir, ms) if 'JavaScript' in v[0] or 'bytes' in v[0] or 'rejects' in v[0]]
    return out

def extra_evidence(tier):
    """what the spec tie (tie/spec_tie.py) compared in this run"""
    import spec_tie as ST
    return {'spec_tie': dict(ST.STATS, what='handlers inside the fragment of the theorems: code = bytes of SpecFor.code2 (Coq, extracted) '
                             'compared with the harness compiler; lingo / js = canonical texts pp_q / pp_js_q of the theorems compared with the '
                             'text the implementation emits (only when the boolean side conditions of the theorems hold)')}
