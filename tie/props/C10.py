"""C10 - every decoder terminates with work bounded by the size of its input."""
import re
import glob, os, struct, sys, tracemalloc
from framework import call_impl, REPO
from props import C01, C06, C07, C08, C14, C15, C16, C17
import lscr_asm as A

BUDGET_S = {'quick': 240, 'thorough': 3000}
BATCH = 60
LINES_PER_BYTE = 150          # executed source lines allowed per input byte (+ per declared output byte)
LINES_CONST = 4000
MEM_PER_BYTE = 400            # peak traced allocation allowed per input / declared output byte
MEM_CONST = 2_000_000
RULE = ('for each decoder (container walk + locator, memory map, key/cast/script-context/name/marker/settings tables, score, '
        'sound, palette, styled text, font map, cast member, bitmap of each depth, Lingo decompiler + both generators): '
        'random byte strings, valid inputs mutated at one position, and adversarial settings (0, 1, -1, maximal, '
        'self-referential) of every 2- and 4-byte field of a valid input; exhaustive small values (-3..6) of the record-size '
        'field of the score walker and of the chunk-size field of the container walker; handlers with many jumps for the '
        'decompiler. Every call is run under a line counter (sys.monitoring), tracemalloc and a 20 s alarm. '
        'Non-trivial = an input that makes the decoder execute a loop at least 3 times; distinct by SHA1.')
EXPLANATION = ('Theorems on the fuelled Gallina models: no input makes a modelled walker run out of its fuel (|input|+1 iterations), '
               'i.e. every loop terminates after at most |input|+1 iterations; the implementation is measured (executed lines, peak '
               'allocation, wall time) on adversarial inputs and the model must agree on termination.')
TRUSTED_BASE = ['Coq 8.16.1 kernel; no axioms', 'the fuelled loop models of coq/Model/*.v (one iteration = one unit of fuel)',
                'CPython sys.monitoring line events and tracemalloc as the measure of work and allocation',
                'harness tie/props/C10.py (bounds: %d lines/byte + %d, %d bytes/byte + %d)' % (LINES_PER_BYTE, LINES_CONST, MEM_PER_BYTE, MEM_CONST)]
ASSUMPTIONS = ['real CPU time and allocator behaviour are observed, not proved (the model counts loop iterations)',
               'the output size an input legitimately declares: image width*height, score channel_count*frame_size for a supported frame size, sound frames that are present in the data']
LEVEL_TEXT = ('Proof on the step model, partial w.r.t. runtime: Coq theorems that the fuelled models of the container walk, '
              'the index-table loops, the score record/delta loops, the sound command and sample loops, the palette loops and '
              'the bitmap PackBits loops never run out of fuel (at most |input|+1 iterations, for every byte string); the '
              'decompiler is not modelled here and is covered by measurement only. The implementation is measured on adversarial '
              'inputs: executed lines and peak allocation must stay within a fixed multiple of input length plus declared output.')
LEVEL_NOTE = ('Trusted: Coq kernel, fuelled models, harness measurement (sys.monitoring, tracemalloc). What the model cannot '
              'exhibit: real time and memory; the quadratic cost of the decompiler jump handling is an open finding.')
TECHNIQUE = 'Coq progress/fuel-sufficiency proofs for every modelled loop + measured line counts and allocations on adversarial inputs'

# ---------------------------------------------------------------- targets
def _bitd(depth):
    def f(data):
        from drxtract.bitd.bitd2bmp import bitd2bmp
        cast = {'height': 6, 'width': 9, 'depth': depth, 'w_padding': 1, 'h_padding': 1, 'palette_txt': 'systemMac'}
        return bitd2bmp(cast, b'', data)
    return f
def _decompile(data):
    from drxtract.lingosrc.parse.lscr import parse_lrcr_file_data
    from drxtract.lingosrc.codegen.lingo import generate_lingo_code
    from drxtract.lingosrc.codegen.js import generate_js_code
    names = ['n%d' % i for i in range(40)]
    s = parse_lrcr_file_data(data, names)
    return generate_lingo_code(s), generate_js_code(s)
def _riff(data):
    from drxtract.riff.riff import parse_riff, find_riff_in_exe
    off = find_riff_in_exe(data)
    return parse_riff(data, 0, '>'), off
def _imp(mod, fn, *extra):
    def f(data):
        m = __import__(mod, fromlist=[fn])
        return getattr(m, fn)(*(extra[:0] + (data,) + extra[0:])) if not extra else getattr(m, fn)(*[data if x is Ellipsis else x for x in extra])
    return f

TARGETS = {
    'riff': (_riff, 54),
    'mmap': (_imp('drxtract.riff.mmap', 'parse_mmap', Ellipsis, '>'), 0),
    'key': (_imp('drxtract.key.key', 'parse_key_file_data', '>', Ellipsis), 0),
    'cas': (_imp('drxtract.cas.cas', 'parse_cas_file_data'), 0),
    'lctx': (_imp('drxtract.lctx.lctx', 'parse_lctx_file_data'), 0),
    'lnam': (_imp('drxtract.lingosrc.parse.lnam', 'parse_lnam_file_data'), 0),
    'vwlb': (_imp('drxtract.vwlb.vwlb', 'parse_vwlb_data'), 0),
    'vwcf': (_imp('drxtract.vwcf.vwcf', 'parse_vwcf_file_data'), 0),
    'vwsc': (_imp('drxtract.vwsc.vwsc', 'parse_vwsc_file_data'), 24 * 50),
    'snd': (_imp('drxtract.snd.snd2sampled', 'snd_to_sampled'), 0),
    'clut': (_imp('drxtract.clut.clut', 'clut2palette'), 1024),
    'clutrgb': (_imp('drxtract.clut.clut', 'clut2rgb'), 0),
    'stxt': (_imp('drxtract.stxt.stxt', 'parse_stxt_data', Ellipsis, []), 0),
    'fmap': (_imp('drxtract.fmap.fmap', 'parse_fmap_data'), 0),
    'cast': (_imp('drxtract.cast.cast', 'parse_cast_file_data'), 0),
    'bitd1': (_bitd(1), 12 * 6 + 1100), 'bitd8': (_bitd(8), 12 * 6 + 1100), 'bitd16': (_bitd(16), 9 * 6 * 4 + 200), 'bitd32': (_bitd(32), 9 * 6 * 8 + 200),
    'lscr': (_decompile, 0),
}

# ---------------------------------------------------------------- valid bases
def bases(rng):
    out = {}
    cs, hdr, entries = C01.build_movie(rng, 4, 0, b'')
    out['riff'] = C01.enc_movie(0, C01.offsets(cs)[-1] - 8, cs)
    out['mmap'] = next(p for cc, p, _ in cs if cc == b'mmap')
    for c in C17.gen_cases(rng, 'quick'):
        if c['kind'] in ('key', 'cas', 'lctx', 'lnam', 'vwlb', 'vwcf') and c['kind'] not in out:
            if c['kind'] == 'key':
                c = dict(c); c['bo'] = 0
                if len(c['entries']) < 3:
                    continue
            if c['kind'] in ('cas',) and len(c['vals']) < 3:
                continue
            if c['kind'] == 'lctx' and len(c['entries']) < 2:
                continue
            if c['kind'] == 'lnam' and len(c['names']) < 2:
                continue
            if c['kind'] == 'vwlb' and len(c['markers']) < 2:
                continue
            out[c['kind']] = C17.encode(c)[1]
        if all(k in out for k in ('key', 'cas', 'lctx', 'lnam', 'vwlb', 'vwcf')):
            break
    fs, cc = 20, 4
    frames = C08.rand_frames(rng, fs, cc, 4)
    prev = bytes(fs * cc); recs = []
    for f in frames:
        recs.append(C08.segment(rng, prev, f)); prev = f
    out['vwsc'] = C08.enc_score({'fs': fs, 'cc': cc, 'wrapped': False, 'unk': [0, 0], 'tail': b'', 'nmarkers': 0, 'wmarker': 0, 'records': recs})
    out['snd'] = C07.enc(C07.mk(rng, ext=True, bits=16, channels=2))
    out['clut'] = bytes(rng.randrange(256) for _ in range(1536)); out['clutrgb'] = out['clut'][:60]
    out['stxt'] = C16.enc(next(x for x in C16.gen_cases(rng, 'quick') if x['kind'] == 'stxt' and len(x['runs']) >= 2))
    out['fmap'] = C16.enc(next(x for x in C16.gen_cases(rng, 'quick') if x['kind'] == 'fmap' and len(x['fonts']) >= 2))
    h, _ = C15.gen_header(rng, 'field'); info, _ = C15.gen_info(rng, force=True)
    out['cast'] = C15.enc_member(5, 3, h, info)
    for d in (1, 8, 16, 32):
        out['bitd%d' % d] = C06.encode(C06.mk(rng, d, 8, 5, 1, 1, padzero=True))
    code = A.i8(1) + A.setloc(0) + A.loc(0) + A.jz(9) + A.i8(2) + A.setloc(0) + A.jmp(6) + A.i8(3) + A.setloc(0) + A.EXIT
    out['lscr'] = A.lscr([(0, code, [], [2])], ['h', 'put', 'x'], consts=[7, b'abc'])
    return out

def fixtures_lscr():
    return sorted(glob.glob(os.path.join(REPO, 'tests/files/lingo/*/*.Lscr')))[:20]

def many_jumps(n, kind):
    """handlers that stress the jump handling of the decompiler"""
    if kind == 0:      # n statements, then n/2 backward jumps
        code = b''.join(A.i8(1) + A.setloc(0) for _ in range(n)) + A.back(0) * (n // 2) + A.EXIT
    elif kind == 1:    # nested ifs
        code = b''
        for _ in range(n):
            code += A.loc(0) + A.jz(3 + 4 * 1)
        code += A.i8(1) + A.setloc(0) + A.EXIT
    else:              # sequence of small if blocks
        code = b''
        for _ in range(n):
            code += A.loc(0) + A.jz(7) + A.i8(1) + A.setloc(0)
        code += A.EXIT
    return A.lscr([(0, code, [], [2])], ['h', 'put', 'x'])

def field_settings(base, rng, limit):
    """set every aligned 2- and 4-byte field to adversarial values (sampled down to `limit` cases)"""
    vals2 = [0, 1, 2, 0xffff, 0x7fff, 0x8000]
    vals4 = [0, 1, 0xffffffff, 0x7fffffff, 0x80000000, len(base)]
    cases = []
    for off in range(0, min(len(base), 120) - 1, 2):
        for v in vals2:
            cases.append(base[:off] + struct.pack('>H', v) + base[off + 2:])
        if off + 4 <= len(base):
            for v in vals4:
                cases.append(base[:off] + struct.pack('>I', v & 0xffffffff) + base[off + 4:])
    rng.shuffle(cases)
    return cases[:limit]

def pair_settings(base, span=16):
    """two header fields set together: one to zero (a step, a record size), the other to a huge value (a count, a length) -
    a loop whose step comes from the input only runs away when its count does as well"""
    f2 = [(off, 2) for off in range(0, min(span, len(base)) - 1, 2)]
    f4 = [(off, 4) for off in range(0, min(span, len(base)) - 3, 2)]
    def put(d, off, n, v):
        return d[:off] + (struct.pack('>H', v & 0xffff) if n == 2 else struct.pack('>I', v & 0xffffffff)) + d[off + n:]
    for (o1, n1) in f2 + f4:
        for (o2, n2) in f4:
            if o1 + n1 > o2 and o2 + n2 > o1:
                continue          # overlapping
            yield put(put(base, o1, n1, 0), o2, n2, 0x7fffffff)

def gen_cases(rng, tier):
    thorough = tier == 'thorough'
    B = bases(rng)
    # exhaustive small record sizes in the score and container walkers
    sc = B['vwsc']
    for v in range(-3, 7):
        yield {'t': 'vwsc', 'data': sc[:20] + struct.pack('>h', v) + sc[22:]}
        yield {'t': 'vwsc', 'data': sc[:20] + struct.pack('>h', 2) + struct.pack('>h', v) + sc[24:]}
    for fsv in (0x7fff, 30000, 21, 0):
        for ccv in (0x7fff, 30000, 3):
            yield {'t': 'vwsc', 'data': sc[:14] + struct.pack('>hh', fsv, ccv) + sc[18:]}
    rf = B['riff']
    for v in list(range(-9, 10)) + [2 ** 31 - 1, -2 ** 31, len(rf)]:
        yield {'t': 'riff', 'data': rf[:16] + struct.pack('>i', v) + rf[20:]}
    for n in ([50, 200, 800] if not thorough else [100, 400, 1600, 3000]):
        for kind in (0, 1, 2):
            yield {'t': 'lscr', 'data': many_jumps(n, kind)}
    per = 12 if not thorough else 150
    for t, (fn, decl) in TARGETS.items():
        base = B[t]
        yield {'t': t, 'data': base}
        for d in field_settings(base, rng, per):
            yield {'t': t, 'data': d}
        # maximal-value sweep over every aligned field (allocation / loop-count attacks)
        for off in range(0, min(len(base), 160) - 3, 2):
            yield {'t': t, 'data': base[:off] + struct.pack('>I', 0x0fffffff) + base[off + 4:]}
            yield {'t': t, 'data': base[:off] + struct.pack('>H', 0x7fff) + base[off + 2:]}
        for _ in range(per // 2):
            n = rng.choice([0, 1, 2, 7, 40, 300]) if not thorough else rng.choice([0, 1, 7, 40, 300, 5000, 65535])
            yield {'t': t, 'data': bytes(rng.randrange(256) for _ in range(n))}
        for _ in range(per // 2):
            i = rng.randrange(len(base))
            yield {'t': t, 'data': base[:i] + bytes([rng.randrange(256)]) + base[i + 1:]}
            yield {'t': t, 'data': base[:rng.randrange(len(base) + 1)]}
    # truncation at every offset (every 3rd beyond 96 bytes in the quick tier), and for the PackBits decoders a
    # truncated stream that ends in a run / literal control byte whose operand is missing (seed C10_i)
    for t, (fn, decl) in TARGETS.items():
        base = B[t]
        lim = min(len(base), 400 if thorough else 160)
        for i in range(lim):
            if thorough or i < 96 or i % 3 == 0:
                yield {'t': t, 'data': base[:i]}
        if t.startswith('bitd'):
            for i in range(min(len(base), 64) + 1):
                for ctl in ((0xfe, 0x03) if not thorough else (0xfe, 0x81, 0xff, 0x80, 0x03, 0x7f, 0x00)):
                    yield {'t': t, 'data': base[:i] + bytes([ctl])}
    for t in ('mmap', 'key', 'cas', 'lctx', 'fmap', 'vwsc'):
        if t in B and t in TARGETS:
            for d in pair_settings(B[t], 16 if not thorough else 40):
                yield {'t': t, 'data': d}
    for p in fixtures_lscr():
        d = open(p, 'rb').read()
        yield {'t': 'lscr', 'data': d}
        for _ in range(2 if not thorough else 20):
            i = rng.randrange(len(d))
            yield {'t': 'lscr', 'data': d[:i] + bytes([rng.randrange(256)]) + d[i + 1:]}

def case_to_json(c):
    return {'t': c['t'], 'data': c['data'].hex()}
def case_from_json(j):
    return {'t': j['t'], 'data': bytes.fromhex(j['data'])}
def describe(c):
    return {'t': c['t'], 'len': len(c['data']), 'data': c['data'][:48].hex() + ('...' if len(c['data']) > 48 else '')}
def classify(c, ir):
    return c['t']
def nontrivial(c, ir):
    return ir[0] == 'ok' and ir[1]['lines'] >= 30

# ---------------------------------------------------------------- measurement
_count = [0]
_cap = [10 ** 12]
_mon = [False]
class LineBudget(BaseException):
    """raised from the line callback when a call has executed 4x its allowance: the verdict does not depend on wall-clock
    time (a loaded machine must not turn slow-but-bounded work into an alarm)"""
def _setup_monitor():
    if _mon[0]:
        return
    mon = sys.monitoring
    tool = mon.PROFILER_ID
    try:
        mon.use_tool_id(tool, 'c10')
    except ValueError:
        pass
    prefix = os.path.join(REPO, 'drxtract')
    def on_line(code, line):
        if code.co_filename.startswith(prefix):
            _count[0] += 1
            if _count[0] > _cap[0]:
                raise LineBudget()
        else:
            return mon.DISABLE
    mon.register_callback(tool, mon.events.LINE, on_line)
    _mon[0] = True

def measured(t, data):
    fn, decl = TARGETS[t]
    _setup_monitor()
    mon = sys.monitoring
    import io
    from drxtract.bitd.bitd2bmp import DECODERS
    for dec in DECODERS.values():
        dec.bytesIo = io.BytesIO()
    if not tracemalloc.is_tracing():
        tracemalloc.start()
    tracemalloc.reset_peak()
    base_mem = tracemalloc.get_traced_memory()[0]
    _count[0] = 0
    _cap[0] = 4 * (LINES_PER_BYTE * (len(data) + declared(t, data)) + LINES_CONST)
    mon.set_events(mon.PROFILER_ID, mon.events.LINE)
    status = 'ok'
    try:
        fn(data)
    except RecursionError:
        status = 'recursion'
    except MemoryError:
        status = 'memory'
    except LineBudget:
        status = 'linecap'
    except BaseException as e:
        if type(e).__name__ == 'Timeout':
            status = 'timeout'
        elif isinstance(e, (KeyboardInterrupt, SystemExit)):
            raise
        else:
            status = 'err'
    finally:
        mon.set_events(mon.PROFILER_ID, 0)
        mon.restart_events()
    peak = tracemalloc.get_traced_memory()[1] - base_mem
    return {'status': status, 'lines': _count[0], 'peak': peak}

def run_impl(c):
    return call_impl(measured, c['t'], c['data'], timeout=300)

MODEL_FN = {'cas': 'parse_cas', 'lctx': 'parse_lctx', 'lnam': 'parse_lnam', 'vwlb': 'parse_vwlb', 'vwcf': 'parse_vwcf',
            'vwsc': 'parse_vwsc_file', 'snd': 'snd_to_sampled', 'clut': 'clut2palette', 'clutrgb': 'clut2rgb', 'fmap': 'parse_fmap',
            'cast': 'parse_cast'}
def model_request(c, ir):
    t = c['t']
    if len(c['data']) > 3000:
        return None
    if t == 'vwsc' and declared(t, c['data']) > 2000 * (len(c['data']) // 2 + 1):
        return None       # the list-based model is quadratic in the frame size; large frames are measured only
    if t in MODEL_FN:
        return (MODEL_FN[t], c['data'])
    if t == 'riff':
        return ('parse_riff', [c['data'], 0, 0])
    if t == 'mmap':
        return ('parse_mmap', [c['data'], 0])
    if t == 'key':
        return ('parse_key', [c['data'], 0])
    if t == 'stxt':
        return ('parse_stxt', [c['data'], []])
    if t.startswith('bitd'):
        return ('bitd2bmp', [9, 6, int(t[4:]), 1, 1, b'systemMac', b'', c['data']])
    return None

def compare(c, ir, mv):
    if ir[0] != 'ok':
        return None
    st = ir[1]['status']
    m = mv[0]
    if m == b'outoffuel':
        return 'the model runs out of fuel on this input (implementation: %s)' % st
    if m == b'ok' and st not in ('ok',):
        return 'model returns a value, implementation ended with %s' % st
    if m == b'err' and st == 'ok':
        return 'model rejects, implementation returned a value'
    return None

def declared(t, data):
    """output size the input legitimately declares"""
    if t == 'vwsc' and len(data) >= 20:
        # a frame has channel_count records of frame_size bytes (only 20 and 24 are supported layouts);
        # every record of the stream (at least 2 bytes each) yields one frame
        try:
            inner = data
            fs, cc = struct.unpack('>hh', inner[14:18])
            if fs in (20, 24) and 0 <= cc:
                return cc * fs * (len(data) // 2 + 1)
        except struct.error:
            pass
        return 0
    return TARGETS[t][1]

def oracle(c, ir):
    t, data = c['t'], c['data']
    decl = declared(t, data)
    if ir[0] == 'timeout':
        return '%s: no result after 300 s on %d bytes (does not terminate in bounded time)' % (t, len(data))
    if ir[0] != 'ok':
        return '%s: %r' % (t, ir[1:])
    r = ir[1]
    if r['status'] in ('recursion', 'memory', 'timeout'):
        return '%s: ended with %s on %d bytes' % (t, r['status'], len(data))
    n = len(data) + decl
    if r['lines'] > LINES_PER_BYTE * n + LINES_CONST:
        return '%s: %d source lines executed for %d input bytes (+%d declared): beyond %d*n+%d' % (t, r['lines'], len(data), decl, LINES_PER_BYTE, LINES_CONST)
    if r['peak'] > MEM_PER_BYTE * n + MEM_CONST:
        return '%s: peak allocation %d bytes for %d input bytes (+%d declared)' % (t, r['peak'], len(data), decl)
    return None

QUAD = 0.25       # the recorded finding is quadratic work with a small constant: at most QUAD * n^2 executed lines

def known(c, fail):
    # the open finding is identified by its growth law, so that anything worse than quadratic in the decompiler
    # (cubic rescans, exponential recursion) is still reported
    if c['t'] == 'lscr' and 'source lines executed' in fail:
        m = re.search(r': (\d+) source lines executed for (\d+) input bytes', fail)
        if m and int(m.group(1)) <= QUAD * int(m.group(2)) ** 2:
            return 'C10-decompiler-quadratic'
    return None

def shrink_candidates(c):
    d = c['data']
    if len(d) > 8:
        yield {'t': c['t'], 'data': d[:len(d) // 2]}
        yield {'t': c['t'], 'data': d[:-1]}
