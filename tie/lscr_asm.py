"""Minimal Lscr assembler: builds a compiled-script chunk (92-byte header, handler records,
constant pool) from hand-written bytecode.  Shared by the decompiler properties."""
import struct
def lscr(funcs, names, consts=(), props=(), globs=(), factory=-1, scr_num=0, cont=-1):
    """funcs: list of (name_idx, code bytes, [arg name idx], [local name idx])"""
    body=b''
    recs=[]
    off=92
    for (ni,code,args,locs) in funcs:
        bc_off=off+len(body)
        body+=code
        if len(body)%2: body+=b'\0'
        a_off=off+len(body); body+=b''.join(struct.pack('>h',a) for a in args)
        l_off=off+len(body); body+=b''.join(struct.pack('>h',l) for l in locs)
        recs.append(struct.pack('>hhiihihihiihhi', ni,0,len(code),bc_off,len(args),a_off,len(locs),l_off,0,0,0,0,0,0))
    prb_off=off+len(body); body+=b''.join(struct.pack('>h',p) for p in props)
    grb_off=off+len(body); body+=b''.join(struct.pack('>h',g) for g in globs)
    frb_off=off+len(body); body+=b''.join(recs)
    crb_off=off+len(body)
    cdata=b''; crecs=b''
    for c in consts:
        if isinstance(c,int):
            crecs+=struct.pack('>hi',4,c)
        elif isinstance(c,bytes):
            crecs+=struct.pack('>hi',1,len(cdata)); cdata+=struct.pack('>i',len(c)+1)+c+b'\0'
            if len(cdata)%2: cdata+=b'\0'
    body+=crecs
    con_off=off+len(body); body+=cdata
    total=92+len(body)
    h=struct.pack('>iiii hhhh iiiiii hh iii', 0,0,total,total, 0,scr_num,0,cont, 0,0,0,0,0,0, factory,0, 0,0,0)
    h+=struct.pack('>hhhh hhh hhh hhhh', prb_off,len(globs),0,grb_off, len(funcs),0,frb_off, len(consts),0,crb_off, 0,0,0,con_off)
    assert len(h)==92,len(h)
    return h+body

def i8(v): return bytes([0x41, v&0xFF])
def loc(i): return bytes([0x4c, i*6])
def setloc(i): return bytes([0x52, i*6])
def par(i): return bytes([0x4b, i*6])
def lit(i): return bytes([0x44, i*6])
def call_ext(n, nargs, expr=False): return bytes([0x43 if expr else 0x42, nargs, 0x57, n])
def jz(off): return bytes([0x95, off>>8, off&0xff])
def jmp(off): return bytes([0x93, off>>8, off&0xff])
def back(off): return bytes([0x54, off])
EXIT=b'\x01'
