"""Translator part: palette tables -> coq/Gen/Gen_Palettes.v
   - the ten 256-colour tables in drxtract/palettes/*.py (module-level tuple of int literals)
   - BW / 16-colour tables and the PALETTES dict {depth: {name: TABLE}} in drxtract/bitd/decoder.py"""
import ast
from gen_tables import parse, emit, coq_bytes, TranslatorError, HEADER, module_assign, const_int, const_str, module_value

FILES = ['grayscale', 'metallic', 'ntsc', 'pastels', 'rainbow', 'systemMac', 'systemWin', 'systemWinDir4', 'vivid', 'web216']

def int_tuple_of(tree, rel, name):
    """the table NAME of module REL: from the literal, or - when it is not written as a tuple literal any more - its value"""
    try:
        return int_tuple(module_assign(tree, name), name)
    except TranslatorError as e:
        val = module_value(rel, name, e)
        if not (isinstance(val, (tuple, list)) and all(isinstance(v, int) and not isinstance(v, bool) and 0 <= v <= 255 for v in val)):
            raise TranslatorError('%s is not a sequence of byte values' % name)
        return list(val)

def int_tuple(node, what):
    if not isinstance(node, ast.Tuple):
        raise TranslatorError('%s is not a tuple literal' % what)
    vals = [const_int(e) for e in node.elts]
    for v in vals:
        if not 0 <= v <= 255:
            raise TranslatorError('%s has a value outside 0..255 (struct.pack would raise)' % what)
    return vals

def table_def(name, vals):
    rows = []
    for i in range(0, len(vals), 16):
        rows.append('; '.join('x%02x' % v for v in vals[i:i + 16]))
    return 'Definition %s : list byte := [\n  %s].\n' % (name, ';\n  '.join(rows))

def generate():
    out = [HEADER % 'drxtract/palettes/*.py and drxtract/bitd/decoder.py']
    tables = {}
    # which names does palettes/__init__.py export from which module
    init = parse('drxtract/palettes/__init__.py')
    imported = {}
    for st in init.body:
        if isinstance(st, ast.ImportFrom) and st.level == 1:
            for a in st.names:
                imported[a.asname or a.name] = st.module
    for mod in FILES:
        tree = parse('drxtract/palettes/%s.py' % mod)
        names = [n for n, m in imported.items() if m == mod]
        if len(names) != 1:
            raise TranslatorError('palettes/__init__.py does not import exactly one table from %s' % mod)
        vals = int_tuple_of(tree, 'drxtract/palettes/%s.py' % mod, names[0])
        tables[names[0]] = vals
    dec = parse('drxtract/bitd/decoder.py')
    for name in ('BW_PALETTE', 'SYSTEM_MAC_16COLORS_PALETTE', 'SYSTEM_WINDOWS_16COLORS_PALETTE'):
        tables[name] = int_tuple_of(dec, 'drxtract/bitd/decoder.py', name)
    for name, vals in tables.items():
        out.append(table_def(name, vals))
    rows = []
    try:
        pal = module_assign(dec, 'PALETTES')
        if not isinstance(pal, ast.Dict):
            raise TranslatorError('PALETTES is not a dict literal')
        for k, v in zip(pal.keys, pal.values):
            depth = const_int(k)
            if not isinstance(v, ast.Dict):
                raise TranslatorError('PALETTES[%d] is not a dict literal' % depth)
            ents = []
            for nk, nv in zip(v.keys, v.values):
                nm = const_str(nk)
                if not (isinstance(nv, ast.Name) and nv.id in tables):
                    raise TranslatorError('PALETTES[%d][%r] is not one of the known tables' % (depth, nm))
                ents.append('(%s (* %s *), %s)' % (coq_bytes(nm), nm, nv.id))
            rows.append('(%d, [\n    %s])' % (depth, ';\n    '.join(ents)))
    except TranslatorError as e:
        # not a literal of literals any more: take the value and recognise each table by its content
        rows = []
        val = module_value('drxtract/bitd/decoder.py', 'PALETTES', e)
        if not isinstance(val, dict):
            raise TranslatorError('PALETTES is not a dict')
        for depth, v in val.items():
            if not (isinstance(depth, int) and isinstance(v, dict)):
                raise TranslatorError('PALETTES[%r] is not a dict keyed by an int depth' % (depth,))
            ents = []
            for nm, tv in v.items():
                hit = [t for t, vals in tables.items() if list(tv) == vals]
                if not isinstance(nm, str) or len(hit) < 1:
                    raise TranslatorError('PALETTES[%d][%r] is not one of the known tables' % (depth, nm))
                ents.append('(%s (* %s *), %s)' % (coq_bytes(nm), nm, hit[0]))
            rows.append('(%d, [\n    %s])' % (depth, ';\n    '.join(ents)))
    out.append('Definition PALETTES : list (Z * list (list byte * list byte)) := [\n  %s].\n' % ';\n  '.join(rows))
    emit('Gen_Palettes.v', '\n'.join(out))
