#!/bin/bash
# MANIFEST.setup_cmd: regenerate tables from /repo, build every Coq file (full .vo build) and the OCaml runner.
cd "$(dirname "$0")"
export PYTHONPATH=/repo PYTHONHASHSEED=0 PYTHONDONTWRITEBYTECODE=1
set -e
mkdir -p evidence replays runner/gen logs
if [ -f tie/gen_tables.py ]; then /venv/bin/python tie/gen_tables.py 2>&1 | grep -v "conda.cli.condarc" || true; fi
cd coq
coq_makefile -f _CoqProject -o Makefile 2>&1 | grep -v "conda.cli.condarc" || true
timeout 3400 make -j16 2>&1 | grep -v "conda.cli.condarc" | tail -40
test -f Extract/Extract.vo
test -f Extract/ExtractSpec.vo
cd ../runner
./build.sh
test -x modelrun
./build_spec.sh
test -x specrun
echo "setup ok"
