(* Line protocol: each stdin line is "<fname> <sexp>", each stdout line the result sexp.
   sexp ::= int | #hex | ( sexp* ) *)
open Model

let rec pos_of_int n = if n = 1 then XH else if n land 1 = 0 then XO (pos_of_int (n lsr 1)) else XI (pos_of_int (n lsr 1))
let z_of_int n = if n = 0 then Z0 else if n > 0 then Zpos (pos_of_int n) else Zneg (pos_of_int (-n))
let rec int_of_pos = function XH -> 1 | XO p -> 2 * int_of_pos p | XI p -> 2 * int_of_pos p + 1
(* decimal printing of arbitrarily large positives *)
let rec dec_of_pos p =
  (* digits little-endian in an int list *)
  let double_add ds c =
    let rec go ds c = match ds with
      | [] -> if c = 0 then [] else [c]
      | d :: r -> let v = 2 * d + c in (v mod 10) :: go r (v / 10) in go ds c in
  match p with
  | XH -> [1]
  | XO q -> double_add (dec_of_pos q) 0
  | XI q -> double_add (dec_of_pos q) 1
let string_of_pos p = String.concat "" (List.rev_map string_of_int (dec_of_pos p))
let string_of_z = function Z0 -> "0" | Zpos p -> string_of_pos p | Zneg p -> "-" ^ string_of_pos p
(* parse decimal of any size *)
let z_of_string s =
  let neg = String.length s > 0 && s.[0] = '-' in
  let start = if neg then 1 else 0 in
  if String.length s - start <= 17 then z_of_int (int_of_string s) else begin
    let acc = ref Z0 in
    for i = start to String.length s - 1 do
      acc := Z.add (Z.mul !acc (z_of_int 10)) (z_of_int (Char.code s.[i] - 48))
    done;
    if neg then Z.opp !acc else !acc end

let hexv c = match c with '0'..'9' -> Char.code c - 48 | 'a'..'f' -> Char.code c - 87 | 'A'..'F' -> Char.code c - 55 | _ -> failwith "hex"

let parse (s : string) (p : int ref) : val0 =
  let n = String.length s in
  let rec skip () = if !p < n && s.[!p] = ' ' then (incr p; skip ()) in
  let rec go () : val0 =
    skip ();
    if !p >= n then failwith "eof";
    match s.[!p] with
    | '(' -> incr p;
      let items = ref [] in
      let rec loop () = skip ();
        if !p >= n then failwith "eof in list";
        if s.[!p] = ')' then incr p else begin items := go () :: !items; loop () end in
      loop (); VL (List.rev !items)
    | '#' -> incr p;
      let st = !p in
      while !p < n && s.[!p] <> ' ' && s.[!p] <> ')' do incr p done;
      let len = (!p - st) / 2 in
      let rec build i acc = if i < 0 then acc else
        build (i - 1) (Char.chr (hexv s.[st + 2*i] * 16 + hexv s.[st + 2*i + 1]) :: acc) in
      VB (build (len - 1) [])
    | _ -> let st = !p in
      while !p < n && s.[!p] <> ' ' && s.[!p] <> ')' do incr p done;
      VZ (z_of_string (String.sub s st (!p - st)))
  in go ()

let rec print (b : Buffer.t) (v : val0) : unit = match v with
  | VZ z -> Buffer.add_string b (string_of_z z)
  | VB l -> Buffer.add_char b '#'; List.iter (fun c -> Buffer.add_string b (Printf.sprintf "%02x" (Char.code c))) l
  | VL l -> Buffer.add_char b '(';
    List.iteri (fun i x -> if i > 0 then Buffer.add_char b ' '; print b x) l;
    Buffer.add_char b ')'

let explode s = List.init (String.length s) (String.get s)

let () =
  try while true do
    let line = input_line stdin in
    let sp = try String.index line ' ' with Not_found -> String.length line in
    let name = String.sub line 0 sp in
    let out = (try
      let p = ref sp in
      let v = parse line p in
      let r = dispatch (explode name) v in
      let b = Buffer.create 256 in print b r; Buffer.contents b
    with Stack_overflow -> "(#stackoverflow)" | Failure m -> "(#parsefail " ^ m ^ ")") in
    print_string out; print_newline ()
  done with End_of_file -> ()
