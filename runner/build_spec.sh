#!/bin/bash
# builds runner/specrun from the extracted specification side (runner/gen/spec.ml); same line protocol as modelrun
set -e
cd "$(dirname "$0")"
mkdir -p _build_spec
cp gen/spec.ml gen/spec.mli _build_spec/
sed 's/^open Model$/open Spec/' modelrun.ml > _build_spec/specrun.ml
cd _build_spec
ocamlfind ocamlopt -O3 -w -a -package str spec.mli spec.ml specrun.ml -o ../specrun 2>/dev/null || \
ocamlfind ocamlopt -w -a spec.mli spec.ml specrun.ml -o ../specrun
