#!/bin/bash
# builds runner/modelrun from the extracted model (runner/gen/model.ml)
set -e
cd "$(dirname "$0")"
mkdir -p _build
cp gen/model.ml gen/model.mli modelrun.ml _build/
cd _build
ocamlfind ocamlopt -O3 -w -a -package str model.mli model.ml modelrun.ml -o ../modelrun 2>/dev/null || \
ocamlfind ocamlopt -w -a model.mli model.ml modelrun.ml -o ../modelrun
