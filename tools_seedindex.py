#!/usr/bin/env python3
"""add the seeds under seeded/ that INDEX.md does not list yet to its table of breaking changes (from their meta.json)"""
import json, os, re, glob
root = os.path.dirname(os.path.abspath(__file__))
p = os.path.join(root, 'seeded', 'INDEX.md')
s = open(p).read()
head, sep, tail = s.partition('\n## Behaviour-preserving')
rows = [l for l in head.split('\n') if l.startswith('| C')]
have = {l.split('|')[1].strip() for l in rows}
new = []
for m in sorted(glob.glob(os.path.join(root, 'seeded', 'C*', 'meta.json'))):
    j = json.load(open(m))
    if j['id'] in have:
        continue
    new.append('| %s | %s | %s | %s |' % (j['id'], j['property'], j.get('change', '').replace('|', '/'), '; '.join(j.get('detected_by', [])).replace('|', '/')))
if new:
    allrows = sorted(rows + new, key=lambda l: l.split('|')[1].strip())
    lines = head.split('\n')
    first = next(i for i, l in enumerate(lines) if l.startswith('| C'))
    last = max(i for i, l in enumerate(lines) if l.startswith('| C'))
    lines[first:last + 1] = allrows
    head = '\n'.join(lines)
    head = re.sub(r'## Breaking changes \(\d+\)', '## Breaking changes (%d)' % len(allrows), head)
    open(p, 'w').write(head + sep + tail)
print('added', len(new), 'rows')
