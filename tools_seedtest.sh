#!/bin/bash
# usage: tools_seedtest.sh <seed-dir-name> <worktree> <property> [more properties]
# 1. confirm in the scratch worktree: tests pass with the patch, demo exits 1 with / 0 without
# 2. apply to /repo, run the named checks, revert
set -u
name=$1; wt=$2; shift 2
dst=/verif/seeded/$name
mkdir -p $dst
cp $wt/SEED/patch.diff $wt/SEED/demo.py $dst/ 2>/dev/null
cp $wt/SEED/notes.md $dst/notes.md 2>/dev/null
cd $wt
git -C $wt checkout -q -- drxtract 2>/dev/null
git -C $wt apply $dst/patch.diff || { echo "PATCH DOES NOT APPLY"; exit 2; }
tests=$(PYTHONPATH=$wt /venv/bin/python -m pytest -q -p no:cacheprovider --timeout=900 2>&1 | tail -1)
PYTHONPATH=$wt timeout 300 /venv/bin/python $dst/demo.py > $dst/demo_patched.out 2>&1; d1=$?
git -C $wt apply -R $dst/patch.diff
PYTHONPATH=$wt timeout 300 /venv/bin/python $dst/demo.py > $dst/demo_clean.out 2>&1; d0=$?
echo "tests: $tests | demo patched exit=$d1 clean exit=$d0"
if [ -n "$(git -C /repo status --short)" ]; then echo "/repo not clean"; exit 2; fi
rm -rf /verif/.evidence_saved; cp -r /verif/evidence /verif/.evidence_saved
git -C /repo apply $dst/patch.diff || { echo "PATCH DOES NOT APPLY to /repo"; exit 2; }
res=""
for p in "$@"; do
  out=$(cd /verif && ./check $p 2>&1 | grep -v WARNING | grep "^VIOLATION\|^OK\|BROKEN\|Error" | head -5)
  rc=$?
  echo "--- check $p:"; echo "$out"
  res="$res $p:$(echo "$out" | grep -c '^VIOLATION')"
done
git -C /repo checkout -- .
rm -rf /verif/evidence; mv /verif/.evidence_saved /verif/evidence
/venv/bin/python -c "import os,glob
for f in glob.glob('/verif/replays/*'): os.remove(f)"
git -C /repo status --short | head -3
echo "RESULT $name tests=[$tests] demo=$d1/$d0 detected=[$res ]"
