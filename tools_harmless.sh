#!/bin/bash
# usage: tools_harmless.sh <patch> [props...]  - apply a behaviour-preserving patch to /repo, run the quick checks, revert
set -u
patch=$1; shift
props=${@:-C01 C02 C03 C04 C05 C06 C07 C08 C09 C10 C11 C12 C13 C14 C15 C16 C17 C18}
if [ -n "$(git -C /repo status --short)" ]; then echo "/repo not clean"; exit 2; fi
rm -rf /tmp/ev_saved_h; cp -r /verif/evidence /tmp/ev_saved_h
git -C /repo apply $patch || { echo "PATCH DOES NOT APPLY"; exit 2; }
for p in $props; do
  out=$(cd /verif && ./check $p 2>&1 | grep -v WARNING | grep "^VIOLATION\|^OK\|BROKEN\|Traceback" | head -3 | cut -c1-160)
  echo "$p: $out"
done
git -C /repo checkout -- .
git -C /repo status --short | head -3
rm -rf /verif/evidence; mv /tmp/ev_saved_h /verif/evidence
